-- Root of the `PyatvModel` library.  All modules are built through the lakefile glob.
import PyatvModel.Base.Bytes
