import PyatvModel.C08.Driver
def main : IO Unit := PyatvModel.runDriver PyatvModel.C08.handle ()
