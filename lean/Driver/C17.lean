import PyatvModel.C17.Driver
def main : IO Unit := PyatvModel.runDriver PyatvModel.C17.handle PyatvModel.C17.DState.none
