import PyatvModel.C04.Dmap.Driver
def main : IO Unit := PyatvModel.runDriver PyatvModel.C04.Dmap.handle ⟨.ignore, []⟩
