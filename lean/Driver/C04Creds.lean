import PyatvModel.C04.Creds.Driver
def main : IO Unit := PyatvModel.runDriver PyatvModel.C04.Creds.handle ()
