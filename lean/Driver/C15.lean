import PyatvModel.C15.Driver
def main : IO Unit := PyatvModel.runDriver PyatvModel.C15.handle ()
