import PyatvModel.C04.Datastream.Driver
def main : IO Unit := PyatvModel.runDriver PyatvModel.C04.Datastream.handle ()
