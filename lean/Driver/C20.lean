import PyatvModel.C20.Driver
def main : IO Unit := PyatvModel.runDriver PyatvModel.C20.handle ()
