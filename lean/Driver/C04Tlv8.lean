import PyatvModel.C04.Tlv8.Driver
def main : IO Unit := PyatvModel.runDriver PyatvModel.C04.Tlv8.handle ()
