import PyatvModel.C12.Driver
def main : IO Unit := PyatvModel.runDriver PyatvModel.C12.handle ()
