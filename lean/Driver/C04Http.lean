import PyatvModel.C04.Http.Driver
def main : IO Unit := PyatvModel.runDriver PyatvModel.C04.Http.handle ()
