import PyatvModel.C07.Driver
def main : IO Unit := PyatvModel.runDriver PyatvModel.C07.handle {}
