import PyatvModel.C18.Driver
def main : IO Unit := PyatvModel.runDriver PyatvModel.C18.handle ()
