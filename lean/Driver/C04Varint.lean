import PyatvModel.C04.Varint.Driver
def main : IO Unit := PyatvModel.runDriver PyatvModel.C04.Varint.handle ()
