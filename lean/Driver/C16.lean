import PyatvModel.C16.Driver
def main : IO Unit := PyatvModel.runDriver PyatvModel.C16.handle PyatvModel.C16.DState.init
