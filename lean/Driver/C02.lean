import PyatvModel.C02.Driver
def main : IO Unit := PyatvModel.runDriver PyatvModel.C02.handle {}
