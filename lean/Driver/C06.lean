import PyatvModel.C06.Driver
def main : IO Unit := PyatvModel.runDriver PyatvModel.C06.handle ()
