import PyatvModel.C19.Driver
def main : IO Unit := PyatvModel.runDriver PyatvModel.C19.handle ()
