import PyatvModel.C04.Headers.Driver
def main : IO Unit := PyatvModel.runDriver PyatvModel.C04.Headers.handle ()
