import PyatvModel.C04.Dns.Driver
def main : IO Unit := PyatvModel.runDriver PyatvModel.C04.Dns.handle ()
