import PyatvModel.C11.Driver
def main : IO Unit := PyatvModel.runDriver PyatvModel.C11.handle ()
