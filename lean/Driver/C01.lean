import PyatvModel.C01.Driver
def main : IO Unit := PyatvModel.runDriver PyatvModel.C01.handle PyatvModel.C01.DState.init
