import PyatvModel.C05.Driver
def main : IO Unit := PyatvModel.runDriver PyatvModel.C05.handle PyatvModel.C05.init
