import PyatvModel.C10.Driver
def main : IO Unit := PyatvModel.runDriver PyatvModel.C10.handle ()
