import PyatvModel.C14.Driver
def main : IO Unit := PyatvModel.runDriver PyatvModel.C14.handle (PyatvModel.C14.Store.init PyatvModel.C14.hashId .memory none)
