import PyatvModel.C03.Driver
def main : IO Unit := PyatvModel.runDriver PyatvModel.C03.handle ()
