import PyatvModel.C13.Driver
def main : IO Unit := PyatvModel.runDriver PyatvModel.C13.handle ()
