import PyatvModel.C04.Opack.Driver
def main : IO Unit := PyatvModel.runDriver PyatvModel.C04.Opack.handle ()
