import PyatvModel.C09.Driver
def main : IO Unit := PyatvModel.runDriver PyatvModel.C09.handle ()
