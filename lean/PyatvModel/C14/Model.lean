import PyatvModel.Base.Bytes
import PyatvModel.Gen.C14Fields
/-
C14 — model of the settings storage.

Transcribes
  pyatv/storage/__init__.py   :22  _calculate_settings_hash      → `changed` / `mark`
                              :55  AbstractStorage.changed
                              :80  mark_as_saved
                              :89  get_settings (identifier-intersection lookup, create on miss)
                              :127 remove_settings (`in` / `list.remove`: FIRST entry that is
                                   EQUAL by content, not by identity)
                              :137 update_settings
                              :146 _update_settings_from_config (model_copy drops None values,
                                   then `identifier = service.identifier`, also when that is None)
  pyatv/storage/file_storage.py    save (only when changed; mark_as_saved after the write),
                                   _save_file (dump with exclude_defaults), load
  pyatv/storage/memory_storage.py  save = mark_as_saved, load = nothing
  pyatv/settings.py                the field table comes from Gen/C14Fields.lean (tie A)
  pyatv/interface.py :1415         BaseConfig.apply / :219 BaseService.apply → `applyTo`

A `Settings` value is the total map Key → Val.  Besides the declared fields the real
objects can carry an *undeclared* `password` entry on companion/dmap/mrp settings:
`service.settings()` always contains a "password" key and pydantic-v1 `copy(update=…)`
stores unknown keys in the instance; they take part in `==`, in `.dict()/.json()` (hence in
the hash and in the saved file) and are dropped by `extra="ignore"` when loading.  The keys
`pw companion | pw dmap | pw mrp` model them (`declared k = false`).

`dump` = `exclude_defaults`: the (key, value) pairs that differ from the default.  Observed
on the pinned tree: a device without any non-default value is dumped as
`{"info": {}, "protocols": {"airplay": {}, …}}`, never as `{}`, so the filter
`device != {}` in `_save_file` removes nothing: all-default devices ARE written and loaded
back (as all-default Settings).  The model writes every device.

JSON text, UTF-8 and SHA-256 are not modelled: the hash is a parameter `hash` of the list of
dumps; its injectivity is a hypothesis of `changed_iff` only.
-/
namespace PyatvModel.C14

inductive Proto | airplay | companion | dmap | mrp | raop
  deriving DecidableEq, Repr

inductive InfoF | name | mac | model | deviceId | osName | osBuild | osVersion
  deriving DecidableEq, Repr

inductive Key
  | info (f : InfoF)
  | ident (p : Proto)
  | cred (p : Proto)
  | pw (p : Proto)
  | mrpTunnel | protoVersion | timingPort | controlPort
  deriving DecidableEq, Repr

inductive Val
  | none
  | str (s : String)
  | int (n : Nat)
  deriving DecidableEq, Repr

/-- order of the identifier tests in `get_settings` -/
def protos : List Proto := [.airplay, .companion, .dmap, .mrp, .raop]

def infoFs : List InfoF := [.name, .mac, .model, .deviceId, .osName, .osBuild, .osVersion]

def allKeys : List Key :=
  infoFs.map Key.info ++
  [.ident .airplay, .cred .airplay, .pw .airplay, .mrpTunnel,
   .ident .companion, .cred .companion, .pw .companion,
   .ident .dmap, .cred .dmap, .pw .dmap,
   .ident .mrp, .cred .mrp, .pw .mrp,
   .ident .raop, .cred .raop, .pw .raop, .protoVersion, .timingPort, .controlPort]

def Proto.str : Proto → String
  | .airplay => "airplay" | .companion => "companion" | .dmap => "dmap" | .mrp => "mrp" | .raop => "raop"

def InfoF.str : InfoF → String
  | .name => "name" | .mac => "mac" | .model => "model" | .deviceId => "device_id"
  | .osName => "os_name" | .osBuild => "os_build" | .osVersion => "os_version"

/-- dotted attribute path of a key in the real `Settings` object -/
def Key.path : Key → String
  | .info f => "info." ++ f.str
  | .ident p => "protocols." ++ p.str ++ ".identifier"
  | .cred p => "protocols." ++ p.str ++ ".credentials"
  | .pw p => "protocols." ++ p.str ++ ".password"
  | .mrpTunnel => "protocols.airplay.mrp_tunnel"
  | .protoVersion => "protocols.raop.protocol_version"
  | .timingPort => "protocols.raop.timing_port"
  | .controlPort => "protocols.raop.control_port"

def Val.ofGen : Option (Sum String Nat) → Val
  | .none => .none
  | some (.inl s) => .str s
  | some (.inr n) => .int n

/-- declared in pyatv.settings (read from the real classes, tie A) -/
def declared (k : Key) : Bool := (Gen.C14.fields.lookup k.path).isSome

/-- default of a field; an undeclared key is absent by default -/
def dflt (k : Key) : Val :=
  match Gen.C14.fields.lookup k.path with
  | some d => Val.ofGen d
  | none => .none

abbrev Settings := Key → Val

def set (s : Settings) (k : Key) (v : Val) : Settings := fun k' => if k' = k then v else s k'

/-- `==` of two Settings objects (pydantic v1: equality of the `.dict()`s) -/
def eqB (s t : Settings) : Bool := allKeys.all fun k => s k == t k

/-! ### configurations -/

/-- a service of a configuration: identifier, credentials, password (`BaseService`) -/
structure Svc where
  ident : Option String
  cred : Option String
  pw : Option String
  deriving DecidableEq, Repr

/-- `config.services` in order -/
abbrev Cfg := List (Proto × Svc)

/-- `BaseConfig.all_identifiers` -/
def cfgIds (c : Cfg) : List String := c.filterMap (·.2.ident)

def idOf (s : Settings) (p : Proto) : Option String :=
  match s (.ident p) with
  | .str i => some i
  | _ => Option.none

/-- the stored identifiers of a device -/
def ids (s : Settings) : List String := protos.filterMap (idOf s)

/-- the `or`-chain of `get_settings`: some stored identifier is among the configuration's -/
def shares (s : Settings) (l : List String) : Bool := (ids s).any (· ∈ l)

def optSet (s : Settings) (k : Key) : Option String → Settings
  | some v => set s k (.str v)
  | Option.none => s

/-- one iteration of `_update_settings_from_config` -/
def applySvc (s : Settings) (ps : Proto × Svc) : Settings :=
  let s := optSet s (.cred ps.1) ps.2.cred
  let s := optSet s (.pw ps.1) ps.2.pw
  set s (.ident ps.1) (match ps.2.ident with | some i => .str i | Option.none => .none)

def applyCfg (c : Cfg) (s : Settings) : Settings := c.foldl applySvc s

/-! ### dump / load -/

abbrev Dump := List (Key × Val)

/-- `.dict(exclude_defaults=True)` / `.json(exclude_defaults=True)` -/
def dump (s : Settings) : Dump :=
  allKeys.filterMap fun k => if s k = dflt k then Option.none else some (k, s k)

/-- `Settings(**d)`: declared fields from the dump or their default; the rest is ignored -/
def loadEntry (d : Dump) : Settings := fun k =>
  if declared k then (d.lookup k).getD (dflt k) else dflt k

/-- what survives a save/load: undeclared extras are reset -/
def restrict (s : Settings) : Settings := fun k => if declared k then s k else dflt k

/-! ### storage -/

inductive Kind | file | memory
  deriving DecidableEq, Repr

structure Store (H : Type) where
  kind : Kind
  items : List (Nat × Settings)     -- (object handle, content), list order = `_settings`
  next : Nat                        -- next unused handle
  savedHash : H                     -- `_settings_hash`
  file : Option (List Dump)         -- content of the settings file (none = no file)

def dumpAll (items : List (Nat × Settings)) : List Dump := items.map (dump ·.2)

section
variable {H : Type} [DecidableEq H] (hash : List Dump → H)

def Store.init (k : Kind) (file : Option (List Dump)) : Store H :=
  { kind := k, items := [], next := 0, savedHash := hash [], file := file }

/-- `AbstractStorage.changed` -/
def changed (st : Store H) : Bool := st.savedHash != hash (dumpAll st.items)

/-- `mark_as_saved` -/
def mark (st : Store H) : Store H := { st with savedHash := hash (dumpAll st.items) }
end

def find (l : List String) : List (Nat × Settings) → Option (Nat × Settings)
  | [] => none
  | e :: r => if shares e.2 l then some e else find l r

def mapAt (h : Nat) (f : Settings → Settings) (items : List (Nat × Settings)) : List (Nat × Settings) :=
  items.map fun e => if e.1 = h then (e.1, f e.2) else e

/-- `list.remove`: drop the first entry whose content equals `s` -/
def eraseEq (s : Settings) : List (Nat × Settings) → List (Nat × Settings)
  | [] => []
  | e :: r => if eqB e.2 s then r else e :: eraseEq s r

def number (n : Nat) : List Settings → List (Nat × Settings)
  | [] => []
  | s :: r => (n, s) :: number (n + 1) r

inductive Op
  | get (c : Cfg)
  | update (c : Cfg)
  | remove (s : Settings)             -- remove_settings(obj) with obj's current content
  | mutate (h : Nat) (k : Key) (v : Val)   -- attribute assignment on a returned object
  | save
  | saveFail                          -- save() whose file I/O raises (repaired `_save_file`)
  | load
  | loadFail                          -- load() of a file the storage rejects (not JSON, not a model,
                                      -- unsupported version): raises before anything is assigned
                                      -- (`storage_model` setter checks the version first)

inductive Res
  | handle (h : Nat)
  | missingId                         -- DeviceIdMissingError
  | bool (b : Bool)
  | unit
  deriving DecidableEq, Repr

/-- `get_settings`: returns the store (extended on a miss) and the entry handed out -/
def getSettings {H : Type} (st : Store H) (c : Cfg) : Option (Store H × (Nat × Settings)) :=
  if cfgIds c = [] then none
  else match find (cfgIds c) st.items with
    | some e => some (st, e)
    | none =>
      let e := (st.next, applyCfg c dflt)
      some ({ st with items := st.items ++ [e], next := st.next + 1 }, e)

section
variable {H : Type} [DecidableEq H] (hash : List Dump → H)

def step (st : Store H) : Op → Store H × Res
  | .get c =>
    match getSettings st c with
    | none => (st, .missingId)
    | some (st', e) => (st', .handle e.1)
  | .update c =>
    match getSettings st c with
    | none => (st, .missingId)
    | some (st', e) => ({ st' with items := mapAt e.1 (applyCfg c) st'.items }, .unit)
  | .remove s =>
    if st.items.any (fun e => eqB e.2 s) then ({ st with items := eraseEq s st.items }, .bool true)
    else (st, .bool false)
  | .mutate h k v => ({ st with items := mapAt h (fun s => set s k v) st.items }, .unit)
  | .save =>
    match st.kind with
    | .memory => (mark hash st, .unit)
    | .file =>
      if changed hash st then (mark hash { st with file := some (dumpAll st.items) }, .unit)
      else (st, .unit)
  | .saveFail => (st, .unit)
  | .loadFail => (st, .unit)
  | .load =>
    match st.kind, st.file with
    | .file, some f =>
      let st' := { st with items := number st.next (f.map loadEntry), next := st.next + f.length }
      (mark hash st', .unit)
    | _, _ => (st, .unit)

def runOps (st : Store H) (ops : List Op) : Store H := ops.foldl (fun s op => (step hash s op).1) st

/-- a brand-new FileStorage on the same file, after load() -/
def freshLoad (st : Store H) : Store H := (step hash (Store.init hash .file st.file) .load).1
end

/-! ### applying stored settings to a configuration (`BaseConfig.apply`) -/

def strOf : Val → Option String
  | .str s => if s = "" then none else some s        -- `x or self.x`: falsy values are skipped
  | _ => none

/-- `service.apply(dict(settings.protocols.<p>))` for every service -/
def applyTo (s : Settings) (c : Cfg) : Cfg :=
  c.map fun ps => (ps.1, { ps.2 with cred := (strOf (s (.cred ps.1))).orElse (fun _ => ps.2.cred),
                                     pw := (strOf (s (.pw ps.1))).orElse (fun _ => ps.2.pw) })

end PyatvModel.C14
