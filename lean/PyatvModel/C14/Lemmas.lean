import PyatvModel.C14.Model
/-
C14 — helper lemmas (field table facts, lookup, dump/load, list plumbing).
-/
namespace PyatvModel.C14

/-! ### the key table -/

theorem mem_allKeys (k : Key) : k ∈ allKeys := by
  cases k with
  | info f => cases f <;> decide
  | ident p => cases p <;> decide
  | cred p => cases p <;> decide
  | pw p => cases p <;> decide
  | mrpTunnel => decide
  | protoVersion => decide
  | timingPort => decide
  | controlPort => decide

/-- tie A: in the real classes every identifier is declared and defaults to None -/
theorem dflt_ident (p : Proto) : dflt (.ident p) = Val.none := by
  cases p <;> decide

theorem declared_ident (p : Proto) : declared (.ident p) = true := by
  cases p <;> decide

/-! ### identifiers -/

def Shares (s : Settings) (l : List String) : Prop := ∃ i, i ∈ ids s ∧ i ∈ l

theorem shares_iff (s : Settings) (l : List String) : shares s l = true ↔ Shares s l := by
  simp [shares, Shares, List.any_eq_true]

theorem shares_false_iff (s : Settings) (l : List String) : shares s l = false ↔ ¬ Shares s l := by
  rw [← shares_iff]; simp

theorem mem_ids (s : Settings) (i : String) : i ∈ ids s ↔ ∃ p, s (.ident p) = .str i := by
  simp only [ids, List.mem_filterMap]
  constructor
  · rintro ⟨p, _, hp⟩
    refine ⟨p, ?_⟩
    unfold idOf at hp
    split at hp
    · next h => simp at hp; rw [h, hp]
    · simp at hp
  · rintro ⟨p, hp⟩
    exact ⟨p, by cases p <;> simp [protos], by simp [idOf, hp]⟩

theorem ids_dflt : ids dflt = [] := by
  apply List.eq_nil_iff_forall_not_mem.mpr
  intro i hi
  obtain ⟨p, hp⟩ := (mem_ids _ _).mp hi
  rw [dflt_ident] at hp
  cases hp

theorem set_other (s : Settings) (k k' : Key) (v : Val) (h : k' ≠ k) : set s k v k' = s k' := by
  simp [set, h]

theorem set_same (s : Settings) (k : Key) (v : Val) : set s k v k = v := by
  simp [set]

theorem optSet_other (s : Settings) (k k' : Key) (o : Option String) (h : k' ≠ k) :
    optSet s k o k' = s k' := by
  cases o <;> simp [optSet, set, h]

/-- what `_update_settings_from_config` does to the identifier slots -/
theorem applySvc_ident (s : Settings) (ps : Proto × Svc) (p : Proto) :
    applySvc s ps (.ident p) =
      if p = ps.1 then (match ps.2.ident with | some i => Val.str i | Option.none => Val.none)
      else s (.ident p) := by
  unfold applySvc
  by_cases h : p = ps.1
  · subst h; simp only [set, if_true]; cases ps.2.ident <;> rfl
  · have h1 : Key.ident p ≠ Key.ident ps.1 := by intro e; injection e with e; exact h e
    simp only [h, if_false]
    rw [set_other _ _ _ _ h1, optSet_other _ _ _ _ (by intro e; cases e),
      optSet_other _ _ _ _ (by intro e; cases e)]

theorem ids_applySvc (s : Settings) (ps : Proto × Svc) (i : String)
    (h : i ∈ ids (applySvc s ps)) : i ∈ ids s ∨ ps.2.ident = some i := by
  obtain ⟨p, hp⟩ := (mem_ids _ _).mp h
  rw [applySvc_ident] at hp
  split at hp
  · right
    cases hi : ps.2.ident with
    | none => rw [hi] at hp; cases hp
    | some j => rw [hi] at hp; injection hp with hp; rw [hp]
  · left; exact (mem_ids _ _).mpr ⟨p, hp⟩

theorem ids_applyCfg (c : Cfg) : ∀ (s : Settings) (i : String),
    i ∈ ids (applyCfg c s) → i ∈ ids s ∨ i ∈ cfgIds c := by
  induction c with
  | nil => intro s i h; left; simpa [applyCfg] using h
  | cons ps c ih =>
    intro s i h
    simp only [applyCfg, List.foldl_cons] at h
    rcases ih (applySvc s ps) i h with h | h
    · rcases ids_applySvc s ps i h with h | h
      · left; exact h
      · right; simp only [cfgIds, List.filterMap_cons, h]; simp
    · right
      simp only [cfgIds, List.filterMap_cons]
      cases ps.2.ident with
      | none => simpa [cfgIds] using h
      | some j => simp only [List.mem_cons]; right; simpa [cfgIds] using h

theorem ids_set_nonident (s : Settings) (k : Key) (v : Val) (hk : ∀ p, k ≠ .ident p) :
    ids (set s k v) = ids s := by
  have : idOf (set s k v) = idOf s := by
    funext p; simp [idOf, set, (hk p).symm]
  simp only [ids, this]

theorem ids_restrict (s : Settings) : ids (restrict s) = ids s := by
  have : idOf (restrict s) = idOf s := by
    funext p; simp [idOf, restrict, declared_ident]
  simp only [ids, this]

/-! ### find -/

theorem find_none_iff (l : List String) (items : List (Nat × Settings)) :
    find l items = none ↔ ∀ x ∈ items, shares x.2 l = false := by
  induction items with
  | nil => simp [find]
  | cons e r ih =>
    by_cases h : shares e.2 l = true
    · simp [find, h]
    · simp only [find, h, Bool.false_eq_true, if_false, ih, List.mem_cons, forall_eq_or_imp]
      simp at h; simp

theorem find_some (l : List String) (items : List (Nat × Settings)) (e : Nat × Settings)
    (h : find l items = some e) :
    ∃ pre post, items = pre ++ e :: post ∧ shares e.2 l = true ∧ ∀ x ∈ pre, shares x.2 l = false := by
  induction items with
  | nil => simp [find] at h
  | cons a r ih =>
    by_cases ha : shares a.2 l = true
    · simp only [find, ha, if_true, Option.some.injEq] at h
      subst h
      exact ⟨[], r, rfl, ha, by simp⟩
    · simp only [find, ha, Bool.false_eq_true, if_false] at h
      obtain ⟨pre, post, he, hs, hp⟩ := ih h
      refine ⟨a :: pre, post, by simp [he], hs, ?_⟩
      intro x hx
      rcases List.mem_cons.mp hx with rfl | hx
      · simpa using ha
      · exact hp x hx

theorem find_first (l : List String) (pre post : List (Nat × Settings)) (e : Nat × Settings)
    (hs : shares e.2 l = true) (hp : ∀ x ∈ pre, shares x.2 l = false) :
    find l (pre ++ e :: post) = some e := by
  induction pre with
  | nil => simp [find, hs]
  | cons a pre ih =>
    have ha : shares a.2 l = false := hp a (by simp)
    simp only [List.cons_append, find, ha, Bool.false_eq_true, if_false]
    exact ih (fun x hx => hp x (by simp [hx]))

/-! ### dump / load -/

theorem lookup_filterMap_dump (s : Settings) (k : Key) (l : List Key) :
    (l.filterMap fun k => if s k = dflt k then Option.none else some (k, s k)).lookup k =
      if k ∈ l ∧ s k ≠ dflt k then some (s k) else Option.none := by
  induction l with
  | nil => simp
  | cons a l ih =>
    by_cases ha : s a = dflt a
    · simp only [List.filterMap_cons, ha, if_true, ih, List.mem_cons]
      by_cases hk : k = a
      · subst hk; simp [ha]
      · simp [hk]
    · simp only [List.filterMap_cons, ha, if_false, List.lookup_cons, List.mem_cons]
      by_cases hk : k = a
      · subst hk; simp [ha]
      · have : (k == a) = false := by simpa using hk
        simp [this, hk, ih]

theorem lookup_dump (s : Settings) (k : Key) :
    (dump s).lookup k = if s k = dflt k then Option.none else some (s k) := by
  unfold dump
  rw [lookup_filterMap_dump]
  by_cases h : s k = dflt k <;> simp [h, mem_allKeys]

/-- left inverse of `dump`: the dump determines the content -/
def undump (d : Dump) : Settings := fun k => (d.lookup k).getD (dflt k)

theorem undump_dump (s : Settings) : undump (dump s) = s := by
  funext k
  simp only [undump, lookup_dump]
  by_cases h : s k = dflt k <;> simp [h]

theorem loadEntry_dump (s : Settings) : loadEntry (dump s) = restrict s := by
  funext k
  simp only [loadEntry, restrict, lookup_dump]
  by_cases hd : declared k = true
  · by_cases h : s k = dflt k <;> simp [hd, h]
  · simp [hd]

theorem restrict_loadEntry (d : Dump) : restrict (loadEntry d) = loadEntry d := by
  funext k
  simp only [restrict, loadEntry]
  by_cases hd : declared k = true <;> simp [hd]

theorem loadEntry_dump_loadEntry (d : Dump) : loadEntry (dump (loadEntry d)) = loadEntry d := by
  rw [loadEntry_dump, restrict_loadEntry]

/-! ### list plumbing -/

theorem mapAt_fst (h : Nat) (f : Settings → Settings) (items : List (Nat × Settings)) :
    (mapAt h f items).map (·.1) = items.map (·.1) := by
  induction items with
  | nil => rfl
  | cons a r ih =>
    simp only [mapAt, List.map_cons, List.map_map] at ih ⊢
    rw [List.cons.injEq]
    exact ⟨by split <;> rfl, ih⟩

theorem mem_mapAt (h : Nat) (f : Settings → Settings) (items : List (Nat × Settings))
    (y : Nat × Settings) (hy : y ∈ mapAt h f items) :
    ∃ x ∈ items, y.1 = x.1 ∧ ((x.1 ≠ h ∧ y = x) ∨ (x.1 = h ∧ y.2 = f x.2)) := by
  simp only [mapAt, List.mem_map] at hy
  obtain ⟨x, hx, rfl⟩ := hy
  refine ⟨x, hx, ?_⟩
  by_cases hh : x.1 = h
  · simp [hh]
  · simp [hh]

theorem eraseEq_sublist (s : Settings) (items : List (Nat × Settings)) :
    (eraseEq s items).Sublist items := by
  induction items with
  | nil => exact List.Sublist.refl _
  | cons a r ih =>
    simp only [eraseEq]
    split
    · exact List.sublist_cons_self a r
    · exact ih.cons_cons a

theorem mem_number (l : List Settings) : ∀ (n : Nat) (x : Nat × Settings),
    x ∈ number n l → n ≤ x.1 ∧ x.1 < n + l.length ∧ x.2 ∈ l := by
  induction l with
  | nil => intro n x h; simp [number] at h
  | cons s r ih =>
    intro n x h
    simp only [number, List.mem_cons] at h
    rcases h with rfl | h
    · simp
    · have := ih (n + 1) x h
      simp only [List.length_cons, List.mem_cons]
      exact ⟨by omega, by omega, Or.inr this.2.2⟩

theorem number_snd (l : List Settings) : ∀ n, (number n l).map (·.2) = l := by
  induction l with
  | nil => intro n; rfl
  | cons s r ih => intro n; simp [number, ih]

theorem number_nodup (l : List Settings) : ∀ n, ((number n l).map (·.1)).Nodup := by
  induction l with
  | nil => intro n; simp [number]
  | cons s r ih =>
    intro n
    simp only [number, List.map_cons, List.nodup_cons, List.mem_map, not_exists, not_and]
    refine ⟨?_, ih (n + 1)⟩
    intro x hx he
    have := (mem_number r (n + 1) x hx).1
    omega

theorem eq_of_fst_eq (l : List (Nat × Settings)) (hn : (l.map (·.1)).Nodup)
    (a b : Nat × Settings) (ha : a ∈ l) (hb : b ∈ l) (h : a.1 = b.1) : a = b := by
  induction l with
  | nil => cases ha
  | cons x r ih =>
    simp only [List.map_cons, List.nodup_cons, List.mem_map, not_exists, not_and] at hn
    rcases List.mem_cons.mp ha with rfl | ha' <;> rcases List.mem_cons.mp hb with rfl | hb'
    · rfl
    · exact absurd h.symm (hn.1 b hb')
    · exact absurd h (hn.1 a ha')
    · exact ih hn.2 ha' hb'

theorem dumpAll_number (n : Nat) (l : List Settings) : dumpAll (number n l) = l.map dump := by
  induction l generalizing n with
  | nil => rfl
  | cons s r ih => simp only [number, dumpAll, List.map_cons] at ih ⊢; rw [ih]

end PyatvModel.C14
