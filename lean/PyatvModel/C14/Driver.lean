import PyatvModel.Base.Bytes
import PyatvModel.C14.Model
/-
Line protocol (stateful; the hash is instantiated with the identity on dump lists):
  reset file|memory                 → ok
  get <cfg>                         → h<n> <status>   | err:DeviceIdMissingError <status>
  update <cfg>                      → ok <status>     | err:DeviceIdMissingError <status>
  remove <content>                  → true|false <status>
  mutate <handle> <path> <val>      → ok <status>
  save | savefail | load            → ok <status>
  content                           → <n>:<content>|<n>:<content>…   (`-` when empty)
  reloaded                          → <content>|<content>…  a fresh FileStorage after load()
  apply <content> <cfg>             → <cfg>          BaseConfig.apply
  <status>  = <changed 0|1> <handles csv | ->
  <cfg>     = `-` | svc,svc,…   svc = <proto>:<ident>:<cred>:<pw>, each `~` (None) | s<hex utf-8>
  <val>     = `~` | s<hex utf-8> | i<decimal>
  <content> = `-` | path=val;path=val…   (non-default fields, model key order)
-/
namespace PyatvModel.C14

def strOfHex? (h : String) : Option String := do
  let b ← ofHexChars? h.toList
  String.fromUTF8? ⟨b.toArray⟩

def hexOfStr (s : String) : String := String.ofList (s.toUTF8.toList.flatMap hexOfByte)

def parseOptStr (w : String) : Option (Option String) :=
  if w == "~" then some Option.none
  else match w.toList with
    | 's' :: r => (strOfHex? (String.ofList r)).map some
    | _ => Option.none

def parseVal (w : String) : Option Val :=
  if w == "~" then some .none
  else match w.toList with
    | 's' :: r => (strOfHex? (String.ofList r)).map Val.str
    | 'i' :: r => (String.ofList r).toNat?.map Val.int
    | _ => Option.none

def Val.wire : Val → String
  | .none => "~"
  | .str s => "s" ++ hexOfStr s
  | .int n => "i" ++ toString n

def optWire : Option String → String
  | Option.none => "~"
  | some s => "s" ++ hexOfStr s

def parseProto (w : String) : Option Proto := protos.find? (·.str == w)

def parseKey (w : String) : Option Key := allKeys.find? (·.path == w)

def parseSvc (w : String) : Option (Proto × Svc) :=
  match w.splitOn ":" with
  | [p, i, c, pw] => do
    let p ← parseProto p
    let i ← parseOptStr i
    let c ← parseOptStr c
    let pw ← parseOptStr pw
    pure (p, { ident := i, cred := c, pw := pw })
  | _ => Option.none

def parseCfg (w : String) : Option Cfg :=
  if w == "-" then some [] else (w.splitOn ",").mapM parseSvc

def cfgWire (c : Cfg) : String :=
  if c.isEmpty then "-" else
  String.intercalate "," (c.map fun ps => s!"{ps.1.str}:{optWire ps.2.ident}:{optWire ps.2.cred}:{optWire ps.2.pw}")

def parsePair (w : String) : Option (Key × Val) :=
  match w.splitOn "=" with
  | [k, v] => do pure ((← parseKey k), (← parseVal v))
  | _ => Option.none

/-- a content description: the listed keys, everything else default -/
def parseContent (w : String) : Option Settings :=
  if w == "-" then some dflt
  else ((w.splitOn ";").mapM parsePair).map fun ps => ps.foldl (fun s kv => set s kv.1 kv.2) dflt

def dumpWire (d : Dump) : String :=
  if d.isEmpty then "-" else String.intercalate ";" (d.map fun kv => s!"{kv.1.path}={kv.2.wire}")

abbrev DStore := Store (List Dump)

def hashId : List Dump → List Dump := id

def status (st : DStore) : String :=
  s!"{if changed hashId st then 1 else 0} {csv (st.items.map fun e => toString e.1)}"

def parseOp : List String → Option Op
  | ["get", c] => (parseCfg c).map Op.get
  | ["update", c] => (parseCfg c).map Op.update
  | ["remove", s] => (parseContent s).map Op.remove
  | ["mutate", h, k, v] => do pure (Op.mutate (← h.toNat?) (← parseKey k) (← parseVal v))
  | ["save"] => some .save
  | ["savefail"] => some .saveFail
  | ["load"] => some .load
  | ["loadfail"] => some .loadFail
  | _ => Option.none

def resWire : Res → String
  | .handle h => s!"h{h}"
  | .missingId => "err:DeviceIdMissingError"
  | .bool b => if b then "true" else "false"
  | .unit => "ok"

def handle (st : DStore) (ws : List String) : DStore × String :=
  match ws with
  | ["reset", "file"] => (Store.init hashId .file Option.none, "ok")
  | ["reset", "memory"] => (Store.init hashId .memory Option.none, "ok")
  | ["content"] =>
    (st, if st.items.isEmpty then "-" else
      String.intercalate "|" (st.items.map fun e => s!"{e.1}:{dumpWire (dump e.2)}"))
  | ["reloaded"] =>
    let l := (freshLoad hashId st).items
    (st, if l.isEmpty then "-" else String.intercalate "|" (l.map fun e => dumpWire (dump e.2)))
  | ["apply", s, c] =>
    match parseContent s, parseCfg c with
    | some s, some c => (st, cfgWire (applyTo s c))
    | _, _ => (st, "bad-op")
  | _ =>
    match parseOp ws with
    | some op =>
      let (st', r) := step hashId st op
      (st', s!"{resWire r} {status st'}")
    | Option.none => (st, "bad-op")

end PyatvModel.C14
