import PyatvModel.Base.Bytes
import PyatvModel.C16.Model
import PyatvModel.C16.Timing
/-
Line protocol (state: the datagrams of the last `stream` run and its final backlog).
FRAMES_PER_PACKET and PACKET_BACKLOG_SIZE are the regenerated `Gen.C16` constants.

  stream <frameSize> <latency> <startTs> <ssrc> <s0> <comp csv|-> <src hex|->
      → `<status> <rtpseq> <headTs> <paddingSent> <backlog keys csv|-> <pkt;pkt;…|->`
        pkt = `<12-byte header hex>:<payload length>:<payload digest>`
        (the run is `packetize` with `wireV1`; an encrypted v2 datagram is compared after
        the harness has opened it)
  streamc <frameSize> <latency> <startTs> <ssrc> <s0> <comp csv|-> <chunk hex;chunk hex;…|->
      the same for a source that delivered these non-empty reads (each at most one packet):
      `packetize` on `padChunks` (the padding `_send_packet` adds to a short read made explicit)
  ctrl <datagram hex>            control datagram against the final backlog of the last run
      → `err` (the decode raised) | `<resent;resent;…|->`, resent = `<first 4 bytes hex>:<length>:<digest>`
  ctrlat <k> <datagram hex>      same against the backlog after the first k packets of the last run
  load <seq:hex,seq:hex,…|->     replace the remembered datagrams by observed ones (an encrypted v2 run: the
                                 cipher is a parameter of the model, so its datagrams come from the wire);
                                 the backlog is rebuilt from them by the model's own `Fifo.set`
      → `ok <keys csv>` | `raised`
  ctxnew                         a new StreamContext (`Ctx.fresh`)            → `<ctx>`
  ctxstream <sampleRate> <frameSize> <ssrc> <rnd> <now> <comp csv|-> <src hex|->
                                 one stream_file on the remembered context: initialize (sample rate),
                                 send_audio's reset(rnd, now), _stream_data; the context keeps what the loop left
      → `<latency> ` ++ the answer of `stream`
  ctxreset <rnd> <now>           `context.reset()` (teardown)                 → `<ctx>`
      <ctx> = `<sampleRate> <rtpseq> <startTs> <headTs> <latency> <paddingSent>`
  ntp <ntp> <rate>               the integer conversions of timing.py on one NTP value
      → `<sec> <frac> <ntp2ts> <ntp2ms>`
  ntpnow <sec> <us>              ntp_now() on a clock reading of sec s + us µs since 1970          → `<ntp>`
  ntpof <sec> <frac>             the value ntp_now assembles (`sec << 32 | frac`)   → `<ntp>`
  fifo <limit> <ops csv>         ops `s<key>` (set, value = key as 2 bytes), `g<key>`, `c<key>`
      → per op `ok|raise`, `<hex>|raise`, `1|0`; then `|` and the keys
  reset
-/
namespace PyatvModel.C16

def digest (b : Bytes) : Nat := b.foldl (fun h x => (h * 257 + x.toNat + 1) % 4294967291) 0

structure DState where
  sent : List Sent
  backlog : Fifo
  ctx : Ctx

def DState.init : DState := ⟨[], Fifo.empty Gen.C16.packetBacklogSize, Ctx.fresh⟩

def showCtx (x : Ctx) : String :=
  s!"{x.sampleRate} {x.rtpseq} {x.startTs} {x.headTs} {x.latency} {x.paddingSent}"

def Status.toStr : Status → String
  | .finished => "finished"
  | .raised => "raised"
  | .outOfFuel => "out-of-fuel"

def showSent (e : Sent) : String :=
  s!"{toHex e.pkt.header}:{e.pkt.payload.length}:{digest e.pkt.payload}"

def showResent (b : Bytes) : String := s!"{toHex (b.take 4)}:{b.length}:{digest b}"

def joinWith (sep : String) (xs : List String) : String :=
  if xs.isEmpty then "-" else String.intercalate sep xs

/-- the backlog after the given packets were sent, by the model's own `Fifo.set`
    (`none` = an insertion raised). -/
def backlogAfter (cap : Nat) (es : List Sent) : Option Fifo :=
  es.foldlM (fun f e => f.set e.pkt.seq e.dgram) (Fifo.empty cap)

def showCtrl (r : Option (List Bytes)) : String :=
  match r with
  | none => "err"
  | some l => joinWith ";" (l.map showResent)

def fifoOps (f : Fifo) : List String → Option (List String)
  | [] => some ["|" ++ joinWith "," (f.keys.map toString)]
  | op :: rest =>
    match op.toList with
    | 's' :: ds =>
      match (String.ofList ds).toNat? with
      | none => none
      | some k =>
        match f.set k (be 2 k) with
        | none => (fifoOps f rest).map ("raise" :: ·)
        | some f' => (fifoOps f' rest).map ("ok" :: ·)
    | 'g' :: ds =>
      match (String.ofList ds).toNat? with
      | none => none
      | some k =>
        (fifoOps f rest).map ((match f.get? k with | none => "raise" | some v => toHex v) :: ·)
    | 'c' :: ds =>
      match (String.ofList ds).toNat? with
      | none => none
      | some k => (fifoOps f rest).map ((if f.contains k then "1" else "0") :: ·)
    | _ => none

def handle (s : DState) (ws : List String) : DState × String :=
  match ws with
  | ["reset"] => (DState.init, "ok")
  | ["stream", fs, lat, start, ssrc, s0, comp, src] =>
    match fs.toNat?, lat.toNat?, start.toInt?, ssrc.toNat?, s0.toNat?, csvNats? comp, ofHex? src with
    | some fs, some lat, some start, some ssrc, some s0, some comp, some src =>
      if fs = 0 ∨ s0 ≥ seqMod then (s, "bad-op")
      else
        let c : Cfg := { fpp := Gen.C16.framesPerPacket, frameSize := fs, latency := lat,
                         startTs := start, ssrc := ssrc, wire := wireV1 }
        let r := packetize c Gen.C16.packetBacklogSize src s0 comp
        let st := r.final
        ({ s with sent := r.sent, backlog := st.backlog },
         s!"{r.status.toStr} {st.rtpseq} {st.headTs} {st.paddingSent} " ++
         s!"{joinWith "," (st.backlog.keys.map toString)} {joinWith ";" (r.sent.map showSent)}")
    | _, _, _, _, _, _, _ => (s, "bad-op")
  | ["load", items] =>
    let parse (w : String) : Option Sent :=
      match w.splitOn ":" with
      | [k, h] =>
        match k.toNat?, ofHex? h with
        | some k, some d => some { pkt := { marker := false, seq := k, ts := 0, ssrc := 0, payload := [] }, dgram := d }
        | _, _ => none
      | _ => none
    match (if items == "-" then some [] else (items.splitOn ",").mapM parse) with
    | some es =>
      match backlogAfter Gen.C16.packetBacklogSize es with
      | some bl => ({ s with sent := es, backlog := bl }, s!"ok {joinWith "," (bl.keys.map toString)}")
      | none => (s, "raised")
    | none => (s, "bad-op")
  | ["ctxnew"] => ({ s with ctx := Ctx.fresh }, showCtx Ctx.fresh)
  | ["ctxreset", rnd, now] =>
    match rnd.toNat?, now.toInt? with
    | some rnd, some now =>
      let x := s.ctx.reset rnd now
      ({ s with ctx := x }, showCtx x)
    | _, _ => (s, "bad-op")
  | ["ctxstream", rate, fs, ssrc, rnd, now, comp, src] =>
    match rate.toNat?, fs.toNat?, ssrc.toNat?, rnd.toNat?, now.toInt?, csvNats? comp, ofHex? src with
    | some rate, some fs, some ssrc, some rnd, some now, some comp, some src =>
      if fs = 0 ∨ rnd ≥ seqMod then (s, "bad-op")
      else
        let spec : StreamSpec := { sampleRate := rate, frameSize := fs, ssrc := ssrc, wire := wireV1, src := src,
                                   comp := comp, rnd := rnd, now := now, rnd' := 0, now' := 0 }
        let x1 := (s.ctx.withRate rate).reset rnd now
        let r := streamOn Gen.C16.framesPerPacket Gen.C16.packetBacklogSize x1 spec
        let st := r.final
        ({ sent := r.sent, backlog := st.backlog, ctx := x1.after st },
         s!"{x1.latency} {r.status.toStr} {st.rtpseq} {st.headTs} {st.paddingSent} " ++
         s!"{joinWith "," (st.backlog.keys.map toString)} {joinWith ";" (r.sent.map showSent)}")
    | _, _, _, _, _, _, _ => (s, "bad-op")
  | ["streamc", fs, lat, start, ssrc, s0, comp, chunks] =>
    match fs.toNat?, lat.toNat?, start.toInt?, ssrc.toNat?, s0.toNat?, csvNats? comp,
          (if chunks == "-" then some [] else (chunks.splitOn ";").mapM ofHex?) with
    | some fs, some lat, some start, some ssrc, some s0, some comp, some chunks =>
      let ps := Gen.C16.framesPerPacket * fs
      if fs = 0 ∨ s0 ≥ seqMod ∨ chunks.any (fun ch => ch.isEmpty ∨ ch.length > ps) then (s, "bad-op")
      else
        let c : Cfg := { fpp := Gen.C16.framesPerPacket, frameSize := fs, latency := lat,
                         startTs := start, ssrc := ssrc, wire := wireV1 }
        let r := packetize c Gen.C16.packetBacklogSize (padChunks ps chunks) s0 comp
        let st := r.final
        ({ s with sent := r.sent, backlog := st.backlog },
         s!"{r.status.toStr} {st.rtpseq} {st.headTs} {st.paddingSent} " ++
         s!"{joinWith "," (st.backlog.keys.map toString)} {joinWith ";" (r.sent.map showSent)}")
    | _, _, _, _, _, _, _ => (s, "bad-op")
  | ["ctrl", d] =>
    match ofHex? d with
    | some d => (s, showCtrl (controlReceived s.backlog d))
    | none => (s, "bad-op")
  | ["ctrlat", k, d] =>
    match k.toNat?, ofHex? d with
    | some k, some d =>
      if k > s.sent.length then (s, "bad-op")
      else
        match backlogAfter Gen.C16.packetBacklogSize (s.sent.take k) with
        | none => (s, "raised")
        | some bl => (s, showCtrl (controlReceived bl d))
    | _, _ => (s, "bad-op")
  | ["ntp", n, r] =>
    match n.toNat?, r.toNat? with
    | some n, some r =>
      let p := Timing.ntp2parts n
      (s, s!"{p.1} {p.2} {Timing.ntp2ts n r} {Timing.ntp2ms n}")
    | _, _ => (s, "bad-op")
  | ["ntpnow", a, b] =>
    match a.toNat?, b.toNat? with
    | some a, some b => (s, s!"{Timing.ntpNow a b}")
    | _, _ => (s, "bad-op")
  | ["ntpof", a, b] =>
    match a.toNat?, b.toNat? with
    | some a, some b => (s, s!"{Timing.ntpOf a b}")
    | _, _ => (s, "bad-op")
  | ["fifo", limit, ops] =>
    match limit.toNat? with
    | some limit =>
      match fifoOps (Fifo.empty limit) (if ops == "-" then [] else ops.splitOn ",") with
      | some out => (s, String.intercalate "," out)
      | none => (s, "bad-op")
    | none => (s, "bad-op")
  | _ => (s, "bad-op")

end PyatvModel.C16
