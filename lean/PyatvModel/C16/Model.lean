import PyatvModel.Base.Bytes
import PyatvModel.Gen.C16Consts
/-
C16 — streamed audio is sent completely, in order, and can be retransmitted.

Executable model of the RAOP packet loop.  Transcribed from (line numbers of the tree
under test, after the `fix:` commit for D11):

* pyatv/protocols/raop/stream_client.py
    :478 StreamClient._stream_data            → `loop`   (main `while self._is_playing`)
    :562 StreamClient._send_packet            → `sendPacket`
    :608 StreamClient._send_number_of_packets → `sendN`
    :146 ControlClient.datagram_received      → `controlReceived`
    :155 ControlClient._retransmit_lost_packets → `retransmit` (repaired: `% 2**16`);
         the code before the repair is kept as `retransmitUnreduced` (D11 witness only)
* pyatv/protocols/raop/fifo.py :21 PacketFifo (__setitem__ :39, __getitem__, __contains__)
                                              → `Fifo`, `Fifo.set`, `Fifo.get?`, `Fifo.contains`
* pyatv/protocols/raop/packets.py AudioPacketHeader / RetransmitReqeust (`defpacket`,
  pyatv/support/packet.py)                    → `pack` over the field widths in `Gen.C16`
* pyatv/protocols/raop/protocols/__init__.py :19 StreamContext (rtpseq, head_ts, start_ts,
  latency, padding_sent, rtptime :55, frame_size :66, packet_size :71) → `Cfg`, `St`, `rtptime`
* pyatv/protocols/raop/protocols/airplayv1.py :111 / airplayv2.py :183 send_audio_packet
                                              → `wireV1`, `wireV2`

What is a parameter and why:
* `comp : List Nat` — per main-loop iteration, the number of extra packets
  `_stream_data` decides to send to catch up (`max_packets`, 0 = branch not taken).  It is
  a function of wall-clock time (`Statistics.frames_behind`), so it is an arbitrary input
  here: every theorem is for all `comp`.  Sleeping, logging and the statistics intervals
  have no effect on what is sent and are not modelled.
* `Cfg.wire` — what `send_audio_packet` puts on the wire for (number of packets already
  sent, RTP header, audio).  `wireV1` and `wireV2` are the two implementations; the
  ChaCha20-Poly1305 AEAD of v2 is a parameter `enc`.
* the audio source: `readframes(n)` of a source holding the bytes `src` returns the next
  `n * frame_size` bytes (fewer at the end, `b""` when exhausted).

Not modelled (outside the property): `stop()` (`_is_playing = False`) and a closing
transport (both end the stream early by design); `struct.error` when the timestamp does
not fit 32 bits (> 27 h of audio) — `Packet.fits` is the explicit range predicate and
`pack` reduces modulo the field width; `ZeroDivisionError` for `frame_size = 0` (the
theorems assume `0 < frameSize`; Lean's `x / 0 = 0` then never matters).
`int(len(frames) / frame_size)` is a float division in Python; it is exact for the
sizes that occur (multiples of `frame_size` far below 2^53) and is modelled by `Nat` `/`.
-/
namespace PyatvModel.C16
open PyatvModel

/-- RTP sequence numbers wrap here (`2**16` in `_send_packet` and `_retransmit_lost_packets`). -/
abbrev seqMod : Nat := 65536

/-! ### `defpacket` encoding -/

/-- big-endian unsigned rendering of `n` in `k` bytes (`struct.pack(">B/H/I")` for in-range `n`). -/
def be : Nat → Nat → Bytes
  | 0, _ => []
  | k + 1, n => be k (n / 256) ++ [UInt8.ofNat (n % 256)]

/-- `struct.pack(">" + fmt, *vals)` for unsigned big-endian fields of the given widths. -/
def pack : List Nat → List Nat → Bytes
  | w :: ws, v :: vs => be w v ++ pack ws vs
  | _, _ => []

/-- big-endian value of a byte string. -/
def beVal (b : Bytes) : Nat := b.foldl (fun acc x => acc * 256 + x.toNat) 0

/-- `struct.unpack` for unsigned big-endian fields; `none` when the length is not exact. -/
def unpack : List Nat → Bytes → Option (List Nat)
  | [], [] => some []
  | [], _ :: _ => none
  | w :: ws, b =>
    if b.length < w then none
    else (unpack ws (b.drop w)).map (fun r => beVal (b.take w) :: r)

/-! ### packets -/

/-- One RTP audio packet as `_send_packet` builds it (before the protocol wraps it). -/
structure Packet where
  marker : Bool        -- first-packet marker: type byte 0xE0 instead of 0x60
  seq : Nat            -- context.rtpseq
  ts : Int             -- context.rtptime
  ssrc : Nat           -- rtsp.session_id
  payload : Bytes      -- the audio of the packet (`frames`)
  deriving DecidableEq, Repr

/-- `AudioPacketHeader.encode(0x80, 0xE0 if first_packet else 0x60, rtpseq, rtptime, session_id)` -/
def Packet.header (p : Packet) : Bytes :=
  pack Gen.C16.audioHeaderLayout [0x80, if p.marker then 0xE0 else 0x60, p.seq, p.ts.toNat, p.ssrc]

/-- the values `struct.pack` accepts for the header fields. -/
def Packet.fits (p : Packet) : Prop :=
  p.seq < 65536 ∧ 0 ≤ p.ts ∧ p.ts < 4294967296 ∧ p.ssrc < 4294967296

instance (p : Packet) : Decidable p.fits := by unfold Packet.fits; infer_instance

/-- AirPlayV1.send_audio_packet: `packet = rtp_header + audio`. -/
def wireV1 (_count : Nat) (header audio : Bytes) : Bytes := header ++ audio

/-- little-endian rendering in `k` bytes (`struct.pack("<Q")` for k = 8). -/
def le : Nat → Nat → Bytes
  | 0, _ => []
  | k + 1, n => UInt8.ofNat (n % 256) :: le k (n / 256)

/-- AirPlayV2.send_audio_packet with a cipher: `rtp_header + encrypt(audio, aad = rtp_header[4:12])
    + nonce[-8:]`, where the nonce is the cipher's outgoing message counter (one per packet).
    `enc counter aad audio` is the AEAD (parameter). -/
def wireV2 (enc : Nat → Bytes → Bytes → Bytes) (count : Nat) (header audio : Bytes) : Bytes :=
  header ++ enc count ((header.drop 4).take 8) audio ++ le 8 count

/-- What one `_send_packet` call produced: the packet and the datagram handed to
    `transport.sendto` (also the value stored in the backlog). -/
structure Sent where
  pkt : Packet
  dgram : Bytes
  deriving DecidableEq, Repr

/-! ### PacketFifo -/

/-- `PacketFifo`: a dict in insertion order (oldest first) with an upper limit. -/
structure Fifo where
  items : List (Nat × Bytes)
  limit : Nat
  deriving DecidableEq, Repr

def Fifo.empty (limit : Nat) : Fifo := ⟨[], limit⟩

def Fifo.keys (f : Fifo) : List Nat := f.items.map (·.1)

/-- `index in fifo` -/
def Fifo.contains (f : Fifo) (k : Nat) : Bool := f.items.any (fun kv => kv.1 == k)

/-- `fifo[index]` (`none` = KeyError) -/
def Fifo.get? (f : Fifo) (k : Nat) : Option Bytes := (f.items.find? (fun kv => kv.1 == k)).map (·.2)

/-- `fifo[index] = value`; `none` = the call raised (ValueError for an existing key,
    IndexError when `upper_limit = 0` makes it delete from an empty dict). -/
def Fifo.set (f : Fifo) (k : Nat) (v : Bytes) : Option Fifo :=
  if f.contains k then none
  else if f.items.length + 1 > f.limit then
    match f.items with
    | [] => none
    | _ :: rest => some { f with items := rest ++ [(k, v)] }
  else some { f with items := f.items ++ [(k, v)] }

/-! ### ControlClient: retransmission -/

/-- the datagram sent back for one backlog entry: `b"\x80\xd6" + packet[2:4] + packet`. -/
def resend (packet : Bytes) : Bytes := [0x80, 0xd6] ++ (packet.drop 2).take 2 ++ packet

/-- `_retransmit_lost_packets` (repaired): for i in range(lost_packets), the entry with key
    `(lost_seqno + i) % 2**16` is resent if present. -/
def retransmit (backlog : Fifo) (lostSeqno lostPackets : Nat) : List Bytes :=
  (List.range lostPackets).filterMap fun i => (backlog.get? ((lostSeqno + i) % seqMod)).map resend

/-- the same loop as it was before the repair (`lost_seqno + i` not reduced): D11. -/
def retransmitUnreduced (backlog : Fifo) (lostSeqno lostPackets : Nat) : List Bytes :=
  (List.range lostPackets).filterMap fun i => (backlog.get? (lostSeqno + i)).map resend

/-- `datagram_received`: type byte `& 0x7F == 0x55` → decode the request (exact length,
    else `struct.error`: `none`) and retransmit; other types are ignored. -/
def controlReceived (backlog : Fifo) (data : Bytes) : Option (List Bytes) :=
  match data with
  | _ :: t :: _ =>
    if t.toNat % 128 = 0x55 then
      match unpack Gen.C16.retransmitLayout data with
      | some [_, _, _, lostSeqno, lostPackets] => some (retransmit backlog lostSeqno lostPackets)
      | _ => none
    else some []
  | _ => none

/-! ### the packet loop -/

/-- what stays fixed during one `_stream_data` call. -/
structure Cfg where
  fpp : Nat            -- FRAMES_PER_PACKET
  frameSize : Nat      -- context.frame_size = channels * bytes_per_channel
  latency : Nat        -- context.latency
  startTs : Int        -- context.start_ts
  ssrc : Nat           -- rtsp.session_id
  wire : Nat → Bytes → Bytes → Bytes

/-- context.packet_size -/
def Cfg.packetSize (c : Cfg) : Nat := c.fpp * c.frameSize

/-- what changes: the unread source, StreamContext.{rtpseq, head_ts, padding_sent}, the
    backlog and the number of packets given to the protocol so far. -/
structure St where
  src : Bytes
  rtpseq : Nat
  headTs : Int
  paddingSent : Nat
  backlog : Fifo
  count : Nat
  deriving DecidableEq, Repr

/-- context.rtptime = head_ts - (start_ts - latency) -/
def rtptime (c : Cfg) (st : St) : Int := st.headTs - (c.startTs - (c.latency : Int))

/-- `frames` after the padding logic of `_send_packet`. -/
def framesOf (c : Cfg) (st : St) : Bytes :=
  let got := st.src.take c.packetSize
  if got.isEmpty then List.replicate c.packetSize 0
  else if got.length ≠ c.packetSize then got ++ List.replicate (c.packetSize - got.length) 0
  else got

/-- `padding_sent` after `_send_packet` handled the read. -/
def paddingAfter (c : Cfg) (st : St) : Nat :=
  if (st.src.take c.packetSize).isEmpty then st.paddingSent + c.packetSize / c.frameSize
  else st.paddingSent

def mkSent (c : Cfg) (first : Bool) (st : St) : Sent :=
  let pkt : Packet :=
    { marker := first, seq := st.rtpseq, ts := rtptime c st, ssrc := c.ssrc, payload := framesOf c st }
  { pkt := pkt, dgram := c.wire st.count pkt.header pkt.payload }

/-- frames sent by the call: `int(len(frames) / frame_size)` -/
def sentFrames (c : Cfg) (st : St) : Nat := (framesOf c st).length / c.frameSize

def nextSt (c : Cfg) (st : St) (bl : Fifo) : St :=
  { src := st.src.drop c.packetSize
    rtpseq := (st.rtpseq + 1) % seqMod
    headTs := st.headTs + (sentFrames c st : Int)
    paddingSent := paddingAfter c st
    backlog := bl
    count := st.count + 1 }

inductive Res
  | stop                                   -- returned 0 before reading (padding_sent >= latency)
  | sent (st : St) (e : Sent) (n : Nat)    -- datagram sent, stored, context advanced; returned n
  | raised (e : Sent)                      -- datagram sent, then `self._packet_backlog[rtpseq] = packet` raised

/-- `_send_packet(source, first_packet, transport)` -/
def sendPacket (c : Cfg) (first : Bool) (st : St) : Res :=
  if c.latency ≤ st.paddingSent then .stop
  else
    let e := mkSent c first st
    match st.backlog.set st.rtpseq e.dgram with
    | none => .raised e
    | some bl => .sent (nextSt c st bl) e (sentFrames c st)

structure NRes where
  sent : List Sent
  st : St
  frames : Nat
  more : Bool
  raised : Bool

/-- `_send_number_of_packets(source, transport, count)` -/
def sendN (c : Cfg) : Nat → St → NRes
  | 0, st => ⟨[], st, 0, true, false⟩
  | k + 1, st =>
    match sendPacket c false st with
    | .stop => ⟨[], st, 0, false, false⟩
    | .raised e => ⟨[e], st, 0, false, true⟩
    | .sent st' e n =>
      if n = 0 then ⟨[e], st', 0, false, false⟩
      else
        let r := sendN c k st'
        ⟨e :: r.sent, r.st, n + r.frames, r.more, r.raised⟩

inductive Status
  | finished | raised | outOfFuel
  deriving DecidableEq, Repr

structure Run where
  sent : List Sent
  status : Status
  final : St

/-- the `while self._is_playing` loop of `_stream_data`; `total` is `stats.total_frames`,
    `comp` the compensation decisions still to come (0 once exhausted). -/
def loop (c : Cfg) : Nat → List Nat → Nat → St → Run
  | 0, _, _, st => ⟨[], .outOfFuel, st⟩
  | fuel + 1, comp, total, st =>
    match sendPacket c (total == 0) st with
    | .stop => ⟨[], .finished, st⟩
    | .raised e => ⟨[e], .raised, st⟩
    | .sent st1 e n =>
      if n = 0 then ⟨[e], .finished, st1⟩
      else
        let r := sendN c (comp.headD 0) st1
        if r.raised then ⟨e :: r.sent, .raised, r.st⟩
        else if !r.more then ⟨e :: r.sent, .finished, r.st⟩
        else
          let rest := loop c fuel comp.tail (total + n + r.frames) r.st
          ⟨e :: (r.sent ++ rest.sent), rest.status, rest.final⟩

/-- the state `send_audio` leaves for `_stream_data` after `context.reset()`:
    `rtpseq = s0`, `head_ts = start_ts`, `padding_sent = 0`, empty backlog of `cap`. -/
def initSt (c : Cfg) (cap : Nat) (src : Bytes) (s0 : Nat) : St :=
  { src := src, rtpseq := s0, headTs := c.startTs, paddingSent := 0, backlog := Fifo.empty cap, count := 0 }

/-- One whole `_stream_data` run.  The fuel is an upper bound on the number of loop
    iterations (`Props.C16.packetize_finished`: it is never exhausted). -/
def packetize (c : Cfg) (cap : Nat) (src : Bytes) (s0 : Nat) (comp : List Nat) : Run :=
  loop c (src.length + c.latency + 1) comp 0 (initSt c cap src s0)

/-- `Steps c first st es st'`: `es` are the records of consecutive `_send_packet` calls
    that each sent a packet, started in `st` (the first one with `first_packet = first`,
    the others with `False`), and `st'` is the state they leave. -/
inductive Steps (c : Cfg) : Bool → St → List Sent → St → Prop
  | nil {b : Bool} {st : St} : Steps c b st [] st
  | cons {b : Bool} {st st1 st' : St} {e : Sent} {n : Nat} {es : List Sent} :
      sendPacket c b st = .sent st1 e n → Steps c false st1 es st' → Steps c b st (e :: es) st'

/-! ### several streams on one StreamContext

`RaopPlaybackManager` (pyatv/protocols/raop/__init__.py :105) owns ONE `StreamContext` per
connected device.  Every `stream_file` call (:335) does, on that same context:

  setup()        a new `StreamClient` (new, empty `PacketFifo`) and a new protocol instance
                 (new cipher, message counter 0) around the shared context            → `Ctx.stOf`
  initialize()   `_update_output_properties`: sample_rate / channels / bytes_per_channel  → `Ctx.withRate`
  send_audio()   `context.reset()` (stream_client.py, first statement after the guard)  → `Ctx.reset`
                 `_stream_data(...)`                                                   → `loop`
                 finally: `_packet_backlog.clear()`, close
  teardown()     `self._context.reset()` (:174), client dropped                        → `Ctx.reset`

`Ctx` holds the StreamContext fields the packet loop reads or writes.  What `reset()`
(protocols/__init__.py :43) does NOT touch persists from stream to stream, legitimately:
sample_rate / channels / bytes_per_channel (properties of the receiver, re-read by
initialize), credentials, password, ports, rtsp_session, volume.  Everything the loop
itself advances — rtpseq, head_ts, padding_sent — and start_ts / latency is re-initialised
by `reset()`; the backlog and the cipher counter belong to the per-stream client. -/

structure Ctx where
  sampleRate : Nat
  rtpseq : Nat
  startTs : Int
  headTs : Int
  latency : Nat
  paddingSent : Nat
  deriving DecidableEq, Repr

/-- `StreamContext.__init__` -/
def Ctx.fresh : Ctx :=
  { sampleRate := Gen.C16.defaultSampleRate, rtpseq := 0, startTs := 0, headTs := 0,
    latency := Gen.C16.latencyBase + Gen.C16.defaultSampleRate, paddingSent := 0 }

/-- `StreamContext.reset()`: `rnd` is what `randrange(2**16)` returns, `now` what
    `timing.ntp2ts(timing.ntp_now(), sample_rate)` returns. -/
def Ctx.reset (x : Ctx) (rnd : Nat) (now : Int) : Ctx :=
  { x with rtpseq := rnd, startTs := now, headTs := now,
           latency := Gen.C16.latencyBase + x.sampleRate, paddingSent := 0 }

/-- `_update_output_properties` (the part that matters to `reset`: the sample rate). -/
def Ctx.withRate (x : Ctx) (rate : Nat) : Ctx := { x with sampleRate := rate }

/-- the per-stream constants as `_stream_data` sees them on context `x`. -/
def Ctx.cfgOf (x : Ctx) (fpp frameSize ssrc : Nat) (wire : Nat → Bytes → Bytes → Bytes) : Cfg :=
  { fpp := fpp, frameSize := frameSize, latency := x.latency, startTs := x.startTs, ssrc := ssrc, wire := wire }

/-- the loop state at the start of `_stream_data` on context `x` with a new client. -/
def Ctx.stOf (x : Ctx) (cap : Nat) (src : Bytes) : St :=
  { src := src, rtpseq := x.rtpseq, headTs := x.headTs, paddingSent := x.paddingSent,
    backlog := Fifo.empty cap, count := 0 }

/-- the context after `_stream_data` left the loop in state `st`. -/
def Ctx.after (x : Ctx) (st : St) : Ctx :=
  { x with rtpseq := st.rtpseq, headTs := st.headTs, paddingSent := st.paddingSent }

/-- one `stream_file` call. -/
structure StreamSpec where
  sampleRate : Nat      -- from the receiver's properties (initialize)
  frameSize : Nat
  ssrc : Nat
  wire : Nat → Bytes → Bytes → Bytes
  src : Bytes
  comp : List Nat
  rnd : Nat             -- randrange(2**16) in send_audio's reset
  now : Int             -- start_ts computed by send_audio's reset
  rnd' : Nat            -- the same two for teardown's reset
  now' : Int

/-- `_stream_data` run on the context as it is (no reset): what one stream does to `x`. -/
def streamOn (fpp cap : Nat) (x : Ctx) (s : StreamSpec) : Run :=
  loop (x.cfgOf fpp s.frameSize s.ssrc s.wire) (s.src.length + x.latency + 1) s.comp 0 (x.stOf cap s.src)

/-- one `stream_file`: initialize, reset, stream, teardown (reset).  Returns the run and
    the context left behind. -/
def streamFile (fpp cap : Nat) (x : Ctx) (s : StreamSpec) : Run × Ctx :=
  let x1 := (x.withRate s.sampleRate).reset s.rnd s.now
  let r := streamOn fpp cap x1 s
  (r, (x1.after r.final).reset s.rnd' s.now')

/-- consecutive `stream_file` calls on one context. -/
def session (fpp cap : Nat) : Ctx → List StreamSpec → List Run
  | _, [] => []
  | x, s :: rest => (streamFile fpp cap x s).1 :: session fpp cap (streamFile fpp cap x s).2 rest

/-- the `Cfg` a stream of the session would have on a brand-new context. -/
def StreamSpec.cfg (s : StreamSpec) (fpp : Nat) : Cfg :=
  { fpp := fpp, frameSize := s.frameSize, latency := Gen.C16.latencyBase + s.sampleRate,
    startTs := s.now, ssrc := s.ssrc, wire := s.wire }

/-! ### sources whose reads are short before the end

`readframes(n)` may return fewer than `n` frames in mid-stream (pyatv's own
`BufferedIOBaseSource` does on a buffer underrun).  `_send_packet` treats every non-empty
short read alike: it zero-pads it to one packet and goes on reading.  A source delivering
the non-empty reads `chunks` (each at most one packet) is therefore streamed exactly like
the byte string in which that padding is made explicit, read in whole packets:
`padChunks`.  (`framesOf` on a whole-packet read returns it unchanged; on the padded last
chunk likewise.)  This equivalence is validated by the correspondence runs (sources with a
read-size schedule, the real BufferedIOBaseSource), not proved; the theorems about
`packetize … (padChunks ps chunks) …` then say what the packets carry. -/

/-- one read, zero-padded to a packet as `_send_packet` does. -/
def padChunk (ps : Nat) (chunk : Bytes) : Bytes := chunk ++ List.replicate (ps - chunk.length) 0

/-- the stream of a source that delivers `chunks`, with the code's padding made explicit. -/
def padChunks (ps : Nat) (chunks : List Bytes) : Bytes := (chunks.map (padChunk ps)).flatten

end PyatvModel.C16
