/-
C16 — the integer time conversions of pyatv/protocols/raop/timing.py, transcribed:

  ntp2parts (timing.py:19)   `return ntp >> 32, ntp & 0xFFFFFFFF`
  ntp2ts    (timing.py:24)   `return int((ntp >> 16) * rate) >> 16`   (rate = sample_rate, an int)
  ntp2ms    (timing.py:34)   `return ((ntp >> 10) * 1000) >> 22`
  ntpNow    (timing.py:11)   ntp_now with the clock as parameter
  ntpOf                      the value `ntp_now` assembles: `(seconds + 0x83AA7E80) << 32 | frac32`

`StreamContext.reset` takes its `start_ts` from `ntp2ts(ntp_now(), sample_rate)`; the harness
used to hand that number to the model as a parameter (`now`), it is now also computed by the
model from the NTP value.  NTP values are non-negative (Python ints, modelled as `Nat`).
`ts2ntp` / `ts2ms` divide in floating point (`int(int(ts << 16) / rate)`), are not used for
anything the property observes, and are NOT modelled.
-/
namespace PyatvModel.C16.Timing

def ntp2parts (ntp : Nat) : Nat × Nat := (ntp >>> 32, ntp &&& 0xFFFFFFFF)

def ntp2ts (ntp rate : Nat) : Nat := ((ntp >>> 16) * rate) >>> 16

def ntp2ms (ntp : Nat) : Nat := ((ntp >>> 10) * 1000) >>> 22

def ntpOf (sec frac : Nat) : Nat := (sec <<< 32) ||| frac

/-- timing.py:11 ntp_now on a clock reading of `sec` s + `us` µs since 1970 (time_ns is the
    parameter; the float divisions of ntp_now are exact floors for readings below 2^53 µs,
    which the correspondence run checks against the real function under a patched time_ns). -/
def ntpNow (sec us : Nat) : Nat := ntpOf (sec + 0x83AA7E80) ((us <<< 32) / 1000000)

end PyatvModel.C16.Timing
