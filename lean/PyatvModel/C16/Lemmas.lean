import PyatvModel.C16.Model
/-
Helper lemmas for Props/C16.lean (core Lean only).
-/
namespace PyatvModel.C16

/-! ### arithmetic -/

theorem ceil_step (x f : Nat) (hf : 0 < f) (hx : 0 < x) :
    (x + f - 1) / f = ((x - f) + f - 1) / f + 1 := by
  by_cases h : f ≤ x
  · have : x + f - 1 = ((x - f) + f - 1) + f := by omega
    rw [this, Nat.add_div_right _ hf]
  · have h0 : x - f = 0 := by omega
    have h1 : x + f - 1 = (x - 1) + f := by omega
    rw [h0, h1, Nat.add_div_right _ hf, Nat.div_eq_of_lt (by omega), Nat.div_eq_of_lt (by omega)]

theorem ceil_zero (f : Nat) (hf : 0 < f) : (0 + f - 1) / f = 0 :=
  Nat.div_eq_of_lt (by omega)

/-- zero bytes appended to the last data packet of a source of `len` bytes. -/
def tailPad (ps len : Nat) : Nat := (ps - len % ps) % ps

theorem tailPad_zero (ps : Nat) : tailPad ps 0 = 0 := by
  unfold tailPad; simp

theorem tailPad_sub (ps len : Nat) (h : ps ≤ len) : tailPad ps (len - ps) = tailPad ps len := by
  unfold tailPad
  have : len = (len - ps) + ps := by omega
  conv => rhs; rw [this, Nat.add_mod_right]

theorem tailPad_short (ps len : Nat) (h0 : 0 < len) (h : len < ps) : tailPad ps len = ps - len := by
  unfold tailPad
  rw [Nat.mod_eq_of_lt h, Nat.mod_eq_of_lt (by omega)]

/-! ### lastN -/

/-- the last `k` elements of a list (all of it when shorter). -/
def lastN {α : Type} (k : Nat) (l : List α) : List α := l.drop (l.length - k)

theorem lastN_length {α : Type} (k : Nat) (l : List α) : (lastN k l).length = min l.length k := by
  unfold lastN; simp; omega

theorem lastN_snoc {α : Type} (k : Nat) (l : List α) (x : α) :
    lastN k (lastN k l ++ [x]) = lastN k (l ++ [x]) := by
  unfold lastN
  by_cases h : l.length < k
  · have h1 : l.length - k = 0 := by omega
    simp [h1]
  · have hl : (List.drop (l.length - k) l).length = k := by simp; omega
    have e1 : (List.drop (l.length - k) l ++ [x]).length - k = 1 := by simp [hl]
    have e2 : (l ++ [x]).length - k = (l.length - k) + 1 := by
      simp only [List.length_append, List.length_singleton]; omega
    have e3 : List.drop (l.length - k) (l ++ [x]) = List.drop (l.length - k) l ++ [x] :=
      List.drop_append_of_le_length (by omega)
    rw [e1, e2, ← List.drop_drop, e3]

theorem lastN_map {α β : Type} (k : Nat) (f : α → β) (l : List α) :
    lastN k (l.map f) = (lastN k l).map f := by
  unfold lastN; rw [List.map_drop, List.length_map]

theorem lastN_of_le {α : Type} (k : Nat) (l : List α) (h : l.length ≤ k) : lastN k l = l := by
  unfold lastN
  have : l.length - k = 0 := by omega
  simp [this]

/-! ### the window of sequence numbers just before `r` -/

/-- the `k` sequence numbers that precede `r` (mod 2^16), oldest first. -/
def win (r k : Nat) : List Nat := (List.range k).map (fun j => (r + (65536 - k) + j) % 65536)

theorem win_length (r k : Nat) : (win r k).length = k := by simp [win]

theorem win_succ (r k : Nat) (hr : r < 65536) (hk : k + 1 ≤ 65536) :
    win ((r + 1) % 65536) (k + 1) = win r k ++ [r] := by
  unfold win
  rw [List.range_succ, List.map_append]
  congr 1
  · apply List.map_congr_left
    intro j hj
    have := List.mem_range.mp hj
    omega
  · simp only [List.map_cons, List.map_nil, List.cons.injEq, and_true]
    omega

theorem win_tail (r k : Nat) (hk : k + 1 ≤ 65536) : (win r (k + 1)).tail = win r k := by
  unfold win
  rw [List.range_succ_eq_map, List.map_cons, List.tail_cons, List.map_map]
  apply List.map_congr_left
  intro j _
  show (r + (65536 - (k + 1)) + (j + 1)) % 65536 = (r + (65536 - k) + j) % 65536
  omega

theorem not_mem_win (r k : Nat) (hk : k < 65536) : r ∉ win r k := by
  unfold win
  intro h
  obtain ⟨j, hj, he⟩ := List.mem_map.mp h
  have := List.mem_range.mp hj
  omega

/-! ### PacketFifo -/

theorem Fifo.contains_iff (f : Fifo) (k : Nat) : f.contains k = true ↔ k ∈ f.keys := by
  unfold Fifo.contains Fifo.keys
  simp only [List.any_eq_true, List.mem_map, beq_iff_eq]

/-- what a successful `fifo[k] = v` does, in terms of `lastN`. -/
theorem Fifo.set_some (f f' : Fifo) (k : Nat) (v : Bytes) (hlen : f.items.length ≤ f.limit)
    (h : f.set k v = some f') :
    k ∉ f.keys ∧ f'.limit = f.limit ∧ f'.items = lastN f.limit (f.items ++ [(k, v)]) := by
  unfold Fifo.set at h
  split at h
  · cases h
  · rename_i hc
    have hk : k ∉ f.keys := by
      intro hm; exact hc ((Fifo.contains_iff f k).mpr hm)
    refine ⟨hk, ?_⟩
    split at h
    · rename_i hfull
      split at h
      · cases h
      · rename_i x rest hitems
        cases h
        refine ⟨rfl, ?_⟩
        simp only
        unfold lastN
        rw [hitems] at hlen hfull ⊢
        simp only [List.length_cons, List.length_append, List.length_nil] at hlen hfull ⊢
        have : rest.length + 1 + (0 + 1) - f.limit = 1 := by omega
        rw [this]
        simp
    · rename_i hroom
      cases h
      refine ⟨rfl, ?_⟩
      simp only
      rw [lastN_of_le]
      simp only [List.length_append, List.length_singleton]
      omega

/-- `fifo[k] = v` succeeds when `k` is new and the limit is positive. -/
theorem Fifo.set_isSome (f : Fifo) (k : Nat) (v : Bytes) (hk : k ∉ f.keys) (hlim : 0 < f.limit) :
    ∃ f', f.set k v = some f' := by
  unfold Fifo.set
  have hc : ¬ f.contains k = true := fun h => hk ((Fifo.contains_iff f k).mp h)
  rw [if_neg hc]
  split
  · rename_i hfull
    cases hitems : f.items with
    | nil => rw [hitems] at hfull; simp at hfull; omega
    | cons x rest => exact ⟨_, rfl⟩
  · exact ⟨_, rfl⟩

/-! ### one `_send_packet` call -/

/-- `_send_packet` returns 0 without sending. -/
def Stopped (c : Cfg) (st : St) : Prop := c.latency ≤ st.paddingSent

instance (c : Cfg) (st : St) : Decidable (Stopped c st) := by unfold Stopped; infer_instance

/-- the (seq, datagram) pair the backlog stores for a sent packet. -/
def pair (e : Sent) : Nat × Bytes := (e.pkt.seq, e.dgram)

theorem framesOf_length (c : Cfg) (st : St) : (framesOf c st).length = c.packetSize := by
  unfold framesOf
  simp only
  split
  · simp
  · split
    · simp only [List.length_append, List.length_replicate, List.length_take]; omega
    · rename_i h; simpa using h

theorem sentFrames_eq (c : Cfg) (st : St) (hs : 0 < c.frameSize) : sentFrames c st = c.fpp := by
  unfold sentFrames
  rw [framesOf_length, Cfg.packetSize, Nat.mul_div_cancel _ hs]

theorem sendPacket_sent {c : Cfg} {b : Bool} {st st1 : St} {e : Sent} {n : Nat}
    (h : sendPacket c b st = .sent st1 e n) :
    ¬ Stopped c st ∧ e = mkSent c b st ∧ n = sentFrames c st ∧
      ∃ bl, st.backlog.set st.rtpseq e.dgram = some bl ∧ st1 = nextSt c st bl := by
  unfold sendPacket at h
  split at h
  · cases h
  · rename_i hns
    simp only at h
    split at h
    · cases h
    · rename_i bl hset
      cases h
      exact ⟨hns, rfl, rfl, bl, hset, rfl⟩

theorem sendPacket_stop_iff (c : Cfg) (b : Bool) (st : St) :
    sendPacket c b st = .stop ↔ Stopped c st := by
  unfold sendPacket Stopped
  split
  · simp [*]
  · simp only [*, iff_false]
    split <;> simp

/-- keys of the backlog are the window of sequence numbers right before `rtpseq`. -/
structure KInv (cap : Nat) (st : St) : Prop where
  limit : st.backlog.limit = cap
  len : st.backlog.items.length ≤ cap
  keys : st.backlog.keys = win st.rtpseq st.backlog.items.length
  seq : st.rtpseq < 65536
  nodup : st.backlog.keys.Nodup

theorem Fifo.keys_length (f : Fifo) : f.keys.length = f.items.length := by simp [Fifo.keys]

/-- under the invariant the backlog insertion of `_send_packet` cannot raise. -/
theorem sendPacket_of_KInv {c : Cfg} {cap : Nat} (b : Bool) {st : St} (hk : KInv cap st)
    (hcap : 0 < cap) (hcap' : cap < 65536) (hns : ¬ Stopped c st) :
    ∃ bl, sendPacket c b st = .sent (nextSt c st bl) (mkSent c b st) (sentFrames c st) := by
  have hnot : st.rtpseq ∉ st.backlog.keys := by
    rw [hk.keys]; exact not_mem_win _ _ (by have := hk.len; omega)
  obtain ⟨bl, hbl⟩ := Fifo.set_isSome st.backlog st.rtpseq (mkSent c b st).dgram hnot (by rw [hk.limit]; exact hcap)
  refine ⟨bl, ?_⟩
  unfold Stopped at hns
  unfold sendPacket
  rw [if_neg hns]
  simp only [hbl]

theorem KInv_next {c : Cfg} {cap : Nat} {b : Bool} {st st1 : St} {e : Sent} {n : Nat}
    (hk : KInv cap st) (hcap' : cap < 65536) (h : sendPacket c b st = .sent st1 e n) :
    KInv cap st1 ∧ st1.backlog.items = lastN cap (st.backlog.items ++ [pair e]) := by
  obtain ⟨_, he, _, bl, hset, hst1⟩ := sendPacket_sent h
  have hseq : e.pkt.seq = st.rtpseq := by rw [he]; rfl
  obtain ⟨hnot, hlim, hitems⟩ := Fifo.set_some st.backlog bl st.rtpseq e.dgram (by rw [hk.limit]; exact hk.len) hset
  rw [hk.limit] at hlim hitems
  have hb : st1.backlog = bl := by rw [hst1]; rfl
  have hr : st1.rtpseq = (st.rtpseq + 1) % 65536 := by rw [hst1]; rfl
  have hpair : pair e = (st.rtpseq, e.dgram) := by unfold pair; rw [hseq]
  have hlen1 : bl.items.length ≤ cap := by rw [hitems, lastN_length]; omega
  refine ⟨⟨by rw [hb]; exact hlim, by rw [hb]; exact hlen1, ?_, by rw [hr]; omega, ?_⟩, by rw [hb, hitems, hpair]⟩
  · -- keys window
    rw [hb, hr]
    have hkeys : bl.keys = (lastN cap (st.backlog.items ++ [(st.rtpseq, e.dgram)])).map (·.1) := by
      unfold Fifo.keys; rw [hitems]
    rw [hkeys]
    have hlenb : bl.items.length = min (st.backlog.items.length + 1) cap := by
      rw [hitems, lastN_length]; simp
    rw [hlenb]
    unfold lastN
    rw [List.map_drop, List.map_append]
    have hk' : List.map (·.1) st.backlog.items = win st.rtpseq st.backlog.items.length := hk.keys
    rw [hk']
    simp only [List.map_cons, List.map_nil, List.length_append, List.length_singleton]
    have hl := hk.len
    rw [← win_succ _ _ hk.seq (by omega)]
    by_cases hfull : st.backlog.items.length + 1 ≤ cap
    · have e1 : st.backlog.items.length + 1 - cap = 0 := by omega
      rw [e1, List.drop_zero, Nat.min_eq_left hfull]
    · have e1 : st.backlog.items.length + 1 - cap = 1 := by omega
      have e2 : st.backlog.items.length = cap := by omega
      rw [e1, List.drop_one, win_tail _ _ (by omega), e2, Nat.min_eq_right (by omega)]
  · -- distinct keys
    rw [hb]
    have hkeys : bl.keys = (lastN cap (st.backlog.items ++ [(st.rtpseq, e.dgram)])).map (·.1) := by
      unfold Fifo.keys; rw [hitems]
    rw [hkeys]
    unfold lastN
    rw [List.map_drop]
    apply List.Nodup.sublist (List.drop_sublist _ _)
    rw [List.map_append]
    have hk' : List.map (·.1) st.backlog.items = st.backlog.keys := rfl
    rw [hk', List.nodup_append]
    refine ⟨hk.nodup, by simp, ?_⟩
    intro a ha b' hb'
    simp only [List.map_cons, List.map_nil, List.mem_singleton] at hb'
    rw [hb']
    intro heq; exact hnot (heq ▸ ha)

/-! ### sequences of `_send_packet` calls -/

theorem Steps.append_false {c : Cfg} {b : Bool} {st st1 st2 : St} {es es' : List Sent}
    (h1 : Steps c b st es st1) (h2 : Steps c false st1 es' st2) (hb : es = [] → b = false) :
    Steps c b st (es ++ es') st2 := by
  induction h1 with
  | nil => rw [hb rfl]; exact h2
  | cons hs _ ih => exact Steps.cons hs (ih h2 (fun _ => rfl))

theorem Steps.take {c : Cfg} {b : Bool} {st st' : St} {es : List Sent}
    (h : Steps c b st es st') (k : Nat) : ∃ stk, Steps c b st (es.take k) stk := by
  induction h generalizing k with
  | nil => exact ⟨_, by rw [List.take_nil]; exact Steps.nil⟩
  | cons hs _ ih =>
    cases k with
    | zero => exact ⟨_, Steps.nil⟩
    | succ k =>
      obtain ⟨stk, hk⟩ := ih k
      exact ⟨stk, by rw [List.take_succ_cons]; exact Steps.cons hs hk⟩

/-- the backlog invariant along any sequence of sends: it holds the last `cap`
    (seq, datagram) pairs of everything sent so far (`hist` before, then `es`). -/
theorem steps_backlog {c : Cfg} {cap : Nat} {b : Bool} {st st' : St} {es : List Sent}
    (h : Steps c b st es st') (hcap' : cap < 65536) (hist : List Sent) (hk : KInv cap st)
    (hc : st.backlog.items = lastN cap (hist.map pair)) :
    KInv cap st' ∧ st'.backlog.items = lastN cap ((hist ++ es).map pair) := by
  induction h generalizing hist with
  | nil => exact ⟨hk, by simpa using hc⟩
  | @cons b st st1 st' e n es hs _ ih =>
    obtain ⟨hk1, hitems⟩ := KInv_next hk hcap' hs
    have := ih (hist ++ [e]) hk1 (by rw [hitems, hc, List.map_append, lastN_snoc]; rfl)
    simpa [List.append_assoc] using this

theorem steps_KInv {c : Cfg} {cap : Nat} {b : Bool} {st st' : St} {es : List Sent}
    (h : Steps c b st es st') (hcap' : cap < 65536) (hk : KInv cap st) : KInv cap st' := by
  induction h with
  | nil => exact hk
  | cons hs _ ih => exact ih (KInv_next hk hcap' hs).1

/-- termination measure of the loop: unread source bytes + padding frames still owed. -/
def mu (c : Cfg) (st : St) : Nat := st.src.length + (c.latency - st.paddingSent)

theorem mu_next {c : Cfg} {b : Bool} {st st1 : St} {e : Sent} {n : Nat} (hf : 0 < c.fpp)
    (hs : 0 < c.frameSize) (h : sendPacket c b st = .sent st1 e n) : mu c st1 < mu c st := by
  obtain ⟨hns, _, _, bl, _, hst1⟩ := sendPacket_sent h
  unfold Stopped at hns
  have hps : 0 < c.packetSize := Nat.mul_pos hf hs
  rw [hst1]
  unfold mu nextSt paddingAfter
  simp only
  by_cases he : st.src = []
  · simp only [he, List.take_nil, List.isEmpty_nil, if_true, List.drop_nil, List.length_nil]
    have : c.packetSize / c.frameSize = c.fpp := by
      rw [Cfg.packetSize, Nat.mul_div_cancel _ hs]
    omega
  · have hne : (st.src.take c.packetSize).isEmpty = false := by
      cases hsrc : st.src with
      | nil => exact absurd hsrc he
      | cons x xs =>
        cases hp : c.packetSize with
        | zero => omega
        | succ m => simp
    simp only [hne, Bool.false_eq_true, if_false, List.length_drop]
    have : 0 < st.src.length := List.length_pos_iff.mpr he
    omega

theorem mu_zero_stopped {c : Cfg} {st : St} (h : mu c st = 0) : Stopped c st := by
  unfold mu at h; unfold Stopped; omega

theorem steps_mu {c : Cfg} {b : Bool} {st st' : St} {es : List Sent} (hf : 0 < c.fpp)
    (hs : 0 < c.frameSize) (h : Steps c b st es st') : mu c st' + es.length ≤ mu c st := by
  induction h with
  | nil => simp
  | cons hsent _ ih =>
    have := mu_next hf hs hsent
    simp only [List.length_cons]; omega

/-- `_send_number_of_packets`: never raises under the invariant, sends a `Steps` segment,
    and reports "no more" only when the stream has stopped. -/
theorem sendN_spec {c : Cfg} {cap : Nat} (hf : 0 < c.fpp) (hs : 0 < c.frameSize) (hcap : 0 < cap)
    (hcap' : cap < 65536) (k : Nat) (st : St) (hk : KInv cap st) :
    (sendN c k st).raised = false ∧ Steps c false st (sendN c k st).sent (sendN c k st).st ∧
      ((sendN c k st).more = false → Stopped c (sendN c k st).st) := by
  induction k generalizing st with
  | zero => exact ⟨rfl, Steps.nil, by simp [sendN]⟩
  | succ k ih =>
    by_cases hst : Stopped c st
    · have := (sendPacket_stop_iff c false st).mpr hst
      simp only [sendN, this]
      exact ⟨trivial, Steps.nil, fun _ => hst⟩
    · obtain ⟨bl, hsent⟩ := sendPacket_of_KInv (c := c) false hk hcap hcap' hst
      have hn : sentFrames c st ≠ 0 := by rw [sentFrames_eq c st hs]; omega
      obtain ⟨hk1, _⟩ := KInv_next hk hcap' hsent
      obtain ⟨h1, h2, h3⟩ := ih _ hk1
      simp only [sendN, hsent, if_neg hn]
      exact ⟨h1, Steps.cons hsent h2, h3⟩

/-- the main loop: with enough fuel it finishes, what it sent is a `Steps` sequence from
    the start state (marker flag `total == 0`) and it ends in a stopped state —
    whatever the compensation decisions were. -/
theorem loop_spec {c : Cfg} {cap : Nat} (hf : 0 < c.fpp) (hs : 0 < c.frameSize) (hcap : 0 < cap)
    (hcap' : cap < 65536) (fuel : Nat) (comp : List Nat) (total : Nat) (st : St) (hk : KInv cap st)
    (hfuel : mu c st < fuel) :
    (loop c fuel comp total st).status = .finished ∧
      Steps c (total == 0) st (loop c fuel comp total st).sent (loop c fuel comp total st).final ∧
      Stopped c (loop c fuel comp total st).final := by
  induction fuel generalizing comp total st with
  | zero => omega
  | succ fuel ih =>
    by_cases hst : Stopped c st
    · have := (sendPacket_stop_iff c (total == 0) st).mpr hst
      simp only [loop, this]
      exact ⟨trivial, Steps.nil, hst⟩
    · obtain ⟨bl, hsent⟩ := sendPacket_of_KInv (c := c) (total == 0) hk hcap hcap' hst
      have hn : sentFrames c st ≠ 0 := by rw [sentFrames_eq c st hs]; omega
      obtain ⟨hk1, _⟩ := KInv_next hk hcap' hsent
      obtain ⟨h1, h2, h3⟩ := sendN_spec hf hs hcap hcap' (comp.headD 0) _ hk1
      have hmu1 := mu_next hf hs hsent
      have hmu2 := steps_mu hf hs h2
      simp only [loop, hsent, if_neg hn, h1, Bool.false_eq_true, if_false]
      cases hmore : (sendN c (comp.headD 0) (nextSt c st bl)).more with
      | false =>
        simp only [Bool.not_false, if_true]
        exact ⟨trivial, Steps.cons hsent h2, h3 hmore⟩
      | true =>
        simp only [Bool.not_true, Bool.false_eq_true, if_false]
        have hk2 := steps_KInv h2 hcap' hk1
        have hn' : sentFrames c st = c.fpp := sentFrames_eq c st hs
        obtain ⟨i1, i2, i3⟩ := ih comp.tail
          (total + sentFrames c st + (sendN c (comp.headD 0) (nextSt c st bl)).frames) _ hk2 (by omega)
        have hz : (total + sentFrames c st + (sendN c (comp.headD 0) (nextSt c st bl)).frames == 0) = false := by
          simp only [beq_eq_false_iff_ne, ne_eq]; omega
        rw [hz] at i2
        refine ⟨i1, ?_, i3⟩
        exact Steps.cons hsent (Steps.append_false h2 i2 (fun _ => rfl))

/-! ### header fields along a sequence of sends -/

theorem nextSt_rtpseq (c : Cfg) (st : St) (bl : Fifo) : (nextSt c st bl).rtpseq = (st.rtpseq + 1) % 65536 := rfl

theorem rtptime_next (c : Cfg) (st : St) (bl : Fifo) (hs : 0 < c.frameSize) :
    rtptime c (nextSt c st bl) = rtptime c st + (c.fpp : Int) := by
  unfold rtptime nextSt
  simp only
  rw [sentFrames_eq c st hs]
  omega

theorem steps_seq {c : Cfg} {b : Bool} {st st' : St} {es : List Sent} (h : Steps c b st es st')
    (hr : st.rtpseq < 65536) :
    ∀ (i : Nat) (hi : i < es.length), (es[i]).pkt.seq = (st.rtpseq + i) % 65536 := by
  induction h with
  | nil => intro i hi; simp at hi
  | @cons b st st1 st' e n es hs _ ih =>
    obtain ⟨_, he, _, bl, _, hst1⟩ := sendPacket_sent hs
    intro i hi
    cases i with
    | zero =>
      simp only [List.getElem_cons_zero, he, Nat.add_zero]
      show st.rtpseq = st.rtpseq % 65536
      omega
    | succ j =>
      simp only [List.getElem_cons_succ]
      have hr1 : st1.rtpseq = (st.rtpseq + 1) % 65536 := by rw [hst1]; rfl
      rw [ih (by rw [hr1]; omega) j (by simpa using hi), hr1]
      omega

theorem steps_ts {c : Cfg} {b : Bool} {st st' : St} {es : List Sent} (h : Steps c b st es st')
    (hs : 0 < c.frameSize) :
    ∀ (i : Nat) (hi : i < es.length), (es[i]).pkt.ts = rtptime c st + (c.fpp : Int) * (i : Int) := by
  induction h with
  | nil => intro i hi; simp at hi
  | @cons b st st1 st' e n es hsent _ ih =>
    obtain ⟨_, he, _, bl, _, hst1⟩ := sendPacket_sent hsent
    intro i hi
    cases i with
    | zero =>
      simp only [List.getElem_cons_zero, he]
      show rtptime c st = _
      simp
    | succ j =>
      simp only [List.getElem_cons_succ]
      rw [ih j (by simpa using hi), hst1, rtptime_next c st bl hs]
      have : ((j + 1 : Nat) : Int) = (j : Int) + 1 := by omega
      rw [this, Int.mul_add, Int.mul_one]
      omega

theorem steps_marker {c : Cfg} {b : Bool} {st st' : St} {es : List Sent} (h : Steps c b st es st') :
    ∀ (i : Nat) (hi : i < es.length), (es[i]).pkt.marker = (b && i == 0) := by
  induction h with
  | nil => intro i hi; simp at hi
  | @cons b st st1 st' e n es hsent _ ih =>
    obtain ⟨_, he, _, _, _, _⟩ := sendPacket_sent hsent
    intro i hi
    cases i with
    | zero => simp only [List.getElem_cons_zero, he]; show b = _; simp
    | succ j =>
      simp only [List.getElem_cons_succ]
      rw [ih j (by simpa using hi)]
      simp

/-! ### payload conservation -/

/-- number of padding packets still to be sent when `p` padding frames were sent. -/
def nPad (c : Cfg) (p : Nat) : Nat := (c.latency - p + c.fpp - 1) / c.fpp

/-- number of data packets for `len` source bytes. -/
def nData (ps len : Nat) : Nat := (len + ps - 1) / ps

/-- padding is only ever sent once the source is exhausted. -/
def DataOk (st : St) : Prop := st.src = [] ∨ st.paddingSent = 0

theorem replicate_append_replicate {α : Type} (a b : Nat) (x : α) :
    List.replicate a x ++ List.replicate b x = List.replicate (a + b) x := by
  induction a with
  | zero => simp
  | succ a ih => rw [List.replicate_succ, List.cons_append, ih, Nat.succ_add, List.replicate_succ]

theorem steps_payload {c : Cfg} {b : Bool} {st st' : St} {es : List Sent} (h : Steps c b st es st')
    (hf : 0 < c.fpp) (hs : 0 < c.frameSize) (hl : 0 < c.latency) (hstop : Stopped c st')
    (hd : DataOk st) :
    (es.map (·.pkt.payload)).flatten =
        st.src ++ List.replicate (tailPad c.packetSize st.src.length + nPad c st.paddingSent * c.packetSize) 0 ∧
      es.length = nData c.packetSize st.src.length + nPad c st.paddingSent := by
  have hps : 0 < c.packetSize := Nat.mul_pos hf hs
  induction h with
  | @nil b st =>
    unfold Stopped at hstop
    have hsrc : st.src = [] := by
      rcases hd with h | h
      · exact h
      · omega
    have h0 : c.latency - st.paddingSent = 0 := by omega
    have hn : nPad c st.paddingSent = 0 := by unfold nPad; rw [h0]; exact ceil_zero _ hf
    have hdn : nData c.packetSize 0 = 0 := by unfold nData; exact ceil_zero _ hps
    simp [hsrc, hn, tailPad_zero, hdn]
  | @cons b st st1 st' e n es hsent _ ih =>
    obtain ⟨hns, he, _, bl, _, hst1⟩ := sendPacket_sent hsent
    unfold Stopped at hns
    have hpay : e.pkt.payload = framesOf c st := by rw [he]; rfl
    have hsrc1 : st1.src = st.src.drop c.packetSize := by rw [hst1]; rfl
    have hpad1 : st1.paddingSent = paddingAfter c st := by rw [hst1]; rfl
    by_cases hempty : st.src = []
    · -- a padding packet
      have hfr : framesOf c st = List.replicate c.packetSize 0 := by
        unfold framesOf; simp [hempty]
      have hp1 : st1.paddingSent = st.paddingSent + c.fpp := by
        rw [hpad1]; unfold paddingAfter
        simp only [hempty, List.take_nil, List.isEmpty_nil, if_true]
        rw [Cfg.packetSize, Nat.mul_div_cancel _ hs]
      have hs1 : st1.src = [] := by rw [hsrc1, hempty, List.drop_nil]
      obtain ⟨ih1, ih2⟩ := ih hstop (Or.inl hs1)
      have hstep : nPad c st.paddingSent = nPad c st1.paddingSent + 1 := by
        unfold nPad
        rw [hp1, ceil_step (c.latency - st.paddingSent) c.fpp hf (by omega)]
        have : c.latency - (st.paddingSent + c.fpp) = c.latency - st.paddingSent - c.fpp := by omega
        rw [this]
      simp only [List.map_cons, List.flatten_cons, List.length_cons]
      rw [ih1, ih2, hpay, hfr, hs1, hempty, hstep]
      simp only [List.nil_append, List.length_nil, tailPad_zero, Nat.zero_add]
      refine ⟨?_, by omega⟩
      rw [replicate_append_replicate, Nat.add_mul, Nat.one_mul, Nat.add_comm]
    · have hp0 : st.paddingSent = 0 := by
        rcases hd with h | h
        · exact absurd h hempty
        · exact h
      have hlen : 0 < st.src.length := List.length_pos_iff.mpr hempty
      have hne : (st.src.take c.packetSize).isEmpty = false := by
        cases hsrc : st.src with
        | nil => exact absurd hsrc hempty
        | cons x xs =>
          cases hp : c.packetSize with
          | zero => omega
          | succ m => simp
      have hp1 : st1.paddingSent = 0 := by
        rw [hpad1]; unfold paddingAfter; simp [hne, hp0]
      obtain ⟨ih1, ih2⟩ := ih hstop (Or.inr hp1)
      rw [hp1] at ih1 ih2
      rw [hp0]
      simp only [List.map_cons, List.flatten_cons, List.length_cons]
      rw [ih1, ih2, hpay, hsrc1]
      by_cases hfull : c.packetSize ≤ st.src.length
      · -- a full data packet
        have hfr : framesOf c st = st.src.take c.packetSize := by
          unfold framesOf
          simp only [hne, Bool.false_eq_true, if_false, List.length_take]
          rw [if_neg (by omega)]
        rw [hfr, List.length_drop, tailPad_sub _ _ hfull]
        constructor
        · rw [← List.append_assoc, List.take_append_drop]
        · unfold nData
          rw [ceil_step st.src.length c.packetSize hps hlen]; omega
      · -- the last, short data packet
        have hfr : framesOf c st = st.src ++ List.replicate (c.packetSize - st.src.length) 0 := by
          unfold framesOf
          simp only [hne, Bool.false_eq_true, if_false, List.length_take]
          rw [if_pos (by omega), List.take_of_length_le (by omega)]
          congr 2; omega
        have hdrop : st.src.drop c.packetSize = [] := List.drop_eq_nil_of_le (by omega)
        rw [hfr, hdrop, tailPad_short _ _ hlen (by omega)]
        simp only [List.nil_append, List.length_nil, tailPad_zero, Nat.zero_add]
        constructor
        · rw [List.append_assoc, replicate_append_replicate]
        · unfold nData
          rw [ceil_step st.src.length c.packetSize hps hlen]
          have : st.src.length - c.packetSize = 0 := by omega
          rw [this]; omega

/-! ### what every sent record looks like -/

theorem steps_each {c : Cfg} {b : Bool} {st st' : St} {es : List Sent} (h : Steps c b st es st') :
    ∀ (i : Nat) (hi : i < es.length),
      (es[i]).pkt.ssrc = c.ssrc ∧ (es[i]).pkt.payload.length = c.packetSize ∧
      (es[i]).dgram = c.wire (st.count + i) (es[i]).pkt.header (es[i]).pkt.payload := by
  induction h with
  | nil => intro i hi; simp at hi
  | @cons b st st1 st' e n es hsent _ ih =>
    obtain ⟨_, he, _, bl, _, hst1⟩ := sendPacket_sent hsent
    intro i hi
    cases i with
    | zero =>
      simp only [List.getElem_cons_zero, he, Nat.add_zero]
      exact ⟨rfl, framesOf_length c st, rfl⟩
    | succ j =>
      simp only [List.getElem_cons_succ]
      have hc : st1.count = st.count + 1 := by rw [hst1]; rfl
      have := ih j (by simpa using hi)
      rw [hc] at this
      have e1 : st.count + (j + 1) = st.count + 1 + j := by omega
      rw [e1]; exact this

/-! ### determinism: the compensation decisions cannot change what is sent -/

theorem steps_det {c : Cfg} {b : Bool} {st s1 s2 : St} {es1 es2 : List Sent}
    (h1 : Steps c b st es1 s1) (hs1 : Stopped c s1) (h2 : Steps c b st es2 s2) (hs2 : Stopped c s2) :
    es1 = es2 ∧ s1 = s2 := by
  induction h1 generalizing es2 s2 with
  | nil =>
    cases h2 with
    | nil => exact ⟨rfl, rfl⟩
    | cons hsent _ => exact absurd hs1 (sendPacket_sent hsent).1
  | cons hsent _ ih =>
    cases h2 with
    | nil => exact absurd hs2 (sendPacket_sent hsent).1
    | cons hsent2 hrest2 =>
      rw [hsent] at hsent2
      injection hsent2 with e1 e2 e3
      subst e1 e2
      obtain ⟨h, h'⟩ := ih hs1 hrest2 hs2
      exact ⟨by rw [h], h'⟩

/-! ### retransmission -/

theorem filterMap_congr' {α β : Type} (f g : α → Option β) (l : List α) (h : ∀ x ∈ l, f x = g x) :
    l.filterMap f = l.filterMap g := by
  induction l with
  | nil => rfl
  | cons x xs ih =>
    rw [List.filterMap_cons, List.filterMap_cons, h x (by simp), ih (fun y hy => h y (by simp [hy]))]

theorem find_key_of_nodup {α : Type} (key : α → Nat) (l : List α) (hn : (l.map key).Nodup)
    (x : α) (hx : x ∈ l) : l.find? (fun e => key e == key x) = some x := by
  induction l with
  | nil => simp at hx
  | cons y ys ih =>
    rw [List.map_cons, List.nodup_cons] at hn
    rcases List.mem_cons.mp hx with rfl | hx'
    · simp
    · have hne : key y ≠ key x := by
        intro heq; exact hn.1 (heq ▸ List.mem_map_of_mem hx')
      rw [List.find?_cons_of_neg (by simpa using hne)]
      exact ih hn.2 hx'

theorem get?_of_items (f : Fifo) (recent : List Sent) (h : f.items = recent.map pair) (k : Nat) :
    f.get? k = (recent.find? (fun e => e.pkt.seq == k)).map (·.dgram) := by
  unfold Fifo.get?
  rw [h, List.find?_map, Option.map_map]
  rfl

theorem retransmit_of_items (f : Fifo) (recent : List Sent) (h : f.items = recent.map pair)
    (first count : Nat) :
    retransmit f first count =
      (List.range count).filterMap fun i =>
        (recent.find? (fun e => e.pkt.seq == (first + i) % 65536)).map (fun e => resend e.dgram) := by
  unfold retransmit
  apply filterMap_congr'
  intro i _
  rw [get?_of_items f recent h, Option.map_map]
  rfl

theorem mem_lastN_of_ge {α : Type} (k : Nat) (l : List α) (i : Nat) (hi : i < l.length)
    (h : l.length - k ≤ i) : l[i] ∈ lastN k l := by
  unfold lastN
  rw [List.mem_drop_iff_getElem]
  exact ⟨i - (l.length - k), by omega, by congr 1; omega⟩

/-- requests for a window of packets that are all still in the backlog resend exactly
    those datagrams, in order. -/
theorem window_aux (cap s0 : Nat) (es : List Sent)
    (hseq : ∀ (i : Nat) (hi : i < es.length), (es[i]).pkt.seq = (s0 + i) % 65536)
    (hn : ((lastN cap es).map (fun e => e.pkt.seq)).Nodup) (count a : Nat) (ha : a + count ≤ es.length)
    (hw : es.length - a ≤ cap) :
    ((List.range count).filterMap fun i =>
        ((lastN cap es).find? (fun e => e.pkt.seq == (s0 + a + i) % 65536)).map (fun e => resend e.dgram))
      = ((es.drop a).take count).map (fun e => resend e.dgram) := by
  induction count generalizing a with
  | zero => simp
  | succ count ih =>
    have hlt : a < es.length := by omega
    rw [List.range_succ_eq_map, List.filterMap_cons]
    have hmem : es[a] ∈ lastN cap es := mem_lastN_of_ge cap es a hlt (by omega)
    have hfind : (lastN cap es).find? (fun e => e.pkt.seq == (s0 + a + 0) % 65536) = some es[a] := by
      have := find_key_of_nodup (fun e : Sent => e.pkt.seq) (lastN cap es) hn es[a] hmem
      rw [hseq a hlt] at this
      simpa using this
    rw [hfind]
    simp only [Option.map_some]
    rw [List.filterMap_map, List.drop_eq_getElem_cons hlt, List.take_succ_cons, List.map_cons]
    congr 1
    have := ih (a + 1) (by omega) (by omega)
    rw [← this]
    apply filterMap_congr'
    intro i _
    simp only [Function.comp]
    have : s0 + a + (i + 1) = s0 + (a + 1) + i := by omega
    rw [this]

/-! ### `defpacket` encode / decode -/

theorem be_length (k n : Nat) : (be k n).length = k := by
  induction k generalizing n with
  | zero => rfl
  | succ k ih => simp [be, ih]

theorem beVal_snoc (l : Bytes) (x : UInt8) : beVal (l ++ [x]) = beVal l * 256 + x.toNat := by
  simp [beVal, List.foldl_append]

theorem beVal_be (k n : Nat) (h : n < 256 ^ k) : beVal (be k n) = n := by
  induction k generalizing n with
  | zero => simp at h; subst h; rfl
  | succ k ih =>
    have h1 : n / 256 < 256 ^ k := by
      apply Nat.div_lt_of_lt_mul
      rw [Nat.pow_succ, Nat.mul_comm] at h; exact h
    rw [be, beVal_snoc, ih _ h1]
    have : (UInt8.ofNat (n % 256)).toNat = n % 256 := by
      simp [UInt8.toNat_ofNat']
    rw [this]
    omega

/-- every value fits the width of its field (what `struct.pack` demands). -/
def FitsAll : List Nat → List Nat → Prop
  | [], [] => True
  | w :: ws, v :: vs => v < 256 ^ w ∧ FitsAll ws vs
  | _, _ => False

theorem unpack_pack (ws vs : List Nat) (h : FitsAll ws vs) : unpack ws (pack ws vs) = some vs := by
  induction ws generalizing vs with
  | nil =>
    cases vs with
    | nil => rfl
    | cons v vs => exact absurd h (by simp [FitsAll])
  | cons w ws ih =>
    cases vs with
    | nil => exact absurd h (by simp [FitsAll])
    | cons v vs =>
      obtain ⟨hv, hrest⟩ := h
      rw [pack, unpack]
      have hlen : ¬ (be w v ++ pack ws vs).length < w := by
        rw [List.length_append, be_length]; omega
      rw [if_neg hlen]
      have hd : (be w v ++ pack ws vs).drop w = pack ws vs := by
        rw [List.drop_append_of_le_length (by rw [be_length]; omega)]
        rw [List.drop_of_length_le (by rw [be_length]; omega)]; rfl
      have ht : (be w v ++ pack ws vs).take w = be w v := by
        rw [List.take_append_of_le_length (by rw [be_length]; omega)]
        rw [List.take_of_length_le (by rw [be_length]; omega)]
      rw [hd, ht, ih vs hrest, beVal_be w v hv]
      rfl

end PyatvModel.C16
