import PyatvModel.C16.Timing
/- helper lemmas for Props/C16Timing.lean: the bit operations as arithmetic. -/
namespace PyatvModel.C16.Timing

theorem and_mask (n : Nat) : n &&& 0xFFFFFFFF = n % 2 ^ 32 := by
  have := Nat.and_two_pow_sub_one_eq_mod n 32
  simpa using this

theorem ntpOf_eq (s f : Nat) (h : f < 2 ^ 32) : ntpOf s f = s * 2 ^ 32 + f := by
  unfold ntpOf
  rw [← Nat.shiftLeft_add_eq_or_of_lt h, Nat.shiftLeft_eq]

end PyatvModel.C16.Timing
