import PyatvModel.C06.Model
/-
C06 — the symbolic ("tagging") crypto used by the correspondence run.  The harness installs
Python stubs computing exactly these functions in place of the crypto entry points of
pyatv/auth/hap_srp.py (X25519 exchange, hkdf_expand, Chacha20Cipher8byteNonce, Ed25519
verify/sign); both sides then see the same structured tokens.  It is ONE instance of the
abstract `Crypto` parameter — the theorems hold for every instance.  Import-free.
-/
namespace PyatvModel.C06

def len8 (b : Bytes) : UInt8 := UInt8.ofNat b.length
def len16 (b : Bytes) : Bytes := [UInt8.ofNat (b.length / 256), UInt8.ofNat b.length]

/-- stub public key of a stub private key -/
def symPub (sk : Bytes) : Bytes := sk.map (· ^^^ 0x5a)

def symSealHeader (key nonce : Bytes) : Bytes :=
  0x45 :: (len16 key ++ key ++ [len8 nonce] ++ nonce)

def symSig (pk msg : Bytes) : Bytes := 0x53 :: (pk ++ msg)

def symCrypto : Crypto where
  x25519 priv pub := if pub.length = 32 then some (0x58 :: (priv ++ pub)) else none
  hkdf salt info secret := 0x48 :: ([len8 salt] ++ salt ++ [len8 info] ++ info ++ secret)
  aeadSeal key nonce pt := symSealHeader key nonce ++ pt
  aeadOpen key nonce ct :=
    let h := symSealHeader key nonce
    if h.isPrefixOf ct then some (ct.drop h.length) else none
  edKeyOk pk := pk.length == 32
  edVerify pk msg sig := sig == symSig pk msg
  edSign sk msg := if sk.length = 32 then some (symSig (symPub sk) msg) else none

end PyatvModel.C06
