import PyatvModel.C06.Model
/-
C06 — helper definitions and lemmas for Props/C06.lean: the declarative acceptance
condition and the characterisation of `verify1` / `verifyCredentials` by it.
-/
namespace PyatvModel.C06
open PyatvModel.Gen.C06

/-- The M2 fields `pub`, `enc` prove the paired identity to this client: under the session key
    derived from the X25519 exchange (`shared`), `enc` opens to a TLV that carries the stored
    identifier and a signature which verifies under the stored long-term key over
    `pub ‖ identifier ‖ own session public key`. -/
def Proves (C : Crypto) (cr : Creds) (cl : Client) (pub enc shared : Bytes) : Prop :=
  C.x25519 cl.ownPriv pub = some shared ∧
  ∃ plain tlv sig,
    C.aeadOpen (C.hkdf pvSalt pvInfo shared) msg02 enc = some plain ∧
    readTlv plain = some tlv ∧
    tlv.lookup tagIdentifier = some cr.atvId ∧
    tlv.lookup tagSignature = some sig ∧
    C.edKeyOk cr.ltpk = true ∧
    C.edVerify cr.ltpk (pub ++ cr.atvId ++ cl.ownPub) sig = true

/-- the transport envelope hands `pub` and `enc` to pair-verify -/
def Carries (t : Transport) (pd : Pd) (pub enc : Bytes) : Prop :=
  ∃ tlv, getPairingData t pd = .ok tlv ∧
    tlv.lookup tagPublicKey = some pub ∧ tlv.lookup tagEncryptedData = some enc

/-- the reply is one the property allows to be trusted -/
def Accepted (C : Crypto) (t : Transport) (cr : Creds) (cl : Client) (r : Reply) : Prop :=
  ∃ pub enc shared, Carries t r.pd pub enc ∧ Proves C cr cl pub enc shared

/-- the accessory acknowledged M3: the exchange returned an M4 envelope and (MRP, Companion —
    AirPlay does not look at it) that envelope parses, carries no Error item and SeqNo = 4 -/
def AckOk (t : Transport) (r : Reply) : Prop :=
  ∃ pd4, r.m4 = .reply pd4 ∧
    (t ≠ .airplay → ∃ tlv4, getPairingData t pd4 = .ok tlv4 ∧
      tlv4.lookup tagError = none ∧ tlv4.lookup tagSeqNo = some [4])

/-- the M3 payload the client answers with -/
def m3Payload (C : Crypto) (cr : Creds) (shared dsig : Bytes) : Bytes :=
  C.aeadSeal (C.hkdf pvSalt pvInfo shared) msg03
    (writeTlv [(tagIdentifier, cr.clientId), (tagSignature, dsig)])

/-- exceptions that can come out of the M2 checks (never a time-out / OS error / back-off) -/
def RawErr.isCheckFailure : RawErr → Bool
  | .auth _ | .keyError _ | .indexError | .valueError | .invalidTag | .protocolError
  | .invalidResponse => true
  | _ => false

theorem errorHandler_of_checkFailure {e : RawErr} (h : e.isCheckFailure = true) :
    errorHandler e = .AuthenticationError := by
  cases e <;> simp_all [RawErr.isCheckFailure, errorHandler]

theorem verify1_ok {C : Crypto} {cr : Creds} {cl : Client} {pub enc shared m3 : Bytes}
    (h : (verify1 C cr cl pub enc).2 = .ok (shared, m3)) :
    Proves C cr cl pub enc shared ∧
      ∃ dsig, C.edSign cr.ltsk (cl.ownPub ++ cr.clientId ++ pub) = some dsig ∧
        m3 = m3Payload C cr shared dsig := by
  unfold verify1 at h
  split at h
  · simp at h
  · rename_i sh hx
    dsimp only at h
    split at h
    · simp at h
    · rename_i plain hopen
      split at h
      · simp at h
      · rename_i tlv htlv
        split at h
        · simp at h
        · rename_i ident hid
          split at h
          · simp at h
          · rename_i sig hsig
            try dsimp only at h
            split at h
            · simp at h
            · rename_i hident
              split at h
              · simp at h
              · rename_i hkey
                split at h
                · simp at h
                · rename_i hver
                  split at h
                  · simp at h
                  · rename_i dsig hsign
                    simp only [Except.ok.injEq, Prod.mk.injEq] at h
                    obtain ⟨h1, h2⟩ := h
                    subst h1
                    have hident' : ident = cr.atvId := by simpa using hident
                    subst hident'
                    refine ⟨⟨hx, plain, tlv, sig, hopen, htlv, hid, hsig, ?_, ?_⟩, dsig, hsign, h2.symm⟩
                    · simpa using hkey
                    · simpa using hver

theorem verify1_err {C : Crypto} {cr : Creds} {cl : Client} {pub enc : Bytes} {e : RawErr}
    (h : (verify1 C cr cl pub enc).2 = .error e) :
    e.isCheckFailure = true ∧ e.cls ∈ [ExcClass.AuthenticationError, .KeyError, .IndexError,
      .ValueError, .InvalidTag] := by
  unfold verify1 at h
  repeat' (first | split at h | (dsimp only at h; split at h))
  all_goals
    simp only [Except.error.injEq, reduceCtorEq] at h
  all_goals
    subst h
    simp [RawErr.isCheckFailure, RawErr.cls]

theorem verify1_complete {C : Crypto} {cr : Creds} {cl : Client} {pub enc shared dsig : Bytes}
    (hp : Proves C cr cl pub enc shared)
    (hs : C.edSign cr.ltsk (cl.ownPub ++ cr.clientId ++ pub) = some dsig) :
    (verify1 C cr cl pub enc).2 = .ok (shared, m3Payload C cr shared dsig) := by
  obtain ⟨hx, plain, tlv, sig, hopen, htlv, hid, hsig, hkey, hver⟩ := hp
  simp only [List.append_assoc] at hver hs
  simp [verify1, hx, hopen, htlv, hid, hsig, hkey, hver, hs, m3Payload]

theorem verify1_sign_fails {C : Crypto} {cr : Creds} {cl : Client} {pub enc shared : Bytes}
    (hp : Proves C cr cl pub enc shared)
    (hs : C.edSign cr.ltsk (cl.ownPub ++ cr.clientId ++ pub) = none) :
    (verify1 C cr cl pub enc).2 = .error .valueError := by
  obtain ⟨hx, plain, tlv, sig, hopen, htlv, hid, hsig, hkey, hver⟩ := hp
  simp only [List.append_assoc] at hver hs
  simp [verify1, hx, hopen, htlv, hid, hsig, hkey, hver, hs]

def Ev.isEnable : Ev → Bool
  | .enable _ _ => true
  | _ => false

def Ev.isSendM3 : Ev → Bool
  | .sendM3 _ => true
  | _ => false

theorem verify1_trace_all (C : Crypto) (cr : Creds) (cl : Client) (pub enc : Bytes) :
    (verify1 C cr cl pub enc).1.all (fun ev => !ev.isEnable && !ev.isSendM3) = true := by
  unfold verify1
  repeat' (first | split | (dsimp only; split))
  all_goals simp [Ev.isEnable, Ev.isSendM3]

theorem verify1_trace_no_enable (C : Crypto) (cr : Creds) (cl : Client) (pub enc : Bytes) :
    ∀ ev ∈ (verify1 C cr cl pub enc).1, ev.isEnable = false ∧ ev.isSendM3 = false := by
  intro ev hev
  have h := List.all_eq_true.mp (verify1_trace_all C cr cl pub enc) ev hev
  simpa using h

theorem getPairingData_err {t : Transport} {pd : Pd} {e : RawErr}
    (h : getPairingData t pd = .error e) :
    e.isCheckFailure = true ∧
      (t = .airplay → e = .invalidResponse ∨ e = .indexError ∨ e = .auth .deviceError) ∧
      (t ≠ .airplay → errorHandler e = .AuthenticationError) := by
  cases t <;> cases pd <;> simp only [getPairingData] at h
  all_goals
    (repeat' split at h)
  all_goals
    simp only [Except.error.injEq, reduceCtorEq] at h
  all_goals
    subst h
    simp [RawErr.isCheckFailure, errorHandler]

theorem getPairingData_ok_no_error {t : Transport} {pd : Pd} {tlv : Tlv}
    (h : getPairingData t pd = .ok tlv) : tlv.lookup tagError = none := by
  cases t <;> cases pd <;> simp only [getPairingData] at h
  all_goals
    (repeat' split at h)
  all_goals
    first
    | (simp only [reduceCtorEq] at h)
    | (simp only [Except.ok.injEq] at h
       subst h
       rename_i hne
       exact Option.not_isSome_iff_eq_none.mp hne)

theorem checkM4_ok {t : Transport} {pd4 : Pd} (h : checkM4 t pd4 = .ok ()) :
    t ≠ .airplay → ∃ tlv4, getPairingData t pd4 = .ok tlv4 ∧
      tlv4.lookup tagError = none ∧ tlv4.lookup tagSeqNo = some [4] := by
  intro ht
  cases t
  case airplay => exact absurd rfl ht
  all_goals
    simp only [checkM4] at h
    split at h
    · simp at h
    · rename_i tlv4 hpd
      split at h
      · rename_i hseq
        exact ⟨tlv4, hpd, getPairingData_ok_no_error hpd, hseq⟩
      · simp at h

theorem checkM4_complete {t : Transport} {pd4 : Pd}
    (h : t ≠ .airplay → ∃ tlv4, getPairingData t pd4 = .ok tlv4 ∧
      tlv4.lookup tagError = none ∧ tlv4.lookup tagSeqNo = some [4]) :
    checkM4 t pd4 = .ok () := by
  cases t
  case airplay => rfl
  all_goals
    obtain ⟨tlv4, h1, _, h3⟩ := h (by simp)
    simp [checkM4, h1, h3]

theorem checkM4_err {t : Transport} {pd4 : Pd} {e : RawErr} (h : checkM4 t pd4 = .error e) :
    t ≠ .airplay ∧ e.isCheckFailure = true ∧ errorHandler e = .AuthenticationError := by
  cases t
  case airplay => simp [checkM4] at h
  all_goals
    simp only [checkM4] at h
    split at h
    · rename_i e' hpd
      simp only [Except.error.injEq] at h
      subst h
      obtain ⟨h1, _, h3⟩ := getPairingData_err hpd
      exact ⟨by simp, h1, h3 (by simp)⟩
    · split at h
      · simp at h
      · simp only [Except.error.injEq] at h
        subst h
        exact ⟨by simp, rfl, rfl⟩

/-- what `verify_credentials` returning normally means -/
theorem verifyCredentials_ok {C : Crypto} {t : Transport} {cr : Creds} {cl : Client} {r : Reply}
    {shared : Bytes} (h : (verifyCredentials C t cr cl r).2 = .ok shared) :
    AckOk t r ∧ ∃ pub enc, Carries t r.pd pub enc ∧ Proves C cr cl pub enc shared := by
  unfold verifyCredentials at h
  split at h
  · simp at h
  · rename_i tlv hpd
    split at h
    · simp at h
    · rename_i pub hpub
      split at h
      · simp at h
      · rename_i enc henc
        split at h
        · simp at h
        · rename_i tr sh m3 hv
          have hv2 : (verify1 C cr cl pub enc).2 = .ok (sh, m3) := by rw [hv]
          split at h
          · simp at h
          · rename_i pd4 hm4
            split at h
            · simp at h
            · rename_i hck
              simp only [Except.ok.injEq] at h
              subst h
              exact ⟨⟨pd4, hm4, checkM4_ok hck⟩, pub, enc, ⟨tlv, hpd, hpub, henc⟩, (verify1_ok hv2).1⟩

/-- what `verify_credentials` raising means: a failed check (of M2, or of the M4
    acknowledgement on MRP / Companion), or — M2 fine — the exchange of M3 itself raised -/
theorem verifyCredentials_err {C : Crypto} {t : Transport} {cr : Creds} {cl : Client} {r : Reply}
    {e : RawErr} (h : (verifyCredentials C t cr cl r).2 = .error e) :
    (e.isCheckFailure = true ∧
       (t = .airplay → e.cls ∈ [ExcClass.AuthenticationError, .KeyError, .IndexError, .ValueError,
          .InvalidTag, .InvalidResponseError]) ∧
       (t ≠ .airplay → errorHandler e = .AuthenticationError)) ∨
    (r.m4 = .raises e ∧ Accepted C t cr cl r) := by
  unfold verifyCredentials at h
  split at h
  · rename_i e' hpd
    simp only [Except.error.injEq] at h
    subst h
    obtain ⟨h1, h2, h3⟩ := getPairingData_err hpd
    refine Or.inl ⟨h1, ?_, h3⟩
    intro ht
    rcases h2 ht with rfl | rfl | rfl <;> simp [RawErr.cls]
  · rename_i tlv hpd
    split at h
    · simp only [Except.error.injEq] at h
      subst h
      exact Or.inl ⟨rfl, fun _ => by simp [RawErr.cls], fun _ => rfl⟩
    · rename_i pub hpub
      split at h
      · simp only [Except.error.injEq] at h
        subst h
        exact Or.inl ⟨rfl, fun _ => by simp [RawErr.cls], fun _ => rfl⟩
      · rename_i enc henc
        split at h
        · rename_i tr e' hv
          have hv2 : (verify1 C cr cl pub enc).2 = .error e' := by rw [hv]
          simp only [Except.error.injEq] at h
          subst h
          obtain ⟨h1, h2⟩ := verify1_err hv2
          refine Or.inl ⟨h1, fun _ => ?_, fun _ => errorHandler_of_checkFailure h1⟩
          simp only [List.mem_cons, List.not_mem_nil, or_false] at h2 ⊢
          rcases h2 with h | h | h | h | h <;> simp [h]
        · rename_i tr sh m3 hv
          have hv2 : (verify1 C cr cl pub enc).2 = .ok (sh, m3) := by rw [hv]
          split at h
          · rename_i e' hm4
            simp only [Except.error.injEq] at h
            subst h
            exact Or.inr ⟨hm4, pub, enc, sh, ⟨tlv, hpd, hpub, henc⟩, (verify1_ok hv2).1⟩
          · rename_i pd4 hm4
            split at h
            · rename_i e' hck
              simp only [Except.error.injEq] at h
              subst h
              obtain ⟨h1, h2, h3⟩ := checkM4_err hck
              exact Or.inl ⟨h2, fun ht => absurd ht h1, fun _ => h3⟩
            · simp at h

theorem verifyCredentials_trace_no_enable (C : Crypto) (t : Transport) (cr : Creds) (cl : Client)
    (r : Reply) : ∀ ev ∈ (verifyCredentials C t cr cl r).1, ev.isEnable = false := by
  unfold verifyCredentials
  split
  · simp
  · split
    · simp
    · rename_i pub _
      split
      · simp
      · rename_i enc _
        have hno := verify1_trace_no_enable C cr cl pub enc
        split
        · rename_i hv
          rw [hv] at hno
          intro ev hev
          exact (hno ev hev).1
        · rename_i hv
          rw [hv] at hno
          repeat' split
          all_goals
            intro ev hev
            simp only [List.mem_append, List.mem_cons, List.not_mem_nil, or_false] at hev
            rcases hev with h | h
            · exact (hno ev h).1
            · subst h; rfl

theorem verifyCredentials_ok_sent_m3 {C : Crypto} {t : Transport} {cr : Creds} {cl : Client}
    {r : Reply} {shared : Bytes} (h : (verifyCredentials C t cr cl r).2 = .ok shared) :
    ∃ m3, Ev.sendM3 m3 ∈ (verifyCredentials C t cr cl r).1 := by
  unfold verifyCredentials at h ⊢
  split
  · simp_all
  · split
    · simp_all
    · split
      · simp_all
      · split
        · simp_all
        · rename_i m3 _
          split
          · simp_all
          · split
            · simp_all
            · exact ⟨m3, by simp⟩

/-- M3 is only ever sent after every check of M2 passed -/
theorem accepted_of_sent_m3 {C : Crypto} {t : Transport} {cr : Creds} {cl : Client} {r : Reply}
    {ev : Ev} (hev : ev ∈ (verifyCredentials C t cr cl r).1) (hs : ev.isSendM3 = true) :
    Accepted C t cr cl r := by
  unfold verifyCredentials at hev
  split at hev
  · simp at hev
  · rename_i tlv hpd
    split at hev
    · simp at hev
    · rename_i pub hpub
      split at hev
      · simp at hev
      · rename_i enc henc
        have hno := verify1_trace_no_enable C cr cl pub enc
        split at hev
        · rename_i tr e hv
          rw [hv] at hno
          have := (hno ev hev).2
          rw [hs] at this; cases this
        · rename_i tr sh m3 hv
          have hv2 : (verify1 C cr cl pub enc).2 = .ok (sh, m3) := by rw [hv]
          exact ⟨pub, enc, sh, ⟨tlv, hpd, hpub, henc⟩, (verify1_ok hv2).1⟩

theorem no_m3_unless_accepted {C : Crypto} {t : Transport} {cr : Creds} {cl : Client} {r : Reply}
    (h : ¬ Accepted C t cr cl r) :
    ∀ ev ∈ (verifyCredentials C t cr cl r).1, ev.isSendM3 = false := by
  intro ev hev
  cases hs : ev.isSendM3 with
  | false => rfl
  | true => exact absurd (accepted_of_sent_m3 hev hs) h

/-- (output_key, input_key) a transport derives from the X25519 shared secret (`verify2`) -/
def transportKeys (C : Crypto) (t : Transport) (shared : Bytes) : Bytes × Bytes :=
  (C.hkdf (kdfParams t).1 (kdfParams t).2.1 shared, C.hkdf (kdfParams t).1 (kdfParams t).2.2 shared)

/-- `readTlvAux` does not depend on its fuel once the fuel covers the input: the
    out-of-fuel clause of the definition is never reached from `readTlv`. -/
theorem readTlvAux_fuel : ∀ (f1 f2 : Nat) (b : Bytes) (acc : Tlv),
    b.length ≤ f1 → b.length ≤ f2 → readTlvAux f1 b acc = readTlvAux f2 b acc := by
  intro f1
  induction f1 with
  | zero =>
    intro f2 b acc h1 _
    have : b = [] := List.eq_nil_of_length_eq_zero (by omega)
    subst this
    simp [readTlvAux]
  | succ n ih =>
    intro f2 b acc h1 h2
    match b, h1, h2 with
    | [], _, _ => simp [readTlvAux]
    | [_], _, _ => simp [readTlvAux]
    | t :: l :: rest, h1, h2 =>
      match f2, h2 with
      | 0, h2 => simp at h2
      | m + 1, h2 =>
        simp only [readTlvAux]
        apply ih
        · simp only [List.length_cons, List.length_drop] at h1 ⊢; omega
        · simp only [List.length_cons, List.length_drop] at h2 ⊢; omega

end PyatvModel.C06
