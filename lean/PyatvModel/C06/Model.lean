import PyatvModel.Base.Bytes
import PyatvModel.Gen.C06Consts
/-
C06 — model of HAP pair-verify on the client side and of the three places where its
outcome switches transport encryption on.

Transcribed source (pinned tree):

* pyatv/auth/hap_tlv8.py:77-100   `read_tlv`  (`readTlv`: same-tag values are concatenated;
                                   a tag byte without a length byte is an IndexError;
                                   a value shorter than its length byte is silently cut)
* pyatv/auth/hap_tlv8.py:103-123  `write_tlv` (`writeTlv`: 255-byte chunks; an empty value
                                   produces nothing)
* pyatv/auth/hap_srp.py:84-124    `SRPAuthHandler.verify1` (`verify1`), line by line:
      X25519 exchange with the received session key  -> ValueError when the key is unusable
      hkdf_expand("Pair-Verify-Encrypt-Salt", "Pair-Verify-Encrypt-Info", shared)
      chacha.decrypt(encrypted, nonce="PV-Msg02")      -> InvalidTag
      read_tlv(...)                                     -> IndexError
      [Identifier], [Signature]                         -> KeyError
      identifier != credentials.atv_id                  -> AuthenticationError
      info = session_pub_key + identifier + own public key
      Ed25519PublicKey.from_public_bytes(ltpk)          -> ValueError
      ltpk.verify(signature, info); InvalidSignature    -> AuthenticationError
      sign(own_pub + client_id + session_pub) with ltsk, write_tlv, encrypt nonce "PV-Msg03"
* pyatv/auth/hap_srp.py:126-136   `SRPAuthHandler.verify2` (two hkdf_expand over the shared secret)
* pyatv/protocols/mrp/auth.py:19-23, 94-119        `_get_pairing_data`, `MrpPairVerifyProcedure.verify_credentials`
* pyatv/protocols/companion/auth.py:22-37, 132-167 `_get_pairing_data`, `CompanionPairVerifyProcedure.verify_credentials`
* pyatv/protocols/airplay/auth/hap.py:28-35, 119-146 `_get_pairing_data`, `AirPlayHapPairVerifyProcedure.verify_credentials`
  (repaired tree: AirPlay's `_get_pairing_data` rejects a TLV carrying an Error item; MRP and
   Companion `verify_credentials` read the M4 reply: `_get_pairing_data(resp)` and
   `pairing_data.get(SeqNo) != b"\x04"` -> AuthenticationError; AirPlay still ignores M4's body)
* pyatv/support/__init__.py:68-77   `error_handler` (`errorHandler`)
* pyatv/protocols/mrp/protocol.py:159 + 209-224        `start` / `_enable_encryption`
* pyatv/protocols/companion/protocol.py:107 + 114-123  `start` / `_setup_encryption`
* pyatv/protocols/airplay/auth/__init__.py:100-117     `verify_connection` (no error mapping)

Crypto is a parameter (`Crypto`): ANY functions; `Option`/`Bool` results stand for the
exceptions the library raises.  Every TLV lookup is an `Option`.  Each function returns the
sequence of crypto calls / comparisons it performed (`Ev`) next to its result, so the
correspondence harness can compare the exact order of checks.  Import-free (Base, Gen only).
Not modelled: CPython's recursion limit inside `read_tlv` (> ~900 TLV items).
-/
namespace PyatvModel.C06
open PyatvModel.Gen.C06

/-! ## TLV8 -/

abbrev Tlv := List (UInt8 × Bytes)

/-- `result[tag] += value` if present else `result[tag] = value` (dict insertion order). -/
def Tlv.add : Tlv → UInt8 → Bytes → Tlv
  | [], tag, v => [(tag, v)]
  | (k, w) :: r, tag, v => if k == tag then (k, w ++ v) :: r else (k, w) :: Tlv.add r tag v

/-- `read_tlv._parse`; `none` = IndexError (`data[pos + 1]` past the end).  The fuel is the
    input length (every step consumes at least two bytes), see `readTlv`. -/
def readTlvAux : Nat → Bytes → Tlv → Option Tlv
  | _, [], acc => some acc
  | _, [_], _ => none
  | 0, _ :: _ :: _, acc => some acc
  | fuel + 1, t :: l :: rest, acc =>
      readTlvAux fuel (rest.drop l.toNat) (acc.add t (rest.take l.toNat))

def readTlv (b : Bytes) : Option Tlv := readTlvAux b.length b []

/-- the `while pos < len(value)` loop of `write_tlv` for one item -/
def tlvChunks (tag : UInt8) : Nat → Bytes → Bytes
  | _, [] => []
  | 0, _ :: _ => []
  | f + 1, v@(_ :: _) =>
      let size := min v.length 255
      tag :: UInt8.ofNat size :: (v.take size ++ tlvChunks tag f (v.drop size))

def writeTlv (items : List (UInt8 × Bytes)) : Bytes :=
  items.flatMap fun it => tlvChunks it.1 it.2.length it.2

/-! ## Abstract crypto, credentials, exceptions -/

structure Crypto where
  /-- `priv.exchange(X25519PublicKey.from_public_bytes(pub))`; `none` = ValueError -/
  x25519 : Bytes → Bytes → Option Bytes
  /-- `hkdf_expand salt info secret` -/
  hkdf : Bytes → Bytes → Bytes → Bytes
  /-- `Chacha20Cipher8byteNonce(key, key).decrypt(ct, nonce)`; `none` = InvalidTag -/
  aeadOpen : Bytes → Bytes → Bytes → Option Bytes
  aeadSeal : Bytes → Bytes → Bytes → Bytes
  /-- `Ed25519PublicKey.from_public_bytes` accepts the stored key -/
  edKeyOk : Bytes → Bool
  /-- `pk.verify(sig, msg)` does not raise InvalidSignature -/
  edVerify : Bytes → Bytes → Bytes → Bool
  /-- `Ed25519PrivateKey.from_private_bytes(sk).sign(msg)`; `none` = ValueError -/
  edSign : Bytes → Bytes → Option Bytes

/-- HapCredentials -/
structure Creds where
  ltpk : Bytes
  ltsk : Bytes
  atvId : Bytes
  clientId : Bytes

/-- the X25519 key pair made by `SRPAuthHandler.initialize` -/
structure Client where
  ownPriv : Bytes
  ownPub : Bytes

inductive AuthMsg
  | incorrectDeviceResponse | signatureError | deviceError | noPairingData | notAuthenticated
  | unexpectedVerifyResponse
  deriving DecidableEq, Repr

/-- exceptions as raised inside `verify_credentials` (before any mapping) -/
inductive RawErr
  | auth (m : AuthMsg)
  | keyError (tag : UInt8)
  | indexError
  | valueError
  | invalidTag
  | protocolError
  | invalidResponse
  | httpError
  | timeout
  | osError
  | backOff
  | noCredentials
  deriving DecidableEq, Repr

inductive ExcClass
  | AuthenticationError | ConnectionFailedError | KeyError | IndexError | ValueError
  | InvalidTag | ProtocolError | InvalidResponseError | HttpError | TimeoutError | OSError
  | BackOffError | NoCredentialsError
  deriving DecidableEq, Repr

def RawErr.cls : RawErr → ExcClass
  | .auth _ => .AuthenticationError
  | .keyError _ => .KeyError
  | .indexError => .IndexError
  | .valueError => .ValueError
  | .invalidTag => .InvalidTag
  | .protocolError => .ProtocolError
  | .invalidResponse => .InvalidResponseError
  | .httpError => .HttpError
  | .timeout => .TimeoutError
  | .osError => .OSError
  | .backOff => .BackOffError
  | .noCredentials => .NoCredentialsError

/-- `error_handler(func, exceptions.AuthenticationError)`: class of what it re-raises -/
def errorHandler : RawErr → ExcClass
  | .timeout => .ConnectionFailedError
  | .osError => .ConnectionFailedError
  | .backOff => .BackOffError
  | .noCredentials => .NoCredentialsError
  | _ => .AuthenticationError

/-- what the code did, in order -/
inductive Ev
  | pubload (pub : Bytes)
  | x25519 (priv pub : Bytes)
  | hkdf (salt info secret : Bytes)
  | aopen (key nonce ct : Bytes)
  | idcmp (received stored : Bytes)
  | keyload (pk : Bytes)
  | edverify (pk msg sig : Bytes)
  | sign (sk msg : Bytes)
  | seal (key nonce pt : Bytes)
  | sendM3 (enc : Bytes)
  | enable (outKey inKey : Bytes)
  deriving DecidableEq, Repr

/-! ## SRPAuthHandler.verify1 -/

/-- result: the X25519 shared secret kept in `self._shared` and the encrypted M3 payload -/
def verify1 (C : Crypto) (cr : Creds) (cl : Client) (pub enc : Bytes) :
    List Ev × Except RawErr (Bytes × Bytes) :=
  match C.x25519 cl.ownPriv pub with
  | none => ([.pubload pub], .error .valueError)
  | some shared =>
    let sk := C.hkdf pvSalt pvInfo shared
    let t1 : List Ev := [.pubload pub, .x25519 cl.ownPriv pub, .hkdf pvSalt pvInfo shared, .aopen sk msg02 enc]
    match C.aeadOpen sk msg02 enc with
    | none => (t1, .error .invalidTag)
    | some plain =>
      match readTlv plain with
      | none => (t1, .error .indexError)
      | some tlv =>
        match tlv.lookup tagIdentifier with
        | none => (t1, .error (.keyError tagIdentifier))
        | some ident =>
          match tlv.lookup tagSignature with
          | none => (t1, .error (.keyError tagSignature))
          | some sig =>
            let t2 := t1 ++ [.idcmp ident cr.atvId]
            if ident ≠ cr.atvId then (t2, .error (.auth .incorrectDeviceResponse))
            else
              let info := pub ++ ident ++ cl.ownPub
              let t3 := t2 ++ [.keyload cr.ltpk]
              if C.edKeyOk cr.ltpk = false then (t3, .error .valueError)
              else
                let t4 := t3 ++ [.edverify cr.ltpk info sig]
                if C.edVerify cr.ltpk info sig = false then (t4, .error (.auth .signatureError))
                else
                  let devInfo := cl.ownPub ++ cr.clientId ++ pub
                  let t5 := t4 ++ [.sign cr.ltsk devInfo]
                  match C.edSign cr.ltsk devInfo with
                  | none => (t5, .error .valueError)
                  | some dsig =>
                    let m3 := writeTlv [(tagIdentifier, cr.clientId), (tagSignature, dsig)]
                    (t5 ++ [.seal sk msg03 m3], .ok (shared, C.aeadSeal sk msg03 m3))

/-! ## the three call sites -/

inductive Transport | mrp | companion | airplay
  deriving DecidableEq, Repr

/-- what the transport envelope of M2 carries as pairing data:
    MRP `CryptoPairingMessage.pairingData` (protobuf bytes field: `absent` = unset = b"";
    `notBytes` cannot be expressed on that wire and is read as unset);
    Companion OPACK key `_pd` (`absent` = missing or falsy, `notBytes` = truthy non-bytes);
    AirPlay HTTP body (`absent` = empty octet-stream body, `notBytes` = a text body → str). -/
inductive Pd
  | bytes (b : Bytes)
  | absent
  | notBytes
  deriving DecidableEq, Repr

/-- what the exchange of M3 does: it raises, or it returns the accessory's M4 envelope -/
inductive M4
  | raises (e : RawErr)
  | reply (pd : Pd)
  deriving DecidableEq, Repr

structure Reply where
  /-- M2 -/
  pd : Pd
  /-- M4 (MRP, Companion: parsed and checked; AirPlay: the body is ignored) -/
  m4 : M4

/-- the three `_get_pairing_data` helpers -/
def getPairingData : Transport → Pd → Except RawErr Tlv
  | .mrp, pd =>
      let b := match pd with | .bytes b => b | _ => []
      match readTlv b with
      | none => .error .indexError
      | some tlv => if (tlv.lookup tagError).isSome then .error (.auth .deviceError) else .ok tlv
  | .companion, .absent => .error (.auth .noPairingData)
  | .companion, .notBytes => .error .protocolError
  | .companion, .bytes b =>
      if b.isEmpty then .error (.auth .noPairingData) else
      match readTlv b with
      | none => .error .indexError
      | some tlv => if (tlv.lookup tagError).isSome then .error (.auth .deviceError) else .ok tlv
  | .airplay, .notBytes => .error .invalidResponse
  | .airplay, pd =>
      let b := match pd with | .bytes b => b | _ => []
      match readTlv b with
      | none => .error .indexError
      | some tlv => if (tlv.lookup tagError).isSome then .error (.auth .deviceError) else .ok tlv

/-- the check of the M4 reply at the end of `verify_credentials`:
    MRP / Companion: `_get_pairing_data(resp)` then `pairing_data.get(SeqNo) != b"\x04"`;
    AirPlay: nothing (the reply to M3 is not looked at). -/
def checkM4 : Transport → Pd → Except RawErr Unit
  | .airplay, _ => .ok ()
  | t, pd =>
      match getPairingData t pd with
      | .error e => .error e
      | .ok tlv =>
          if tlv.lookup tagSeqNo = some [4] then .ok ()
          else .error (.auth .unexpectedVerifyResponse)

/-- `XxxPairVerifyProcedure.verify_credentials`: result = the shared secret (`srp._shared`) -/
def verifyCredentials (C : Crypto) (t : Transport) (cr : Creds) (cl : Client) (r : Reply) :
    List Ev × Except RawErr Bytes :=
  match getPairingData t r.pd with
  | .error e => ([], .error e)
  | .ok tlv =>
    match tlv.lookup tagPublicKey with
    | none => ([], .error (.keyError tagPublicKey))
    | some pub =>
      match tlv.lookup tagEncryptedData with
      | none => ([], .error (.keyError tagEncryptedData))
      | some enc =>
        match verify1 C cr cl pub enc with
        | (tr, .error e) => (tr, .error e)
        | (tr, .ok (shared, m3)) =>
          match r.m4 with
          | .raises e => (tr ++ [.sendM3 m3], .error e)
          | .reply pd4 =>
            match checkM4 t pd4 with
            | .error e => (tr ++ [.sendM3 m3], .error e)
            | .ok () => (tr ++ [.sendM3 m3], .ok shared)

/-- (salt, output info, input info) handed to `encryption_keys` -/
def kdfParams : Transport → Bytes × Bytes × Bytes
  | .mrp => (mrpSalt, mrpOutInfo, mrpInInfo)
  | .companion => (companionSalt, companionOutInfo, companionInInfo)
  | .airplay => (airplaySalt, airplayOutInfo, airplayInInfo)

/-- exception class seen by the caller of `MrpProtocol.start` / `CompanionProtocol.start`
    (through `error_handler`) / `verify_connection` (raw) -/
def mapErr : Transport → RawErr → ExcClass
  | .mrp, e => errorHandler e
  | .companion, e => errorHandler e
  | .airplay, e => e.cls

structure ConnState where
  /-- `.ok ()`: the call returned; `.error c`: it raised an exception of class `c` -/
  result : Except ExcClass Unit
  /-- (output_key, input_key) installed by `enable_encryption` / `HAPSession.enable` -/
  keys : Option (Bytes × Bytes)
  trace : List Ev

/-- `_enable_encryption` / `_setup_encryption` / `verify_connection` with HAP credentials present -/
def connect (C : Crypto) (t : Transport) (cr : Creds) (cl : Client) (r : Reply) : ConnState :=
  match verifyCredentials C t cr cl r with
  | (tr, .error e) => { result := .error (mapErr t e), keys := none, trace := tr }
  | (tr, .ok shared) =>
    let p := kdfParams t
    let outKey := C.hkdf p.1 p.2.1 shared
    let inKey := C.hkdf p.1 p.2.2 shared
    { result := .ok (), keys := some (outKey, inKey),
      trace := tr ++ [.hkdf p.1 p.2.1 shared, .hkdf p.1 p.2.2 shared, .enable outKey inKey] }

/-! ## credential selection in front of AirPlay's verify procedure

`pyatv/protocols/airplay/auth/__init__.py:extract_credentials` (callers: airplay `setup()` for the
remote-control session, RAOP `stream_file`): credentials STORED for the service win; only when none
are stored do the advertised feature bits (SupportsSystemPairing, SupportsCoreUtilsPairingAndEncryption —
unauthenticated mDNS data) select transient pairing; `pair_verify` then picks the procedure by the
type of the selected credentials. -/

/-- what `parse_credentials(service.credentials)` yields, by `HapCredentials.type` -/
inductive Stored
  | none
  | hap (cr : Creds)
  | legacy
  | transient

inductive Selected
  | null
  | transient
  | legacy
  | hap (cr : Creds)

def extractCredentials (stored : Stored) (advertisesPairing : Bool) : Selected :=
  match stored with
  | .hap cr => .hap cr
  | .legacy => .legacy
  | .transient => .transient
  | .none => if advertisesPairing then .transient else .null

end PyatvModel.C06
