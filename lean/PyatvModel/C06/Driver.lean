import PyatvModel.Base.Bytes
import PyatvModel.C06.Model
import PyatvModel.C06.Sym
/-
Line protocol (symbolic crypto instance `symCrypto`):

  connect <mrp|companion|airplay> <ltpk> <ltsk> <atvId> <clientId> <ownPriv> <ownPub>
          <pd: b:<hex> | absent | notbytes>
          <m4: r:<pd> (the M4 envelope) | raise:protocol | raise:http | raise:timeout | raise:auth>
    → `<ok|err:<Class>> keys=<out>/<in>|none trace=<ev>;<ev>;…`   (ev = name:hex:hex…)
  verify <same arguments>   → the same for `verify_credentials()` alone: `<ok|err:<raw Class>> keys=none trace=…`
  select <none|hap|legacy|transient> <0|1: peer advertises a pairing feature bit>  → null|transient|legacy|hap
  readtlv <hex>   → `err` | `<tag>=<hex>,<tag>=<hex>…` (insertion order; `-` when empty)
  writetlv <tag>=<hex>,…  → hex
-/
namespace PyatvModel.C06

def Ev.toStr : Ev → String
  | .pubload p => s!"pubload:{toHex p}"
  | .x25519 a b => s!"x25519:{toHex a}:{toHex b}"
  | .hkdf a b c => s!"hkdf:{toHex a}:{toHex b}:{toHex c}"
  | .aopen a b c => s!"open:{toHex a}:{toHex b}:{toHex c}"
  | .idcmp a b => s!"idcmp:{toHex a}:{toHex b}"
  | .keyload a => s!"keyload:{toHex a}"
  | .edverify a b c => s!"edverify:{toHex a}:{toHex b}:{toHex c}"
  | .sign a b => s!"sign:{toHex a}:{toHex b}"
  | .seal a b c => s!"seal:{toHex a}:{toHex b}:{toHex c}"
  | .sendM3 a => s!"m3:{toHex a}"
  | .enable a b => s!"enable:{toHex a}:{toHex b}"

def ExcClass.toStr : ExcClass → String
  | .AuthenticationError => "AuthenticationError"
  | .ConnectionFailedError => "ConnectionFailedError"
  | .KeyError => "KeyError"
  | .IndexError => "IndexError"
  | .ValueError => "ValueError"
  | .InvalidTag => "InvalidTag"
  | .ProtocolError => "ProtocolError"
  | .InvalidResponseError => "InvalidResponseError"
  | .HttpError => "HttpError"
  | .TimeoutError => "TimeoutError"
  | .OSError => "OSError"
  | .BackOffError => "BackOffError"
  | .NoCredentialsError => "NoCredentialsError"

def transport? : String → Option Transport
  | "mrp" => some .mrp | "companion" => some .companion | "airplay" => some .airplay
  | _ => none

def pd? (s : String) : Option Pd :=
  if s == "absent" then some .absent
  else if s == "notbytes" then some .notBytes
  else if s.startsWith "b:" then (ofHex? (s.drop 2).toString).map Pd.bytes
  else none

def m4? (s : String) : Option M4 :=
  if s == "raise:protocol" then some (.raises .protocolError)
  else if s == "raise:http" then some (.raises .httpError)
  else if s == "raise:timeout" then some (.raises .timeout)
  else if s == "raise:auth" then some (.raises (.auth .notAuthenticated))
  else if s.startsWith "r:" then (pd? (s.drop 2).toString).map M4.reply
  else none

def tlvStr (t : Tlv) : String :=
  csv (t.map fun kv => s!"{kv.1.toNat}={toHex kv.2}")

def tlvItem? (s : String) : Option (UInt8 × Bytes) :=
  match s.splitOn "=" with
  | [k, v] => do
      let k ← k.toNat?
      if k ≥ 256 then none
      let v ← ofHex? v
      pure (UInt8.ofNat k, v)
  | _ => none

def handle (_ : Unit) (ws : List String) : Unit × String :=
  match ws with
  | ["connect", t, ltpk, ltsk, atvId, clientId, ownPriv, ownPub, pd, m4] =>
    match transport? t, ofHex? ltpk, ofHex? ltsk, ofHex? atvId, ofHex? clientId,
          ofHex? ownPriv, ofHex? ownPub, pd? pd, m4? m4 with
    | some t, some ltpk, some ltsk, some atvId, some clientId, some ownPriv, some ownPub,
      some pd, some m4 =>
      let st := connect symCrypto t ⟨ltpk, ltsk, atvId, clientId⟩ ⟨ownPriv, ownPub⟩ ⟨pd, m4⟩
      let res := match st.result with
        | .ok () => "ok"
        | .error c => "err:" ++ c.toStr
      let keys := match st.keys with
        | none => "none"
        | some (o, i) => s!"{toHex o}/{toHex i}"
      let tr := if st.trace.isEmpty then "-" else String.intercalate ";" (st.trace.map Ev.toStr)
      ((), s!"{res} keys={keys} trace={tr}")
    | _, _, _, _, _, _, _, _, _ => ((), "bad-op")
  | ["verify", t, ltpk, ltsk, atvId, clientId, ownPriv, ownPub, pd, m4] =>
    -- `verify_credentials()` alone (call sites that derive no keys); exception class unmapped
    match transport? t, ofHex? ltpk, ofHex? ltsk, ofHex? atvId, ofHex? clientId,
          ofHex? ownPriv, ofHex? ownPub, pd? pd, m4? m4 with
    | some t, some ltpk, some ltsk, some atvId, some clientId, some ownPriv, some ownPub,
      some pd, some m4 =>
      let out := verifyCredentials symCrypto t ⟨ltpk, ltsk, atvId, clientId⟩ ⟨ownPriv, ownPub⟩ ⟨pd, m4⟩
      let res := match out.2 with
        | .ok _ => "ok"
        | .error e => "err:" ++ e.cls.toStr
      let tr := if out.1.isEmpty then "-" else String.intercalate ";" (out.1.map Ev.toStr)
      ((), s!"{res} keys=none trace={tr}")
    | _, _, _, _, _, _, _, _, _ => ((), "bad-op")
  | ["select", stored, adv] =>
    let st : Option Stored := match stored with
      | "none" => some .none | "hap" => some (.hap ⟨[], [], [], []⟩) | "legacy" => some .legacy
      | "transient" => some .transient | _ => none
    let ad : Option Bool := match adv with | "0" => some false | "1" => some true | _ => none
    match st, ad with
    | some st, some ad =>
      ((), match extractCredentials st ad with
        | .null => "null" | .transient => "transient" | .legacy => "legacy" | .hap _ => "hap")
    | _, _ => ((), "bad-op")
  | ["readtlv", h] =>
    match ofHex? h with
    | some b => match readTlv b with
      | none => ((), "err")
      | some t => ((), tlvStr t)
    | none => ((), "bad-op")
  | ["writetlv", items] =>
    match (if items == "-" then some [] else (items.splitOn ",").mapM tlvItem?) with
    | some its => ((), toHex (writeTlv its))
    | none => ((), "bad-op")
  | _ => ((), "bad-op")

end PyatvModel.C06
