import PyatvModel.Base.Bytes
import PyatvModel.C12.Model
/-
Line protocol (one case per line, everything is small numbers):

  scan <m|u|l> <nq> <hosts csv|-> <req csv|-> <devInfoT> <sleepT> <token> <token> …

  m = multicast scanner, u = unicast scanner (repaired), l = unicast scanner as pinned
  tokens (comma separated, first field a letter):
    I,type,inst,txt,kind,proto,ident1,name   handler outcome (kind 0 raised, 1 None, 2 result;
                                             ident1 = 0 for None, n+1 for identifier n)
    X,txt,k,v,k,v,…                          decoded properties of TXT payload `txt`
    M,type,txt,model1                        device_info extractor's MODEL (+1)
    N,txt,model1                             lookup_internal_name of the payload's "model" (+1)
    D,src,tag                                a new datagram starts
    A,<name>,ttl,addr,linklocal              records of the current datagram; <name> = kind,n1,n2
    P,<name>,ttl,<name>                      (kind 0 type n1 · 1 instance n1 of type n2 · 2 host n1)
    S,<name>,ttl,port,<name>
    T,<name>,ttl,txt
    O,<name>,ttl,qtype,rd

  → sc=<0|1> opq=<0|1> resp=<…> raw=<…> snap=<…>       (see the `show*` functions)

A handler outcome or property table that the case needs but the line does not define
answers `bad-op` (nothing is defaulted).
-/
namespace PyatvModel.C12

structure Tables where
  hand : List ((Nat × Nat × Nat) × HRes) := []
  props : List (Nat × List (Nat × Nat)) := []
  dmod : List ((Nat × Nat) × Nat) := []
  imod : List (Nat × Nat) := []
  dgrams : List Dgram := []      -- reversed while parsing

def lookup {κ β : Type} [DecidableEq κ] (t : List (κ × β)) (k : κ) : Option β :=
  (t.find? (fun e => decide (e.1 = k))).map (·.2)

def mkName : Nat → Nat → Nat → Option RName
  | 0, t, _ => some (.typ t)
  | 1, i, t => some (.svc i t)
  | 2, h, _ => some (.host h)
  | _, _, _ => none

def pairs : List Nat → Option (List (Nat × Nat))
  | [] => some []
  | [_] => none
  | k :: v :: r => (pairs r).map ((k, v) :: ·)

def addRec (t : Tables) (r : Rec) : Option Tables :=
  match t.dgrams with
  | [] => none
  | d :: ds => some { t with dgrams := { d with recs := d.recs ++ [r] } :: ds }

def opt1 (n : Nat) : Option Nat := if n = 0 then none else some (n - 1)

def token (t : Tables) (w : String) : Option Tables :=
  match w.splitOn "," with
  | [] => none
  | tag :: rest =>
    match rest.mapM String.toNat? with
    | none => none
    | some ns =>
      match tag, ns with
      | "I", [ty, i, x, 0, _, _, _] => some { t with hand := t.hand ++ [((ty, i, x), .raised)] }
      | "I", [ty, i, x, 1, _, _, _] => some { t with hand := t.hand ++ [((ty, i, x), .nores)] }
      | "I", [ty, i, x, 2, p, id1, nm] => some { t with hand := t.hand ++ [((ty, i, x), .res ⟨p, opt1 id1, nm⟩)] }
      | "X", x :: kv => (pairs kv).map fun ps => { t with props := t.props ++ [(x, ps)] }
      | "M", [ty, x, m1] => if m1 = 0 then none else some { t with dmod := t.dmod ++ [((ty, x), m1 - 1)] }
      | "N", [x, m1] => if m1 = 0 then none else some { t with imod := t.imod ++ [(x, m1 - 1)] }
      | "D", [s, g] => some { t with dgrams := ⟨s, g, []⟩ :: t.dgrams }
      | "A", [k, a, b, ttl, ad, ll] =>
        if ll > 1 then none else (mkName k a b).bind fun n => addRec t ⟨n, ttl, .addr ad (ll == 1)⟩
      | "P", [k, a, b, ttl, k', a', b'] =>
        (mkName k a b).bind fun n => (mkName k' a' b').bind fun n' => addRec t ⟨n, ttl, .ptr n'⟩
      | "S", [k, a, b, ttl, port, k', a', b'] =>
        (mkName k a b).bind fun n => (mkName k' a' b').bind fun n' => addRec t ⟨n, ttl, .srv port n'⟩
      | "T", [k, a, b, ttl, x] => (mkName k a b).bind fun n => addRec t ⟨n, ttl, .txt x⟩
      | "O", [k, a, b, ttl, q, rd] => (mkName k a b).bind fun n => addRec t ⟨n, ttl, .raw q rd⟩
      | _, _ => none

def tokens (t : Tables) : List String → Option Tables
  | [] => some t
  | w :: ws => (token t w).bind (tokens · ws)

def Tables.env (t : Tables) (req : List Nat) (di sl : Nat) : Env :=
  { req := req, devInfoT := di, sleepT := sl
    handler := fun ty i x => (lookup t.hand (ty, i, x)).getD .raised
    props := fun x => (lookup t.props x).getD []
    devModel := fun ty x => lookup t.dmod (ty, x)
    infoModel := fun x => lookup t.imod x }

def showOpt : Option Nat → String
  | none => "-"
  | some n => toString n

def showB (b : Bool) : String := if b then "1" else "0"

def sep (s : String) (xs : List String) : String := if xs.isEmpty then "-" else s.intercalate xs

def showSvc (s : Svc) : String :=
  s!"{s.type}.{s.inst}.{showOpt s.addr}.{s.port}.{s.txt}.{showB s.ph}"

def showResp (r : Resp) : String := s!"{showB r.deep}/{showOpt r.rmodel}/{sep "," (r.svcs.map showSvc)}"

def showProps (ps : List (Nat × Nat)) : String := sep "," (ps.map fun kv => s!"{kv.1}={kv.2}")

def showRawSvc (s : RawSvc) : String := s!"{s.proto}:{s.port}:{showOpt s.ident}:{showProps s.props}"

def showCfg (c : RawCfg) : String :=
  s!"{c.addr}/{c.name}/{showB c.deep}/{showOpt c.model}/{sep "+" (c.svcs.map showRawSvc)}"

def showSnap (c : Snap) : String :=
  s!"{c.addr}/{sep "," (c.ids.map toString)}/{showB c.deep}/{showOpt c.model}/{sep "+" (c.svcs.map showRawSvc)}"

/-- every handler outcome / property table the case reads is defined on the line -/
def defined (t : Tables) (rs : List Resp) (e : Env) : Bool :=
  (handled e rs).all (fun h => (lookup t.hand (h.type, h.inst, h.txt)).isSome && (lookup t.props h.txt).isSome)

def runScan (mode : String) (nq : Nat) (hosts req : List Nat) (di sl : Nat) (t : Tables) : String :=
  let e := t.env req di sl
  let l := t.dgrams.reverse
  let go (rs : List Resp) (sc opq : Bool) : String :=
    if !defined t rs e then "bad-op undefined-table-entry" else
    let res := scanResult e (handled e rs)
    s!"sc={showB sc} opq={showB opq} resp={sep ";" (rs.map showResp)} raw={sep ";" (res.map showCfg)} snap={sep ";" ((snapshot res).map showSnap)}"
  if mode == "m" then go (mcastResponses e l) (decide (SelfConsistentM e l)) true
  else if mode == "u" then
    go (ucastResponses e nq hosts l) (decide (SelfConsistentU e nq hosts l)) (decide (OnePerQuery nq hosts l))
  else if mode == "l" then
    go (hosts.map (ucastRespLegacy e nq l)) (decide (SelfConsistentU e nq hosts l)) (decide (OnePerQuery nq hosts l))
  else "bad-op"

def handle (_ : Unit) (ws : List String) : Unit × String :=
  match ws with
  | "scan" :: mode :: nq :: hosts :: req :: di :: sl :: toks =>
    match nq.toNat?, csvNats? hosts, csvNats? req, di.toNat?, sl.toNat?, tokens {} toks with
    | some nq, some hosts, some req, some di, some sl, some t => ((), runScan mode nq hosts req di sl t)
    | _, _, _, _, _, _ => ((), "bad-op")
  | _ => ((), "bad-op")

end PyatvModel.C12
