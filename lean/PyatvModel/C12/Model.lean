import PyatvModel.Base.Bytes
import PyatvModel.Base.Agg
/-
C12 — executable model of pyatv's two mDNS scanners, from datagrams to the list of
configurations returned by `pyatv.scan`.

Transcribes (pinned tree + the `fix:` commit of this property):
* pyatv/core/mdns.py
    - `ServiceParser.add_message` (:115) / `parse` (:131): `table` keyed by name then qtype
      with duplicate suppression and first-wins reads (`_first_rd` :101), `ptrs`
      (last wins), place-holders for PTRs to unknown instances       → `parse`
    - `_get_model` (:94)                                              → `getModel`
    - `MulticastDnsSdClientProtocol.datagram_received` (:417): per-source aggregation,
      "no services ⇒ ignore", "a service of an unrequested type ⇒ ignore the whole
      datagram", `deep_sleep |= all(port == 0)`; `get_response` (:345) → `mcastResponses`
      (scan without identifier: `end_condition` is `None`)
    - `UnicastDnsSdClientProtocol.datagram_received` (:232) with its
      `received_responses == len(queries)` termination, byte-identical repeats ignored
      (fix), `get_response` (:192) + `UnicastMdnsScanner._get_services` (timeout ⇒ empty
      response)                                                      → `ucastResponses`
* pyatv/core/scan.py `BaseScanner.handle_response` (:185) / `_service_discovered` (:199) /
  `discover` (:147) / `_get_device_info` (:236)                      → `handled`, `rawCfg`
* pyatv/conf.py `AppleTV.add_service` (:56), pyatv/interface.py `BaseService.merge`
  (:203), `BaseConfig.ready` (:1365), `all_identifiers` (:1388)      → `rawSvc`, `ready`
* pyatv/__init__.py `scan` / `_should_include` (:48)                 → `scanResult`

Abstraction.  Names, TXT payloads, property keys/values, identifiers and models are small
numbers (the harness keeps the tables that map them to the real strings/bytes).  What a
*single* service means to a protocol — `get_unique_id`, the handler's device name, the
`MutableService.protocol`, the `device_info` extractor's model, `lookup_internal_name` —
is a parameter of the model (`Env`): pure per-service functions with no influence on
how datagrams are aggregated.  The driver instantiates them with tables computed by the
real functions.  Dict iteration order is modelled exactly (`Agg.firsts`), so the raw
result is order-sensitive wherever Python's is.
-/
namespace PyatvModel.C12
open PyatvModel.Agg

/-! ### DNS records -/

/-- a DNS name: a bare service type (`_airplay._tcp.local`), a service instance
    (`Name._airplay._tcp.local`) or anything else (host names) -/
inductive RName
  | typ (t : Nat)
  | svc (inst type : Nat)
  | host (h : Nat)
  deriving DecidableEq, Repr

inductive QT | a | ptr | txt | srv | other (n : Nat)
  deriving DecidableEq, Repr

inductive RData
  | addr (a : Nat) (linkLocal : Bool)
  | ptr (target : RName)
  | srv (port : Nat) (target : RName)
  | txt (id : Nat)
  | raw (qtype rd : Nat)
  deriving DecidableEq, Repr

def RData.qt : RData → QT
  | .addr .. => .a
  | .ptr _ => .ptr
  | .srv .. => .srv
  | .txt _ => .txt
  | .raw q _ => .other q

structure Rec where
  name : RName
  ttl : Nat
  rd : RData
  deriving DecidableEq, Repr

/-- one response datagram: where it came from (multicast: source address; unicast: the
    host whose socket received it), which query it echoes (`tag`: makes datagrams with the
    same records distinct on the wire) and its records (answers ++ additionals) -/
structure Dgram where
  src : Nat
  tag : Nat
  recs : List Rec
  deriving DecidableEq, Repr

/-! ### ServiceParser -/

/-- `record.qtype == PTR and record.qname.startswith("_")` → goes to `ptrs` -/
def Rec.isPtrEntry (r : Rec) : Bool :=
  match r.rd, r.name with
  | .ptr _, .typ _ => true
  | _, _ => false

def tableRecs (rs : List Rec) : List Rec := rs.filter (fun r => !r.isPtrEntry)

/-- `self.table.keys()` -/
def tableNames (rs : List Rec) : List RName := firsts ((tableRecs rs).map (·.name))

/-- `self.table[n][q]` (duplicates suppressed by `record not in entry`) -/
def entry (rs : List Rec) (n : RName) (q : QT) : List Rec :=
  firsts ((tableRecs rs).filter (fun r => decide (r.name = n) && decide (r.rd.qt = q)))

/-- `_first_rd` -/
def firstRd (rs : List Rec) (n : RName) (q : QT) : Option RData := (entry rs n q).head?.map (·.rd)

/-- `ServiceInstanceName.split_name`: (instance, type); instance 0 = `None` -/
def splitName : RName → Option (Nat × Nat)
  | .svc i t => some (i, t)
  | .typ t => some (0, t)
  | .host _ => none

structure Svc where
  type : Nat
  inst : Nat
  addr : Option Nat
  port : Nat
  txt : Nat          -- 0 = no TXT record / empty properties
  ph : Bool          -- place-holder created from a PTR
  deriving DecidableEq, Repr

/-- an A record with an address that is not link-local -/
def routable (r : Rec) : Option Nat :=
  match r.rd with
  | .addr a false => some a
  | _ => none

def srvPort : Option RData → Nat
  | some (.srv p _) => p
  | _ => 0

def srvTarget : Option RData → Option RName
  | some (.srv _ t) => some t
  | _ => none

def txtId : Option RData → Nat
  | some (.txt x) => x
  | _ => 0

/-- "Pick one address that is not link-local" among the A records of the SRV target
    (`self.table.get(target, {}).get(QueryType.A, [])`) -/
def svcAddr (rs : List Rec) (srv : Option RData) : Option Nat :=
  match srvTarget srv with
  | some tg => ((entry rs tg .a).filterMap routable).head?
  | none => none

/-- body of the `for service, device in self.table.items()` loop -/
def mkSvc (rs : List Rec) (n : RName) : Option Svc :=
  match splitName n with
  | none => none
  | some (i, t) =>
    some ⟨t, i, svcAddr rs (firstRd rs n .srv), srvPort (firstRd rs n .srv), txtId (firstRd rs n .txt), false⟩

def tableSvcs (rs : List Rec) : List Svc := (tableNames rs).filterMap (mkSvc rs)

def ptrRecs (rs : List Rec) : List Rec := rs.filter (·.isPtrEntry)

def ptrType (r : Rec) : Option Nat :=
  match r.name with
  | .typ t => some t
  | _ => none

def ptrTargetOf (r : Rec) : Option RName :=
  match r.rd with
  | .ptr tg => some tg
  | _ => none

/-- `self.ptrs.keys()` -/
def ptrKeys (rs : List Rec) : List Nat := firsts ((ptrRecs rs).filterMap ptrType)

/-- `self.ptrs[qname]` (last wins) -/
def ptrTarget (rs : List Rec) (t : Nat) : Option RName :=
  ((ptrRecs rs).filter (fun r => decide (r.name = .typ t))).getLast?.bind ptrTargetOf

def instOf : RName → Nat
  | .svc i _ => i
  | _ => 0

/-- "If there are PTRs to unknown services, create placeholders": `results` is keyed by the
    real name, so only the first qname pointing at an unknown name creates one -/
def placeholders (rs : List Rec) : List Svc :=
  let known := (tableNames rs).filter (fun n => (splitName n).isSome)
  let cands := (ptrKeys rs).filterMap (fun t => (ptrTarget rs t).map (fun tg => (tg, t)))
  (agg (cands.filter (fun c => !decide (c.1 ∈ known)))).map (fun c => ⟨c.2, instOf c.1, none, 0, 0, true⟩)

/-- `ServiceParser.parse` after `add_message` of messages whose records are `rs` (in order) -/
def parse (rs : List Rec) : List Svc := tableSvcs rs ++ placeholders rs

/-! ### what one service means to the protocols (parameters) -/

structure SvcInfo where
  proto : Nat
  ident : Option Nat       -- `some 0` = the empty string (falsy in `ready`)
  name : Nat
  deriving DecidableEq, Repr

/-- outcome of `self._services[type][0](service, response)` inside `_service_discovered` -/
inductive HRes
  | raised                 -- exception: logged, nothing recorded for this service
  | nores                  -- handler returned `None`: only the properties are saved
  | res (i : SvcInfo)
  deriving DecidableEq, Repr

structure Env where
  /-- `scanner.services`: registered service types (always contains the two below) -/
  req : List Nat
  devInfoT : Nat
  sleepT : Nat
  /-- (type, instance, txt) ↦ handler outcome -/
  handler : Nat → Nat → Nat → HRes
  /-- txt ↦ decoded properties, lower-cased keys, TXT order -/
  props : Nat → List (Nat × Nat)
  /-- (type, txt) ↦ `extractor(type, props).get(DeviceInfo.MODEL)` -/
  devModel : Nat → Nat → Option Nat
  /-- txt ↦ `lookup_internal_name(props.get("model"))` unless `Unknown` -/
  infoModel : Nat → Option Nat

/-- `service.type in self.services or service.type in [DEVICE_INFO_SERVICE, SLEEP_PROXY_SERVICE]` -/
def Env.requested (e : Env) (t : Nat) : Bool :=
  decide (t ∈ e.req) || decide (t = e.devInfoT) || decide (t = e.sleepT)

/-- `service.type in self._services` (handle_response) -/
def Env.registered (e : Env) (t : Nat) : Bool := decide (t ∈ e.req)

structure Resp where
  svcs : List Svc
  deep : Bool
  rmodel : Option Nat
  deriving DecidableEq, Repr

def svcModel (e : Env) (s : Svc) : Option Nat := if s.ph then none else e.infoModel s.txt

/-- `_get_model` followed by `lookup_internal_name` -/
def getModel (e : Env) (svcs : List Svc) : Option Nat :=
  ((svcs.filter (fun s => decide (s.type = e.devInfoT))).head?.map (svcModel e)).join

def respOf (e : Env) (rs : List Rec) (deep : Bool) : Resp :=
  ⟨parse rs, deep, getModel e (parse rs)⟩

/-! ### multicast: per-source aggregation -/

/-- datagram survives the `if not services: return` and "Ignore responses from other
    services" checks (decided on this datagram alone, with a fresh parser) -/
def accepted (e : Env) (d : Dgram) : Bool :=
  !(parse d.recs).isEmpty && (parse d.recs).all (fun s => e.requested s.type)

/-- `is_sleep_proxy = all(service.port == 0 for service in services)` -/
def sleepProxy (d : Dgram) : Bool := (parse d.recs).all (fun s => s.port == 0)

def mcastResp (e : Env) (l : List Dgram) (s : Nat) : Resp :=
  let ds := l.filter (fun d => decide (d.src = s) && accepted e d)
  respOf e (ds.flatMap (·.recs)) (ds.any sleepProxy)

/-- `self.query_responses` is filled by `setdefault(addr[0], …)` *before* any check -/
def mcastSources (l : List Dgram) : List Nat := firsts (l.map (·.src))

def mcastResponses (e : Env) (l : List Dgram) : List Resp := (mcastSources l).map (mcastResp e l)

/-! ### unicast: one protocol object per host, count-based termination -/

def emptyResp : Resp := ⟨[], false, none⟩

/-- datagrams the protocol of host `h` actually processes: byte-identical repeats are
    ignored (fix), the socket is closed after `nq` of them -/
def ucastSeen (l : List Dgram) (h : Nat) : List Dgram := firsts (l.filter (fun d => decide (d.src = h)))

def ucastResp (e : Env) (nq : Nat) (l : List Dgram) (h : Nat) : Resp :=
  let ds := ucastSeen l h
  if ds.length < nq then emptyResp          -- `wait_for` times out ⇒ `Response([], False, None)`
  else respOf e ((ds.take nq).flatMap (·.recs)) false

def ucastResponses (e : Env) (nq : Nat) (hosts : List Nat) (l : List Dgram) : List Resp :=
  hosts.map (ucastResp e nq l)

/-- the pinned (unrepaired) code: every datagram counts -/
def ucastRespLegacy (e : Env) (nq : Nat) (l : List Dgram) (h : Nat) : Resp :=
  let ds := l.filter (fun d => decide (d.src = h))
  if ds.length < nq then emptyResp
  else respOf e ((ds.take nq).flatMap (·.recs)) false

/-! ### BaseScanner.handle_response / _service_discovered -/

/-- a service that gets past `type in self._services`, `address is None or port == 0` -/
structure Hd where
  addr : Nat
  type : Nat
  inst : Nat
  port : Nat
  txt : Nat
  deep : Bool
  rmodel : Option Nat
  deriving DecidableEq, Repr

def hdOfSvc (e : Env) (deep : Bool) (rmodel : Option Nat) (s : Svc) : Option Hd :=
  if e.registered s.type then
    match s.addr with
    | some a => if s.port = 0 then none else some ⟨a, s.type, s.inst, s.port, s.txt, deep, rmodel⟩
    | none => none
  else none

def hdOf (e : Env) (r : Resp) : List Hd := r.svcs.filterMap (hdOfSvc e r.deep r.rmodel)

def handled (e : Env) (rs : List Resp) : List Hd := rs.flatMap (hdOf e)

def Hd.res (e : Env) (h : Hd) : HRes := e.handler h.type h.inst h.txt

/-- handler returned (name, service): the service is appended to the found device -/
def yields (e : Env) (h : Hd) : Option (Hd × SvcInfo) :=
  match h.res e with
  | .res i => some (h, i)
  | _ => none

/-- `self._properties[address][type] = properties` reached (no exception) -/
def saved (e : Env) (h : Hd) : Bool :=
  match h.res e with
  | .raised => false
  | _ => true

/-! ### discover: FoundDevice → conf.AppleTV -/

structure RawSvc where
  proto : Nat
  port : Nat
  ident : Option Nat
  props : List (Nat × Nat)
  deriving DecidableEq, Repr

structure RawCfg where
  addr : Nat
  name : Nat
  deep : Bool
  model : Option Nat
  svcs : List RawSvc
  deriving DecidableEq, Repr

/-- `dict.update` applied left to right: keys in first-insertion order, last value wins -/
def mergeProps (ps : List (List (Nat × Nat))) : List (Nat × Nat) :=
  (firsts (ps.flatten.map (·.1))).filterMap fun k =>
    (ps.flatten.filter (fun kv => decide (kv.1 = k))).getLast?.map (fun kv => (k, kv.2))

/-- `AppleTV.add_service`: the first service of a protocol stays (port, identifier), later
    ones are merged into it (`BaseService.merge`: properties updated) -/
def rawSvc (e : Env) (gy : List (Hd × SvcInfo)) (p : Nat) : Option RawSvc :=
  let gp := gy.filter (fun x => decide (x.2.proto = p))
  gp.head?.map fun x => ⟨p, x.1.port, x.2.ident, mergeProps (gp.map fun y => e.props y.1.txt)⟩

/-- `_get_device_info`: `self._properties[address]` iterated in insertion order of the
    service types, each type holding the properties saved last; `dict_merge` keeps the
    first model -/
def devModelOf (e : Env) (g : List Hd) : Option Nat :=
  ((firsts (g.map (·.type))).filterMap fun t =>
    ((g.filter (fun h => decide (h.type = t))).getLast?.map (fun h => e.devModel t h.txt)).join).head?

/-- what the first yielding service of an address contributes to `FoundDevice` -/
def foundOf (x : Hd × SvcInfo) : Nat × Bool × Option Nat := (x.2.name, x.1.deep, x.1.rmodel)

/-- the part of `foundOf` that reaches the snapshot: the response's deep-sleep flag and model
    (the device name - whichever service's name comes first - is not part of the observation) -/
def flagsOf (x : Hd × SvcInfo) : Bool × Option Nat := (x.1.deep, x.1.rmodel)

def cfgOf (e : Env) (a : Nat) (g : List Hd) (gy : List (Hd × SvcInfo)) (f : Nat × Bool × Option Nat) : RawCfg :=
  ⟨a, f.1, f.2.1,
    match devModelOf e (g.filter (saved e)) with
    | some m => some m
    | none => f.2.2,
    (firsts (gy.map (·.2.proto))).filterMap (rawSvc e gy)⟩

def rawCfg (e : Env) (hs : List Hd) (a : Nat) : Option RawCfg :=
  let g := hs.filter (fun h => decide (h.addr = a))
  let gy := g.filterMap (yields e)
  (gy.head?.map foundOf).map (cfgOf e a g gy)

/-- `self._found_devices.keys()` -/
def foundAddrs (e : Env) (hs : List Hd) : List Nat := firsts ((hs.filterMap (yields e)).map (·.1.addr))

def discover (e : Env) (hs : List Hd) : List RawCfg := (foundAddrs e hs).filterMap (rawCfg e hs)

def identOk : Option Nat → Bool
  | some n => n != 0
  | none => false

/-- `BaseConfig.ready`: some service has a (truthy) identifier -/
def ready (c : RawCfg) : Bool := c.svcs.any (fun s => identOk s.ident)

/-- `pyatv.scan` without identifier: `[d for d in devices if _should_include(d)]` -/
def scanResult (e : Env) (hs : List Hd) : List RawCfg := (discover e hs).filter ready

def scanM (e : Env) (l : List Dgram) : List RawCfg := scanResult e (handled e (mcastResponses e l))

def scanU (e : Env) (nq : Nat) (hosts : List Nat) (l : List Dgram) : List RawCfg :=
  scanResult e (handled e (ucastResponses e nq hosts l))

def scanULegacy (e : Env) (nq : Nat) (hosts : List Nat) (l : List Dgram) : List RawCfg :=
  scanResult e (handled e (hosts.map (ucastRespLegacy e nq l)))

/-! ### the observation: normalised snapshot -/

structure Snap where
  addr : Nat
  ids : List Nat               -- `all_identifiers`, sorted
  svcs : List RawSvc           -- sorted by protocol, properties sorted by key
  model : Option Nat
  deep : Bool
  deriving DecidableEq, Repr

def canonSvc (s : RawSvc) : RawSvc := { s with props := sortOn (·.1) s.props }

def canonCfg (c : RawCfg) : Snap :=
  ⟨c.addr, sortOn id ((c.svcs.map canonSvc).filterMap (·.ident)), sortOn (·.proto) (c.svcs.map canonSvc),
    c.model, c.deep⟩

def snapshot (cs : List RawCfg) : List Snap := sortOn (·.addr) (cs.map canonCfg)

/-! ### self-consistency (explicit, decidable) -/

/-- the part of a record that `parse` reads through a first-wins lookup -/
def keyed (r : Rec) : Option RData :=
  match r.rd with
  | .srv p t => some (.srv p t)
  | .txt x => some (.txt x)
  | .addr a false => some (.addr a false)
  | _ => none

def recPairOk (r₁ r₂ : Rec) : Bool :=
  if r₁.name = r₂.name ∧ r₁.rd.qt = r₂.rd.qt then
    match keyed r₁, keyed r₂ with
    | some v₁, some v₂ => decide (v₁ = v₂)
    | _, _ => true
  else true

/-- one SRV and one TXT rdata per name, one routable A record per name -/
def RecsConsistent (rs : List Rec) : Prop := ∀ r₁ ∈ rs, ∀ r₂ ∈ rs, recPairOk r₁ r₂ = true

/-- all `_device-info` services of one response give the same model -/
def RespConsistent (e : Env) (r : Resp) : Prop :=
  ∀ s₁ ∈ r.svcs, ∀ s₂ ∈ r.svcs, s₁.type = e.devInfoT → s₂.type = e.devInfoT → s₁.ph = false → s₂.ph = false →
    e.infoModel s₁.txt = e.infoModel s₂.txt

def propsAgree (p₁ p₂ : List (Nat × Nat)) : Bool :=
  p₁.all fun kv₁ => p₂.all fun kv₂ => !decide (kv₁.1 = kv₂.1) || decide (kv₁.2 = kv₂.2)

def optAgree : Option Nat → Option Nat → Bool
  | some a, some b => a == b
  | _, _ => true

/-- same type (both saved): same TXT payload -/
def sameTypeOk (e : Env) (h₁ h₂ : Hd) : Bool :=
  !(saved e h₁ && saved e h₂ && decide (h₁.type = h₂.type)) || decide (h₁.txt = h₂.txt)

/-- the models the `device_info` extractors derive agree -/
def modelOk (e : Env) (h₁ h₂ : Hd) : Bool :=
  !(saved e h₁ && saved e h₂) || optAgree (e.devModel h₁.type h₁.txt) (e.devModel h₂.type h₂.txt)

/-- both yield a service: same response flags (deep sleep, `_device-info` model); if they map to the
    same pyatv protocol also the same port and identifier and no disagreement on a property key.
    The device NAMES the services yield may differ (mDNS-renamed instance "HomePod (2)" next to
    `Name=HomePod`): the name is not part of the snapshot. -/
def yieldOk (e : Env) (h₁ h₂ : Hd) : Bool :=
  match yields e h₁, yields e h₂ with
  | some x₁, some x₂ =>
    decide (flagsOf x₁ = flagsOf x₂) &&
    (!decide (x₁.2.proto = x₂.2.proto) ||
      (decide (h₁.port = h₂.port) && decide (x₁.2.ident = x₂.2.ident) &&
        propsAgree (e.props h₁.txt) (e.props h₂.txt)))
  | _, _ => true

/-- two handled services of the same address do not contradict each other -/
def hdPairOk (e : Env) (h₁ h₂ : Hd) : Bool :=
  !decide (h₁.addr = h₂.addr) || (sameTypeOk e h₁ h₂ && modelOk e h₁ h₂ && yieldOk e h₁ h₂)

def HdConsistent (e : Env) (hs : List Hd) : Prop := ∀ h₁ ∈ hs, ∀ h₂ ∈ hs, hdPairOk e h₁ h₂ = true

instance (rs : List Rec) : Decidable (RecsConsistent rs) := by unfold RecsConsistent; infer_instance
instance (e : Env) (r : Resp) : Decidable (RespConsistent e r) := by unfold RespConsistent; infer_instance
instance (e : Env) (hs : List Hd) : Decidable (HdConsistent e hs) := by unfold HdConsistent; infer_instance

/-- all records a source ever sent -/
def recsFrom (l : List Dgram) (s : Nat) : List Rec := (l.filter (fun d => decide (d.src = s))).flatMap (·.recs)

/-- The devices answering the scan are self-consistent (multicast reading: a device is a
    source address).  Stated on what the devices sent (`recsFrom`) and on the services
    the scanner derives from it. -/
def SelfConsistentM (e : Env) (l : List Dgram) : Prop :=
  (∀ s ∈ mcastSources l, RecsConsistent (recsFrom l s)) ∧
  (∀ r ∈ mcastResponses e l, RespConsistent e r) ∧
  HdConsistent e (handled e (mcastResponses e l))

/-- unicast reading: a device is a host of the `hosts` list; it sends at most one distinct
    response per query (`nq` queries) -/
def SelfConsistentU (e : Env) (nq : Nat) (hosts : List Nat) (l : List Dgram) : Prop :=
  (∀ h ∈ hosts, RecsConsistent (recsFrom l h)) ∧
  (∀ r ∈ ucastResponses e nq hosts l, RespConsistent e r) ∧
  HdConsistent e (handled e (ucastResponses e nq hosts l))

/-- every host answers each query with at most one distinct datagram -/
def OnePerQuery (nq : Nat) (hosts : List Nat) (l : List Dgram) : Prop :=
  ∀ h ∈ hosts, (ucastSeen l h).length ≤ nq

instance (e : Env) (l : List Dgram) : Decidable (SelfConsistentM e l) := by unfold SelfConsistentM; infer_instance
instance (e : Env) (nq : Nat) (hosts : List Nat) (l : List Dgram) : Decidable (SelfConsistentU e nq hosts l) := by
  unfold SelfConsistentU; infer_instance
instance (nq : Nat) (hosts : List Nat) (l : List Dgram) : Decidable (OnePerQuery nq hosts l) := by
  unfold OnePerQuery; infer_instance

end PyatvModel.C12
