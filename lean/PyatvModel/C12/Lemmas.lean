import PyatvModel.C12.Model
/-
Helper lemmas for Props/C12.lean (core Lean only).  Structure:
  1. parse level:   same record set (consistent) ⇒ same table services up to order
  2. response level: `hdOf (respOf …)` depends on the record set only (up to order)
  3. scanner level: multicast / unicast handled lists are permutations
  4. device level:  a permuted consistent handled list gives the same snapshot
-/
namespace PyatvModel.C12
open PyatvModel.Agg

/-! ### 1. parse level -/

theorem RecsConsistent.mono {R R' : List Rec} (h : ∀ r ∈ R', r ∈ R) (hc : RecsConsistent R) :
    RecsConsistent R' := fun r₁ h₁ r₂ h₂ => hc r₁ (h r₁ h₁) r₂ (h r₂ h₂)

theorem tableRecs_sameSet {R₁ R₂ : List Rec} (h : SameSet R₁ R₂) : SameSet (tableRecs R₁) (tableRecs R₂) :=
  h.filter _

theorem tableNames_perm {R₁ R₂ : List Rec} (h : SameSet R₁ R₂) : (tableNames R₁).Perm (tableNames R₂) :=
  firsts_perm_of_sameSet ((tableRecs_sameSet h).map _)

theorem mem_entry {R : List Rec} {n : RName} {q : QT} {r : Rec} (h : r ∈ entry R n q) :
    r ∈ R ∧ r.name = n ∧ r.rd.qt = q := by
  unfold entry at h
  rw [mem_firsts] at h
  simp only [tableRecs, List.mem_filter, Bool.and_eq_true, decide_eq_true_eq] at h
  exact ⟨h.1.1, h.2.1, h.2.2⟩

theorem entry_sameSet {R₁ R₂ : List Rec} (h : SameSet R₁ R₂) (n : RName) (q : QT) :
    SameSet (entry R₁ n q) (entry R₂ n q) :=
  (firsts_sameSet _).trans (((tableRecs_sameSet h).filter _).trans (firsts_sameSet _).symm)

theorem rd_eq_of_pairOk {x y : Rec} {q : QT} (hq : q = .srv ∨ q = .txt) (hx : x.rd.qt = q) (hy : y.rd.qt = q)
    (hn : x.name = y.name) (hok : recPairOk x y = true) : x.rd = y.rd := by
  obtain ⟨xn, xt, xrd⟩ := x
  obtain ⟨yn, yt, yrd⟩ := y
  simp only at hn hx hy
  subst hn
  rcases hq with rfl | rfl <;> cases xrd <;> cases yrd <;>
    simp_all [recPairOk, keyed, RData.qt]

theorem routable_eq_of_pairOk {x y : Rec} {a b : Nat} (hn : x.name = y.name) (hx : routable x = some a)
    (hy : routable y = some b) (hok : recPairOk x y = true) : a = b := by
  obtain ⟨xn, xt, xrd⟩ := x
  obtain ⟨yn, yt, yrd⟩ := y
  simp only at hn
  subst hn
  cases xrd <;> cases yrd <;> simp_all [recPairOk, keyed, RData.qt, routable]
  all_goals (rename_i a₁ l₁ a₂ l₂; cases l₁ <;> cases l₂ <;> simp_all)

theorem firstRd_eq {R₁ R₂ : List Rec} (hc : RecsConsistent R₁) (h : SameSet R₁ R₂) (n : RName) (q : QT)
    (hq : q = .srv ∨ q = .txt) : firstRd R₁ n q = firstRd R₂ n q := by
  unfold firstRd
  apply pick_head _ (entry_sameSet h n q)
  intro x hx y hy
  obtain ⟨hxR, hxn, hxq⟩ := mem_entry hx
  obtain ⟨hyR, hyn, hyq⟩ := mem_entry hy
  exact rd_eq_of_pairOk hq hxq hyq (hxn.trans hyn.symm) (hc x hxR y hyR)

theorem svcAddr_eq {R₁ R₂ : List Rec} (hc : RecsConsistent R₁) (h : SameSet R₁ R₂) (srv : Option RData) :
    svcAddr R₁ srv = svcAddr R₂ srv := by
  unfold svcAddr
  cases srvTarget srv with
  | none => rfl
  | some tg =>
    simp only
    have := pick_head id ((entry_sameSet h tg .a).filterMap routable) (by
      intro a ha b hb
      obtain ⟨x, hx, hxa⟩ := List.mem_filterMap.mp ha
      obtain ⟨y, hy, hyb⟩ := List.mem_filterMap.mp hb
      obtain ⟨hxR, hxn, _⟩ := mem_entry hx
      obtain ⟨hyR, hyn, _⟩ := mem_entry hy
      exact routable_eq_of_pairOk (hxn.trans hyn.symm) hxa hyb (hc x hxR y hyR))
    simpa using this

theorem mkSvc_eq {R₁ R₂ : List Rec} (hc : RecsConsistent R₁) (h : SameSet R₁ R₂) (n : RName) :
    mkSvc R₁ n = mkSvc R₂ n := by
  unfold mkSvc
  rw [firstRd_eq hc h n .srv (Or.inl rfl), firstRd_eq hc h n .txt (Or.inr rfl), svcAddr_eq hc h]

theorem tableSvcs_perm {R₁ R₂ : List Rec} (hc : RecsConsistent R₁) (h : SameSet R₁ R₂) :
    (tableSvcs R₁).Perm (tableSvcs R₂) := by
  unfold tableSvcs
  have : mkSvc R₁ = mkSvc R₂ := funext (mkSvc_eq hc h)
  rw [this]
  exact (tableNames_perm h).filterMap _

theorem ph_of_mem_tableSvcs {R : List Rec} {s : Svc} (h : s ∈ tableSvcs R) : s.ph = false := by
  unfold tableSvcs at h
  obtain ⟨n, _, hn⟩ := List.mem_filterMap.mp h
  unfold mkSvc at hn
  split at hn
  · exact absurd hn (by simp)
  · simp only [Option.some.injEq] at hn
    rw [← hn]

theorem of_mem_placeholders {R : List Rec} {s : Svc} (h : s ∈ placeholders R) : s.addr = none ∧ s.ph = true := by
  unfold placeholders at h
  obtain ⟨c, _, rfl⟩ := List.mem_map.mp h
  exact ⟨rfl, rfl⟩

/-! ### 2. response level -/

/-- handled services of a response, computed from the table services only -/
def hdT (e : Env) (rs : List Rec) (deep : Bool) : List Hd :=
  (tableSvcs rs).filterMap (hdOfSvc e deep (getModel e (tableSvcs rs)))

theorem getModel_append (e : Env) (A P : List Svc) (hP : ∀ s ∈ P, s.ph = true) :
    getModel e (A ++ P) = getModel e A := by
  unfold getModel
  rw [List.filter_append]
  cases hA : A.filter (fun s => decide (s.type = e.devInfoT)) with
  | cons a t => simp
  | nil =>
    simp only [List.nil_append, List.head?_nil, Option.map_none, Option.join_none]
    cases hPf : P.filter (fun s => decide (s.type = e.devInfoT)) with
    | nil => simp
    | cons b t =>
      have hb : b ∈ P := (List.mem_filter.mp (hPf ▸ List.mem_cons_self)).1
      simp [svcModel, hP b hb]

theorem hdOf_respOf (e : Env) (rs : List Rec) (deep : Bool) : hdOf e (respOf e rs deep) = hdT e rs deep := by
  unfold hdOf respOf hdT parse
  simp only
  rw [getModel_append e _ _ (fun s hs => (of_mem_placeholders hs).2), List.filterMap_append]
  have : (placeholders rs).filterMap (hdOfSvc e deep (getModel e (tableSvcs rs))) = [] := by
    rw [List.filterMap_eq_nil_iff]
    intro s hs
    simp [hdOfSvc, (of_mem_placeholders hs).1]
  rw [this, List.append_nil]

theorem getModel_eq_of_perm (e : Env) {A₁ A₂ : List Svc} (h : A₁.Perm A₂)
    (hc : ∀ s₁ ∈ A₁, ∀ s₂ ∈ A₁, s₁.type = e.devInfoT → s₂.type = e.devInfoT → svcModel e s₁ = svcModel e s₂) :
    getModel e A₁ = getModel e A₂ := by
  unfold getModel
  congr 1
  apply pick_head _ (SameSet.of_perm (h.filter _))
  intro x hx y hy
  simp only [List.mem_filter, decide_eq_true_eq] at hx hy
  exact hc x hx.1 y hy.1 hx.2 hy.2

theorem mem_parse_of_mem_tableSvcs {R : List Rec} {s : Svc} (h : s ∈ tableSvcs R) : s ∈ parse R :=
  List.mem_append_left _ h

/-- the handled services of a response depend only on the set of (consistent) records -/
theorem hdT_perm (e : Env) {R₁ R₂ : List Rec} (deep : Bool) (hc : RecsConsistent R₁) (h : SameSet R₁ R₂)
    (hr : RespConsistent e (respOf e R₁ deep)) : (hdT e R₁ deep).Perm (hdT e R₂ deep) := by
  unfold hdT
  have hp := tableSvcs_perm hc h
  have hm : getModel e (tableSvcs R₁) = getModel e (tableSvcs R₂) := by
    apply getModel_eq_of_perm e hp
    intro s₁ h₁ s₂ h₂ t₁ t₂
    have p₁ := ph_of_mem_tableSvcs h₁
    have p₂ := ph_of_mem_tableSvcs h₂
    simp only [svcModel, p₁, p₂, Bool.false_eq_true, if_false]
    exact hr s₁ (mem_parse_of_mem_tableSvcs h₁) s₂ (mem_parse_of_mem_tableSvcs h₂) t₁ t₂ p₁ p₂
  rw [hm]
  exact hp.filterMap _

theorem hdT_nil (e : Env) (deep : Bool) : hdT e [] deep = [] := by
  simp [hdT, tableSvcs, tableNames, tableRecs, firsts, agg, aggFrom]

theorem hdOf_emptyResp (e : Env) : hdOf e emptyResp = [] := by simp [hdOf, emptyResp]

/-! ### 3. scanner level -/

theorem flatMap_filter_of_nil {α β : Type} (ks : List α) (g : α → List β) (p : α → Bool)
    (h : ∀ k ∈ ks, p k = false → g k = []) : ks.flatMap g = (ks.filter p).flatMap g := by
  induction ks with
  | nil => rfl
  | cons k ks ih =>
    have ih' := ih (fun k' hk' => h k' (List.mem_cons_of_mem _ hk'))
    cases hp : p k with
    | true => simp [hp, ih']
    | false => simp [hp, ih', h k List.mem_cons_self hp]

/-- iterating a dict with extra keys whose entries contribute nothing -/
theorem flatMap_perm_of_subset {β : Type} (ks₁ ks₂ : List Nat) (g : Nat → List β) (n₁ : ks₁.Nodup) (n₂ : ks₂.Nodup)
    (hsub : ∀ k ∈ ks₂, k ∈ ks₁) (hnil : ∀ k ∈ ks₁, k ∉ ks₂ → g k = []) :
    (ks₁.flatMap g).Perm (ks₂.flatMap g) := by
  rw [flatMap_filter_of_nil ks₁ g (fun k => decide (k ∈ ks₂)) (fun k hk hp => hnil k hk (by simpa using hp))]
  apply List.Perm.flatMap_right
  rw [List.perm_ext_iff_of_nodup (n₁.filter _) n₂]
  intro a
  simp only [List.mem_filter, decide_eq_true_eq]
  exact ⟨fun h => h.2, fun h => ⟨hsub a h, h⟩⟩

theorem handled_map {α : Type} (e : Env) (ks : List α) (f : α → Resp) :
    handled e (ks.map f) = ks.flatMap (fun k => hdOf e (f k)) := by
  unfold handled
  induction ks with
  | nil => rfl
  | cons k ks ih => simp [ih]

/-- the datagrams that survive the per-datagram checks of the multicast protocol -/
def acc (e : Env) (l : List Dgram) : List Dgram := l.filter (accepted e)

def accFrom (e : Env) (l : List Dgram) (s : Nat) : List Dgram := (acc e l).filter (fun d => decide (d.src = s))

theorem mcastResp_eq (e : Env) (l : List Dgram) (s : Nat) :
    mcastResp e l s = respOf e ((accFrom e l s).flatMap (·.recs)) ((accFrom e l s).any sleepProxy) := by
  unfold mcastResp accFrom acc
  rw [List.filter_filter]

def accSources (e : Env) (l : List Dgram) : List Nat := firsts ((acc e l).map (·.src))

theorem accFrom_nil_of_not_mem (e : Env) (l : List Dgram) (s : Nat) (h : s ∉ accSources e l) : accFrom e l s = [] := by
  unfold accFrom
  rw [List.filter_eq_nil_iff]
  intro d hd hs
  simp only [decide_eq_true_eq] at hs
  apply h
  unfold accSources
  rw [mem_firsts]
  exact List.mem_map.mpr ⟨d, hd, hs⟩

theorem accSources_subset (e : Env) (l : List Dgram) (s : Nat) (h : s ∈ accSources e l) : s ∈ mcastSources l := by
  unfold accSources at h
  unfold mcastSources
  rw [mem_firsts] at *
  obtain ⟨d, hd, rfl⟩ := List.mem_map.mp h
  exact List.mem_map.mpr ⟨d, (List.mem_filter.mp hd).1, rfl⟩

/-- handled services of one multicast source -/
def mHd (e : Env) (l : List Dgram) (s : Nat) : List Hd :=
  hdT e ((accFrom e l s).flatMap (·.recs)) ((accFrom e l s).any sleepProxy)

theorem mH_eq (e : Env) (l : List Dgram) :
    handled e (mcastResponses e l) = (mcastSources l).flatMap (mHd e l) := by
  unfold mcastResponses
  rw [handled_map]
  congr 1
  funext s
  rw [mcastResp_eq, hdOf_respOf]
  rfl

theorem mH_perm_acc (e : Env) (l : List Dgram) :
    (handled e (mcastResponses e l)).Perm ((accSources e l).flatMap (mHd e l)) := by
  rw [mH_eq]
  apply flatMap_perm_of_subset _ _ _ (nodup_firsts _) (nodup_firsts _) (accSources_subset e l)
  intro s _ hs
  unfold mHd
  rw [accFrom_nil_of_not_mem e l s hs]
  exact hdT_nil e _

theorem accFrom_sameSet (e : Env) {l₁ l₂ : List Dgram} (h : SameSet (acc e l₁) (acc e l₂)) (s : Nat) :
    SameSet (accFrom e l₁ s) (accFrom e l₂ s) := h.filter _

/-- multicast: the handled services depend only on the set of accepted datagrams -/
theorem mH_perm (e : Env) {l₁ l₂ : List Dgram} (hc : SelfConsistentM e l₁) (h : SameSet (acc e l₁) (acc e l₂)) :
    (handled e (mcastResponses e l₁)).Perm (handled e (mcastResponses e l₂)) := by
  refine (mH_perm_acc e l₁).trans (List.Perm.trans ?_ (mH_perm_acc e l₂).symm)
  apply perm_flatMap _ _ (firsts_perm_of_sameSet (h.map _))
  intro s hs
  have hs' : s ∈ mcastSources l₁ := accSources_subset e l₁ s hs
  unfold mHd
  have hss := accFrom_sameSet e h s
  rw [← hss.any sleepProxy]
  apply hdT_perm e _ _ (hss.flatMap _)
  · rw [← mcastResp_eq]
    apply hc.2.1
    unfold mcastResponses
    exact List.mem_map.mpr ⟨s, hs', rfl⟩
  · apply (hc.1 s hs').mono
    intro r hr
    unfold recsFrom
    obtain ⟨d, hd, hrd⟩ := List.mem_flatMap.mp hr
    unfold accFrom acc at hd
    simp only [List.mem_filter] at hd
    exact List.mem_flatMap.mpr ⟨d, List.mem_filter.mpr ⟨hd.1.1, hd.2⟩, hrd⟩

/-- unicast: same set of datagrams, at most one distinct datagram per query -/
theorem uH_perm (e : Env) (nq : Nat) (hosts : List Nat) {l₁ l₂ : List Dgram}
    (hc : SelfConsistentU e nq hosts l₁) (ho : OnePerQuery nq hosts l₁) (h : SameSet l₁ l₂) :
    (handled e (ucastResponses e nq hosts l₁)).Perm (handled e (ucastResponses e nq hosts l₂)) := by
  unfold ucastResponses
  rw [handled_map, handled_map]
  apply perm_flatMap_of_pointwise
  intro a ha
  have hseen : (ucastSeen l₁ a).Perm (ucastSeen l₂ a) := firsts_perm_of_sameSet (h.filter _)
  have hlen := hseen.length_eq
  have hle := ho a ha
  have hr := hc.2.1 (ucastResp e nq l₁ a) (List.mem_map.mpr ⟨a, ha, rfl⟩)
  unfold ucastResp at hr ⊢
  simp only at hr ⊢
  rw [← hlen]
  by_cases hlt : (ucastSeen l₁ a).length < nq
  · simp [hlt]
  · simp only [hlt, if_false] at hr ⊢
    rw [List.take_of_length_le hle, List.take_of_length_le (hlen ▸ hle)] at *
    rw [hdOf_respOf, hdOf_respOf]
    apply hdT_perm e _ _ ((SameSet.of_perm hseen).flatMap _) hr
    apply (hc.1 a ha).mono
    intro r hr'
    unfold recsFrom
    obtain ⟨d, hd, hrd⟩ := List.mem_flatMap.mp hr'
    unfold ucastSeen at hd
    rw [mem_firsts] at hd
    exact List.mem_flatMap.mpr ⟨d, hd, hrd⟩

/-! ### 4. device level -/

theorem pairOk_parts (e : Env) {h₁ h₂ : Hd} (ha : h₁.addr = h₂.addr) (hok : hdPairOk e h₁ h₂ = true) :
    sameTypeOk e h₁ h₂ = true ∧ modelOk e h₁ h₂ = true ∧ yieldOk e h₁ h₂ = true := by
  simpa [hdPairOk, ha, Bool.and_eq_true, and_assoc] using hok

theorem yields_fst (e : Env) {h : Hd} {x : Hd × SvcInfo} (hx : yields e h = some x) : x.1 = h := by
  unfold yields at hx
  split at hx
  · simp only [Option.some.injEq] at hx; rw [← hx]
  · exact absurd hx (by simp)

theorem mergeProps_sorted_eq {ps₁ ps₂ : List (List (Nat × Nat))} (h : ps₁.flatten.Perm ps₂.flatten)
    (hc : ∀ kv₁ ∈ ps₁.flatten, ∀ kv₂ ∈ ps₁.flatten, kv₁.1 = kv₂.1 → kv₁.2 = kv₂.2) :
    sortOn (·.1) (mergeProps ps₁) = sortOn (·.1) (mergeProps ps₂) := by
  unfold mergeProps
  apply sortOn_filterMap_congr _ _ _ (firsts_perm_of_sameSet ((SameSet.of_perm h).map _))
  · intro k _
    have e1 : ∀ X : List (Nat × Nat), X.getLast?.map (fun kv => (k, kv.2)) =
        (X.getLast?.map (·.2)).map (fun v => (k, v)) := by
      intro X; cases X.getLast? <;> rfl
    rw [e1, e1]
    congr 1
    apply pick_last _ ((SameSet.of_perm h).filter _)
    intro x hx y hy
    simp only [List.mem_filter, decide_eq_true_eq] at hx hy
    exact hc x hx.1 y hy.1 (hx.2.trans hy.2.symm)
  · intro k b hb
    obtain ⟨kv, _, rfl⟩ := Option.map_eq_some_iff.mp hb
    rfl

theorem propsAgree_apply {p₁ p₂ : List (Nat × Nat)} (h : propsAgree p₁ p₂ = true) {kv₁ kv₂ : Nat × Nat}
    (h₁ : kv₁ ∈ p₁) (h₂ : kv₂ ∈ p₂) (hk : kv₁.1 = kv₂.1) : kv₁.2 = kv₂.2 := by
  unfold propsAgree at h
  rw [List.all_eq_true] at h
  have := h kv₁ h₁
  rw [List.all_eq_true] at this
  simpa [hk] using this kv₂ h₂

/-- same-protocol services agree on port, identifier and shared property keys -/
def ProtoAgree (e : Env) (gy : List (Hd × SvcInfo)) : Prop :=
  ∀ x ∈ gy, ∀ y ∈ gy, x.2.proto = y.2.proto →
    x.1.port = y.1.port ∧ x.2.ident = y.2.ident ∧ propsAgree (e.props x.1.txt) (e.props y.1.txt) = true

theorem rawSvc_canon_eq (e : Env) {gy₁ gy₂ : List (Hd × SvcInfo)} (h : gy₁.Perm gy₂) (p : Nat)
    (hc : ProtoAgree e gy₁) : (rawSvc e gy₁ p).map canonSvc = (rawSvc e gy₂ p).map canonSvc := by
  unfold rawSvc
  simp only
  have hp : (gy₁.filter (fun x => decide (x.2.proto = p))).Perm (gy₂.filter (fun x => decide (x.2.proto = p))) :=
    h.filter _
  have hsub : ∀ x ∈ gy₁.filter (fun x => decide (x.2.proto = p)), x ∈ gy₁ ∧ x.2.proto = p := by
    intro x hx
    simpa using hx
  have hM := mergeProps_sorted_eq ((hp.map (fun y => e.props y.1.txt)).flatten) (by
    intro kv₁ h₁ kv₂ h₂ hk
    obtain ⟨P₁, hP₁, hk₁⟩ := List.mem_flatten.mp h₁
    obtain ⟨x, hx, rfl⟩ := List.mem_map.mp hP₁
    obtain ⟨P₂, hP₂, hk₂⟩ := List.mem_flatten.mp h₂
    obtain ⟨y, hy, rfl⟩ := List.mem_map.mp hP₂
    have := hc x (hsub x hx).1 y (hsub y hy).1 ((hsub x hx).2.trans (hsub y hy).2.symm)
    exact propsAgree_apply this.2.2 hk₁ hk₂ hk)
  have key : ∀ gp : List (Hd × SvcInfo),
      (gp.head?.map fun x => (⟨p, x.1.port, x.2.ident, mergeProps (gp.map fun y => e.props y.1.txt)⟩ : RawSvc)).map canonSvc
        = (gp.head?.map (fun x => (x.1.port, x.2.ident))).map
            (fun pi => ⟨p, pi.1, pi.2, sortOn (·.1) (mergeProps (gp.map fun y => e.props y.1.txt))⟩) := by
    intro gp; cases gp.head? <;> rfl
  rw [key, key, hM]
  congr 1
  apply pick_head _ (SameSet.of_perm hp)
  intro x hx y hy
  have := hc x (hsub x hx).1 y (hsub y hy).1 ((hsub x hx).2.trans (hsub y hy).2.symm)
  exact Prod.ext this.1 this.2.1

theorem devModelOf_eq (e : Env) {G₁ G₂ : List Hd} (h : G₁.Perm G₂)
    (hc1 : ∀ x ∈ G₁, ∀ y ∈ G₁, x.type = y.type → x.txt = y.txt)
    (hc2 : ∀ x ∈ G₁, ∀ y ∈ G₁, optAgree (e.devModel x.type x.txt) (e.devModel y.type y.txt) = true) :
    devModelOf e G₁ = devModelOf e G₂ := by
  unfold devModelOf
  have hφ : ∀ t, ((G₁.filter (fun h => decide (h.type = t))).getLast?.map (fun h => e.devModel t h.txt)).join =
      ((G₂.filter (fun h => decide (h.type = t))).getLast?.map (fun h => e.devModel t h.txt)).join := by
    intro t
    congr 1
    apply pick_last _ (SameSet.of_perm (h.filter _))
    intro x hx y hy
    simp only [List.mem_filter, decide_eq_true_eq] at hx hy
    rw [hc1 x hx.1 y hy.1 (hx.2.trans hy.2.symm)]
  have hperm := perm_filterMap_congr _ _ (firsts_perm_of_sameSet ((SameSet.of_perm h).map (·.type)))
    (fun t _ => hφ t)
  have := pick_head id (SameSet.of_perm hperm) (by
    intro m₁ h₁ m₂ h₂
    obtain ⟨t₁, _, ht₁⟩ := List.mem_filterMap.mp h₁
    obtain ⟨t₂, _, ht₂⟩ := List.mem_filterMap.mp h₂
    cases hl₁ : (G₁.filter (fun h => decide (h.type = t₁))).getLast? with
    | none => simp [hl₁] at ht₁
    | some x =>
      cases hl₂ : (G₁.filter (fun h => decide (h.type = t₂))).getLast? with
      | none => simp [hl₂] at ht₂
      | some y =>
        have hx := List.mem_filter.mp (List.mem_of_getLast? hl₁)
        have hy := List.mem_filter.mp (List.mem_of_getLast? hl₂)
        simp only [decide_eq_true_eq] at hx hy
        simp only [hl₁, hl₂, Option.map_some, Option.join_some] at ht₁ ht₂
        have := hc2 x hx.1 y hy.1
        rw [hx.2, hy.2, ht₁, ht₂] at this
        simpa [optAgree] using this)
  simpa using this

/-- pairwise facts about the handled services of one address -/
def AddrAgree (e : Env) (g : List Hd) : Prop :=
  ∀ x ∈ g, ∀ y ∈ g, sameTypeOk e x y = true ∧ modelOk e x y = true ∧ yieldOk e x y = true

theorem AddrAgree.of_perm {e : Env} {g₁ g₂ : List Hd} (h : g₁.Perm g₂) (hc : AddrAgree e g₁) : AddrAgree e g₂ :=
  fun x hx y hy => hc x (h.mem_iff.mpr hx) y (h.mem_iff.mpr hy)

theorem yieldOk_apply (e : Env) {h₁ h₂ : Hd} {x y : Hd × SvcInfo} (hx : yields e h₁ = some x) (hy : yields e h₂ = some y)
    (hok : yieldOk e h₁ h₂ = true) :
    flagsOf x = flagsOf y ∧ (x.2.proto = y.2.proto →
      x.1.port = y.1.port ∧ x.2.ident = y.2.ident ∧ propsAgree (e.props x.1.txt) (e.props y.1.txt) = true) := by
  have e₁ := yields_fst e hx
  have e₂ := yields_fst e hy
  unfold yieldOk at hok
  rw [hx, hy] at hok
  simp only [Bool.and_eq_true, decide_eq_true_eq, Bool.or_eq_true, Bool.not_eq_true', decide_eq_false_iff_not] at hok
  refine ⟨hok.1, fun hp => ?_⟩
  rcases hok.2 with h | h
  · exact absurd hp h
  · rw [e₁, e₂]; exact ⟨h.1.1, h.1.2, h.2⟩

theorem protoAgree_of (e : Env) {g : List Hd} (hc : AddrAgree e g) : ProtoAgree e (g.filterMap (yields e)) := by
  intro x hx y hy hp
  obtain ⟨h₁, hg₁, hx'⟩ := List.mem_filterMap.mp hx
  obtain ⟨h₂, hg₂, hy'⟩ := List.mem_filterMap.mp hy
  exact (yieldOk_apply e hx' hy' (hc h₁ hg₁ h₂ hg₂).2.2).2 hp

theorem flagsOf_const (e : Env) {g : List Hd} (hc : AddrAgree e g) :
    ∀ x ∈ g.filterMap (yields e), ∀ y ∈ g.filterMap (yields e), flagsOf x = flagsOf y := by
  intro x hx y hy
  obtain ⟨h₁, hg₁, hx'⟩ := List.mem_filterMap.mp hx
  obtain ⟨h₂, hg₂, hy'⟩ := List.mem_filterMap.mp hy
  exact (yieldOk_apply e hx' hy' (hc h₁ hg₁ h₂ hg₂).2.2).1

/-- services of a configuration after `canonSvc` -/
def CS (e : Env) (gy : List (Hd × SvcInfo)) : List RawSvc :=
  ((firsts (gy.map (·.2.proto))).filterMap (rawSvc e gy)).map canonSvc

theorem CS_eq (e : Env) (gy : List (Hd × SvcInfo)) :
    CS e gy = (firsts (gy.map (·.2.proto))).filterMap (fun p => (rawSvc e gy p).map canonSvc) := by
  unfold CS; rw [List.map_filterMap]

theorem rawSvc_proto (e : Env) (gy : List (Hd × SvcInfo)) (p : Nat) (b : RawSvc)
    (h : (rawSvc e gy p).map canonSvc = some b) : b.proto = p := by
  obtain ⟨s, hs, rfl⟩ := Option.map_eq_some_iff.mp h
  unfold rawSvc at hs
  obtain ⟨x, _, rfl⟩ := Option.map_eq_some_iff.mp hs
  rfl

theorem CS_perm (e : Env) {gy₁ gy₂ : List (Hd × SvcInfo)} (h : gy₁.Perm gy₂) (hc : ProtoAgree e gy₁) :
    (CS e gy₁).Perm (CS e gy₂) := by
  rw [CS_eq, CS_eq]
  exact perm_filterMap_congr _ _ (firsts_perm_of_sameSet ((SameSet.of_perm h).map _))
    (fun p _ => rawSvc_canon_eq e h p hc)

theorem CS_sorted (e : Env) {gy₁ gy₂ : List (Hd × SvcInfo)} (h : gy₁.Perm gy₂) (hc : ProtoAgree e gy₁) :
    sortOn (·.proto) (CS e gy₁) = sortOn (·.proto) (CS e gy₂) := by
  rw [CS_eq, CS_eq]
  exact sortOn_filterMap_congr _ _ _ (firsts_perm_of_sameSet ((SameSet.of_perm h).map _))
    (fun p _ => rawSvc_canon_eq e h p hc) (rawSvc_proto e gy₁)

theorem canonCfg_cfgOf (e : Env) (a : Nat) (g : List Hd) (gy : List (Hd × SvcInfo)) (f : Nat × Bool × Option Nat) :
    canonCfg (cfgOf e a g gy f) =
      ⟨a, sortOn id ((CS e gy).filterMap (·.ident)), sortOn (·.proto) (CS e gy),
        (match devModelOf e (g.filter (saved e)) with
          | some m => some m
          | none => f.2.2), f.2.1⟩ := rfl

theorem ready_cfgOf (e : Env) (a : Nat) (g : List Hd) (gy : List (Hd × SvcInfo)) (f : Nat × Bool × Option Nat) :
    ready (cfgOf e a g gy f) = (CS e gy).any (fun s => identOk s.ident) := by
  unfold ready cfgOf CS
  rw [List.any_map]
  rfl

theorem saved_agree (e : Env) {g : List Hd} (hc : AddrAgree e g) :
    (∀ x ∈ g.filter (saved e), ∀ y ∈ g.filter (saved e), x.type = y.type → x.txt = y.txt) ∧
    (∀ x ∈ g.filter (saved e), ∀ y ∈ g.filter (saved e),
      optAgree (e.devModel x.type x.txt) (e.devModel y.type y.txt) = true) := by
  constructor
  · intro x hx y hy ht
    obtain ⟨hxg, hxs⟩ := List.mem_filter.mp hx
    obtain ⟨hyg, hys⟩ := List.mem_filter.mp hy
    have := (hc x hxg y hyg).1
    simpa [sameTypeOk, hxs, hys, ht] using this
  · intro x hx y hy
    obtain ⟨hxg, hxs⟩ := List.mem_filter.mp hx
    obtain ⟨hyg, hys⟩ := List.mem_filter.mp hy
    have := (hc x hxg y hyg).2.1
    simpa [modelOk, hxs, hys] using this

/-- one address: permuting its consistent handled services changes neither the normalised
    configuration nor whether it is `ready` -/
theorem cfgOf_eq (e : Env) (a : Nat) {g₁ g₂ : List Hd} (hg : g₁.Perm g₂) (hc : AddrAgree e g₁)
    (f : Nat × Bool × Option Nat) :
    canonCfg (cfgOf e a g₁ (g₁.filterMap (yields e)) f) = canonCfg (cfgOf e a g₂ (g₂.filterMap (yields e)) f) ∧
    ready (cfgOf e a g₁ (g₁.filterMap (yields e)) f) = ready (cfgOf e a g₂ (g₂.filterMap (yields e)) f) := by
  have hgy := hg.filterMap (yields e)
  have hpa := protoAgree_of e hc
  have hcs := CS_perm e hgy hpa
  constructor
  · rw [canonCfg_cfgOf, canonCfg_cfgOf, CS_sorted e hgy hpa,
      devModelOf_eq e (hg.filter _) (saved_agree e hc).1 (saved_agree e hc).2,
      sortOn_eq_of_perm id (hcs.filterMap _) (fun _ _ _ _ h => h)]
  · rw [ready_cfgOf, ready_cfgOf]
    exact (SameSet.of_perm hcs).any _

theorem filterMap_filter_map {α β γ : Type} (l : List α) (f : α → Option β) (p : β → Bool) (g : β → γ) :
    ((l.filterMap f).filter p).map g = l.filterMap (fun a => ((f a).filter p).map g) := by
  induction l with
  | nil => rfl
  | cons a l ih =>
    cases hf : f a with
    | none => simp [hf, ih]
    | some b =>
      cases hp : p b <;> simp [hf, hp, Option.filter, ih]

/-- the normalised configuration of address `a`, if one is returned -/
def cfgSnap (e : Env) (hs : List Hd) (a : Nat) : Option Snap := ((rawCfg e hs a).filter ready).map canonCfg

theorem snapshot_scanResult (e : Env) (hs : List Hd) :
    snapshot (scanResult e hs) = sortOn (·.addr) ((foundAddrs e hs).filterMap (cfgSnap e hs)) := by
  unfold snapshot scanResult discover
  rw [filterMap_filter_map]
  rfl

theorem addrAgree_of (e : Env) {hs : List Hd} (hc : HdConsistent e hs) (a : Nat) :
    AddrAgree e (hs.filter (fun h => decide (h.addr = a))) := by
  intro x hx y hy
  simp only [List.mem_filter, decide_eq_true_eq] at hx hy
  exact pairOk_parts e (hx.2.trans hy.2.symm) (hc x hx.1 y hy.1)

/-- the device name (first component of what `foundOf` gives) does not reach the snapshot -/
theorem canonCfg_name_irrel (e : Env) (a : Nat) (g : List Hd) (gy : List (Hd × SvcInfo))
    (f f' : Nat × Bool × Option Nat) (h : f.2 = f'.2) :
    canonCfg (cfgOf e a g gy f) = canonCfg (cfgOf e a g gy f') := by
  rw [canonCfg_cfgOf, canonCfg_cfgOf, h]

theorem ready_name_irrel (e : Env) (a : Nat) (g : List Hd) (gy : List (Hd × SvcInfo))
    (f f' : Nat × Bool × Option Nat) : ready (cfgOf e a g gy f) = ready (cfgOf e a g gy f') := by
  rw [ready_cfgOf, ready_cfgOf]

theorem cfgSnap_eq (e : Env) {H₁ H₂ : List Hd} (h : H₁.Perm H₂) (hc : HdConsistent e H₁) (a : Nat) :
    cfgSnap e H₁ a = cfgSnap e H₂ a := by
  have hg : (H₁.filter (fun h => decide (h.addr = a))).Perm (H₂.filter (fun h => decide (h.addr = a))) := h.filter _
  have ha := addrAgree_of e hc a
  have hf := pick_head flagsOf (SameSet.of_perm (hg.filterMap (yields e))) (flagsOf_const e ha)
  unfold cfgSnap rawCfg
  simp only
  cases h₁ : ((H₁.filter (fun h => decide (h.addr = a))).filterMap (yields e)).head? with
  | none =>
    cases h₂ : ((H₂.filter (fun h => decide (h.addr = a))).filterMap (yields e)).head? with
    | none => rfl
    | some x₂ => rw [h₁, h₂] at hf; exact absurd hf (by simp)
  | some x₁ =>
    cases h₂ : ((H₂.filter (fun h => decide (h.addr = a))).filterMap (yields e)).head? with
    | none => rw [h₁, h₂] at hf; exact absurd hf (by simp)
    | some x₂ =>
      rw [h₁, h₂] at hf
      simp only [Option.map_some, Option.some.injEq] at hf
      obtain ⟨c₁, r₁⟩ := cfgOf_eq e a hg ha (foundOf x₁)
      have c₂ := canonCfg_name_irrel e a (H₂.filter (fun h => decide (h.addr = a)))
        ((H₂.filter (fun h => decide (h.addr = a))).filterMap (yields e)) (foundOf x₁) (foundOf x₂) hf
      have r₂ := ready_name_irrel e a (H₂.filter (fun h => decide (h.addr = a)))
        ((H₂.filter (fun h => decide (h.addr = a))).filterMap (yields e)) (foundOf x₁) (foundOf x₂)
      simp only [Option.map_some, Option.filter]
      rw [r₁, r₂]
      split
      · simp only [Option.map_some, c₁, c₂]
      · rfl

theorem cfgSnap_addr (e : Env) (hs : List Hd) (a : Nat) (b : Snap) (h : cfgSnap e hs a = some b) : b.addr = a := by
  unfold cfgSnap at h
  obtain ⟨c, hc, rfl⟩ := Option.map_eq_some_iff.mp h
  have hc' : rawCfg e hs a = some c := by
    cases hr : rawCfg e hs a with
    | none => simp [hr, Option.filter] at hc
    | some c' =>
      simp only [hr, Option.filter] at hc
      split at hc
      · simpa using hc
      · exact absurd hc (by simp)
  unfold rawCfg at hc'
  obtain ⟨f, _, rfl⟩ := Option.map_eq_some_iff.mp hc'
  rfl

/-- DEVICE LEVEL: a permuted, consistent handled list yields the same snapshot -/
theorem snapshot_eq_of_perm (e : Env) {H₁ H₂ : List Hd} (h : H₁.Perm H₂) (hc : HdConsistent e H₁) :
    snapshot (scanResult e H₁) = snapshot (scanResult e H₂) := by
  rw [snapshot_scanResult, snapshot_scanResult]
  apply sortOn_filterMap_congr
  · exact firsts_perm_of_sameSet ((SameSet.of_perm (h.filterMap (yields e))).map _)
  · intro a _; exact cfgSnap_eq e h hc a
  · exact cfgSnap_addr e H₁

theorem HdConsistent.of_perm {e : Env} {H₁ H₂ : List Hd} (h : H₁.Perm H₂) (hc : HdConsistent e H₁) :
    HdConsistent e H₂ := fun x hx y hy => hc x (h.mem_iff.mpr hx) y (h.mem_iff.mpr hy)

end PyatvModel.C12
