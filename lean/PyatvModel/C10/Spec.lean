import PyatvModel.C10.Model
/-
C10 — history-level vocabulary used in the property statements (no model state except in
`accepted`, which reads the filter decision from the state before the event).
-/
namespace PyatvModel.C10

def lastPost (p : Proto) (h : List Ev) : Option Val :=
  h.foldl (fun o e => match e with | .post q s => if q = p then some s else o | _ => o) none

def startedAfter (h : List Ev) : Bool :=
  h.foldl (fun b e => match e with | .start => true | .stop => false | _ => b) false

/-- posts of `es` (which follows history `pre`) that the property allows to be delivered -/
def effPosts (reg : List Proto) (pre : List Ev) : List Ev → List (Proto × Val)
  | [] => []
  | e :: es =>
    (match e with
     | .post p s =>
        if startedAfter pre = true ∧ lastPost p pre ≠ some s ∧ p ∈ reg then [(p, s)] else []
     | _ => []) ++ effPosts reg (pre ++ [e]) es

/-- `(old,new)` pairs linking `a` to `c`, every link a change -/
inductive Chain : Val → List (Val × Val) → Val → Prop
  | nil (a : Val) : Chain a [] a
  | cons {a b c : Val} {l : List (Val × Val)} : a ≠ b → Chain b l c → Chain a ((a, b) :: l) c

/-- values accepted by the listener's message filter (state before the event decides) -/
def accepted (k : Kind) : List (St × Ev × List Out) → List Val
  | [] => []
  | (st, .change k' p v, _) :: xs =>
      if k' = k ∧ st.accepts k p = true then v :: accepted k xs else accepted k xs
  | _ :: xs => accepted k xs

/-- how updater `p`'s own `active` flag evolves: start()/stop() set it for registered
    updaters, and it may change by itself (error, cancellation, restart by the protocol) -/
def actStep (regP : List Proto) (p : Proto) (a : Bool) : Ev → Bool
  | .start => if p ∈ regP then true else a
  | .stop => if p ∈ regP then false else a
  | .selfact q b => if p = q then b else a
  | _ => a

/-- the history with every "updater turns (in)active by itself" event removed -/
def dropSelfact : List Ev → List Ev
  | [] => []
  | .selfact _ _ :: es => dropSelfact es
  | e :: es => e :: dropSelfact es

/-- the state with the updaters' own `active` flags forgotten -/
def St.forget (st : St) : St := { st with act := fun _ => false }

/-- several device objects alive in one process: device `i` starts in `sts i`; an event tagged
    `i` is an event on device `i` and touches nothing else (each device has its own facade,
    relayers, dispatcher and listener table).  Result per device: its final state and what ITS
    listeners received. -/
def runTagged (sts : Nat → St) : List (Nat × Ev) → Nat → St × List Out
  | [] => fun d => (sts d, [])
  | (i, e) :: rest => fun d =>
      let r := runTagged (fun j => if j = i then (step (sts j) e).1 else sts j) rest d
      (r.1, (if d = i then (step (sts d) e).2 else []) ++ r.2)

end PyatvModel.C10
