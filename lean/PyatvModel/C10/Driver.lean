import PyatvModel.Base.Bytes
import PyatvModel.C10.Model
/-
Line protocol (stateless, one history per line):

  run <D|U> <regP> <regK> <ev> <ev> ...
     regP / regK : csv of protocol indices 0..4 (`-` = none)
     D = the loop drains after every event (the property's granularity; `d` not allowed)
     U = drains only where a `d` event says so
     ev:  p.<proto>.<val>  post_update          s  start      t  stop
          k.<proto>.<mask> takeover (mask 1 = PushUpdater, 2 = Keyboard, 3 = both, 0 = none)
          r  release newest handle               d  drain
          v.<proto>.<val> / o.<proto>.<val> / f.<proto>.<val>   dispatch Volume / OutputDevices / KeyboardFocus
          a.<proto>.<0|1>  updater's own `active` turns off / on by itself
          u.<op>.<val>     user-initiated operation on the facade (set_volume, volume_up, … ; see harness)
  → <outputs> <refused> <tkP> <tkK> <mainP> <mainK> <vol> <outs> <foc> <qlen> <lst> <active>
     outputs : csv of  <i>P<proto>.<val>  |  <i>V<old>.<new>  |  <i>O<old>.<new>  |  <i>F<old>.<new>
               (i = index of the event during which the user listener was called)
     refused : csv of indices of takeover events that raised InvalidStateError
     options : a number or `n`
-/
namespace PyatvModel.C10

def parseEv (tok : String) : Option Ev :=
  match tok.splitOn "." with
  | ["s"] => some .start
  | ["t"] => some .stop
  | ["r"] => some .release
  | ["d"] => some .drain
  | ["p", p, s] => do
      let p ← p.toNat?; let s ← s.toNat?
      if p < 5 then some (.post p s) else none
  | ["k", p, m] => do
      let p ← p.toNat?; let m ← m.toNat?
      if p < 5 ∧ m < 4 then some (.takeover p (m % 2 == 1) (m / 2 == 1)) else none
  | ["u", _, _] => some .userop
  | ["a", p, b] => do
      let p ← p.toNat?; let b ← b.toNat?
      if p < 5 ∧ b < 2 then some (.selfact p (b == 1)) else none
  | [c, p, v] => do
      let p ← p.toNat?; let v ← v.toNat?
      let k ← (match c with | "v" => some Kind.vol | "o" => some Kind.outs | "f" => some Kind.foc | _ => none)
      if p < 5 then some (.change k p v) else none
  | _ => none

def parseReg (s : String) : Option (List Proto) := do
  let l ← csvNats? s
  if l.all (· < 5) then some l else none

def kindChar : Kind → String
  | .vol => "V" | .outs => "O" | .foc => "F"

def outStr (i : Nat) : Out → String
  | .play p s => s!"{i}P{p}.{s}"
  | .chg k a b => s!"{i}{kindChar k}{a}.{b}"

def optStr : Option Nat → String
  | none => "n" | some x => toString x

/-- run with event indices; `auto` = drain after every event -/
def runIdx (auto : Bool) : St → Nat → List Ev → St × List String × List String
  | st, _, [] => (st, [], [])
  | st, i, e :: es =>
    let refused := match e with
      | .takeover _ a b => if st.takeoverOk a b then [] else [toString i]
      | _ => []
    let r := step st e
    let r2 := if auto then step r.1 .drain else (r.1, [])
    let rest := runIdx auto r2.1 (i + 1) es
    (rest.1, (r.2 ++ r2.2).map (outStr i) ++ rest.2.1, refused ++ rest.2.2)

def handle (_ : Unit) (ws : List String) : Unit × String :=
  match ws with
  | "run" :: mode :: rp :: rk :: evs =>
    match (if mode == "D" then some true else if mode == "U" then some false else none),
          parseReg rp, parseReg rk, evs.mapM parseEv with
    | some auto, some rp, some rk, some evs =>
      if auto && evs.contains .drain then ((), "bad-op") else
      let r := runIdx auto (init rp rk) 0 evs
      let st := r.1
      ((), s!"{csv r.2.1} {csv r.2.2} {optStr st.tkP} {optStr st.tkK} {optStr st.mainP} {optStr st.mainK} {st.cur .vol} {st.cur .outs} {st.cur .foc} {st.queue.length} {if st.lst then 1 else 0} {optStr (st.mainP.map (fun p => if st.act p then 1 else 0))}")
    | _, _, _, _ => ((), "bad-op")
  | _ => ((), "bad-op")

end PyatvModel.C10
