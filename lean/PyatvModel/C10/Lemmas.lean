import PyatvModel.C10.Spec
/-
C10 — helper lemmas (frame conditions of `drainQ`/`step`, `run` over `++`, projections).
-/
namespace PyatvModel.C10

/-! ## projections over `++` -/

theorem plays_append (a b : List Out) : plays (a ++ b) = plays a ++ plays b := by
  induction a with
  | nil => rfl
  | cons o os ih => cases o <;> simp [plays, ih]

theorem chgs_append (k : Kind) (a b : List Out) : chgs k (a ++ b) = chgs k a ++ chgs k b := by
  induction a with
  | nil => rfl
  | cons o os ih =>
    cases o with
    | play p s => simp [chgs, ih]
    | chg k' x y => by_cases h : k' = k <;> simp [chgs, h, ih]

theorem posts_append (a b : List Ev) : posts (a ++ b) = posts a ++ posts b := by
  induction a with
  | nil => rfl
  | cons e es ih => cases e <;> simp [posts, ih]

theorem dispatched_append (k : Kind) (a b : List Ev) :
    dispatched k (a ++ b) = dispatched k a ++ dispatched k b := by
  induction a with
  | nil => rfl
  | cons e es ih =>
    cases e <;> simp [dispatched, ih]
    split <;> simp

theorem playsQ_append (a b : List Cb) : playsQ (a ++ b) = playsQ a ++ playsQ b := by
  induction a with
  | nil => rfl
  | cons c cs ih => cases c <;> simp [playsQ, ih]

theorem chgsQ_append (k : Kind) (a b : List Cb) : chgsQ k (a ++ b) = chgsQ k a ++ chgsQ k b := by
  induction a with
  | nil => rfl
  | cons c cs ih =>
    cases c with
    | play p s => simp [chgsQ, ih]
    | chg k' v => by_cases h : k' = k <;> simp [chgsQ, h, ih]

/-! ## `run` / `trace` over `++` -/

theorem run_append (st : St) (a b : List Ev) :
    run st (a ++ b) = ((run (run st a).1 b).1, (run st a).2 ++ (run (run st a).1 b).2) := by
  induction a generalizing st with
  | nil => simp [run]
  | cons e es ih => simp [run, ih, List.append_assoc]

theorem trace_append (st : St) (a b : List Ev) :
    trace st (a ++ b) = trace st a ++ trace (run st a).1 b := by
  induction a generalizing st with
  | nil => simp [trace, run]
  | cons e es ih => simp [trace, run, ih]

/-- what the listeners received overall is the concatenation of what they received per event -/
theorem run_outputs (st : St) (evs : List Ev) :
    (run st evs).2 = (trace st evs).flatMap (fun x => x.2.2) := by
  induction evs generalizing st with
  | nil => simp [run, trace]
  | cons e es ih => simp [run, trace, ih]

/-! ## frame conditions: a callback only touches `cur` -/

theorem runCb_frame (st : St) (c : Cb) :
    (runCb st c).1.regP = st.regP ∧ (runCb st c).1.regK = st.regK ∧
    (runCb st c).1.tkP = st.tkP ∧ (runCb st c).1.tkK = st.tkK ∧
    (runCb st c).1.handles = st.handles ∧ (runCb st c).1.lst = st.lst ∧
    (runCb st c).1.prev = st.prev ∧ (runCb st c).1.queue = st.queue := by
  cases c <;> simp [runCb]

theorem drainQ_frame (st : St) (q : List Cb) :
    (drainQ st q).1.regP = st.regP ∧ (drainQ st q).1.regK = st.regK ∧
    (drainQ st q).1.tkP = st.tkP ∧ (drainQ st q).1.tkK = st.tkK ∧
    (drainQ st q).1.handles = st.handles ∧ (drainQ st q).1.lst = st.lst ∧
    (drainQ st q).1.prev = st.prev ∧ (drainQ st q).1.queue = st.queue := by
  induction q generalizing st with
  | nil => simp [drainQ]
  | cons c cs ih =>
    have h := runCb_frame st c
    have h' := ih (runCb st c).1
    simp only [drainQ]
    refine ⟨h'.1.trans h.1, h'.2.1.trans h.2.1, h'.2.2.1.trans h.2.2.1, h'.2.2.2.1.trans h.2.2.2.1,
      h'.2.2.2.2.1.trans h.2.2.2.2.1, h'.2.2.2.2.2.1.trans h.2.2.2.2.2.1,
      h'.2.2.2.2.2.2.1.trans h.2.2.2.2.2.2.1, h'.2.2.2.2.2.2.2.trans h.2.2.2.2.2.2.2⟩

theorem drainQ_mainP (st : St) (q : List Cb) : (drainQ st q).1.mainP = st.mainP := by
  have h := drainQ_frame st q
  simp [St.mainP, h.1, h.2.2.1]

theorem runCb_mainP (st : St) (c : Cb) : (runCb st c).1.mainP = st.mainP := by
  have h := runCb_frame st c
  simp [St.mainP, h.1, h.2.2.1]

/-- the registered sets never change -/
theorem step_reg (st : St) (e : Ev) : (step st e).1.regP = st.regP ∧ (step st e).1.regK = st.regK := by
  cases e with
  | drain =>
    have h := drainQ_frame { st with queue := [] } st.queue
    exact ⟨h.1, h.2.1⟩
  | takeover p a b => simp only [step]; split <;> simp
  | release => simp only [step]; split <;> simp
  | _ => simp [step]

theorem run_reg (st : St) (evs : List Ev) : (run st evs).1.regP = st.regP ∧ (run st evs).1.regK = st.regK := by
  induction evs generalizing st with
  | nil => simp [run]
  | cons e es ih =>
    have h := step_reg st e
    have h' := ih (step st e).1
    simp only [run]
    exact ⟨h'.1.trans h.1, h'.2.trans h.2⟩

/-- after a drain nothing is pending -/
theorem step_drain_queue (st : St) : (step st .drain).1.queue = [] := by
  have h := drainQ_frame { st with queue := [] } st.queue
  simpa [step] using h.2.2.2.2.2.2.2

/-- only `drain` calls the user's listeners -/
theorem step_out_nil (st : St) (e : Ev) (h : e ≠ .drain) : (step st e).2 = [] := by
  cases e with
  | drain => exact absurd rfl h
  | takeover p a b => simp only [step]; split <;> rfl
  | release => simp only [step]; split <;> rfl
  | _ => rfl

/-! ## what a drain delivers -/

/-- plays delivered by a drain: a sublist of the queued plays (order kept, none invented) -/
theorem drainQ_plays_sublist (st : St) (q : List Cb) : (plays (drainQ st q).2).Sublist (playsQ q) := by
  induction q generalizing st with
  | nil => simp [drainQ, plays, playsQ]
  | cons c cs ih =>
    cases c with
    | play p s =>
      simp only [drainQ, runCb, playsQ]
      split
      · simpa [plays] using (ih st)
      · simpa [plays] using (ih st).cons (p, s)
    | chg k v =>
      simp only [drainQ, playsQ, plays_append]
      have : plays (runCb st (.chg k v)).2 = [] := by
        simp only [runCb]; split <;> simp [plays]
      rw [this]; simpa using ih _

/-- a delivered play comes from the protocol that is main while the queue runs -/
theorem drainQ_play_main (st : St) (q : List Cb) (p : Proto) (s : Val)
    (h : Out.play p s ∈ (drainQ st q).2) : st.mainP = some p := by
  induction q generalizing st with
  | nil => simp [drainQ] at h
  | cons c cs ih =>
    simp only [drainQ, List.mem_append] at h
    rcases h with h | h
    · cases c with
      | play p' s' =>
        simp only [runCb] at h
        split at h
        · simp at h; rcases h with ⟨rfl, rfl⟩; assumption
        · simp at h
      | chg k v => simp only [runCb] at h; split at h <;> simp at h
    · rw [← runCb_mainP st c]; exact ih _ h

/-! ## invariants and generalised statements behind the property theorems -/


theorem lastPost_snoc (p : Proto) (h : List Ev) (e : Ev) :
    lastPost p (h ++ [e]) = match e with
      | .post q s => if q = p then some s else lastPost p h
      | _ => lastPost p h := by
  simp only [lastPost, List.foldl_append, List.foldl_cons, List.foldl_nil]
  all_goals (cases e <;> rfl)

theorem startedAfter_snoc (h : List Ev) (e : Ev) :
    startedAfter (h ++ [e]) = match e with
      | .start => true | .stop => false | _ => startedAfter h := by
  simp only [startedAfter, List.foldl_append, List.foldl_cons, List.foldl_nil]
  all_goals (cases e <;> rfl)

/-- the model state agrees with the history-level vocabulary -/
def Agrees (st : St) (h : List Ev) : Prop :=
  (∀ p, st.prev p = lastPost p h) ∧ st.lst = startedAfter h

theorem agrees_init (regP regK : List Proto) : Agrees (init regP regK) [] :=
  ⟨fun _ => rfl, rfl⟩

theorem agrees_step (st : St) (h : List Ev) (e : Ev) (ha : Agrees st h) :
    Agrees (step st e).1 (h ++ [e]) := by
  obtain ⟨hp, hl⟩ := ha
  cases e with
  | post q s =>
    refine ⟨fun p => ?_, ?_⟩
    · rw [lastPost_snoc]
      simp only [step, setFn]
      by_cases hq : p = q
      · subst hq; simp
      · have : ¬ q = p := fun h => hq h.symm
        simp [hq, this, hp p]
    · rw [startedAfter_snoc]; simpa [step] using hl
  | selfact q b =>
    exact ⟨fun p => by rw [lastPost_snoc]; simpa [step] using hp p, by rw [startedAfter_snoc]; simpa [step] using hl⟩
  | userop =>
    exact ⟨fun p => by rw [lastPost_snoc]; simpa [step] using hp p, by rw [startedAfter_snoc]; simpa [step] using hl⟩
  | start => exact ⟨fun p => by rw [lastPost_snoc]; simpa [step] using hp p, by rw [startedAfter_snoc]; simp [step]⟩
  | stop => exact ⟨fun p => by rw [lastPost_snoc]; simpa [step] using hp p, by rw [startedAfter_snoc]; simp [step]⟩
  | takeover q a b =>
    refine ⟨fun p => ?_, ?_⟩
    · rw [lastPost_snoc]; simp only [step]; split <;> simpa using hp p
    · rw [startedAfter_snoc]; simp only [step]; split <;> simpa using hl
  | release =>
    refine ⟨fun p => ?_, ?_⟩
    · rw [lastPost_snoc]; simp only [step]; split <;> simpa using hp p
    · rw [startedAfter_snoc]; simp only [step]; split <;> simpa using hl
  | change k q v =>
    exact ⟨fun p => by rw [lastPost_snoc]; simpa [step] using hp p, by rw [startedAfter_snoc]; simpa [step] using hl⟩
  | drain =>
    have hf := drainQ_frame { st with queue := [] } st.queue
    refine ⟨fun p => ?_, ?_⟩
    · rw [lastPost_snoc]
      have : (step st .drain).1.prev = st.prev := hf.2.2.2.2.2.2.1
      simpa [this] using hp p
    · rw [startedAfter_snoc]
      have : (step st .drain).1.lst = st.lst := hf.2.2.2.2.2.1
      simpa [this] using hl

theorem agrees_run (st : St) (h es : List Ev) (ha : Agrees st h) : Agrees (run st es).1 (h ++ es) := by
  induction es generalizing st h with
  | nil => simpa [run] using ha
  | cons e es ih =>
    have := ih (step st e).1 (h ++ [e]) (agrees_step st h e ha)
    simpa [run, List.append_assoc] using this

/-- generalised over the start state: what is still queued may also be delivered -/
theorem delivered_sublist_gen (es : List Ev) : ∀ (st : St) (h : List Ev), Agrees st h →
    (plays (run st es).2).Sublist (playsQ st.queue ++ effPosts st.regP h es) := by
  induction es with
  | nil => intro st h _; simp [run, plays]
  | cons e es ih =>
    intro st h ha
    have ih' := ih (step st e).1 (h ++ [e]) (agrees_step st h e ha)
    rw [(step_reg st e).1] at ih'
    simp only [run, plays_append, effPosts]
    cases e with
    | drain =>
      have hq : (step st .drain).1.queue = [] := step_drain_queue st
      rw [hq] at ih'
      have hd : (plays (step st .drain).2).Sublist (playsQ st.queue) := by
        simpa [step] using drainQ_plays_sublist { st with queue := [] } st.queue
      simpa [playsQ] using hd.append ih'
    | post p s =>
      have ho : (step st (.post p s)).2 = [] := rfl
      rw [ho]
      simp only [plays, List.nil_append]
      refine ih'.trans ?_
      have hcond : st.postsThrough p s = true ↔
          (startedAfter h = true ∧ lastPost p h ≠ some s ∧ p ∈ st.regP) := by
        simp only [St.postsThrough, Bool.and_eq_true, decide_eq_true_eq, ← ha.1 p, ← ha.2]
        constructor
        · rintro ⟨⟨a, b⟩, c⟩; exact ⟨b, a, c⟩
        · rintro ⟨b, a, c⟩; exact ⟨⟨a, b⟩, c⟩
      by_cases hc : st.postsThrough p s = true
      · have hc' := hcond.mp hc
        rw [if_pos hc']
        simp [step, hc, playsQ_append, playsQ]
      · have hc' : ¬ (startedAfter h = true ∧ lastPost p h ≠ some s ∧ p ∈ st.regP) :=
          fun x => hc (hcond.mpr x)
        rw [if_neg hc']
        simp [step, hc]
    | start => simpa [step, plays] using ih'
    | selfact q b => simpa [step, plays] using ih'
    | userop => simpa [step, plays] using ih'
    | stop => simpa [step, plays] using ih'
    | takeover q a b =>
      rw [step_out_nil st _ (by simp)]
      have : (step st (.takeover q a b)).1.queue = st.queue := by
        simp only [step]; split <;> rfl
      rw [this] at ih'
      simpa [plays] using ih'
    | release =>
      rw [step_out_nil st _ (by simp)]
      have : (step st .release).1.queue = st.queue := by
        simp only [step]; split <;> rfl
      rw [this] at ih'
      simpa [plays] using ih'
    | change k q v =>
      have ho : (step st (.change k q v)).2 = [] := rfl
      rw [ho]
      have : playsQ (step st (.change k q v)).1.queue = playsQ st.queue := by
        simp only [step]; split <;> simp [playsQ_append, playsQ]
      rw [this] at ih'
      simpa [plays] using ih'

theorem effPosts_sublist_posts (reg : List Proto) (es : List Ev) :
    ∀ h, (effPosts reg h es).Sublist (posts es) := by
  induction es with
  | nil => intro h; simp [effPosts, posts]
  | cons e es ih =>
    intro h
    cases e with
    | post p s =>
      simp only [effPosts, posts]
      split
      · simpa using (ih _).cons_cons (p, s)
      · simpa using (ih _).cons (p, s)
    | _ => simpa [effPosts, posts] using ih _

theorem chain_append {a b c : Val} {l m : List (Val × Val)} (h1 : Chain a l b) (h2 : Chain b m c) :
    Chain a (l ++ m) c := by
  induction h1 with
  | nil a => simpa using h2
  | cons hne _ ih => exact Chain.cons hne (ih h2)

theorem drainQ_chain (k : Kind) (q : List Cb) : ∀ st : St,
    Chain (st.cur k) (chgs k (drainQ st q).2) ((drainQ st q).1.cur k) := by
  induction q with
  | nil => intro st; simpa [drainQ, chgs] using Chain.nil _
  | cons c cs ih =>
    intro st
    simp only [drainQ, chgs_append]
    refine chain_append ?_ (ih _)
    cases c with
    | play p s =>
      simp only [runCb]; split <;> simpa [chgs] using Chain.nil _
    | chg k' v =>
      simp only [runCb, setCur]
      by_cases hk : k' = k
      · subst hk
        by_cases hv : v = st.cur k'
        · simpa [chgs, hv] using Chain.nil _
        · simp only [ne_eq, hv, not_false_eq_true, if_true, chgs, if_true]
          exact Chain.cons (fun h => hv h.symm) (Chain.nil _)
      · have hk' : ¬ k = k' := fun h => hk h.symm
        simp only [hk', if_false]
        split <;> simpa [chgs, hk] using Chain.nil _

theorem step_cur_of_ne_drain (st : St) (e : Ev) (h : e ≠ .drain) : (step st e).1.cur = st.cur := by
  cases e with
  | drain => exact absurd rfl h
  | takeover p a b => simp only [step]; split <;> rfl
  | release => simp only [step]; split <;> rfl
  | _ => rfl

theorem run_chain (k : Kind) (es : List Ev) : ∀ st : St,
    Chain (st.cur k) (chgs k (run st es).2) ((run st es).1.cur k) := by
  induction es with
  | nil => intro st; simpa [run, chgs] using Chain.nil _
  | cons e es ih =>
    intro st
    simp only [run, chgs_append]
    refine chain_append ?_ (ih _)
    by_cases he : e = .drain
    · subst he
      simpa [step] using drainQ_chain k st.queue { st with queue := [] }
    · rw [step_out_nil st e he, step_cur_of_ne_drain st e he]
      simpa [chgs] using Chain.nil _

theorem drainQ_news_sublist (k : Kind) (q : List Cb) : ∀ st : St,
    ((chgs k (drainQ st q).2).map Prod.snd).Sublist (chgsQ k q) := by
  induction q with
  | nil => intro st; simp [drainQ, chgs, chgsQ]
  | cons c cs ih =>
    intro st
    simp only [drainQ, chgs_append, List.map_append]
    cases c with
    | play p s =>
      have : chgs k (runCb st (.play p s)).2 = [] := by
        simp only [runCb]; split <;> simp [chgs]
      rw [this]; simpa [chgsQ] using ih _
    | chg k' v =>
      by_cases hk : k' = k
      · subst hk
        simp only [chgsQ, if_true]
        by_cases hv : v = st.cur k'
        · have : chgs k' (runCb st (.chg k' v)).2 = [] := by simp [runCb, hv, chgs]
          rw [this]; simpa using (ih _).cons v
        · have : chgs k' (runCb st (.chg k' v)).2 = [(st.cur k', v)] := by simp [runCb, hv, chgs]
          rw [this]; simpa using (ih _).cons_cons v
      · have : chgs k (runCb st (.chg k' v)).2 = [] := by
          simp only [runCb]; split <;> simp [chgs, hk]
        rw [this]; simpa [chgsQ, hk] using ih _

theorem news_sublist_gen (k : Kind) (es : List Ev) : ∀ st : St,
    ((chgs k (run st es).2).map Prod.snd).Sublist (chgsQ k st.queue ++ accepted k (trace st es)) := by
  induction es with
  | nil => intro st; simp [run, chgs]
  | cons e es ih =>
    intro st
    have ih' := ih (step st e).1
    simp only [run, chgs_append, List.map_append, trace]
    cases e with
    | drain =>
      rw [step_drain_queue st] at ih'
      have hd : ((chgs k (step st .drain).2).map Prod.snd).Sublist (chgsQ k st.queue) := by
        simpa [step] using drainQ_news_sublist k st.queue { st with queue := [] }
      simpa [accepted, chgsQ] using hd.append ih'
    | change k' p v =>
      have ho : (step st (.change k' p v)).2 = [] := rfl
      rw [ho]
      simp only [chgs, List.map_nil, List.nil_append, accepted]
      refine ih'.trans ?_
      by_cases hk : k' = k
      · subst hk
        by_cases hacc : st.accepts k' p = true
        · simp [step, hacc, chgsQ_append, chgsQ]
        · simp [step, hacc]
      · have hq : chgsQ k (step st (.change k' p v)).1.queue = chgsQ k st.queue := by
          simp only [step]; split <;> simp [chgsQ_append, chgsQ, hk]
        rw [hq]; simp [hk]
    | post p s =>
      have ho : (step st (.post p s)).2 = [] := rfl
      have hq : chgsQ k (step st (.post p s)).1.queue = chgsQ k st.queue := by
        simp only [step]; split <;> simp [chgsQ_append, chgsQ]
      rw [hq] at ih'; rw [ho]
      simpa [chgs, accepted] using ih'
    | start => simpa [step, chgs, accepted] using ih'
    | selfact q b => simpa [step, chgs, accepted] using ih'
    | userop => simpa [step, chgs, accepted] using ih'
    | stop => simpa [step, chgs, accepted] using ih'
    | takeover q a b =>
      rw [step_out_nil st _ (by simp)]
      have : (step st (.takeover q a b)).1.queue = st.queue := by
        simp only [step]; split <;> rfl
      rw [this] at ih'
      simpa [chgs, accepted] using ih'
    | release =>
      rw [step_out_nil st _ (by simp)]
      have : (step st .release).1.queue = st.queue := by
        simp only [step]; split <;> rfl
      rw [this] at ih'
      simpa [chgs, accepted] using ih'

theorem accepted_sublist_dispatched (k : Kind) (es : List Ev) : ∀ st : St,
    (accepted k (trace st es)).Sublist (dispatched k es) := by
  induction es with
  | nil => intro st; simp [trace, accepted, dispatched]
  | cons e es ih =>
    intro st
    cases e with
    | change k' p v =>
      simp only [trace, accepted, dispatched]
      by_cases hk : k' = k
      · by_cases ha : st.accepts k p = true
        · simpa [hk, ha] using (ih _).cons_cons v
        · simpa [hk, ha] using (ih _).cons v
      · simpa [hk] using ih _
    | _ => simpa [trace, accepted, dispatched] using ih _

/-- stopped and nothing pending: stays silent until start() -/
theorem silent_gen (es : List Ev) : ∀ st : St, st.lst = false → playsQ st.queue = [] →
    Ev.start ∉ es → plays (run st es).2 = [] := by
  induction es with
  | nil => intro st _ _ _; simp [run, plays]
  | cons e es ih =>
    intro st hl hq hs
    have hs' : Ev.start ∉ es := fun h => hs (List.mem_cons_of_mem _ h)
    simp only [run, plays_append]
    cases e with
    | start => exact absurd (List.mem_cons_self) hs
    | drain =>
      have hf := drainQ_frame { st with queue := [] } st.queue
      have hd : (plays (step st .drain).2).Sublist (playsQ st.queue) := by
        simpa [step] using drainQ_plays_sublist { st with queue := [] } st.queue
      rw [hq] at hd
      have h1 : plays (step st .drain).2 = [] := List.sublist_nil.mp hd
      have h2 := ih (step st .drain).1 (by simpa [step] using hf.2.2.2.2.2.1.trans hl)
        (by rw [step_drain_queue]; rfl) hs'
      rw [h1, h2]; rfl
    | post p s =>
      have h2 := ih (step st (.post p s)).1 (by simpa [step] using hl)
        (by simpa [step, St.postsThrough, hl] using hq) hs'
      rw [h2]; simp [step, plays]
    | stop =>
      have h2 := ih (step st .stop).1 (by simp [step]) (by simpa [step] using hq) hs'
      rw [h2]; simp [step, plays]
    | selfact q b =>
      have h2 := ih (step st (.selfact q b)).1 (by simpa [step] using hl) (by simpa [step] using hq) hs'
      rw [h2]; simp [step, plays]
    | userop =>
      have h2 := ih (step st .userop).1 (by simpa [step] using hl) (by simpa [step] using hq) hs'
      rw [h2]; simp [step, plays]
    | takeover q a b =>
      have h2 := ih (step st (.takeover q a b)).1 (by simp only [step]; split <;> simpa using hl)
        (by simp only [step]; split <;> simpa using hq) hs'
      rw [h2, step_out_nil st _ (by simp)]; rfl
    | release =>
      have h2 := ih (step st .release).1 (by simp only [step]; split <;> simpa using hl)
        (by simp only [step]; split <;> simpa using hq) hs'
      rw [h2, step_out_nil st _ (by simp)]; rfl
    | change k q v =>
      have h2 := ih (step st (.change k q v)).1 (by simpa [step] using hl)
        (by simp only [step]; split <;> simpa [playsQ_append, playsQ] using hq) hs'
      rw [h2]; simp [step, plays]

theorem drained_queue_nil (es : List Ev) : ∀ st : St, st.queue = [] →
    (run st (drained es)).1.queue = [] := by
  induction es with
  | nil => intro st h; simpa [drained, run] using h
  | cons e es ih =>
    intro st _
    have : drained (e :: es) = e :: .drain :: drained es := by simp [drained]
    rw [this]
    simp only [run]
    exact ih _ (step_drain_queue _)

theorem start_not_mem_drained (es : List Ev) (h : Ev.start ∉ es) : Ev.start ∉ drained es := by
  simp only [drained, List.mem_flatMap, not_exists, not_and]
  intro e he hmem
  simp at hmem
  rcases hmem with rfl | hmem
  · exact h he


/-! ## the updaters' own `active` flag: how it evolves, and that nothing depends on it -/

theorem runCb_act (st : St) (c : Cb) : (runCb st c).1.act = st.act := by
  cases c <;> simp [runCb]

theorem drainQ_act (st : St) (q : List Cb) : (drainQ st q).1.act = st.act := by
  induction q generalizing st with
  | nil => simp [drainQ]
  | cons c cs ih => simp only [drainQ]; rw [ih, runCb_act]

theorem step_act (st : St) (e : Ev) (p : Proto) :
    (step st e).1.act p = actStep st.regP p (st.act p) e := by
  cases e with
  | drain => simp only [step, actStep]; rw [drainQ_act]
  | takeover q a b => simp only [step, actStep]; split <;> rfl
  | release => simp only [step, actStep]; split <;> rfl
  | selfact q b => simp [step, actStep, setFn]
  | _ => simp [step, actStep]

theorem run_act (es : List Ev) : ∀ (st : St) (p : Proto),
    (run st es).1.act p = es.foldl (actStep st.regP p) (st.act p) := by
  induction es with
  | nil => intro st p; simp [run]
  | cons e es ih =>
    intro st p
    simp only [run, List.foldl_cons]
    rw [ih, (step_reg st e).1, step_act]

theorem runCb_forget (st : St) (c : Cb) :
    (runCb st.forget c).1 = (runCb st c).1.forget ∧ (runCb st.forget c).2 = (runCb st c).2 := by
  cases c <;> exact ⟨rfl, rfl⟩

theorem drainQ_forget (q : List Cb) : ∀ st : St,
    (drainQ st.forget q).1 = (drainQ st q).1.forget ∧ (drainQ st.forget q).2 = (drainQ st q).2 := by
  induction q with
  | nil => intro st; simp [drainQ]
  | cons c cs ih =>
    intro st
    have h := runCb_forget st c
    simp only [drainQ]
    rw [h.1, h.2, (ih _).1, (ih _).2]
    exact ⟨rfl, rfl⟩

/-- one step from the forgetful state: same outputs, same state up to `act` -/
theorem step_forget (st : St) (e : Ev) :
    (step st.forget e).1.forget = (step st e).1.forget ∧ (step st.forget e).2 = (step st e).2 := by
  cases e with
  | drain =>
    have h := drainQ_forget st.queue { st with queue := [] }
    have e1 : ({ st.forget with queue := [] } : St) = ({ st with queue := [] } : St).forget := rfl
    have e2 : st.forget.queue = st.queue := rfl
    simp only [step]
    rw [e2, e1, h.1, h.2]
    exact ⟨rfl, rfl⟩
  | takeover q a b =>
    have e : st.forget.takeoverOk a b = st.takeoverOk a b := rfl
    by_cases h : st.takeoverOk a b = true
    · have h' : st.forget.takeoverOk a b = true := h
      simp only [step]; rw [if_pos h, if_pos h']; exact ⟨rfl, rfl⟩
    · have h' : ¬ st.forget.takeoverOk a b = true := h
      simp only [step]; rw [if_neg h, if_neg h']; exact ⟨rfl, rfl⟩
  | release =>
    rcases hh : st.handles with _ | ⟨⟨a, b⟩, hs⟩
    · have hh' : st.forget.handles = [] := hh
      simp only [step, hh, hh']; simp [St.forget]
    · have hh' : st.forget.handles = (a, b) :: hs := hh
      simp only [step, hh, hh']; simp [St.forget]
  | post q s =>
    exact ⟨rfl, rfl⟩
  | change k q v =>
    cases k <;> exact ⟨rfl, rfl⟩
  | start => exact ⟨rfl, rfl⟩
  | stop => exact ⟨rfl, rfl⟩
  | selfact q b => exact ⟨rfl, rfl⟩
  | userop => exact ⟨rfl, rfl⟩

theorem step_selfact_forget (st : St) (p : Proto) (b : Bool) :
    (step st (.selfact p b)).1.forget = st.forget ∧ (step st (.selfact p b)).2 = [] := by
  simp [step, St.forget]

theorem run_forget_congr (es : List Ev) : ∀ st st' : St, st.forget = st'.forget →
    (run st es).2 = (run st' es).2 ∧ (run st es).1.forget = (run st' es).1.forget := by
  induction es with
  | nil => intro st st' h; simpa [run] using h
  | cons e es ih =>
    intro st st' h
    have h1 := step_forget st e
    have h2 := step_forget st' e
    have hs : (step st e).1.forget = (step st' e).1.forget := by rw [← h1.1, ← h2.1, h]
    have ho : (step st e).2 = (step st' e).2 := by rw [← h1.2, ← h2.2, h]
    have := ih _ _ hs
    simp only [run]
    exact ⟨by rw [ho, this.1], this.2⟩

theorem run_dropSelfact (es : List Ev) : ∀ st : St,
    (run st es).2 = (run st (dropSelfact es)).2 ∧ (run st es).1.forget = (run st (dropSelfact es)).1.forget := by
  induction es with
  | nil => intro st; simp [run, dropSelfact]
  | cons e es ih =>
    intro st
    cases e with
    | selfact p b =>
      have h := step_selfact_forget st p b
      have hc := run_forget_congr es _ _ h.1
      have := ih st
      simp only [run, dropSelfact]
      rw [h.2]
      exact ⟨by simpa using hc.1.trans this.1, hc.2.trans this.2⟩
    | _ =>
      simp only [run, dropSelfact]
      exact ⟨by rw [(ih _).1], (ih _).2⟩

/-! ## several devices in one process -/

theorem runTagged_proj (evs : List (Nat × Ev)) : ∀ (sts : Nat → St) (d : Nat),
    runTagged sts evs d = run (sts d) ((evs.filter (fun x => x.1 == d)).map (·.2)) := by
  induction evs with
  | nil => intro sts d; simp [runTagged, run]
  | cons x xs ih =>
    intro sts d
    obtain ⟨i, e⟩ := x
    simp only [runTagged]
    rw [ih]
    by_cases h : i = d
    · subst h; simp [run]
    · have h' : ¬ d = i := fun hh => h hh.symm
      simp [h, h']

end PyatvModel.C10
