import PyatvModel.C10.Model
/-
C10 — helper lemmas (frame conditions of `drainQ`/`step`, `run` over `++`, projections).
-/
namespace PyatvModel.C10

/-! ## projections over `++` -/

theorem plays_append (a b : List Out) : plays (a ++ b) = plays a ++ plays b := by
  induction a with
  | nil => rfl
  | cons o os ih => cases o <;> simp [plays, ih]

theorem chgs_append (k : Kind) (a b : List Out) : chgs k (a ++ b) = chgs k a ++ chgs k b := by
  induction a with
  | nil => rfl
  | cons o os ih =>
    cases o with
    | play p s => simp [chgs, ih]
    | chg k' x y => by_cases h : k' = k <;> simp [chgs, h, ih]

theorem posts_append (a b : List Ev) : posts (a ++ b) = posts a ++ posts b := by
  induction a with
  | nil => rfl
  | cons e es ih => cases e <;> simp [posts, ih]

theorem dispatched_append (k : Kind) (a b : List Ev) :
    dispatched k (a ++ b) = dispatched k a ++ dispatched k b := by
  induction a with
  | nil => rfl
  | cons e es ih =>
    cases e <;> simp [dispatched, ih]
    split <;> simp

theorem playsQ_append (a b : List Cb) : playsQ (a ++ b) = playsQ a ++ playsQ b := by
  induction a with
  | nil => rfl
  | cons c cs ih => cases c <;> simp [playsQ, ih]

theorem chgsQ_append (k : Kind) (a b : List Cb) : chgsQ k (a ++ b) = chgsQ k a ++ chgsQ k b := by
  induction a with
  | nil => rfl
  | cons c cs ih =>
    cases c with
    | play p s => simp [chgsQ, ih]
    | chg k' v => by_cases h : k' = k <;> simp [chgsQ, h, ih]

/-! ## `run` / `trace` over `++` -/

theorem run_append (st : St) (a b : List Ev) :
    run st (a ++ b) = ((run (run st a).1 b).1, (run st a).2 ++ (run (run st a).1 b).2) := by
  induction a generalizing st with
  | nil => simp [run]
  | cons e es ih => simp [run, ih, List.append_assoc]

theorem trace_append (st : St) (a b : List Ev) :
    trace st (a ++ b) = trace st a ++ trace (run st a).1 b := by
  induction a generalizing st with
  | nil => simp [trace, run]
  | cons e es ih => simp [trace, run, ih]

/-- what the listeners received overall is the concatenation of what they received per event -/
theorem run_outputs (st : St) (evs : List Ev) :
    (run st evs).2 = (trace st evs).flatMap (fun x => x.2.2) := by
  induction evs generalizing st with
  | nil => simp [run, trace]
  | cons e es ih => simp [run, trace, ih]

/-! ## frame conditions: a callback only touches `cur` -/

theorem runCb_frame (st : St) (c : Cb) :
    (runCb st c).1.regP = st.regP ∧ (runCb st c).1.regK = st.regK ∧
    (runCb st c).1.tkP = st.tkP ∧ (runCb st c).1.tkK = st.tkK ∧
    (runCb st c).1.handles = st.handles ∧ (runCb st c).1.lst = st.lst ∧
    (runCb st c).1.prev = st.prev ∧ (runCb st c).1.queue = st.queue := by
  cases c <;> simp [runCb]

theorem drainQ_frame (st : St) (q : List Cb) :
    (drainQ st q).1.regP = st.regP ∧ (drainQ st q).1.regK = st.regK ∧
    (drainQ st q).1.tkP = st.tkP ∧ (drainQ st q).1.tkK = st.tkK ∧
    (drainQ st q).1.handles = st.handles ∧ (drainQ st q).1.lst = st.lst ∧
    (drainQ st q).1.prev = st.prev ∧ (drainQ st q).1.queue = st.queue := by
  induction q generalizing st with
  | nil => simp [drainQ]
  | cons c cs ih =>
    have h := runCb_frame st c
    have h' := ih (runCb st c).1
    simp only [drainQ]
    refine ⟨h'.1.trans h.1, h'.2.1.trans h.2.1, h'.2.2.1.trans h.2.2.1, h'.2.2.2.1.trans h.2.2.2.1,
      h'.2.2.2.2.1.trans h.2.2.2.2.1, h'.2.2.2.2.2.1.trans h.2.2.2.2.2.1,
      h'.2.2.2.2.2.2.1.trans h.2.2.2.2.2.2.1, h'.2.2.2.2.2.2.2.trans h.2.2.2.2.2.2.2⟩

theorem drainQ_mainP (st : St) (q : List Cb) : (drainQ st q).1.mainP = st.mainP := by
  have h := drainQ_frame st q
  simp [St.mainP, h.1, h.2.2.1]

theorem runCb_mainP (st : St) (c : Cb) : (runCb st c).1.mainP = st.mainP := by
  have h := runCb_frame st c
  simp [St.mainP, h.1, h.2.2.1]

/-- the registered sets never change -/
theorem step_reg (st : St) (e : Ev) : (step st e).1.regP = st.regP ∧ (step st e).1.regK = st.regK := by
  cases e with
  | drain =>
    have h := drainQ_frame { st with queue := [] } st.queue
    exact ⟨h.1, h.2.1⟩
  | takeover p a b => simp only [step]; split <;> simp
  | release => simp only [step]; split <;> simp
  | _ => simp [step]

theorem run_reg (st : St) (evs : List Ev) : (run st evs).1.regP = st.regP ∧ (run st evs).1.regK = st.regK := by
  induction evs generalizing st with
  | nil => simp [run]
  | cons e es ih =>
    have h := step_reg st e
    have h' := ih (step st e).1
    simp only [run]
    exact ⟨h'.1.trans h.1, h'.2.trans h.2⟩

/-- after a drain nothing is pending -/
theorem step_drain_queue (st : St) : (step st .drain).1.queue = [] := by
  have h := drainQ_frame { st with queue := [] } st.queue
  simpa [step] using h.2.2.2.2.2.2.2

/-- only `drain` calls the user's listeners -/
theorem step_out_nil (st : St) (e : Ev) (h : e ≠ .drain) : (step st e).2 = [] := by
  cases e with
  | drain => exact absurd rfl h
  | takeover p a b => simp only [step]; split <;> rfl
  | release => simp only [step]; split <;> rfl
  | _ => rfl

/-! ## what a drain delivers -/

/-- plays delivered by a drain: a sublist of the queued plays (order kept, none invented) -/
theorem drainQ_plays_sublist (st : St) (q : List Cb) : (plays (drainQ st q).2).Sublist (playsQ q) := by
  induction q generalizing st with
  | nil => simp [drainQ, plays, playsQ]
  | cons c cs ih =>
    cases c with
    | play p s =>
      simp only [drainQ, runCb, playsQ]
      split
      · simpa [plays] using (ih st)
      · simpa [plays] using (ih st).cons (p, s)
    | chg k v =>
      simp only [drainQ, playsQ, plays_append]
      have : plays (runCb st (.chg k v)).2 = [] := by
        simp only [runCb]; split <;> simp [plays]
      rw [this]; simpa using ih _

/-- a delivered play comes from the protocol that is main while the queue runs -/
theorem drainQ_play_main (st : St) (q : List Cb) (p : Proto) (s : Val)
    (h : Out.play p s ∈ (drainQ st q).2) : st.mainP = some p := by
  induction q generalizing st with
  | nil => simp [drainQ] at h
  | cons c cs ih =>
    simp only [drainQ, List.mem_append] at h
    rcases h with h | h
    · cases c with
      | play p' s' =>
        simp only [runCb] at h
        split at h
        · simp at h; rcases h with ⟨rfl, rfl⟩; assumption
        · simp at h
      | chg k v => simp only [runCb] at h; split at h <;> simp at h
    · rw [← runCb_mainP st c]; exact ih _ h

end PyatvModel.C10
