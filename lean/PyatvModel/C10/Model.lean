/-
C10 — model of the push / audio / keyboard listener path of the facade.

Transcribed source (pinned tree):
  pyatv/core/__init__.py:170-194   AbstractPushUpdater.__init__ / post_update
        if playing != self._previous_state:
            self.state_dispatcher.dispatch(UpdatedState.Playing, playing)
            self.loop.call_soon(self.listener.playstatus_update, self, playing)
        self._previous_state = playing
  pyatv/support/state_producer.py:11-75  `listener` proxy: a no-op when no listener is set
        (resolved when `self.listener.playstatus_update` is *evaluated*, i.e. at post time)
  pyatv/core/facade.py:556-598     FacadePushUpdater.start / stop / playstatus_update
        start: for every instance: instance.listener = self
        stop : for every instance: instance.listener = None
        playstatus_update(updater, p): if updater == self.main_instance: user.playstatus_update
  pyatv/core/facade.py:418-455     FacadeAudio._volume_changed / _output_devices_changed
  pyatv/core/facade.py:505-528     FacadeKeyboard (message_filter: protocol == main_protocol,
        evaluated inside dispatch) / _focus_state_changed
  pyatv/core/protocol.py:79-125    MessageDispatcher.listen_to / dispatch (loop.call_soon per
        listener whose filter accepts the message)
  pyatv/core/relayer.py:57-71,117-127  main_instance / main_protocol / takeover / release
  pyatv/core/facade.py:763-789     FacadeAppleTV.takeover (all-or-nothing over the interfaces,
        returns the release function)

`takeover p` is the takeover as protocol code performs it: `core.takeover(*interfaces)` on
the Core that `pyatv.connect()` created for protocol p (pyatv/__init__.py: `partial(
atv.takeover, proto)` handed to `create_core`), i.e. `FacadeAppleTV.takeover(p, ...)`; the
harness exercises both that wiring and the direct facade call.

Granularity.  The event loop's ready queue is explicit (`queue`, FIFO — asyncio's
`call_soon` order is the runtime assumption): `post`/`change` *enqueue* a callback, the
`drain` event runs everything queued.  The property's histories are the ones where every
event is followed by a drain (`drained`); the theorems that hold for arbitrary placement
of drains are proved for arbitrary placement.

The protocol updaters' own `active` flag (`act`): `FacadePushUpdater.start/stop` call
`instance.start()/stop()`, which set it; real updaters (MRP/DMAP pollers) also turn
inactive by themselves after an error or cancellation while still holding the listener —
event `selfact`.  On the pinned code neither start(), stop() nor playstatus_update look
at it (stop() un-wires EVERY instance), so no other state depends on `act`
(`selfact_irrelevant`); `FacadePushUpdater.active` relays the main instance's flag, which
the driver prints and the harness compares.

User-initiated operations (`userop`): FacadeAudio.set_volume / volume_up / volume_down /
set_output_devices / add_ / remove_output_devices and FacadeKeyboard.text_* only relay to
the protocol instance (pyatv/core/facade.py:456-503, 535-553); they write none of `_volume`,
`_output_devices`, `_focus_state`.  What the listeners are told is decided by the device's
*reports* (`change`) alone, whether or not the device applied the requested value.

A user listener that raises: the call was made (it is an output of the model), the
exception leaves the call_soon callback into the loop's exception handler, and — because
the pinned code stores `_volume` / `_output_devices` / `_focus_state` and `_previous_state`
*before* calling the listener — no model state depends on it.  So a raising listener is
not an event of the model; the harness scripts listeners that raise on their k-th call and
requires model and code to keep agreeing.

Protocols are indices into `DEFAULT_PRIORITIES` (0 = highest priority); values (`Val`)
are indices into a value domain (Playing objects / volume levels / output-device lists /
focus states), 0 being the facade's initial volume / device list / focus state.
Import-free.
-/
namespace PyatvModel.C10

abbrev Proto := Nat
abbrev Val := Nat

/-- `DEFAULT_PRIORITIES` as indices (the harness maps `Protocol` members through the real
    list, so the order itself is read from the code on every run). -/
def priorities : List Proto := [0, 1, 2, 3, 4]

inductive Kind | vol | outs | foc
  deriving DecidableEq, Repr

/-- a callback sitting in the loop's ready queue -/
inductive Cb
  | play (p : Proto) (s : Val)      -- facade.playstatus_update(updater_p, s)
  | chg (k : Kind) (v : Val)        -- facade._volume_changed / _output_devices_changed / _focus_state_changed
  deriving DecidableEq, Repr

/-- a call received by the user's listener -/
inductive Out
  | play (p : Proto) (s : Val)          -- playstatus_update(updater_p, s)
  | chg (k : Kind) (old new : Val)      -- volume_update / outputdevices_update / focusstate_update (old, new)
  deriving DecidableEq, Repr

inductive Ev
  | post (p : Proto) (s : Val)                 -- updater_p.post_update(s)
  | start | stop                               -- facade push_updater.start() / .stop()
  | takeover (p : Proto) (push kbd : Bool)     -- atv.takeover(p, [PushUpdater]?, [Keyboard]?)
  | release                                    -- call the newest outstanding release function
  | change (k : Kind) (p : Proto) (v : Val)    -- protocol p's state dispatcher: dispatch(k, v)
  | selfact (p : Proto) (b : Bool)             -- updater_p's own `active` turns b by itself (error, cancellation, restart)
  | userop                                     -- user-initiated operation relayed by the facade (set_volume, volume_up/down,
                                               -- set/add/remove_output_devices, text_set …): no listener state is touched
  | drain                                      -- the loop runs everything in its ready queue
  deriving DecidableEq, Repr

structure St where
  regP : List Proto                 -- protocols that registered a push updater
  regK : List Proto                 -- protocols that registered a keyboard
  tkP : Option Proto := none        -- PushUpdater relayer: _takeover_protocol
  tkK : Option Proto := none        -- Keyboard relayer: _takeover_protocol
  handles : List (Bool × Bool) := []  -- outstanding release functions: which relayers they release
  lst : Bool := false               -- instance.listener is the facade (start) / None (stop)
  act : Proto → Bool := fun _ => false  -- updater_p.active (protocol-owned; start/stop set it, it may change by itself)
  prev : Proto → Option Val := fun _ => none   -- updater_p._previous_state
  cur : Kind → Val := fun _ => 0    -- facade _volume / _output_devices / _focus_state
  queue : List Cb := []             -- loop ready queue (FIFO)

def init (regP regK : List Proto) : St := { regP := regP, regK := regK }

/-- `Relayer.main_protocol`: first of `takeover ++ priorities` that has an instance. -/
def mainOf (reg : List Proto) (tk : Option Proto) : Option Proto :=
  (tk.toList ++ priorities).find? (fun p => decide (p ∈ reg))

def St.mainP (st : St) : Option Proto := mainOf st.regP st.tkP
def St.mainK (st : St) : Option Proto := mainOf st.regK st.tkK

def setFn {β : Type} (f : Nat → β) (a : Nat) (b : β) : Nat → β := fun x => if x = a then b else f x
def setCur (f : Kind → Val) (k : Kind) (v : Val) : Kind → Val := fun x => if x = k then v else f x

/-- one queued callback runs -/
def runCb (st : St) : Cb → St × List Out
  | .play p s => (st, if st.mainP = some p then [.play p s] else [])
  | .chg k v =>
      ({ st with cur := setCur st.cur k v },
       if v ≠ st.cur k then [.chg k (st.cur k) v] else [])

def drainQ (st : St) : List Cb → St × List Out
  | [] => (st, [])
  | c :: cs => ((drainQ (runCb st c).1 cs).1, (runCb st c).2 ++ (drainQ (runCb st c).1 cs).2)

/-- does `post p s` put a callback for the facade into the queue? -/
def St.postsThrough (st : St) (p : Proto) (s : Val) : Bool :=
  decide (st.prev p ≠ some s) && st.lst && decide (p ∈ st.regP)

/-- is `change k p v` accepted by the listener's message filter? -/
def St.accepts (st : St) (k : Kind) (p : Proto) : Bool :=
  match k with
  | .foc => decide (st.mainK = some p)
  | _ => true

/-- does `takeover p push kbd` succeed (no `InvalidStateError`)? -/
def St.takeoverOk (st : St) (push kbd : Bool) : Bool :=
  !((push && st.tkP.isSome) || (kbd && st.tkK.isSome))

def step (st : St) : Ev → St × List Out
  | .post p s =>
      ({ st with prev := setFn st.prev p (some s),
                 queue := if st.postsThrough p s then st.queue ++ [.play p s] else st.queue }, [])
  | .start => ({ st with lst := true, act := fun q => if q ∈ st.regP then true else st.act q }, [])
  | .stop => ({ st with lst := false, act := fun q => if q ∈ st.regP then false else st.act q }, [])
  | .selfact p b => ({ st with act := setFn st.act p b }, [])
  | .userop => (st, [])
  | .takeover p push kbd =>
      if st.takeoverOk push kbd then
        ({ st with tkP := if push then some p else st.tkP,
                   tkK := if kbd then some p else st.tkK,
                   handles := (push, kbd) :: st.handles }, [])
      else (st, [])     -- refused; relayers taken so far in this call are released again
  | .release =>
      match st.handles with
      | [] => (st, [])
      | (a, b) :: hs =>
        ({ st with tkP := if a then none else st.tkP, tkK := if b then none else st.tkK,
                   handles := hs }, [])
  | .change k p v =>
      ({ st with queue := if st.accepts k p then st.queue ++ [.chg k v] else st.queue }, [])
  | .drain => drainQ { st with queue := [] } st.queue

def run (st : St) : List Ev → St × List Out
  | [] => (st, [])
  | e :: es => ((run (step st e).1 es).1, (step st e).2 ++ (run (step st e).1 es).2)

/-- state before each event, the event, and what the user's listeners received during it -/
def trace (st : St) : List Ev → List (St × Ev × List Out)
  | [] => []
  | e :: es => (st, e, (step st e).2) :: trace (step st e).1 es

/-- the property's granularity: the loop drains after every event -/
def drained (evs : List Ev) : List Ev := evs.flatMap (fun e => [e, .drain])

/-! projections used by the theorems and the driver -/

def plays : List Out → List (Proto × Val)
  | [] => []
  | .play p s :: os => (p, s) :: plays os
  | _ :: os => plays os

def chgs (k : Kind) : List Out → List (Val × Val)
  | [] => []
  | .chg k' a b :: os => if k' = k then (a, b) :: chgs k os else chgs k os
  | _ :: os => chgs k os

def posts : List Ev → List (Proto × Val)
  | [] => []
  | .post p s :: es => (p, s) :: posts es
  | _ :: es => posts es

def dispatched (k : Kind) : List Ev → List Val
  | [] => []
  | .change k' _ v :: es => if k' = k then v :: dispatched k es else dispatched k es
  | _ :: es => dispatched k es

def playsQ : List Cb → List (Proto × Val)
  | [] => []
  | .play p s :: cs => (p, s) :: playsQ cs
  | _ :: cs => playsQ cs

def chgsQ (k : Kind) : List Cb → List Val
  | [] => []
  | .chg k' v :: cs => if k' = k then v :: chgsQ k cs else chgsQ k cs
  | _ :: cs => chgsQ k cs

end PyatvModel.C10
