import PyatvModel.C18.Model
/-
C18 — soundness of the static discipline `Bracketed` with respect to the interpreter
`run` (helper lemmas for Props/C18.lean).  One induction over programs, generalised over
the abstract value and the state.
-/
namespace PyatvModel.C18

/-- The abstract value `a` describes the state `s`: everything the call holds is in
    `may`; everything in `must` is held by the call and by nobody else. -/
def Sound (a : Abs) (s : St) : Prop :=
  (∀ r ∈ s.own, r ∈ a.may) ∧ (∀ r ∈ a.must, r ∈ s.own ∧ r ∉ s.env)

def SoundE (e : Option Abs) (s : St) : Prop := ∃ x, e = some x ∧ Sound x s

theorem mem_remove {r x : Res} {l : List Res} : x ∈ remove r l ↔ x ∈ l ∧ x ≠ r := by
  simp [remove]

theorem remove_eq_self {r : Res} {l : List Res} (h : r ∉ l) : remove r l = l := by
  unfold remove
  rw [List.filter_eq_self]
  intro x hx
  simp only [ne_eq, decide_not, Bool.not_eq_eq_eq_not, Bool.not_true, decide_eq_false_iff_not]
  intro hxr; exact h (hxr ▸ hx)

theorem sound_join_left {a b : Abs} {s : St} (h : Sound a s) : Sound (a.join b) s := by
  refine ⟨fun r hr => ?_, fun r hr => ?_⟩
  · simp only [Abs.join, List.mem_append]; exact Or.inl (h.1 r hr)
  · simp only [Abs.join, List.mem_filter] at hr; exact h.2 r hr.1

theorem sound_join_right {a b : Abs} {s : St} (h : Sound b s) : Sound (a.join b) s := by
  refine ⟨fun r hr => ?_, fun r hr => ?_⟩
  · simp only [Abs.join, List.mem_append]; exact Or.inr (h.1 r hr)
  · simp only [Abs.join, List.mem_filter, List.contains_eq_mem, decide_eq_true_eq] at hr
    exact h.2 r hr.2

theorem soundE_left {e1 e2 : Option Abs} {s : St} (h : SoundE e1 s) : SoundE (joinE e1 e2) s := by
  obtain ⟨x, rfl, hx⟩ := h
  cases e2 with
  | none => exact ⟨x, rfl, hx⟩
  | some y => exact ⟨x.join y, rfl, sound_join_left hx⟩

theorem soundE_right {e1 e2 : Option Abs} {s : St} (h : SoundE e2 s) : SoundE (joinE e1 e2) s := by
  obtain ⟨y, rfl, hy⟩ := h
  cases e1 with
  | none => exact ⟨y, rfl, hy⟩
  | some x => exact ⟨x.join y, rfl, sound_join_right hy⟩

theorem sound_drop {a : Abs} {s : St} (r : Res) (h : Sound a s) :
    Sound (a.drop r) { s with own := remove r s.own } := by
  refine ⟨fun x hx => ?_, fun x hx => ?_⟩
  · simp only [mem_remove] at hx
    simp only [Abs.drop, mem_remove]; exact ⟨h.1 x hx.1, hx.2⟩
  · simp only [Abs.drop, mem_remove] at hx
    have := h.2 x hx.1
    exact ⟨mem_remove.mpr ⟨this.1, hx.2⟩, this.2⟩

/-- A cancellation outcome can only stem from an injected cancellation. -/
theorem run_cancel (fault : Fault) : ∀ (p : Prog) (s : St),
    (run fault p s).2 = .exc .cancel → ∃ k, fault = some (k, .cancel) := by
  intro p
  induction p with
  | skip => intro s h; simp [run] at h
  | seq a b iha ihb =>
    intro s h
    cases h1 : run fault a s with
    | mk s1 o =>
      cases o with
      | ok => simp only [run, h1] at h; exact ihb s1 h
      | exc k =>
        simp only [run, h1] at h
        exact iha s (by rw [h1]; exact h)
  | acq rs => intro s h; simp only [run] at h; split at h <;> simp at h
  | new r => intro s h; simp [run] at h
  | relOwn r => intro s h; simp [run] at h
  | rel r => intro s h; simp [run] at h
  | await =>
    intro s h
    cases fault with
    | none => simp [run] at h
    | some f =>
      obtain ⟨k, kind⟩ := f
      cases kind with
      | fail => simp only [run] at h; split at h <;> simp [FKind.toE] at h
      | cancel => exact ⟨k, rfl⟩
  | tryFinally b f ihb ihf =>
    intro s h
    cases h1 : run fault b s with
    | mk s1 o =>
      cases h2 : run fault f s1 with
      | mk s2 o2 =>
        cases o2 with
        | ok =>
          simp only [run, h1, h2] at h
          exact ihb s (by rw [h1]; exact h)
        | exc k2 =>
          simp only [run, h1, h2] at h
          exact ihf s1 (by rw [h2]; exact h)
  | tryExcept b hd ihb ihh =>
    intro s h
    cases h1 : run fault b s with
    | mk s1 o =>
      cases o with
      | ok => simp [run, h1] at h
      | exc k =>
        cases k with
        | cancel => exact ihb s (by rw [h1])
        | fail =>
          cases h2 : run fault hd s1 with
          | mk s2 o2 =>
            cases o2 with
            | ok => simp [run, h1, h2] at h
            | exc k2 =>
              simp only [run, h1, h2] at h
              exact ihh s1 (by rw [h2]; exact h)
        | refused =>
          cases h2 : run fault hd s1 with
          | mk s2 o2 =>
            cases o2 with
            | ok => simp [run, h1, h2] at h
            | exc k2 =>
              simp only [run, h1, h2] at h
              exact ihh s1 (by rw [h2]; exact h)
  | attempt b ihb =>
    intro s h
    cases h1 : run fault b s with
    | mk s1 o =>
      cases o with
      | ok => simp [run, h1] at h
      | exc k =>
        cases k with
        | cancel => exact ihb s (by rw [h1])
        | fail => simp [run, h1] at h
        | refused => simp [run, h1] at h
  | whenOwn r b ihb =>
    intro s h
    simp only [run] at h
    split at h
    · exact ihb s h
    · simp at h

/-- What `absRun_sound` establishes for one program from one abstract value. -/
def Post (c : Bool) (fault : Fault) (p : Prog) (a : Abs) (s : St) : Prop :=
  (run fault p s).1.env = s.env ∧
  ((run fault p s).2 = .ok → Sound (absRun c p a).norm (run fault p s).1) ∧
  (∀ k, (run fault p s).2 = .exc k → SoundE (absRun c p a).exc (run fault p s).1)

theorem sound_env_own {a : Abs} {s t : St} (he : t.env = s.env) (ho : t.own = s.own)
    (h : Sound a s) : Sound a t := by
  unfold Sound at *; rw [he, ho]; exact h

/-- Soundness of the may/must analysis: the environment is never touched, a normal exit
    is described by `norm`, an exceptional exit by `exc`. -/
theorem absRun_sound (c : Bool) (fault : Fault)
    (hc : ∀ k, fault = some (k, .cancel) → c = true) :
    ∀ (p : Prog) (a : Abs) (s : St), Sound a s → (absRun c p a).safe = true →
      Post c fault p a s := by
  intro p
  induction p with
  | skip =>
    intro a s hs _
    exact ⟨rfl, fun _ => hs, fun k h => by simp [run] at h⟩
  | seq p q ihp ihq =>
    intro a s hs hsafe
    simp only [absRun, Bool.and_eq_true] at hsafe
    have hp := ihp a s hs hsafe.1
    unfold Post at hp ⊢
    cases h1 : run fault p s with
    | mk s1 o =>
      rw [h1] at hp
      cases o with
      | ok =>
        have hq := ihq _ s1 (hp.2.1 rfl) hsafe.2
        unfold Post at hq
        simp only [run, h1, absRun]
        refine ⟨hq.1.trans hp.1, hq.2.1, fun k hk => soundE_right (hq.2.2 k hk)⟩
      | exc k =>
        simp only [run, h1, absRun]
        refine ⟨hp.1, fun h => by simp at h, fun k' hk' => ?_⟩
        exact soundE_left (hp.2.2 k rfl)
  | acq rs =>
    intro a s hs _
    unfold Post
    simp only [run, absRun]
    split
    · refine ⟨rfl, fun h => by simp at h, fun k _ => ⟨a, rfl, hs⟩⟩
    · rename_i hn
      refine ⟨rfl, fun _ => ⟨fun r hr => ?_, fun r hr => ?_⟩, fun k h => by simp at h⟩
      · simp only [List.mem_append] at hr ⊢
        exact hr.elim Or.inl (fun h => Or.inr (hs.1 r h))
      · simp only [List.mem_append] at hr ⊢
        rcases hr with hr | hr
        · refine ⟨Or.inl hr, ?_⟩
          intro henv
          apply hn
          rw [List.any_eq_true]
          exact ⟨r, hr, by simp [held, henv]⟩
        · exact ⟨Or.inr (hs.2 r hr).1, (hs.2 r hr).2⟩
  | new r =>
    intro a s hs _
    unfold Post
    simp only [run, absRun]
    refine ⟨trivial, fun _ => ⟨fun x hx => ?_, fun x hx => ?_⟩, fun k h => by simp at h⟩
    · simp only [List.mem_cons] at hx ⊢
      exact hx.elim Or.inl (fun h => Or.inr (hs.1 x h))
    · exact ⟨List.mem_cons_of_mem _ (hs.2 x hx).1, (hs.2 x hx).2⟩
  | relOwn r =>
    intro a s hs _
    unfold Post
    simp only [run, absRun]
    exact ⟨trivial, fun _ => sound_drop r hs, fun k h => by simp at h⟩
  | rel r =>
    intro a s hs hsafe
    simp only [absRun, List.contains_eq_mem, decide_eq_true_eq] at hsafe
    have henv : remove r s.env = s.env := remove_eq_self (hs.2 r hsafe).2
    unfold Post
    simp only [run, absRun]
    refine ⟨henv, fun _ => ?_, fun k h => by simp at h⟩
    exact sound_env_own (s := { s with own := remove r s.own }) henv rfl (sound_drop r hs)
  | await =>
    intro a s hs _
    unfold Post
    have hs' : Sound a { s with n := s.n + 1 } := sound_env_own rfl rfl hs
    cases fault with
    | none =>
      simp only [run, absRun]
      exact ⟨trivial, fun _ => hs', fun k h => by simp at h⟩
    | some f =>
      obtain ⟨k, kind⟩ := f
      simp only [run, absRun]
      split
      · exact ⟨rfl, fun h => by simp at h, fun _ _ => ⟨a, rfl, hs'⟩⟩
      · exact ⟨rfl, fun _ => hs', fun k h => by simp at h⟩
  | tryFinally b f ihb ihf =>
    intro a s hs hsafe
    unfold Post
    cases h1 : run fault b s with
    | mk s1 o =>
      cases h2 : run fault f s1 with
      | mk s2 o2 =>
        cases hexc : (absRun c b a).exc with
        | none =>
          simp only [absRun, hexc, Bool.and_eq_true] at hsafe ⊢
          have hb := ihb a s hs hsafe.1
          unfold Post at hb
          rw [h1] at hb
          cases o with
          | exc k => obtain ⟨x, hx, _⟩ := hb.2.2 k rfl; rw [hexc] at hx; cases hx
          | ok =>
            have hf := ihf _ s1 (hb.2.1 rfl) hsafe.2
            unfold Post at hf
            rw [h2] at hf
            cases o2 with
            | ok =>
              simp only [run, h1, h2]
              exact ⟨hf.1.trans hb.1, fun _ => hf.2.1 rfl, fun k h => by simp at h⟩
            | exc k2 =>
              simp only [run, h1, h2]
              exact ⟨hf.1.trans hb.1, fun h => by simp at h, fun k hk => hf.2.2 k2 rfl⟩
        | some x =>
          simp only [absRun, hexc, Bool.and_eq_true] at hsafe ⊢
          have hb := ihb a s hs hsafe.1.1
          unfold Post at hb
          rw [h1] at hb
          cases o with
          | ok =>
            have hf := ihf _ s1 (hb.2.1 rfl) hsafe.1.2
            unfold Post at hf
            rw [h2] at hf
            cases o2 with
            | ok =>
              simp only [run, h1, h2]
              exact ⟨hf.1.trans hb.1, fun _ => hf.2.1 rfl, fun k h => by simp at h⟩
            | exc k2 =>
              simp only [run, h1, h2]
              exact ⟨hf.1.trans hb.1, fun h => by simp at h,
                fun k hk => soundE_left (hf.2.2 k2 rfl)⟩
          | exc k =>
            obtain ⟨x', hx', hsx⟩ := hb.2.2 k rfl
            rw [hexc] at hx'; cases hx'
            have hf := ihf x s1 hsx hsafe.2
            unfold Post at hf
            rw [h2] at hf
            cases o2 with
            | ok =>
              simp only [run, h1, h2]
              refine ⟨hf.1.trans hb.1, fun h => by simp at h, fun k' _ => ?_⟩
              exact soundE_right (soundE_left ⟨_, rfl, hf.2.1 rfl⟩)
            | exc k2 =>
              simp only [run, h1, h2]
              refine ⟨hf.1.trans hb.1, fun h => by simp at h, fun k' _ => ?_⟩
              exact soundE_right (soundE_right (hf.2.2 k2 rfl))
  | tryExcept b hd ihb ihh =>
    intro a s hs hsafe
    unfold Post
    cases h1 : run fault b s with
    | mk s1 o =>
      cases hexc : (absRun c b a).exc with
      | none =>
        simp only [absRun, hexc] at hsafe ⊢
        have hb := ihb a s hs hsafe
        unfold Post at hb
        rw [h1] at hb
        cases o with
        | exc k => obtain ⟨x, hx, _⟩ := hb.2.2 k rfl; rw [hexc] at hx; cases hx
        | ok =>
          simp only [run, h1]
          exact ⟨hb.1, fun _ => hb.2.1 rfl, fun k h => by simp at h⟩
      | some x =>
        simp only [absRun, hexc, Bool.and_eq_true] at hsafe ⊢
        have hb := ihb a s hs hsafe.1
        unfold Post at hb
        rw [h1] at hb
        cases o with
        | ok =>
          simp only [run, h1]
          exact ⟨hb.1, fun _ => hb.2.1 rfl, fun k h => by simp at h⟩
        | exc k =>
          obtain ⟨x', hx', hsx⟩ := hb.2.2 k rfl
          rw [hexc] at hx'; cases hx'
          have hcancel : k = .cancel → c = true := by
            intro hk
            obtain ⟨n, hn⟩ := run_cancel fault b s (by rw [h1, hk])
            exact hc n hn
          cases h2 : run fault hd s1 with
          | mk s2 o2 =>
            have hh := ihh x s1 hsx hsafe.2
            unfold Post at hh
            rw [h2] at hh
            cases k with
            | cancel =>
              simp only [run, h1]
              refine ⟨hb.1, fun h => by simp at h, fun k' _ => ?_⟩
              rw [hcancel rfl]
              exact soundE_left ⟨x, rfl, hsx⟩
            | fail =>
              cases o2 with
              | ok =>
                simp only [run, h1, h2]
                refine ⟨hh.1.trans hb.1, fun h => by simp at h, fun k' _ => ?_⟩
                exact soundE_right (soundE_left ⟨_, rfl, hh.2.1 rfl⟩)
              | exc k2 =>
                simp only [run, h1, h2]
                refine ⟨hh.1.trans hb.1, fun h => by simp at h, fun k' _ => ?_⟩
                exact soundE_right (soundE_right (hh.2.2 k2 rfl))
            | refused =>
              cases o2 with
              | ok =>
                simp only [run, h1, h2]
                refine ⟨hh.1.trans hb.1, fun h => by simp at h, fun k' _ => ?_⟩
                exact soundE_right (soundE_left ⟨_, rfl, hh.2.1 rfl⟩)
              | exc k2 =>
                simp only [run, h1, h2]
                refine ⟨hh.1.trans hb.1, fun h => by simp at h, fun k' _ => ?_⟩
                exact soundE_right (soundE_right (hh.2.2 k2 rfl))
  | attempt b ihb =>
    intro a s hs hsafe
    unfold Post
    cases h1 : run fault b s with
    | mk s1 o =>
      cases hexc : (absRun c b a).exc with
      | none =>
        simp only [absRun, hexc] at hsafe ⊢
        have hb := ihb a s hs hsafe
        unfold Post at hb
        rw [h1] at hb
        cases o with
        | exc k => obtain ⟨x, hx, _⟩ := hb.2.2 k rfl; rw [hexc] at hx; cases hx
        | ok =>
          simp only [run, h1]
          exact ⟨hb.1, fun _ => hb.2.1 rfl, fun k h => by simp at h⟩
      | some x =>
        simp only [absRun, hexc] at hsafe ⊢
        have hb := ihb a s hs hsafe
        unfold Post at hb
        rw [h1] at hb
        cases o with
        | ok =>
          simp only [run, h1]
          exact ⟨hb.1, fun _ => sound_join_left (hb.2.1 rfl), fun k h => by simp at h⟩
        | exc k =>
          obtain ⟨x', hx', hsx⟩ := hb.2.2 k rfl
          rw [hexc] at hx'; cases hx'
          cases k with
          | cancel =>
            obtain ⟨n, hn⟩ := run_cancel fault b s (by rw [h1])
            simp only [run, h1, hc n hn]
            exact ⟨hb.1, fun h => by simp at h, fun k' _ => ⟨x, rfl, hsx⟩⟩
          | fail =>
            simp only [run, h1]
            exact ⟨hb.1, fun _ => sound_join_right hsx, fun k h => by simp at h⟩
          | refused =>
            simp only [run, h1]
            exact ⟨hb.1, fun _ => sound_join_right hsx, fun k h => by simp at h⟩
  | whenOwn r b ihb =>
    intro a s hs hsafe
    simp only [absRun] at hsafe
    unfold Post
    simp only [run, absRun]
    split
    · have hb := ihb a s hs hsafe
      unfold Post at hb
      exact ⟨hb.1, fun h => sound_join_left (hb.2.1 h), hb.2.2⟩
    · rename_i hn
      refine ⟨rfl, fun _ => sound_join_right ?_, fun k h => by simp at h⟩
      have hr : r ∉ s.own := by simpa using hn
      have := sound_drop r hs
      rw [remove_eq_self hr] at this
      exact this

/-! ### pyatv.connect for an arbitrary list of protocols -/

/-- resources of the protocols `ps` -/
def IsProtoRes (ps : List Nat) (r : Res) : Prop := ∃ p ∈ ps, r = .conn p ∨ r = .task p

theorem joinE_some_may {e1 e2 : Option Abs} {x : Abs} (h : joinE e1 e2 = some x) {r : Res}
    (hr : r ∈ x.may) :
    (∃ y, e1 = some y ∧ r ∈ y.may) ∨ (∃ y, e2 = some y ∧ r ∈ y.may) := by
  cases e1 with
  | none => exact Or.inr ⟨x, by simpa [joinE] using h, hr⟩
  | some a =>
    cases e2 with
    | none => exact Or.inl ⟨x, by simpa [joinE] using h, hr⟩
    | some b =>
      simp only [joinE, Option.some.injEq] at h
      subst h
      simp only [Abs.join, List.mem_append] at hr
      exact hr.elim (fun h => Or.inl ⟨a, rfl, h⟩) (fun h => Or.inr ⟨b, rfl, h⟩)

theorem connectBody_abs (ps : List Nat) : ∀ a : Abs,
    (absRun false (connectBody ps) a).safe = true ∧
    (∀ x, (absRun false (connectBody ps) a).exc = some x →
      ∀ r ∈ x.may, r ∈ a.may ∨ IsProtoRes ps r) := by
  induction ps with
  | nil => intro a; simp [connectBody, absRun]
  | cons p ps ih =>
    intro a
    have h := ih { may := Res.task p :: Res.conn p :: a.may, must := a.must }
    simp only [connectBody, absRun, Bool.true_and]
    refine ⟨h.1, ?_⟩
    intro x hx r hr
    -- the protocol's own resources, or what was held before
    have own : ∀ y : Abs, y.may = Res.task p :: Res.conn p :: a.may → r ∈ y.may →
        r ∈ a.may ∨ IsProtoRes (p :: ps) r := by
      intro y hy hry
      rw [hy] at hry
      simp only [List.mem_cons] at hry
      rcases hry with rfl | rfl | h'
      · exact Or.inr ⟨p, List.mem_cons_self, Or.inr rfl⟩
      · exact Or.inr ⟨p, List.mem_cons_self, Or.inl rfl⟩
      · exact Or.inl h'
    rcases joinE_some_may hx hr with ⟨y, hy, hry⟩ | ⟨y, hy, hry⟩
    · cases hy; exact Or.inl hry
    · rcases joinE_some_may hy hry with ⟨z, hz, _⟩ | ⟨z, hz, hrz⟩
      · cases hz
      · rcases joinE_some_may hz hrz with ⟨w, hw, _⟩ | ⟨w, hw, hrw⟩
        · cases hw
        · rcases joinE_some_may hw hrw with ⟨u, hu, hru⟩ | ⟨u, hu, hru⟩
          · cases hu; exact own _ rfl hru
          · rcases joinE_some_may hu hru with ⟨v, hv, hrv⟩ | ⟨v, hv, hrv⟩
            · cases hv; exact own _ rfl hrv
            · rcases joinE_some_may hv hrv with ⟨t, ht, hrt⟩ | ⟨t, ht, hrt⟩
              · cases ht; exact own _ rfl hrt
              · rcases h.2 t ht r hrt with h' | ⟨q, hq, hq'⟩
                · exact own _ rfl h'
                · exact Or.inr ⟨q, List.mem_cons_of_mem _ hq, hq'⟩

theorem closeAll_abs (ps : List Nat) : ∀ x : Abs,
    (absRun false (closeAll ps) x).exc = none ∧
    (absRun false (closeAll ps) x).safe = true ∧
    (∀ r ∈ (absRun false (closeAll ps) x).norm.may, r ∈ x.may ∧ ¬ IsProtoRes ps r) := by
  induction ps with
  | nil =>
    intro x
    simp only [closeAll, absRun, true_and]
    intro r hr
    exact ⟨hr, fun ⟨p, hp, _⟩ => by cases hp⟩
  | cons p ps ih =>
    intro x
    have h := ih ((x.drop (.conn p)).drop (.task p))
    simp only [closeAll, absRun, joinE, Bool.true_and]
    refine ⟨h.1, h.2.1, ?_⟩
    intro r hr
    have hr' := h.2.2 r hr
    simp only [Abs.drop, mem_remove] at hr'
    refine ⟨hr'.1.1.1, ?_⟩
    rintro ⟨q, hq, hq'⟩
    rcases List.mem_cons.mp hq with rfl | hq
    · rcases hq' with rfl | rfl
      · exact hr'.1.1.2 rfl
      · exact hr'.1.2 rfl
    · exact hr'.2 ⟨q, hq, hq'⟩

/-- pyatv.connect is bracketed for EVERY list of protocols. -/
theorem connectScript_bracketed (ps : List Nat) : Bracketed false (connectScript ps) = true := by
  have hA := connectBody_abs ps { may := [Res.httpSession], must := [] }
  simp only [Bracketed, connectScript, absRun, Abs.empty, joinE, Bool.true_and]
  cases hexc : (absRun false (connectBody ps) { may := [Res.httpSession], must := [] }).exc with
  | none => simp [hA.1, excClean]
  | some x =>
    have hB := closeAll_abs ps x
    simp only [hB.1, Bool.false_eq_true, if_false]
    simp only [hA.1, hB.2.1, Bool.and_self, Bool.true_and, excClean, Abs.join]
    rw [List.isEmpty_iff]
    have hnil : (remove Res.httpSession (absRun false (closeAll ps) x).norm.may) = [] := by
      apply List.eq_nil_iff_forall_not_mem.mpr
      intro r hr
      rw [mem_remove] at hr
      have h1 := hB.2.2 r hr.1
      rcases hA.2 x hexc r h1.1 with h' | h'
      · simp at h'; exact hr.2 h'
      · exact h1.2 h'
    simp [Abs.drop, hnil]


end PyatvModel.C18
