import PyatvModel.Gen.C18Consts
/-
C18 — failed operations release everything they acquired: the executable model.

A *resource ledger* and a tiny structured language of acquisition scripts
(`acq | new | relOwn | rel | await | try/finally | except Exception: …; raise |
except Exception: pass`), a generic interpreter `run` with one injected fault (a failure
or a cancellation at the k-th executed fault point), and the three operations as DATA:

  connectScript     pyatv/__init__.py connect() (protocol set-up loop :129-160) together with
                    pyatv/core/facade.py FacadeAppleTV.connect (:700-733) / close (:744-761)
  streamFile        pyatv/protocols/raop/__init__.py RaopStream.stream_file (:331-406),
                    RaopPlaybackManager.acquire (:129) / setup (:136) / teardown (:166),
                    pyatv/protocols/raop/stream_client.py StreamClient.initialize (:287) / close (:279)
  playUrl           pyatv/protocols/airplay/__init__.py AirPlayStream.play_url (:106-148)
  `acq`             pyatv/core/facade.py FacadeAppleTV.takeover (:763, all-or-nothing over the
                    Relayers, pyatv/core/relayer.py :117 takeover / :125 release) and
                    RaopPlaybackManager.acquire (refuses when `_is_acquired`)

The scripts transcribe the code AFTER the eight `fix:` commits of this property (D13 a-h);
`Orig.*` are the scripts of the pinned tree before the repair (they are not `Bracketed`;
Props/C18.lean proves the leaks as counterexamples).

Fault points (`await`) are the collaborator calls, numbered in execution order exactly as
the harness numbers the calls of its fakes.  Convention: a faulting *acquiring* call
raises instead of acquiring (`await; new r`), an awaited *release* takes effect and may
then raise (`relOwn r; await`).

Shared state (visible to concurrent calls, guarded): `acquired` =
RaopPlaybackManager._is_acquired, `takeover i` = Relayer._takeover_protocol ≠ [] of the
i-th interface of `Gen.C18.ifaces`.  Everything else is an object created by the call
(connection, stream client, audio source, web server, play task): the ledger counts them
(`env ++ own` is a multiset), slot aliasing (`self._connection`) is abstracted.
-/
namespace PyatvModel.C18

inductive Res
  | httpSession            -- ClientSessionManager created by connect()
  | conn (p : Nat)         -- connection of the p-th protocol (PROTOCOLS order)
  | task (p : Nat)         -- background task of the p-th protocol
  | acquired               -- RaopPlaybackManager._is_acquired          (shared)
  | takeover (i : Nat)     -- Relayer of interface i is taken over      (shared)
  | rconn                  -- RAOP HttpConnection (playback_manager._connection)
  | ctrl                   -- StreamClient.control_client (UDP endpoint opened by initialize)
  | timing                 -- StreamClient.timing_server  (UDP endpoint opened by initialize)
  | audio                  -- opened AudioSource
  | server                 -- started StaticFileWebServer
  | playConn               -- AirPlay HttpConnection (AirPlayStream._connection)
  | playTask               -- AirPlayStream._play_task
  | eventch                -- AirPlayV2.event_channel (TCP connection opened by setup_channel)
  | fbtask                 -- AirPlayV2._feedback_task / AirPlayV1._keep_alive_task
  | audiosock              -- the audio UDP endpoint opened by StreamClient.send_audio
  | ptiming                -- the timing server (UDP endpoint) of AirPlayPlayer.play_url
  | volDeferred            -- not a resource: the local `volume` of stream_file is set (set_volume failed)
  deriving DecidableEq, Repr

def Res.toStr : Res → String
  | .httpSession => "httpSession"
  | .conn p => s!"conn{p}"
  | .task p => s!"task{p}"
  | .acquired => "acquired"
  | .takeover i => s!"takeover{i}"
  | .rconn => "rconn"
  | .ctrl => "ctrl"
  | .timing => "timing"
  | .audio => "audio"
  | .server => "server"
  | .playConn => "playConn"
  | .playTask => "playTask"
  | .eventch => "eventch"
  | .fbtask => "fbtask"
  | .audiosock => "audiosock"
  | .ptiming => "ptiming"
  | .volDeferred => "volDeferred"

/-- What strikes at a fault point. -/
inductive FKind | fail | cancel
  deriving DecidableEq, Repr

/-- Exception classes that matter for control flow: `refused` (InvalidStateError raised by
    acquire()/takeover()) and `fail` are `Exception`s, `cancel` (CancelledError) is not. -/
inductive EKind | fail | cancel | refused
  deriving DecidableEq, Repr

def FKind.toE : FKind → EKind
  | .fail => .fail
  | .cancel => .cancel

inductive Out | ok | exc (k : EKind)
  deriving DecidableEq, Repr

inductive Prog
  | skip
  | seq (a b : Prog)
  | acq (rs : List Res)      -- guarded all-or-nothing acquire; refused if one is held
  | new (r : Res)            -- the call creates / stores an object of its own
  | relOwn (r : Res)         -- release if this call holds it (closure, `if x:` on a local)
  | rel (r : Res)            -- unconditional reset of shared state (`_is_acquired = False`)
  | await                    -- collaborator call: fault point
  | tryFinally (body fin : Prog)
  | tryExcept (body handler : Prog)   -- try: body  except Exception: handler; raise
  | attempt (body : Prog)             -- try: body  except Exception: pass
  | whenOwn (r : Res) (body : Prog)   -- `if x: body` on a local that is set iff the call holds r
  deriving Repr

/-- Sequence of a list of statements. -/
def Prog.ofList : List Prog → Prog
  | [] => .skip
  | [p] => p
  | p :: ps => .seq p (Prog.ofList ps)

structure St where
  env : List Res    -- held by others when the call starts (shared state + their objects)
  own : List Res    -- held by this call
  n   : Nat         -- fault points passed so far
  deriving Repr

abbrev Fault := Option (Nat × FKind)

def remove (r : Res) (l : List Res) : List Res := l.filter (fun x => x ≠ r)

def held (s : St) (r : Res) : Bool := s.env.contains r || s.own.contains r

/-- The interpreter.  `fault = some (k, kind)`: the k-th executed fault point raises. -/
def run (fault : Fault) : Prog → St → St × Out
  | .skip, s => (s, .ok)
  | .seq a b, s =>
    match run fault a s with
    | (s1, .ok) => run fault b s1
    | r => r
  | .acq rs, s =>
    if rs.any (held s) then (s, .exc .refused) else ({ s with own := rs ++ s.own }, .ok)
  | .new r, s => ({ s with own := r :: s.own }, .ok)
  | .relOwn r, s => ({ s with own := remove r s.own }, .ok)
  | .rel r, s => ({ s with own := remove r s.own, env := remove r s.env }, .ok)
  | .await, s =>
    let s' := { s with n := s.n + 1 }
    match fault with
    | some (k, kind) => if k = s.n then (s', .exc kind.toE) else (s', .ok)
    | none => (s', .ok)
  | .tryFinally b f, s =>
    match run fault b s with
    | (s1, o) =>
      match run fault f s1 with
      | (s2, .ok) => (s2, o)
      | r => r
  | .tryExcept b h, s =>
    match run fault b s with
    | (s1, .ok) => (s1, .ok)
    | (s1, .exc .cancel) => (s1, .exc .cancel)
    | (s1, .exc k) =>
      match run fault h s1 with
      | (s2, .ok) => (s2, .exc k)
      | r => r
  | .attempt b, s =>
    match run fault b s with
    | (s1, .exc .cancel) => (s1, .exc .cancel)
    | (s1, _) => (s1, .ok)
  | .whenOwn r b, s => if s.own.contains r then run fault b s else (s, .ok)

/-- The ledger an observer sees: everything held, by anybody. -/
def St.ledger (s : St) : List Res := s.env ++ s.own

def start (env : List Res) : St := { env := env, own := [], n := 0 }

/-- What the call holds while it is suspended in its k-th fault point (`none`: the call
    ends before reaching it).  Used for the overlap scenarios of the correspondence run. -/
def parkAt (k : Nat) : Prog → St → St × Option Out
  -- `none` = parked (state frozen), `some o` = ran to the end with outcome o
  | .skip, s => (s, some .ok)
  | .seq a b, s =>
    match parkAt k a s with
    | (s1, some .ok) => parkAt k b s1
    | r => r
  | .await, s => if k = s.n then (s, none) else ({ s with n := s.n + 1 }, some .ok)
  | .tryFinally b f, s =>
    match parkAt k b s with
    | (s1, none) => (s1, none)
    | (s1, some o) =>
      match parkAt k f s1 with
      | (s2, some .ok) => (s2, some o)
      | r => r
  | .tryExcept b h, s =>
    match parkAt k b s with
    | (s1, some (.exc .cancel)) => (s1, some (.exc .cancel))
    | (s1, some (.exc e)) =>
      (match parkAt k h s1 with
       | (s2, some .ok) => (s2, some (.exc e))
       | r => r)
    | r => r
  | .attempt b, s =>
    match parkAt k b s with
    | (s1, none) => (s1, none)
    | (s1, some (.exc .cancel)) => (s1, some (.exc .cancel))
    | (s1, some _) => (s1, some .ok)
  | .whenOwn r b, s => if s.own.contains r then parkAt k b s else (s, some .ok)
  | p, s => match run none p s with | (s1, o) => (s1, some o)

/-! ## The operations as data (repaired code) -/

open PyatvModel.Gen.C18 in
/-- Interfaces taken over by RaopStream.stream_file (indices into `Gen.C18.ifaces`). -/
def raopTakeover : List Res := raopTakeoverIdx.map Res.takeover

open PyatvModel.Gen.C18 in
def airplayTakeover : List Res := airplayTakeoverIdx.map Res.takeover

/-- `FacadeAppleTV.connect`: one protocol after the other in PROTOCOLS order.  Per protocol
    four collaborator calls, each a fault point: `await setup_data.connect()` (establishes
    the connection and its background task), then — synchronous callbacks into protocol
    supplied objects — `setup_data.interfaces.items()` (registration), iteration of
    `setup_data.features` (feature mapping) and `setup_data.device_info()`. -/
def connectBody : List Nat → Prog
  | [] => .skip
  | p :: ps =>
    .seq .await (.seq (.new (.conn p)) (.seq (.new (.task p))
      (.seq .await (.seq .await (.seq .await (connectBody ps))))))

/-- `FacadeAppleTV.close()`: every connected protocol is closed (its tasks cancelled). -/
def closeAll : List Nat → Prog
  | [] => .skip
  | p :: ps => .seq (.relOwn (.conn p)) (.seq (.relOwn (.task p)) (closeAll ps))

/-- pyatv.connect for the enabled protocols `ps` (indices in PROTOCOLS order):
    create the session, try: set up + connect each; except Exception: close the facade
    (protocols connected so far + session) and re-raise. -/
def connectScript (ps : List Nat) : Prog :=
  .seq (.new .httpSession)
    (.tryExcept (connectBody ps)
      (.seq (closeAll ps) (.seq (.relOwn .httpSession) .await)))

/-- StreamProtocol.setup of the protocol object chosen by RaopPlaybackManager.setup:
    pyatv/protocols/raop/protocols/airplayv1.py AirPlayV1.setup (:47) — pair-verify, ANNOUNCE,
    SETUP; airplayv2.py AirPlayV2.setup (:107) = _setup_base (:51: verify_connection, SETUP,
    setup_channel → event channel) + setup_audio_stream (:112: SETUP). -/
def protoSetup (v2 : Bool) : List Prog :=
  if v2 then [.await, .await, .await, .new .eventch, .await] else [.await, .await, .await]

/-- start_feedback: AirPlayV1 (:85) asks /feedback and then starts the keep-alive task;
    AirPlayV2 (:167) just creates the feedback task. -/
def startFeedback (v2 : Bool) : List Prog :=
  if v2 then [.new .fbtask] else [.await, .new .fbtask]

/-- StreamClient.close (:279): protocol.teardown() (cancels the feedback task, closes the event
    channel — AirPlayV2.teardown :158, AirPlayV1.teardown :79), control and timing endpoints. -/
def clientClose : List Prog :=
  [.relOwn .fbtask, .relOwn .eventch, .relOwn .ctrl, .relOwn .timing]

/-- StreamClient.send_audio (:375): audio endpoint, start_feedback, RECORD, FLUSH, the deferred
    set_volume, the packet pump; finally: TEARDOWN request, close the audio endpoint,
    protocol.teardown(), close(). -/
def sendAudio (v2 : Bool) : Prog :=
  .tryFinally
    (Prog.ofList ([.await, .new .audiosock] ++ startFeedback v2 ++
      [.await, .await,                                                -- rtsp.record, rtsp.flush
       .whenOwn .volDeferred (.seq (.relOwn .volDeferred) .await),    -- if volume: await self.set_volume(...)
       .await]))                                                      -- _stream_data
    (.tryFinally (.whenOwn .audiosock .await)                         -- try: if transport: await rtsp.teardown()
      (Prog.ofList (.relOwn .audiosock :: clientClose)))              -- finally: transport.close(); protocol.teardown(); self.close()

/-- RaopStream.stream_file.  `volKnown`: the receiver reported `initialVolume` (no
    set_volume call); `metaGiven`: metadata passed by the caller (no get_metadata call);
    `v2`: the receiver is streamed to with AirPlay 2 (get_protocol_version). -/
def streamFileWith (send : Bool → Prog) (volKnown metaGiven v2 : Bool) : Prog :=
  .seq (.acq [.acquired])                                   -- playback_manager.acquire()
    (.tryFinally
      (Prog.ofList ([
        .acq raopTakeover,                                  -- core.takeover(Audio, Metadata, PushUpdater, RemoteControl)
        .await, .new .rconn,                                -- playback_manager.setup: http_connect
        .await,                                             --   get_protocol_version (helper parsing of the TXT record; may raise)
        .await, .new .ctrl,                                 -- client.initialize: control endpoint
        .await, .new .timing,                               --                    timing endpoint
        .await] ++                                          --                    rtsp.info
        protoSetup v2 ++ [                                  --                    protocol.setup
        .await, .new .audio,                                -- open_source
        (if metaGiven then .skip else .await),              -- audio_file.get_metadata
        (if volKnown then .skip                             -- try: audio.set_volume
         else .attempt (.tryExcept .await (.new .volDeferred))),  --   except Exception: volume = self.audio.volume
        send v2 ]))                                         -- client.send_audio
      (.seq (Prog.ofList ((raopTakeover.map .relOwn) ++ [.relOwn .volDeferred]))  -- if takeover_release: takeover_release()
        (.tryFinally
          (.whenOwn .audio (.seq (.relOwn .audio) .await))  -- if audio_file: await audio_file.close()
          (Prog.ofList (clientClose ++                      -- teardown(): stream_client.close()
                        [.relOwn .rconn, .rel .acquired])))))  --   connection.close(); _is_acquired = False

def streamFile (volKnown metaGiven v2 : Bool) : Prog := streamFileWith sendAudio volKnown metaGiven v2

/-- StreamProtocol.play_url of the protocol object: AirPlayV1.play_url (airplayv1.py :117) —
    pair-verify, POST /play; AirPlayV2.play_url (airplayv2.py :204) — _setup_base
    (verify_connection, SETUP, setup_channel → event channel), start_feedback (task), RECORD,
    POST /play, five property/rate requests. -/
def protoPlay (v2 : Bool) : List Prog :=
  if v2 then [.await, .await, .await, .new .eventch, .new .fbtask, .await, .await,
              .await, .await, .await, .await, .await]
  else [.await, .await]

/-- AirPlayPlayer.play_url (pyatv/protocols/airplay/player.py :44) inside the play task:
    `async with timing_server(rtsp)` (:25, a UDP endpoint, closed by its finally), the
    protocol's play_url, then polling /playback-info until the media ended (two polls).
    `guarded = false` is the pinned context manager without try/finally (D13g). -/
def playerPlay (guarded v2 : Bool) : Prog :=
  let body := Prog.ofList ([.await, .new .ptiming] ++ protoPlay v2 ++ [.await, .await])
  if guarded then .tryFinally body (.relOwn .ptiming) else .seq body (.relOwn .ptiming)

/-- AirPlayStream.play_url.  `localFile`: the URL is a local file served by a web server;
    `v2`: AirPlay 2 receiver.  `td`: the inner finally calls stream_protocol.teardown(). -/
def playUrlWith (guarded td : Bool) (localFile v2 : Bool) : Prog :=
  .tryFinally
    (Prog.ofList [
      (if localFile then .seq .await (.new .server) else .skip),   -- await server.start()
      .acq airplayTakeover,                                        -- core.takeover(RemoteControl)
      .tryFinally
        (Prog.ofList [.await, .new .playConn,                      -- http_connect
                      .new .playTask,                              -- ensure_future(player.play_url)
                      playerPlay guarded v2])                      -- await self._play_task
        (Prog.ofList ((airplayTakeover.map .relOwn) ++ [.relOwn .playTask] ++
          (if td then [.relOwn .fbtask, .relOwn .eventch] else []) ++   -- stream_protocol.teardown()
          [.relOwn .playConn])) ])
    (if localFile then .seq (.relOwn .server) .await else .skip)   -- if server: await server.close()

def playUrl (localFile v2 : Bool) : Prog := playUrlWith true true localFile v2

/-- play_url with the evaluation of the call's own arguments (`int(kwargs.get("position", 0))`)
    as an explicit fault point: it can fail by itself (ValueError / TypeError).  In the code it
    sits inside the inner try, after the connection was opened (`outside = false`);
    `outside = true` is the placement between takeover() and the try. -/
def playUrlArgs (outside : Bool) (localFile v2 : Bool) : Prog :=
  .tryFinally
    (Prog.ofList [
      (if localFile then .seq .await (.new .server) else .skip),
      .acq airplayTakeover,
      (if outside then .await else .skip),
      .tryFinally
        (Prog.ofList [.await, .new .playConn,
                      (if outside then .skip else .await),         -- position = int(kwargs.get("position", 0))
                      .new .playTask,
                      playerPlay true v2])
        (Prog.ofList ((airplayTakeover.map .relOwn) ++ [.relOwn .playTask, .relOwn .fbtask, .relOwn .eventch,
          .relOwn .playConn])) ])
    (if localFile then .seq (.relOwn .server) .await else .skip)

/-! ## The pinned tree before the repair (D13 a–e) -/
namespace Orig

/-- except Exception: await session_manager.close(); raise — protocols stay connected. -/
def connectScript (ps : List Nat) : Prog :=
  .seq (.new .httpSession)
    (.tryExcept (connectBody ps) (.seq (.relOwn .httpSession) .await))

/-- acquire() and takeover() precede the try; audio close and teardown are sequential. -/
def streamFile (volKnown metaGiven : Bool) : Prog :=
  .seq (.acq [.acquired])
    (.seq (.acq raopTakeover)
      (.tryFinally
        (Prog.ofList [
          .await, .new .rconn, .await, .new .ctrl, .await, .new .timing, .await, .await,
          .await, .new .audio,
          (if metaGiven then .skip else .await),
          (if volKnown then .skip else .attempt .await),
          .await ])
        (Prog.ofList ((raopTakeover.map .relOwn) ++
          [.whenOwn .audio (.seq (.relOwn .audio) .await),
           -- close() reaches the control endpoint only through self.control_client, which
           -- was assigned only after BOTH endpoints existed
           .whenOwn .timing (.relOwn .ctrl), .relOwn .timing,
           .relOwn .rconn, .rel .acquired]))))

/-- D13f: send_audio's finally awaited the TEARDOWN request unprotected: when it failed or
    was cancelled the audio endpoint was never closed. -/
def sendAudio (v2 : Bool) : Prog :=
  .tryFinally
    (Prog.ofList ([.await, .new .audiosock] ++ startFeedback v2 ++
      [.await, .await, .whenOwn .volDeferred (.seq (.relOwn .volDeferred) .await), .await]))
    (.seq (.whenOwn .audiosock (.seq .await (.relOwn .audiosock))) (Prog.ofList clientClose))

/-- stream_file of the current tree with that send_audio. -/
def streamFileF (volKnown metaGiven v2 : Bool) : Prog := streamFileWith sendAudio volKnown metaGiven v2

/-- D13g / D13h: the player's timing server had no try/finally; play_url never called
    stream_protocol.teardown(). -/
def playUrlG (localFile v2 : Bool) : Prog := playUrlWith false true localFile v2
def playUrlH (localFile v2 : Bool) : Prog := playUrlWith true false localFile v2

/-- the web server is started and the takeover done before the try. -/
def playUrl (localFile : Bool) : Prog :=
  Prog.ofList [
    (if localFile then .seq .await (.new .server) else .skip),
    .acq airplayTakeover,
    .tryFinally
      (Prog.ofList [.await, .new .playConn, .new .playTask, .await])
      (Prog.ofList ((airplayTakeover.map .relOwn) ++ [.relOwn .playTask, .relOwn .playConn] ++
        (if localFile then [.relOwn .server, .await] else []))) ]

end Orig

/-! ## `Bracketed`: the decidable static discipline

A may/must analysis of what the call holds.  `may` over-approximates `own`; `must` are
resources the call certainly holds *and obtained through a guard* (so nobody else holds
them).  `exc = none`: cannot raise.  `safe`: every unconditional `rel r` happens where
`r ∈ must` (it cannot clobber another call's state).  `c`: cancellation is in scope. -/

structure Abs where
  may : List Res
  must : List Res
  deriving Repr

def Abs.join (a b : Abs) : Abs :=
  { may := a.may ++ b.may, must := a.must.filter (fun r => b.must.contains r) }

def joinE : Option Abs → Option Abs → Option Abs
  | none, e => e
  | e, none => e
  | some a, some b => some (a.join b)

structure AbsRes where
  norm : Abs
  exc : Option Abs
  safe : Bool

def Abs.drop (a : Abs) (r : Res) : Abs := { may := remove r a.may, must := remove r a.must }

def absRun (c : Bool) : Prog → Abs → AbsRes
  | .skip, a => ⟨a, none, true⟩
  | .seq p q, a =>
    let rp := absRun c p a
    let rq := absRun c q rp.norm
    ⟨rq.norm, joinE rp.exc rq.exc, rp.safe && rq.safe⟩
  | .acq rs, a => ⟨{ may := rs ++ a.may, must := rs ++ a.must }, some a, true⟩
  | .new r, a => ⟨{ a with may := r :: a.may }, none, true⟩
  | .relOwn r, a => ⟨a.drop r, none, true⟩
  | .rel r, a => ⟨a.drop r, none, a.must.contains r⟩
  | .await, a => ⟨a, some a, true⟩
  | .tryFinally b f, a =>
    let rb := absRun c b a
    let rn := absRun c f rb.norm
    match rb.exc with
    | none => ⟨rn.norm, rn.exc, rb.safe && rn.safe⟩
    | some x =>
      let rx := absRun c f x
      ⟨rn.norm, joinE rn.exc (joinE (some rx.norm) rx.exc), rb.safe && rn.safe && rx.safe⟩
  | .tryExcept b h, a =>
    let rb := absRun c b a
    match rb.exc with
    | none => ⟨rb.norm, none, rb.safe⟩
    | some x =>
      let rx := absRun c h x
      ⟨rb.norm, joinE (if c then some x else none) (joinE (some rx.norm) rx.exc), rb.safe && rx.safe⟩
  | .attempt b, a =>
    let rb := absRun c b a
    match rb.exc with
    | none => ⟨rb.norm, none, rb.safe⟩
    | some x => ⟨rb.norm.join x, if c then some x else none, rb.safe⟩
  | .whenOwn r b, a =>
    let rb := absRun c b a
    ⟨rb.norm.join (a.drop r), rb.exc, rb.safe⟩

def Abs.empty : Abs := { may := [], must := [] }

def excClean : Option Abs → Bool
  | none => true
  | some x => x.may.isEmpty

/-- Every acquisition lies inside a try whose finally (or except-handler) releases it on
    every exceptional exit, and no unconditional release can hit somebody else's state.
    `c = true`: also under cancellation. -/
def Bracketed (c : Bool) (p : Prog) : Bool :=
  let r := absRun c p Abs.empty
  r.safe && excClean r.exc

/-- Additionally: a normal return holds nothing either (streams; not connect). -/
def ReleasesOnReturn (c : Bool) (p : Prog) : Bool :=
  (absRun c p Abs.empty).norm.may.isEmpty

end PyatvModel.C18
