import PyatvModel.Base.Bytes
import PyatvModel.C18.Model
/-
Line protocol (C18):
  run  <script> <env> <fault>   → `<outcome> <ledger> <points>`
  held <script> <env> <k>       → `<ledger>` of the call parked in fault point k, or `end`
  script  = connect:<csv protocol indices|-> | stream:<volKnown><metaGiven><airplay2> | play:<local><airplay2>
            (prefix `orig-` selects the pre-repair scripts)
  env     = csv of resource names | -          fault = - | <k>:fail | <k>:cancel
  outcome = ok | fail | cancel | refused       ledger = sorted csv of resource names | -
-/
namespace PyatvModel.C18

def suffixNat? (pre s : String) : Option Nat :=
  if s.startsWith pre then (s.drop pre.length).toString.toNat? else none

def Res.ofStr? (s : String) : Option Res :=
  match s with
  | "httpSession" => some .httpSession
  | "acquired" => some .acquired
  | "rconn" => some .rconn
  | "ctrl" => some .ctrl
  | "timing" => some .timing
  | "audio" => some .audio
  | "server" => some .server
  | "playConn" => some .playConn
  | "playTask" => some .playTask
  | "eventch" => some .eventch
  | "fbtask" => some .fbtask
  | "audiosock" => some .audiosock
  | "ptiming" => some .ptiming
  | _ =>
    match suffixNat? "conn" s, suffixNat? "task" s, suffixNat? "takeover" s with
    | some p, _, _ => some (.conn p)
    | _, some p, _ => some (.task p)
    | _, _, some i => some (.takeover i)
    | _, _, _ => none

def parseEnv? (s : String) : Option (List Res) :=
  if s == "-" then some [] else (s.splitOn ",").mapM Res.ofStr?

def bit? : Char → Option Bool
  | '0' => some false
  | '1' => some true
  | _ => none

def parseScript? (s : String) : Option Prog :=
  let (orig, s) := if s.startsWith "orig-" then (true, (s.drop 5).toString) else (false, s)
  match s.splitOn ":" with
  | ["connect", ps] =>
    (csvNats? ps).map (fun l => if orig then Orig.connectScript l else connectScript l)
  | ["stream", f] =>
    match f.toList with
    | [v, m] => do
      let v ← bit? v
      let m ← bit? m
      if orig then pure (Orig.streamFile v m) else none
    | [v, m, p] => do
      let v ← bit? v
      let m ← bit? m
      let p ← bit? p
      if orig then none else pure (streamFile v m p)
    | _ => none
  | ["play", f] =>
    match f.toList with
    | [l] => do
      let l ← bit? l
      if orig then pure (Orig.playUrl l) else none
    | [l, p] => do
      let l ← bit? l
      let p ← bit? p
      if orig then none else pure (playUrl l p)
    | _ => none
  | _ => none

def parseFault? (s : String) : Option Fault :=
  if s == "-" then some none else
  match s.splitOn ":" with
  | [k, "fail"] => k.toNat?.map (fun k => some (k, FKind.fail))
  | [k, "cancel"] => k.toNat?.map (fun k => some (k, FKind.cancel))
  | _ => none

def insertSorted (x : String) : List String → List String
  | [] => [x]
  | y :: ys => if x ≤ y then x :: y :: ys else y :: insertSorted x ys

def sortStrs (l : List String) : List String := l.foldr insertSorted []

def ledgerStr (s : St) : String := csv (sortStrs (s.ledger.map Res.toStr))

def Out.toStr : Out → String
  | .ok => "ok"
  | .exc .fail => "fail"
  | .exc .cancel => "cancel"
  | .exc .refused => "refused"

def handle (_ : Unit) (ws : List String) : Unit × String :=
  match ws with
  | ["run", sc, env, f] =>
    match parseScript? sc, parseEnv? env, parseFault? f with
    | some p, some e, some f =>
      let (s, o) := run f p (start e)
      ((), s!"{o.toStr} {ledgerStr s} {s.n}")
    | _, _, _ => ((), "bad-op")
  | ["held", sc, env, k] =>
    match parseScript? sc, parseEnv? env, k.toNat? with
    | some p, some e, some k =>
      match parkAt k p (start e) with
      | (s, none) => ((), ledgerStr s)
      | (_, some _) => ((), "end")
    | _, _, _ => ((), "bad-op")
  | _ => ((), "bad-op")

end PyatvModel.C18
