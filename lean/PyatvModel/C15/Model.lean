import PyatvModel.Base.Bytes
/-
C15 — model of the file-system effects of `FileStorage.save()`
(pyatv/storage/file_storage.py:38 `save`, :45 `_save_file`) and of a process crash.

A file system is `disk : Path → Option Bytes` (what a reader sees / what survives the
death of the process) plus `pend : Path → Bytes`, the data handed to `file.write()` of
an open file object that has not been flushed yet.  A crash may persist ANY PREFIX of
the pending data of a file (Python's buffered writer flushes whenever it likes), so the
states visible after a crash at some point are `disk p ++ take k (pend p)`.

Every open file has a write offset (`off`): `open(…, "w")` truncates and starts at 0,
`os.open(O_WRONLY|O_CREAT)` WITHOUT `O_TRUNC` (`openKeep`) keeps the existing content and
starts at 0, so that flushed data OVERWRITES the old bytes and a longer old tail survives.

Operations are addressed by the path the file *currently* has (the harness renames the
path of an open file object when it sees `os.replace`), i.e. `rename` moves the inode
including its pending data.

Trace shapes:
  pinned   `_save_file`:  [openTrunc target, write target new, close target]
  repaired `_save_file`:  [openTrunc tmp, write tmp new, flush tmp, fsync tmp, close tmp,
                           rename tmp target]
Import-free except Base.
-/
namespace PyatvModel.C15

abbrev Path := String

inductive Op
  | openTrunc (p : Path)
  | openKeep (p : Path)                 -- create if missing, no truncation, offset 0
  | write (p : Path) (bs : Bytes)
  | flush (p : Path)
  | fsync (p : Path)
  | close (p : Path)
  | rename (p q : Path)
  | unlink (p : Path)
  deriving DecidableEq, Repr

structure FS where
  disk : Path → Option Bytes
  pend : Path → Bytes
  off : Path → Nat := fun _ => 0

/-- write `bs` into `d` at offset `o` (the file grows when needed) -/
def overwrite (d : Bytes) (o : Nat) (bs : Bytes) : Bytes :=
  d.take o ++ bs ++ d.drop (o + bs.length)

def upd {α : Type} (f : Path → α) (p : Path) (v : α) : Path → α :=
  fun q => if q = p then v else f q

/-- move buffered data to the file (nothing happens when the file has been unlinked) -/
def FS.flush (fs : FS) (p : Path) : FS :=
  { disk := upd fs.disk p ((fs.disk p).map (overwrite · (fs.off p) (fs.pend p))),
    pend := upd fs.pend p [],
    off := upd fs.off p (fs.off p + (fs.pend p).length) }

def step (fs : FS) : Op → FS
  | .openTrunc p => { disk := upd fs.disk p (some []), pend := upd fs.pend p [], off := upd fs.off p 0 }
  | .openKeep p =>
      { disk := upd fs.disk p (some ((fs.disk p).getD [])), pend := upd fs.pend p [], off := upd fs.off p 0 }
  | .write p bs => { fs with pend := upd fs.pend p (fs.pend p ++ bs) }
  | .flush p => fs.flush p
  | .fsync _ => fs
  | .close p => fs.flush p
  | .rename p q =>
      match fs.disk p with
      | none => fs                                   -- ENOENT: nothing happens
      | some c =>
        { disk := upd (upd fs.disk q (some c)) p none,
          pend := upd (upd fs.pend q (fs.pend p)) p [],
          off := upd (upd fs.off q (fs.off p)) p 0 }
  | .unlink p => { disk := upd fs.disk p none, pend := upd fs.pend p [], off := upd fs.off p 0 }

def run (fs : FS) (tr : List Op) : FS := tr.foldl step fs

/-- what a crash *now* can leave at path `t`: the file with any prefix of its pending data -/
def views (fs : FS) (t : Path) : List (Option Bytes) :=
  (List.range ((fs.pend t).length + 1)).map fun k =>
    (fs.disk t).map (overwrite · (fs.off t) ((fs.pend t).take k))

/-- contents of `t` over all crash points of the trace: before the first operation, after
    every operation, inside every write/flush (through `views`). -/
def crashTargets (fs : FS) : List Op → Path → List (Option Bytes)
  | [], t => views fs t
  | op :: tr, t => views fs t ++ crashTargets (step fs op) tr t

/-- the same crash contents grouped per crash point (driver output) -/
def crashGroups (fs : FS) : List Op → Path → List (List (Option Bytes))
  | [], t => [views fs t]
  | op :: tr, t => views fs t :: crashGroups (step fs op) tr t

/-- does the operation change content, pending data or existence of `t`? -/
def touches (t : Path) : Op → Bool
  | .openTrunc p => p == t
  | .openKeep p => p == t
  | .write p _ => p == t
  | .flush p => p == t
  | .fsync _ => false
  | .close p => p == t
  | .rename p q => p == t || q == t
  | .unlink p => p == t

/-- split at the first operation touching `t` -/
def splitTouch (t : Path) : List Op → List Op × Option (Op × List Op)
  | [] => ([], none)
  | op :: tr =>
    if touches t op then ([], some (op, tr))
    else let (pre, r) := splitTouch t tr; (op :: pre, r)

/-- executable check of the safe-save shape: the first operation touching the target is
    `rename tmp target` with `tmp ≠ target`, at that moment `tmp` holds exactly `new` with
    nothing pending, and nothing afterwards touches the target. -/
def safeSaveB (fs0 : FS) (new : Bytes) (tr : List Op) (t : Path) : Bool :=
  match splitTouch t tr with
  | (pre, some (.rename tmp q, post)) =>
      q == t && tmp != t && (run fs0 pre).disk tmp == some new && (run fs0 pre).pend tmp == []
        && post.all (fun op => !touches t op)
  | _ => false

/-- initial file system of a save: only the target (possibly) exists -/
def initFS (t : Path) (old : Option Bytes) : FS :=
  { disk := fun q => if q = t then old else none, pend := fun _ => [] }

/-- … plus leftovers of an earlier, crashed save (other files in the directory) -/
def initFSx (t : Path) (old : Option Bytes) (extras : List (Path × Bytes)) : FS :=
  { disk := fun q => if q = t then old else extras.lookup q, pend := fun _ => [] }

end PyatvModel.C15
