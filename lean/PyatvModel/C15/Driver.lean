import PyatvModel.Base.Bytes
import PyatvModel.C15.Model
/-
Line protocol (stateless):
  `crash <target> <old> <new> <op> <op> ...`
     old = `~` (no file) | hex | `-` (empty file);  new = hex | `-`
  `crashx <target> <old> <new> <init> <op> ...`  the same from a directory that also holds
     other files: init = `-` | <p>:<hex>,<p>:<hex>,…  (leftovers of an earlier crashed save)
     op  = o:<p> | k:<p> (open without truncation, offset 0) | w:<p>:<hex> | f:<p> | s:<p> | c:<p> | r:<p>:<q> | u:<p>
           (open-truncate, write, flush, fsync, close, rename, unlink; paths are tokens
            without `:` or blanks)
  → `<safe> <final> <g0/g1/.../gn>`   safe = 1|0 (`safeSaveB`), final = target content after
     the whole trace, g_i = `c,c,...` the possible target contents when the process dies after
     i operations (one per persisted prefix of the pending data; `~` = absent, `-` = empty).
-/
namespace PyatvModel.C15

def optHex : Option Bytes → String
  | none => "~"
  | some b => toHex b

def parseOp (w : String) : Option Op :=
  match w.splitOn ":" with
  | ["o", p] => some (.openTrunc p)
  | ["k", p] => some (.openKeep p)
  | ["w", p, h] => (ofHex? h).map (.write p)
  | ["f", p] => some (.flush p)
  | ["s", p] => some (.fsync p)
  | ["c", p] => some (.close p)
  | ["r", p, q] => some (.rename p q)
  | ["u", p] => some (.unlink p)
  | _ => none

def parseInit (w : String) : Option (List (Path × Bytes)) :=
  if w == "-" then some [] else
  (w.splitOn ",").mapM fun e =>
    match e.splitOn ":" with
    | [p, h] => (ofHex? h).map fun b => (p, b)
    | _ => none

def crashLine (t old new init : String) (ops : List String) : String :=
  let old? : Option (Option Bytes) := if old == "~" then some none else (ofHex? old).map some
  match old?, ofHex? new, parseInit init, ops.mapM parseOp with
  | some old, some new, some extras, some tr =>
    let fs0 := initFSx t old extras
    let safe := if safeSaveB fs0 new tr t then "1" else "0"
    let final := match views (run fs0 tr) t with
      | v :: _ => optHex v
      | [] => "?"
    s!"{safe} {final} {String.intercalate "/" ((crashGroups fs0 tr t).map fun g => String.intercalate "," (g.map optHex))}"
  | _, _, _, _ => "bad-op"

def handle (_ : Unit) (ws : List String) : Unit × String :=
  match ws with
  | "crash" :: t :: old :: new :: ops => ((), crashLine t old new "-" ops)
  | "crashx" :: t :: old :: new :: init :: ops => ((), crashLine t old new init ops)
  | _ => ((), "bad-op")

end PyatvModel.C15
