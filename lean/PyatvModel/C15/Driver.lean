import PyatvModel.Base.Bytes
import PyatvModel.C15.Model
/-
Line protocol (stateless):
  `crash <target> <old> <new> <op> <op> ...`
     old = `~` (no file) | hex | `-` (empty file);  new = hex | `-`
     op  = o:<p> | w:<p>:<hex> | f:<p> | s:<p> | c:<p> | r:<p>:<q> | u:<p>
           (open-truncate, write, flush, fsync, close, rename, unlink; paths are tokens
            without `:` or blanks)
  → `<safe> <final> <g0/g1/.../gn>`   safe = 1|0 (`safeSaveB`), final = target content after
     the whole trace, g_i = `c,c,...` the possible target contents when the process dies after
     i operations (one per persisted prefix of the pending data; `~` = absent, `-` = empty).
-/
namespace PyatvModel.C15

def optHex : Option Bytes → String
  | none => "~"
  | some b => toHex b

def parseOp (w : String) : Option Op :=
  match w.splitOn ":" with
  | ["o", p] => some (.openTrunc p)
  | ["w", p, h] => (ofHex? h).map (.write p)
  | ["f", p] => some (.flush p)
  | ["s", p] => some (.fsync p)
  | ["c", p] => some (.close p)
  | ["r", p, q] => some (.rename p q)
  | ["u", p] => some (.unlink p)
  | _ => none

def handle (_ : Unit) (ws : List String) : Unit × String :=
  match ws with
  | "crash" :: t :: old :: new :: ops =>
    let old? : Option (Option Bytes) := if old == "~" then some none else (ofHex? old).map some
    match old?, ofHex? new, ops.mapM parseOp with
    | some old, some new, some tr =>
      let fs0 := initFS t old
      let safe := if safeSaveB fs0 new tr t then "1" else "0"
      let final := match views (run fs0 tr) t with
        | v :: _ => optHex v
        | [] => "?"
      ((), s!"{safe} {final} {String.intercalate "/" ((crashGroups fs0 tr t).map fun g => String.intercalate "," (g.map optHex))}")
    | _, _, _ => ((), "bad-op")
  | _ => ((), "bad-op")

end PyatvModel.C15
