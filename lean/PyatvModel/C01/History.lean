import PyatvModel.C01.Lemmas
/-
C01 — invariants of takeover/release histories (helper lemmas; core Lean only).
-/
namespace PyatvModel.C01
variable {P I : Type} [DecidableEq I]

/-- protocols of the not-yet-called closures that cover interface `i` -/
def holders (s : HState I P) (i : I) : List P :=
  (s.live.filter fun e => e.taken.contains i).map (·.proto)

/-- The invariant carried through well-formed histories. -/
structure Inv (s : HState I P) : Prop where
  single : ∀ i, (s.fac i).takeover.length ≤ 1
  coh : ∀ i, (s.fac i).takeover = holders s i
  liveIssued : ∀ e ∈ s.live, s.issued[e.id]? = some e

theorem eq_singleton_of_length_le_one {α : Type} {l : List α} {a : α} (h : l.length ≤ 1) (ha : a ∈ l) :
    l = [a] := by
  match l, h, ha with
  | [b], _, ha => simp at ha; rw [ha]
  | _ :: _ :: _, h, _ => simp at h

theorem takeover_error_fac (f f' : Facade I P) (p : P) (is : List (Option I))
    (h : f.takeover p is = .error f') : ∀ j, f' j = f j :=
  takeoverLoop_error p f is f [] f' (by simp) (by simp) h

theorem takeover_ok_fac (f f' : Facade I P) (p : P) (is : List (Option I)) (taken : List I)
    (h : f.takeover p is = .ok (f', taken)) :
    taken.Nodup ∧ (∀ j, j ∈ taken ↔ some j ∈ is) ∧ (∀ j ∈ taken, (f j).takeover = []) ∧
      (∀ j, f' j = if j ∈ taken then { f j with takeover := [p] } else f j) := by
  obtain ⟨new, h1, h2, h3, h4, h5⟩ := takeoverLoop_ok p is f [] f' taken h
  simp at h1; subst h1
  exact ⟨h2, h3, h4, h5⟩

/-- single-holder needs no well-formedness: whatever is called in whatever order, a
    relayer's takeover list never holds more than one protocol -/
theorem single_step (s : HState I P) (op : Op I P) (h : ∀ i, (s.fac i).takeover.length ≤ 1) :
    ∀ i, ((step s op).1.fac i).takeover.length ≤ 1 := by
  intro i
  cases op with
  | takeover p is =>
    simp only [step]
    split
    · rename_i f taken hr
      obtain ⟨_, _, _, h5⟩ := takeover_ok_fac _ _ _ _ _ hr
      simp only [h5 i]
      split
      · simp
      · exact h i
    · rename_i f hr
      simp only [takeover_error_fac _ _ _ _ hr i]
      exact h i
  | release k =>
    simp only [step]
    split
    · simp only [releaseAll_apply]
      split
      · simp [Relayer.release]
      · exact h i
    · exact h i

theorem inv_step (s : HState I P) (op : Op I P) (hinv : Inv s) (hal : op.allowed s = true) :
    Inv (step s op).1 := by
  cases op with
  | takeover p is =>
    simp only [step]
    split
    · rename_i f taken hr
      obtain ⟨_, _, h4, h5⟩ := takeover_ok_fac _ _ _ _ _ hr
      refine ⟨?_, ?_, ?_⟩
      · intro i
        simp only [h5 i]
        split
        · simp
        · exact hinv.single i
      · intro i
        simp only [holders, h5 i, List.filter_append, List.map_append]
        by_cases hi : i ∈ taken
        · have h0 := h4 i hi
          rw [hinv.coh i] at h0
          simp only [holders, List.map_eq_nil_iff] at h0
          simp only [hi, if_true, h0, List.map_nil, List.nil_append]
          simp [hi]
        · simp only [hi, if_false]
          rw [hinv.coh i]
          simp [holders, hi]
      · intro e he
        simp only at he ⊢
        rcases List.mem_append.mp he with he | he
        · have := hinv.liveIssued e he
          have hlt : e.id < s.issued.length := by
            rcases List.getElem?_eq_some_iff.mp this with ⟨hlt, _⟩
            exact hlt
          rw [List.getElem?_append_left hlt]
          exact this
        · simp at he
          subst he
          simp
    · rename_i f hr
      have hf := takeover_error_fac _ _ _ _ hr
      refine ⟨?_, ?_, ?_⟩
      · intro i; simp only [hf i]; exact hinv.single i
      · intro i; simp only [hf i]; exact hinv.coh i
      · exact hinv.liveIssued
  | release k =>
    simp only [Op.allowed, List.any_eq_true, beq_iff_eq] at hal
    obtain ⟨e, he, hek⟩ := hal
    have hiss : s.issued[k]? = some e := hek ▸ hinv.liveIssued e he
    simp only [step]
    simp only [hiss]
    refine ⟨?_, ?_, ?_⟩
    · intro i
      simp only [releaseAll_apply]
      split
      · simp [Relayer.release]
      · exact hinv.single i
    · intro i
      simp only [releaseAll_apply, holders, List.filter_filter]
      by_cases hi : i ∈ e.taken
      · simp only [hi, if_true, Relayer.release]
        -- the only live closure covering `i` is `e`
        have hlen := hinv.single i
        rw [hinv.coh i] at hlen
        simp only [holders, List.length_map] at hlen
        have hmem : e ∈ s.live.filter (fun x => x.taken.contains i) := by
          simp [List.mem_filter, he, hi]
        have hsing := eq_singleton_of_length_le_one hlen hmem
        have : s.live.filter (fun a => a.taken.contains i && a.id != k)
            = (s.live.filter (fun x => x.taken.contains i)).filter (fun a => a.id != k) := by
          rw [List.filter_filter]
          congr 1
          funext a
          exact Bool.and_comm _ _
        rw [this, hsing]
        simp [hek]
      · simp only [hi, if_false]
        rw [hinv.coh i]
        simp only [holders]
        congr 1
        apply List.filter_congr
        intro x hx
        by_cases hxk : x.id = k
        · have hx' := hinv.liveIssued x hx
          rw [hxk, hiss] at hx'
          cases hx'
          simp [hi]
        · simp [hxk]
    · intro x hx
      exact hinv.liveIssued x (List.mem_filter.mp hx).1

theorem single_run (ops : List (Op I P)) : ∀ (s : HState I P),
    (∀ i, (s.fac i).takeover.length ≤ 1) → ∀ i, ((run s ops).fac i).takeover.length ≤ 1 := by
  induction ops with
  | nil => intro s h; exact h
  | cons op ops ih => intro s h; exact ih _ (single_step s op h)

theorem inv_run (ops : List (Op I P)) : ∀ (s : HState I P),
    Inv s → wellFormed s ops = true → Inv (run s ops) := by
  induction ops with
  | nil => intro s h _; exact h
  | cons op ops ih =>
    intro s h hwf
    simp only [wellFormed, Bool.and_eq_true] at hwf
    exact ih _ (inv_step s op h hwf.1) hwf.2

/-- histories never touch registrations or priority lists -/
theorem frame_step (s : HState I P) (op : Op I P) (i : I) :
    ((step s op).1.fac i).reg = (s.fac i).reg ∧ ((step s op).1.fac i).prio = (s.fac i).prio := by
  cases op with
  | takeover p is =>
    simp only [step]
    split
    · rename_i f taken hr
      obtain ⟨_, _, _, h5⟩ := takeover_ok_fac _ _ _ _ _ hr
      simp only [h5 i]
      split
      · exact ⟨rfl, rfl⟩
      · exact ⟨rfl, rfl⟩
    · rename_i f hr
      simp only [takeover_error_fac _ _ _ _ hr i]
      simp
  | release k =>
    simp only [step]
    split
    · simp only [releaseAll_apply]
      split
      · exact ⟨rfl, rfl⟩
      · exact ⟨rfl, rfl⟩
    · exact ⟨rfl, rfl⟩

theorem frame_run (ops : List (Op I P)) : ∀ (s : HState I P) (i : I),
    ((run s ops).fac i).reg = (s.fac i).reg ∧ ((run s ops).fac i).prio = (s.fac i).prio := by
  induction ops with
  | nil => intro s i; exact ⟨rfl, rfl⟩
  | cons op ops ih =>
    intro s i
    have h1 := ih (step s op).1 i
    have h2 := frame_step s op i
    exact ⟨h1.1.trans h2.1, h1.2.trans h2.2⟩

theorem inv_init (f : Facade I P) (h : ∀ i, (f i).takeover = []) : Inv (HState.init f) :=
  ⟨fun i => by simp [HState.init, h i], fun i => by simp [HState.init, holders, h i],
   fun e he => by simp [HState.init] at he⟩

end PyatvModel.C01
