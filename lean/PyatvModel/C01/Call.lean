import PyatvModel.C13.Model
/-
C01 — the facade member as a whole: every member of the nine relayed interfaces is
`self.relay(name)(…)`, except `FacadeStream.play_url` (facade.py:353-359), which first
requires the PlayUrl feature to be Available and otherwise raises NotSupportedError
without consulting the relayer.
-/
namespace PyatvModel.C01
open PyatvModel.Gen.C01 PyatvModel.Gen.C13 PyatvModel.C13

def playUrlGate (S : PSet) (env : Env) : Bool :=
  facadeFeature S env .f_PlayUrl == .available

def call (S : PSet) (t : List Proto) (env : Env) (m : Member) : Except Err Proto :=
  if m == .stream_play_url && !playUrlGate S env then .error .notSupported
  else route S t m

end PyatvModel.C01
