import PyatvModel.Base.Bytes
import PyatvModel.C01.Call
/-
Line protocol of the C01 model.

  table <S> <t> <v>            stateless: routing table when the protocols `S` (five 0/1 digits in
                               the order MRP DMAP Companion AirPlay RAOP) are connected and protocol
                               `t` (`-` = nobody) holds a takeover of every interface; `v` = 1 iff the
                               AirPlay service advertises video (PlayUrl gate)
  synth <t> <regs> <impls>     stateless, ARBITRARY tables (the generic relayer with the facade's priority lists):
                               regs = Iface:P+P,… who registered an instance; impls = Iface.member:P+P,… who overrides it
  reset <S> <v>                start a history on a fresh facade            → ok
  takeover <p> <i,i,…>         FacadeAppleTV.takeover(p, *ifaces); `?` = an object that is no
                               interface, `-` = no interfaces           → ok <id> <holders> <table>
                                                                          | invalid <holders> <table>
  release <id>                 call closure <id>                        → released <holders> <table>
                                                                          | no-token
  table entries:  <Iface>.<member>=<Protocol>|!      (`!` = NotSupportedError)
-/
namespace PyatvModel.C01
open PyatvModel PyatvModel.Gen.C01 PyatvModel.C13

def parseSet? (s : String) : Option PSet :=
  match s.toList.map (fun c => if c == '1' then some true else if c == '0' then some false else none) with
  | [some a, some b, some c, some d, some e] => some ⟨a, b, c, d, e⟩
  | _ => none

def parseProto? (s : String) : Option Proto := Proto.all.find? (fun p => p.name == s)
def parseIface? (s : String) : Option Iface := Iface.all.find? (fun i => i.name == s)

def parseBit? (s : String) : Option Bool :=
  if s == "1" then some true else if s == "0" then some false else none

def parseIfaces? (s : String) : Option (List (Option Iface)) :=
  if s == "-" then some []
  else (s.splitOn ",").mapM fun w => if w == "?" then some none else (parseIface? w).map some

def resStr : Except Err Proto → String
  | .ok p => p.name
  | .error _ => "!"

def tableStr (S : PSet) (hold : Iface → List Proto) (env : Env) : String :=
  csv (Member.all.map fun m => s!"{m.iface.name}.{m.name}={resStr (call S (hold m.iface) env m)}")

def holdersStr (hold : Iface → List Proto) : String :=
  csv (Iface.all.filterMap fun i =>
    match hold i with
    | [] => none
    | ps => some s!"{i.name}={String.intercalate "+" (ps.map Proto.name)}")

structure DState where
  S : PSet
  video : Bool
  h : HState Iface Proto

def DState.init : DState := ⟨⟨false, false, false, false, false⟩, true, HState.init (mkFacade ⟨false, false, false, false, false⟩ fun _ => [])⟩

def DState.view (d : DState) : String :=
  let hold := fun i => (d.h.fac i).takeover
  s!"{holdersStr hold} {tableStr d.S hold (freshEnv d.video)}"

def handle (d : DState) (ws : List String) : DState × String :=
  match ws with
  | ["table", s, t, v] =>
    match parseSet? s, (if t == "-" then some [] else (parseProto? t).map fun p => [p]), parseBit? v with
    | some S, some t, some v => (d, tableStr S (fun _ => t) (freshEnv v))
    | _, _, _ => (d, "bad-op")
  | ["synth", t, regs, impls] =>
    -- arbitrary tables: regs = Iface:P+P,…  (who registered an instance), impls = Iface.member:P+P,… (who overrides it)
    let parseProtos := fun (x : String) => (x.splitOn "+").filterMap parseProto?
    let regOf := fun (i : Iface) =>
      ((regs.splitOn ",").filterMap fun e =>
        match e.splitOn ":" with
        | [n, ps] => if n == i.name then some (parseProtos ps) else none
        | _ => none).flatten
    let implOf := fun (m : Member) =>
      ((impls.splitOn ",").filterMap fun e =>
        match e.splitOn ":" with
        | [n, ps] => if n == s!"{m.iface.name}.{m.name}" then some (parseProtos ps) else none
        | _ => none).flatten
    match (if t == "-" then some [] else (parseProto? t).map fun p => [p]) with
    | some t =>
      (d, csv (Member.all.map fun m =>
        let r : Relayer Proto := { prio := relayerPrio m.iface, reg := fun p => (regOf m.iface).contains p, takeover := t }
        s!"{m.iface.name}.{m.name}={resStr (r.relay (fun p => (implOf m).contains p) (callOverride m.iface))}"))
    | none => (d, "bad-op")
  | ["reset", s, v] =>
    match parseSet? s, parseBit? v with
    | some S, some v => (⟨S, v, HState.init (mkFacade S fun _ => [])⟩, "ok")
    | _, _ => (d, "bad-op")
  | ["takeover", p, is] =>
    match parseProto? p, parseIfaces? is with
    | some p, some is =>
      let (h', out) := step d.h (.takeover p is)
      let d' := { d with h := h' }
      match out with
      | .token id => (d', s!"ok {id} {d'.view}")
      | .invalidState => (d', s!"invalid {d'.view}")
      | _ => (d, "bad-op")
    | _, _ => (d, "bad-op")
  | ["release", k] =>
    match k.toNat? with
    | some k =>
      let (h', out) := step d.h (.release k)
      let d' := { d with h := h' }
      match out with
      | .released => (d', s!"released {d'.view}")
      | .noSuchToken => (d, "no-token")
      | _ => (d, "bad-op")
    | none => (d, "bad-op")
  | _ => (d, "bad-op")

end PyatvModel.C01
