import PyatvModel.C01.Model
import PyatvModel.Gen.C01Tables
/-
C01 — the generic relayer model instantiated with the regenerated tables
(`Gen/C01Tables.lean`): which relayer `FacadeAppleTV.connect` (facade.py:700-742) builds
for interface `i` when the set `S` of protocols is connected, and which `priority=`
argument the facade member passes to `relay` (FacadePower: facade.py:319-337).
-/
namespace PyatvModel.C01
open PyatvModel.Gen.C01

/-- a set of connected protocols -/
structure PSet where
  mrp : Bool
  dmap : Bool
  companion : Bool
  airplay : Bool
  raop : Bool
  deriving DecidableEq, Repr

def PSet.mem (S : PSet) : Proto → Bool
  | .mrp => S.mrp | .dmap => S.dmap | .companion => S.companion | .airplay => S.airplay | .raop => S.raop

def bools : List Bool := [true, false]

def PSet.all : List PSet :=
  bools.flatMap fun a => bools.flatMap fun b => bools.flatMap fun c => bools.flatMap fun d =>
    bools.map fun e => ⟨a, b, c, d, e⟩

def PSet.nonempty (S : PSet) : Bool := Proto.all.any S.mem

/-- the relayer of interface `i` after `connect()`: every connected protocol registered the
    instances its SetupData provides (facade.py:727-728); `t` = current `_takeover_protocol` -/
def mkRelayer (S : PSet) (i : Iface) (t : List Proto) : Relayer Proto :=
  { prio := relayerPrio i, reg := fun p => S.mem p && (provides p).contains i, takeover := t }

def mkFacade (S : PSet) (hold : Iface → List Proto) : Facade Iface Proto :=
  fun i => mkRelayer S i (hold i)

/-- the `priority=` argument of the facade member: FacadePower passes OVERRIDE_PRIORITIES -/
def callOverride : Iface → List Proto
  | .power => powerOverridePriorities
  | _ => []

/-- which protocol's instance `relayer.relay(member, priority=…)` returns -/
def routeIn (r : Relayer Proto) (m : Member) : Except Err Proto :=
  r.relay (fun p => impl p m) (callOverride m.iface)

def route (S : PSet) (t : List Proto) (m : Member) : Except Err Proto :=
  routeIn (mkRelayer S m.iface t) m

end PyatvModel.C01
