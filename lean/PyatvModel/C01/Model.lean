/-
C01 — generic model of the relayer and of the facade-level takeover (import-free).

Transcribes
  pyatv/core/relayer.py
    :44-50   Relayer.__init__      (`_priorities`, `_interfaces`, `_takeover_protocol`)
    :89-94   Relayer.relay         chain(_takeover_protocol, priority or _priorities)
    :96-115  Relayer._find_instance first protocol of the chain that is registered and
                                   whose class overrides the member; else NotSupportedError
    :117-123 Relayer.takeover      InvalidStateError when somebody already holds it
    :125-127 Relayer.release       unconditional `_takeover_protocol = []`
  pyatv/core/facade.py
    :763-789 FacadeAppleTV.takeover loop over the interfaces with the `taken_over`
                                   accumulator; on InvalidStateError `_release()` (which
                                   releases exactly `taken_over`) and re-raise; unknown
                                   interfaces (`relayer is None`) are skipped; the returned
                                   closure releases `taken_over`.

`P` = protocol identifiers, `I` = interface identifiers; both arbitrary here, the tables
of the real code are plugged in by `PyatvModel.C01.Tables`.  `_takeover_protocol` is
modelled as the Python list it is (the single-holder fact is a theorem, not a type).
Not modelled: `_find_instance`'s RuntimeError for a target that is no attribute of the
instance's class (impossible for subclasses of the interface) — the correspondence run
would report it.  A release closure keeps working after it was called (it releases the
same relayers again); that is modelled (`issued` is append-only), well-formed histories
are a hypothesis of the theorems, not a restriction of the model.
-/
namespace PyatvModel.C01

inductive Err | notSupported | invalidState
  deriving DecidableEq, Repr

deriving instance DecidableEq for Except

/-- One `Relayer`: priority list, which protocols registered an instance, takeover list. -/
structure Relayer (P : Type) where
  prio : List P
  reg : P → Bool
  takeover : List P

variable {P I : Type}

/-- `Relayer._find_instance(target, priority)`; `impl p` = "the class registered by `p`
    overrides `target`". -/
def findInstance (reg impl : P → Bool) : List P → Except Err P
  | [] => .error .notSupported
  | p :: ps => if reg p && impl p then .ok p else findInstance reg impl ps

/-- `priority or self._priorities` -/
def effPrio (override own : List P) : List P :=
  if override.isEmpty then own else override

/-- `Relayer.relay(target, priority)` reduced to which protocol's instance is returned. -/
def Relayer.relay (r : Relayer P) (impl : P → Bool) (override : List P := []) : Except Err P :=
  findInstance r.reg impl (r.takeover ++ effPrio override r.prio)

def Relayer.takeoverBy (r : Relayer P) (p : P) : Except Err (Relayer P) :=
  if r.takeover.isEmpty then .ok { r with takeover := [p] } else .error .invalidState

def Relayer.release (r : Relayer P) : Relayer P := { r with takeover := [] }

/-- `FacadeAppleTV._interfaces` -/
abbrev Facade (I P : Type) := I → Relayer P

def Facade.set [DecidableEq I] (f : Facade I P) (i : I) (r : Relayer P) : Facade I P :=
  fun j => if j = i then r else f j

/-- the `_release` closure: `for relayer in taken_over: relayer.release()` -/
def releaseAll [DecidableEq I] (f : Facade I P) : List I → Facade I P
  | [] => f
  | i :: is => releaseAll (f.set i (f i).release) is

/-- The loop of `FacadeAppleTV.takeover`.  `none` in the interface list = an object that is
    no key of `_interfaces` (skipped).  `.error f'` = InvalidStateError was raised and the
    facade is left in state `f'`; `.ok (f', taken)` = the closure over `taken` is returned. -/
def takeoverLoop [DecidableEq I] (p : P) (f : Facade I P) (taken : List I) :
    List (Option I) → Except (Facade I P) (Facade I P × List I)
  | [] => .ok (f, taken)
  | none :: is => takeoverLoop p f taken is
  | some i :: is =>
    match (f i).takeoverBy p with
    | .error _ => .error (releaseAll f taken)
    | .ok r => takeoverLoop p (f.set i r) (taken ++ [i]) is

def Facade.takeover [DecidableEq I] (f : Facade I P) (p : P) (is : List (Option I)) :
    Except (Facade I P) (Facade I P × List I) :=
  takeoverLoop p f [] is

/-! ### Histories of takeover / release -/

/-- a closure returned by `takeover`: who took over, which relayers it releases -/
structure Token (I P : Type) where
  id : Nat
  proto : P
  taken : List I

structure HState (I P : Type) where
  fac : Facade I P
  issued : List (Token I P)     -- every closure ever returned (id = position), append-only
  live : List (Token I P)       -- closures not yet called

inductive Op (I P : Type)
  | takeover (p : P) (is : List (Option I))
  | release (tok : Nat)

inductive Outcome
  | token (id : Nat)      -- takeover returned closure number `id`
  | invalidState          -- takeover raised InvalidStateError
  | released              -- closure called
  | noSuchToken           -- no such closure exists (not expressible in Python)
  deriving DecidableEq, Repr

def step [DecidableEq I] (s : HState I P) : Op I P → HState I P × Outcome
  | .takeover p is =>
    match s.fac.takeover p is with
    | .ok (f, taken) =>
      let t : Token I P := ⟨s.issued.length, p, taken⟩
      ({ fac := f, issued := s.issued ++ [t], live := s.live ++ [t] }, .token s.issued.length)
    | .error f => ({ s with fac := f }, .invalidState)
  | .release k =>
    match s.issued[k]? with
    | some t => ({ s with fac := releaseAll s.fac t.taken, live := s.live.filter (fun e => e.id != k) }, .released)
    | none => (s, .noSuchToken)

def run [DecidableEq I] (s : HState I P) : List (Op I P) → HState I P
  | [] => s
  | op :: ops => run (step s op).1 ops

/-- `release k` is allowed only while closure `k` has not been called yet -/
def Op.allowed (s : HState I P) : Op I P → Bool
  | .takeover _ _ => true
  | .release k => s.live.any (fun e => e.id == k)

/-- every release in the history is the first call of an existing closure -/
def wellFormed [DecidableEq I] (s : HState I P) : List (Op I P) → Bool
  | [] => true
  | op :: ops => op.allowed s && wellFormed (step s op).1 ops

def HState.init (f : Facade I P) : HState I P := { fac := f, issued := [], live := [] }

end PyatvModel.C01
