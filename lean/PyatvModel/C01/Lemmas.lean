import PyatvModel.C01.Model
/-
C01 — helper lemmas about the generic relayer / facade model (core Lean only).
-/
namespace PyatvModel.C01
variable {P I : Type}

/-! ### `_find_instance` -/

theorem findInstance_ok_iff (reg impl : P → Bool) (l : List P) (p : P) :
    findInstance reg impl l = .ok p ↔
      ∃ pre post, l = pre ++ p :: post ∧ (∀ x ∈ pre, (reg x && impl x) = false) ∧ (reg p && impl p) = true := by
  induction l with
  | nil => simp [findInstance]
  | cons a l ih =>
    unfold findInstance
    by_cases h : (reg a && impl a) = true
    · rw [if_pos h]
      constructor
      · intro e
        cases e
        exact ⟨[], l, rfl, by simp, h⟩
      · rintro ⟨pre, post, e, hpre, _⟩
        cases pre with
        | nil => simp at e; rw [e.1]
        | cons b pre =>
          simp at e
          have := hpre b (by simp)
          rw [← e.1] at this
          rw [this] at h
          cases h
    · rw [if_neg h, ih]
      have h' : (reg a && impl a) = false := by simpa using h
      constructor
      · rintro ⟨pre, post, e, hpre, hp⟩
        refine ⟨a :: pre, post, by rw [e]; rfl, ?_, hp⟩
        intro x hx
        rcases List.mem_cons.mp hx with rfl | hx
        · exact h'
        · exact hpre x hx
      · rintro ⟨pre, post, e, hpre, hp⟩
        cases pre with
        | nil =>
          simp at e
          rw [← e.1] at hp
          rw [hp] at h'
          cases h'
        | cons b pre =>
          simp at e
          exact ⟨pre, post, e.2, fun x hx => hpre x (List.mem_cons_of_mem _ hx), hp⟩

theorem findInstance_error_iff (reg impl : P → Bool) (l : List P) (e : Err) :
    findInstance reg impl l = .error e ↔ e = .notSupported ∧ ∀ x ∈ l, (reg x && impl x) = false := by
  induction l with
  | nil =>
    simp only [findInstance, List.not_mem_nil, false_imp_iff, implies_true, and_true]
    constructor
    · intro h; cases h; rfl
    · intro h; rw [h]
  | cons a l ih =>
    unfold findInstance
    by_cases h : (reg a && impl a) = true
    · rw [if_pos h]
      constructor
      · intro x; cases x
      · rintro ⟨_, hall⟩
        have := hall a (by simp)
        rw [this] at h; cases h
    · rw [if_neg h, ih]
      have h' : (reg a && impl a) = false := by simpa using h
      constructor
      · rintro ⟨he, hall⟩
        refine ⟨he, ?_⟩
        intro x hx
        rcases List.mem_cons.mp hx with rfl | hx
        · exact h'
        · exact hall x hx
      · rintro ⟨he, hall⟩
        exact ⟨he, fun x hx => hall x (List.mem_cons_of_mem _ hx)⟩

/-! ### facade takeover / release -/

section Facade
variable [DecidableEq I]

theorem Facade.set_same (f : Facade I P) (i : I) (r : Relayer P) : f.set i r i = r := by
  simp [Facade.set]

theorem Facade.set_other (f : Facade I P) (i j : I) (r : Relayer P) (h : j ≠ i) : f.set i r j = f j := by
  simp [Facade.set, h]

/-- what the release closure does, pointwise -/
theorem releaseAll_apply (f : Facade I P) (l : List I) (j : I) :
    releaseAll f l j = if j ∈ l then (f j).release else f j := by
  induction l generalizing f with
  | nil => simp [releaseAll]
  | cons i l ih =>
    simp only [releaseAll, ih, List.mem_cons]
    by_cases hji : j = i
    · subst hji
      simp only [Facade.set_same, true_or, if_true]
      split <;> rfl
    · simp only [Facade.set_other _ _ _ _ hji, hji, false_or]

theorem release_takeover_nil (r : Relayer P) (h : r.takeover = []) : r.release = r := by
  cases r; simp_all [Relayer.release]

theorem takeoverBy_ok (r r' : Relayer P) (p : P) (h : r.takeoverBy p = .ok r') :
    r.takeover = [] ∧ r' = { r with takeover := [p] } := by
  unfold Relayer.takeoverBy at h
  split at h
  · rename_i he
    cases h
    exact ⟨by simpa using he, rfl⟩
  · cases h

theorem takeoverBy_error (r : Relayer P) (p : P) (e : Err) (h : r.takeoverBy p = .error e) :
    r.takeover ≠ [] := by
  unfold Relayer.takeoverBy at h
  split at h
  · cases h
  · rename_i he
    simpa using he

/-- Loop invariant of `FacadeAppleTV.takeover`: while `f` differs from the facade `f0` the
    call started on only by the takeovers recorded in `taken`, a failure restores `f0`. -/
theorem takeoverLoop_error (p : P) (f0 : Facade I P) :
    ∀ (is : List (Option I)) (f : Facade I P) (taken : List I) (f' : Facade I P),
      (∀ j ∈ taken, (f j).release = f0 j) → (∀ j, j ∉ taken → f j = f0 j) →
      takeoverLoop p f taken is = .error f' → ∀ j, f' j = f0 j := by
  intro is
  induction is with
  | nil => intro f taken f' _ _ h; simp [takeoverLoop] at h
  | cons o is ih =>
    intro f taken f' hin hout h
    cases o with
    | none => exact ih f taken f' hin hout (by simpa [takeoverLoop] using h)
    | some i =>
      unfold takeoverLoop at h
      split at h
      · -- InvalidStateError: `_release()` then re-raise
        cases h
        intro j
        rw [releaseAll_apply]
        by_cases hj : j ∈ taken
        · rw [if_pos hj]; exact hin j hj
        · rw [if_neg hj]; exact hout j hj
      · rename_i r hr
        obtain ⟨hnil, rfl⟩ := takeoverBy_ok _ _ _ hr
        refine ih _ _ f' ?_ ?_ h
        · intro j hj
          by_cases hji : j = i
          · subst hji
            rw [Facade.set_same]
            by_cases hjt : j ∈ taken
            · rw [← hin j hjt]; rfl
            · rw [← hout j hjt]
              have := release_takeover_nil (f j) hnil
              rw [← this]; rfl
          · rw [Facade.set_other _ _ _ _ hji]
            rcases List.mem_append.mp hj with hj | hj
            · exact hin j hj
            · simp at hj; exact absurd hj hji
        · intro j hj
          have hji : j ≠ i := by intro e; apply hj; simp [e]
          rw [Facade.set_other _ _ _ _ hji]
          exact hout j (fun h => hj (List.mem_append_left _ h))

/-- what a successful loop leaves behind -/
theorem takeoverLoop_ok (p : P) :
    ∀ (is : List (Option I)) (f : Facade I P) (taken : List I) (f' : Facade I P) (taken' : List I),
      takeoverLoop p f taken is = .ok (f', taken') →
      ∃ new, taken' = taken ++ new ∧ new.Nodup ∧
        (∀ j, j ∈ new ↔ some j ∈ is) ∧
        (∀ j ∈ new, (f j).takeover = []) ∧
        (∀ j, f' j = if j ∈ new then { f j with takeover := [p] } else f j) := by
  intro is
  induction is with
  | nil =>
    intro f taken f' taken' h
    simp only [takeoverLoop, Except.ok.injEq, Prod.mk.injEq] at h
    exact ⟨[], by simp [h.2], List.nodup_nil, by simp, by simp, by simp [h.1]⟩
  | cons o is ih =>
    intro f taken f' taken' h
    cases o with
    | none =>
      obtain ⟨new, h1, h2, h3, h4, h5⟩ := ih f taken f' taken' (by simpa [takeoverLoop] using h)
      exact ⟨new, h1, h2, by simpa using h3, h4, h5⟩
    | some i =>
      unfold takeoverLoop at h
      split at h
      · cases h
      · rename_i r hr
        obtain ⟨hnil, rfl⟩ := takeoverBy_ok _ _ _ hr
        obtain ⟨new, h1, h2, h3, h4, h5⟩ := ih _ _ f' taken' h
        have hi : i ∉ new := by
          intro hmem
          have := h4 i hmem
          rw [Facade.set_same] at this
          simp at this
        refine ⟨i :: new, by simp [h1], List.nodup_cons.mpr ⟨hi, h2⟩, ?_, ?_, ?_⟩
        · intro j
          simp only [List.mem_cons, Option.some.injEq, h3 j]
        · intro j hj
          rcases List.mem_cons.mp hj with rfl | hj
          · exact hnil
          · have hji : j ≠ i := fun e => hi (e ▸ hj)
            have := h4 j hj
            rwa [Facade.set_other _ _ _ _ hji] at this
        · intro j
          rw [h5 j]
          by_cases hji : j = i
          · subst hji
            simp only [hi, if_false, Facade.set_same, List.mem_cons, true_or, if_true]
          · simp only [Facade.set_other _ _ _ _ hji, List.mem_cons, hji, false_or]

end Facade

end PyatvModel.C01
