import PyatvModel.C01.Lemmas
import PyatvModel.C01.Call
/-
Helper lemmas about the regenerated tables: the `all` lists enumerate their types, so a
`decide +kernel` over the lists is a statement about every protocol set / member / feature.
-/
namespace PyatvModel.C01
open PyatvModel.Gen.C01 PyatvModel.Gen.C13

theorem Proto.mem_all (p : Proto) : p ∈ Proto.all := by cases p <;> decide
theorem Iface.mem_all (i : Iface) : i ∈ Iface.all := by cases i <;> decide
theorem Member.mem_all (m : Member) : m ∈ Member.all := by cases m <;> decide
theorem Feature.mem_all (f : Feature) : f ∈ Feature.all := by cases f <;> decide
theorem PSet.mem_all (S : PSet) : S ∈ PSet.all := by
  rcases S with ⟨a, b, c, d, e⟩
  cases a <;> cases b <;> cases c <;> cases d <;> cases e <;> decide

/-- a holder can change who serves a call, never whether somebody does -/
theorem findInstance_ok_of_suffix {P : Type} (reg impl : P → Bool) (t l : List P) (p : P)
    (h : findInstance reg impl l = .ok p) : ∃ q, findInstance reg impl (t ++ l) = .ok q := by
  cases hr : findInstance reg impl (t ++ l) with
  | ok q => exact ⟨q, rfl⟩
  | error e =>
    have := ((findInstance_error_iff _ _ _ _).mp hr).2
    have hl : findInstance reg impl l = .error .notSupported :=
      (findInstance_error_iff _ _ _ _).mpr ⟨rfl, fun x hx => this x (List.mem_append_right _ hx)⟩
    rw [h] at hl
    cases hl

end PyatvModel.C01
