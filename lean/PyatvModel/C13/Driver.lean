import PyatvModel.Base.Bytes
import PyatvModel.C01.Driver
/-
Line protocol of the C13 model.

  features <S> <v> [<pk>] FacadeFeatures.get_feature for every feature, fresh state; `pk` = Companion's power state is known; `v` = AirPlay
                        advertises video                                  → Name=State,…
  allfeatures <S> <v> <pk> <b>  FacadeFeatures.all_features(include_unsupported=b): the entries it returns
  proto <P> <c0> <c1>   protocol P's get_feature for every feature with its conditions c0 c1
  backed <S>            per feature: 1 iff some member it stands for is routed to an implementation
  map <S>               per feature: protocol FacadeFeatures consults (`-` = none)
  failing               the rows (S, feature) for which the C13 table check fails → S:Name,… | -
-/
namespace PyatvModel.C13
open PyatvModel PyatvModel.Gen.C01 PyatvModel.Gen.C13 PyatvModel.C01

def setStr (S : PSet) : String :=
  String.ofList (Proto.all.map fun p => if S.mem p then '1' else '0')

def handle (_ : Unit) (ws : List String) : Unit × String :=
  match ws with
  | ["features", s, v] =>
    match parseSet? s, parseBit? v with
    | some S, some v => ((), csv (Feature.all.map fun f => s!"{f.name}={(facadeFeature S (freshEnv v) f).name}"))
    | _, _ => ((), "bad-op")
  | ["features", s, v, pk] =>
    match parseSet? s, parseBit? v, parseBit? pk with
    | some S, some v, some pk => ((), csv (Feature.all.map fun f => s!"{f.name}={(facadeFeature S (freshEnv v pk) f).name}"))
    | _, _, _ => ((), "bad-op")
  | ["allfeatures", s, v, pk, b] =>
    match parseSet? s, parseBit? v, parseBit? pk, parseBit? b with
    | some S, some v, some pk, some b =>
      ((), csv ((allFeatures S (freshEnv v pk) b).map fun (f, st) => s!"{f.name}={st.name}"))
    | _, _, _, _ => ((), "bad-op")
  | ["proto", p, c0, c1] =>
    match parseProto? p, parseBit? c0, parseBit? c1 with
    | some p, some c0, some c1 => ((), csv (Feature.all.map fun f => s!"{f.name}={(protoFeature p c0 c1 f).name}"))
    | _, _, _ => ((), "bad-op")
  | ["backed", s] =>
    match parseSet? s with
    | some S => ((), csv (Feature.all.map fun f => s!"{f.name}={if backed S (fun _ => []) f then 1 else 0}"))
    | none => ((), "bad-op")
  | ["map", s] =>
    match parseSet? s with
    | some S => ((), csv (Feature.all.map fun f => s!"{f.name}={match featureMap S f with | some p => p.name | none => "-"}"))
    | none => ((), "bad-op")
  | ["failing"] => ((), csv (failingRows.map fun (S, f) => s!"{setStr S}:{f.name}"))
  | _ => ((), "bad-op")

end PyatvModel.C13
