import PyatvModel.C01.Tables
import PyatvModel.Gen.C13Features
/-
C13 — model of the features interface.

Transcribes
  pyatv/core/facade.py:258-268  FacadeFeatures.add_mapping (first protocol listing the feature,
                                replaced by a later one of higher DEFAULT_PRIORITIES rank)
  pyatv/interface.py:1078-1103  Features.all_features / in_state, inherited by FacadeFeatures
  pyatv/core/facade.py:271-282  FacadeFeatures.get_feature (PushUpdates special case; mapped
                                protocol's answer; else Unsupported)
  pyatv/core/facade.py:700-733  connect(): add_mapping is called per connected protocol in
                                the order of PROTOCOLS
  and the *shape* of the five protocols' `Features.get_feature`:
  pyatv/protocols/mrp/__init__.py:935-997, dmap/__init__.py:535-550,
  companion/__init__.py:570-590, airplay/__init__.py:65-76, raop/__init__.py:214-249.
  The lists they consult are regenerated (`Gen.C13.mrpSupported` …); each state-dependent
  condition on a path (metadata present, command enabled, control flag set, power state
  known, streaming, AirPlay video flag …) is a Boolean parameter: `c0` the first condition
  evaluated on the path, `c1` the second (only MRP's PlayPause has two).
-/
namespace PyatvModel.C13
open PyatvModel.Gen.C01 PyatvModel.Gen.C13 PyatvModel.C01

def avail (c : Bool) : FState := if c then .available else .unavailable

def mrpFeature (c0 c1 : Bool) (f : Feature) : FState :=
  if mrpSupported.contains f then .available
  else if f == .f_Artwork then avail c0
  else if mrpField.contains f then avail c0
  else if f == .f_PlayPause && c0 then .available
  else if mrpCommand.contains f then avail (if f == .f_PlayPause then c1 else c0)
  else if f == .f_App then avail c0
  else if f == .f_VolumeDown || f == .f_VolumeUp then avail c0
  else if f == .f_Volume || f == .f_SetVolume then avail c0
  else .unsupported

def dmapFeature (c0 : Bool) (f : Feature) : FState :=
  if dmapAvailable.contains f then .available
  else if dmapUnknown.contains f then .unknown
  else if dmapField.contains f then avail c0
  else if f == .f_VolumeUp then avail c0
  else if f == .f_VolumeDown then avail c0
  else .unsupported

def companionFeature (c0 : Bool) (f : Feature) : FState :=
  if companionMediaControl.contains f then avail c0
  else if f == .f_PowerState then (if c0 then .available else .unsupported)
  else if companionSupported.contains f then .available
  else .unavailable

def airplayFeature (c0 : Bool) (f : Feature) : FState :=
  if f == .f_PlayUrl && c0 then .available
  else if f == .f_Stop then .available
  else .unavailable

def raopFeature (c0 : Bool) (f : Feature) : FState :=
  if f == .f_StreamFile then .available
  else if f == .f_Title || f == .f_Artist || f == .f_Album || f == .f_Position || f == .f_TotalTime then avail c0
  else if f == .f_SetVolume || f == .f_Volume || f == .f_VolumeDown || f == .f_VolumeUp then .available
  else if f == .f_Stop || f == .f_Pause then avail c0
  else .unavailable

/-- `Features.get_feature` of protocol `p` in a state where the conditions read `c0`, `c1` -/
def protoFeature (p : Proto) (c0 c1 : Bool) (f : Feature) : FState :=
  match p with
  | .mrp => mrpFeature c0 c1 f
  | .dmap => dmapFeature c0 f
  | .companion => companionFeature c0 f
  | .airplay => airplayFeature c0 f
  | .raop => raopFeature c0 f

/-- dynamic state of the five Features instances, as far as get_feature reads it for each feature -/
abbrev Env := Proto → Feature → Bool × Bool

/-- right after setup(): nothing playing, no flags; `video` = the AirPlay service advertises video
    support (a property of the device, not of pyatv); `power` = Companion's real connect got an
    answer to FetchAttentionState (CompanionPower.supports_power_updates) — false while
    SetupData.connect is stubbed -/
def freshEnv (video : Bool) (power : Bool := false) : Env
  | .airplay, _ => (video, false)
  | .companion, .f_PowerState => (power, false)
  | _, _ => (false, false)

def rank (p : Proto) : Nat := defaultPriorities.idxOf p

/-- one `add_mapping(p, featureSet p)` restricted to feature `f` -/
def mapStep (S : PSet) (f : Feature) (cur : Option Proto) (p : Proto) : Option Proto :=
  if S.mem p && (provides p).contains .features && (featureSet p).contains f then
    match cur with
    | none => some p
    | some q => if rank p < rank q then some p else some q
  else cur

/-- `FacadeFeatures._feature_map[f][0]` after connect() of `S` -/
def featureMap (S : PSet) (f : Feature) : Option Proto :=
  setupOrder.foldl (mapStep S f) none

/-- `self._push_updater_relay.count` -/
def pushCount (S : PSet) : Nat :=
  (Proto.all.filter fun p => S.mem p && (provides p).contains .pushUpdater).length

/-- `FacadeFeatures.get_feature(f).state` -/
def facadeFeature (S : PSet) (env : Env) (f : Feature) : FState :=
  if f == .f_PushUpdates && pushCount S ≥ 1 then .available
  else match featureMap S f with
    | some p => protoFeature p (env p f).1 (env p f).2 f
    | none => .unsupported

/-- `Features.all_features(include_unsupported)` as FacadeFeatures inherits it
    (pyatv/interface.py:1078-1085): every feature name is asked through get_feature; entries in
    state Unsupported are left out unless asked for -/
def allFeatures (S : PSet) (env : Env) (includeUnsupported : Bool) : List (Feature × FState) :=
  (Feature.all.map fun f => (f, facadeFeature S env f)).filter fun e => e.2 != .unsupported || includeUnsupported

/-- `Features.in_state(states, *names)` (pyatv/interface.py:1087-1103) -/
def inState (S : PSet) (env : Env) (states : List FState) (names : List Feature) : Bool :=
  names.all fun f => states.contains (facadeFeature S env f)

/-- some member the feature stands for is routed to an implementation -/
def backed (S : PSet) (t : Iface → List Proto) (f : Feature) : Bool :=
  (featureMembers f).any fun m =>
    match route S (t m.iface) m with
    | .ok _ => true
    | .error _ => false

/-- can protocol `p` answer anything but Unsupported for `f`, in any state? -/
def claims (p : Proto) (f : Feature) : Bool :=
  bools.any fun c0 => bools.any fun c1 => protoFeature p c0 c1 f != .unsupported

/-- can the facade report `f` as anything but Unsupported when `S` is connected, in any state? -/
def mayReport (S : PSet) (f : Feature) : Bool :=
  (f == .f_PushUpdates && pushCount S ≥ 1) ||
  match featureMap S f with
  | some p => claims p f
  | none => false

/-- the table check of C13: one row per (S, f) -/
def rowOk (S : PSet) (f : Feature) : Bool :=
  !mayReport S f || backed S (fun _ => []) f

/-- failing rows, for the harness to replay on the real facade -/
def failingRows : List (PSet × Feature) :=
  PSet.all.flatMap fun S =>
    if S.nonempty then (Feature.all.filter fun f => !rowOk S f).map fun f => (S, f) else []

end PyatvModel.C13
