/-
Shared byte-string helpers and the line protocol used by every model driver.
Import-free on purpose: drivers run with `lake env lean --run`.
-/
namespace PyatvModel

abbrev Bytes := List UInt8

def hexDigit (n : Nat) : Char :=
  if n < 10 then Char.ofNat (48 + n) else Char.ofNat (87 + n)

def hexOfByte (b : UInt8) : List Char :=
  [hexDigit (b.toNat / 16), hexDigit (b.toNat % 16)]

/-- lower-case hex of a byte string; the empty string is written `-` on the wire. -/
def toHex (b : Bytes) : String :=
  if b.isEmpty then "-" else String.ofList (b.flatMap hexOfByte)

def hexVal? (c : Char) : Option Nat :=
  if '0' ≤ c ∧ c ≤ '9' then some (c.toNat - 48)
  else if 'a' ≤ c ∧ c ≤ 'f' then some (c.toNat - 87)
  else if 'A' ≤ c ∧ c ≤ 'F' then some (c.toNat - 55)
  else none

def ofHexChars? : List Char → Option Bytes
  | [] => some []
  | [_] => none
  | a :: b :: rest => do
      let x ← hexVal? a
      let y ← hexVal? b
      let r ← ofHexChars? rest
      pure (UInt8.ofNat (x * 16 + y) :: r)

def ofHex? (s : String) : Option Bytes :=
  if s == "-" then some [] else ofHexChars? s.toList

/-- split a protocol line into words (single spaces). -/
def words (line : String) : List String :=
  (line.trimAscii.toString.splitOn " ").filter (· ≠ "")

def natList? (ws : List String) : Option (List Nat) :=
  ws.mapM String.toNat?

/-- `a,b,c` ↦ `[a,b,c]`; `-` ↦ `[]`. -/
def csvNats? (s : String) : Option (List Nat) :=
  if s == "-" then some [] else (s.splitOn ",").mapM String.toNat?

def csv (xs : List String) : String :=
  if xs.isEmpty then "-" else String.intercalate "," xs

/-- The generic driver loop: one line in, one line out, state threaded through. -/
partial def driverLoop {σ : Type} (h : IO.FS.Stream) (out : IO.FS.Stream)
    (step : σ → List String → σ × String) (s : σ) : IO Unit := do
  let line ← h.getLine
  if line.isEmpty then
    return ()
  let (s', o) := step s (words line)
  out.putStrLn o
  driverLoop h out step s'

def runDriver {σ : Type} (step : σ → List String → σ × String) (init : σ) : IO Unit := do
  let i ← IO.getStdin
  let o ← IO.getStdout
  driverLoop i o step init
  o.flush

end PyatvModel
