import PyatvModel.Base.FramingLemmas
/-
Composition of two prefix-stable framers (DESIGN.md §4.1/§5 C02 "layered transports"):
HAP blocks below, a message framer above (`AbstractHAPChannel.data_received`,
`HttpConnection.receive_processor = HAPSession.decrypt`).  The AEAD is the parameter
`dec` (stateful: nonce counter).

`lfeedAll_spec`   — any sequence of reads leaves the layered channel in the state
                    determined by the concatenated bytes alone;
`lfeedAll_concat` — hence equal to the state after the unsplit stream (messages handed
                    upward, both buffers, cipher state, no error).
-/
namespace PyatvModel.Framing

variable {B U σ : Type}

theorem decAll_append (dec : σ → B → σ × Bytes) : ∀ (a b : List B) (s : σ),
    decAll dec s (a ++ b) =
      ((decAll dec (decAll dec s a).1 b).1, (decAll dec s a).2 ++ (decAll dec (decAll dec s a).1 b).2) := by
  intro a
  induction a with
  | nil => intro b s; simp [decAll]
  | cons x xs ih =>
    intro b s
    simp only [List.cons_append, decAll, ih, List.append_assoc]

/-- the state the concatenated bytes determine -/
def lspec (L : Layered B U σ) (s : LState U σ) (x : Bytes) : LState U σ :=
  let lo := drainAll L.lower (s.lbuf ++ x)
  let d := decAll L.dec s.cs lo.msgs
  let uo := drainAll L.upper (s.ubuf ++ d.2)
  ⟨lo.rest, d.1, uo.rest, s.out ++ uo.msgs, none⟩

theorem lfeedAll_spec (L : Layered B U σ) (hl : PrefixStable L.lower) (hu : PrefixStable L.upper) :
    ∀ (chunks : List Bytes) (s : LState U σ), s.err = none →
      L.lower.ext s.lbuf = .need → L.upper.ext s.ubuf = .need →
      (drainAll L.lower (s.lbuf ++ chunks.flatten)).err = none →
      (drainAll L.upper (s.ubuf ++
          (decAll L.dec s.cs (drainAll L.lower (s.lbuf ++ chunks.flatten)).msgs).2)).err = none →
      lfeedAll L s chunks = lspec L s chunks.flatten := by
  intro chunks
  induction chunks with
  | nil =>
    intro s he hln hun _ _
    obtain ⟨lbuf, cs, ubuf, out, err⟩ := s
    simp only at he hln hun
    subst he
    simp [lfeedAll, lspec, drainAll_need hln, drainAll_need hun, decAll]
  | cons c cs ih =>
    intro s he hln hun hlo huo
    obtain ⟨lbuf, cst, ubuf, out, err⟩ := s
    simp only at he hln hun hlo huo
    subst he
    have hassoc : lbuf ++ (c :: cs).flatten = (lbuf ++ c) ++ cs.flatten := by simp
    rw [hassoc] at hlo huo
    obtain ⟨e1, e2⟩ := drainAll_append hl (lbuf ++ c).length (lbuf ++ c) cs.flatten (Nat.le_refl _) hlo
    have hrest1 := drainAll_rest_need hl.prog (lbuf ++ c).length (lbuf ++ c) (Nat.le_refl _) e1
    -- abbreviations
    generalize hlo1 : drainAll L.lower (lbuf ++ c) = lo1 at e1 e2 hrest1
    generalize hlo2 : drainAll L.lower (lo1.rest ++ cs.flatten) = lo2 at e2
    have hlo2err : lo2.err = none := by rw [e2] at hlo; simpa using hlo
    rw [e2] at huo
    simp only [Out.pre_msgs, decAll_append] at huo
    generalize hd1 : decAll L.dec cst lo1.msgs = d1 at huo
    -- one read
    have hfeed : feed L.lower lbuf c = lo1 := by rw [feed_eq_drainAll, hlo1]
    simp only [lfeedAll]
    by_cases hp : d1.2.isEmpty = true
    · -- nothing decrypted: `handle_received` is not called
      have hp' : d1.2 = [] := List.isEmpty_iff.mp hp
      have hstep : lfeed L ⟨lbuf, cst, ubuf, out, none⟩ c = ⟨lo1.rest, d1.1, ubuf, out, none⟩ := by
        simp only [lfeed, hfeed, hd1, e1, hp, if_true]
      rw [hstep]
      rw [hp', List.nil_append] at huo
      rw [ih ⟨lo1.rest, d1.1, ubuf, out, none⟩ rfl hrest1 hun (by rw [hlo2]; exact hlo2err)
        (by simp only [hlo2]; exact huo)]
      simp only [lspec, hassoc, e2, hlo2, Out.pre_msgs, Out.pre_rest, decAll_append, hd1, hp', List.nil_append]
    · have hp' : d1.2.isEmpty = false := by simpa using hp
      rw [← List.append_assoc] at huo
      obtain ⟨u1, u2⟩ := drainAll_append hu (ubuf ++ d1.2).length (ubuf ++ d1.2) _ (Nat.le_refl _) huo
      have hurest := drainAll_rest_need hu.prog (ubuf ++ d1.2).length (ubuf ++ d1.2) (Nat.le_refl _) u1
      generalize huo1 : drainAll L.upper (ubuf ++ d1.2) = uo1 at u1 u2 hurest
      have hstep : lfeed L ⟨lbuf, cst, ubuf, out, none⟩ c
          = ⟨lo1.rest, d1.1, uo1.rest, out ++ uo1.msgs, none⟩ := by
        simp only [lfeed, hfeed, hd1, e1, hp', Bool.false_eq_true, if_false, feed_eq_drainAll, huo1, u1]
      rw [hstep]
      have huo2err : (drainAll L.upper (uo1.rest ++ (decAll L.dec d1.1 lo2.msgs).2)).err = none := by
        rw [u2] at huo; simpa using huo
      rw [ih ⟨lo1.rest, d1.1, uo1.rest, out ++ uo1.msgs, none⟩ rfl hrest1 hurest
        (by rw [hlo2]; exact hlo2err) (by simp only [hlo2]; exact huo2err)]
      simp only [lspec, hassoc, e2, hlo2, Out.pre_msgs, Out.pre_rest, decAll_append, hd1]
      rw [← List.append_assoc ubuf, u2]
      simp [List.append_assoc]

/-- **Layered segmentation independence.**  For prefix-stable lower and upper framers and
    any AEAD `dec`: if the unsplit stream is processed without error at both layers, any
    segmentation into reads yields the same messages upward, the same two buffers and the
    same cipher state. -/
theorem lfeedAll_concat (L : Layered B U σ) (hl : PrefixStable L.lower) (hu : PrefixStable L.upper)
    (cs0 : σ) (chunks : List Bytes)
    (hlo : (drainAll L.lower chunks.flatten).err = none)
    (huo : (drainAll L.upper (decAll L.dec cs0 (drainAll L.lower chunks.flatten).msgs).2).err = none) :
    lfeedAll L (LState.init cs0) chunks = lfeedAll L (LState.init cs0) [chunks.flatten] := by
  have hln := hl.ext_nil hlo
  have hun := hu.ext_nil huo
  rw [lfeedAll_spec L hl hu chunks (LState.init cs0) rfl hln hun (by simpa [LState.init] using hlo)
        (by simpa [LState.init] using huo),
      lfeedAll_spec L hl hu [chunks.flatten] (LState.init cs0) rfl hln hun (by simpa [LState.init] using hlo)
        (by simpa [LState.init] using huo)]
  simp

end PyatvModel.Framing
