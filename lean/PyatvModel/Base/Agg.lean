/-
Order/duplication-insensitive folds (DESIGN.md §4.2).  Import-free (core Lean only) so
that models built from these combinators still run with `lake env lean --run`.

Python idioms covered

* `d.setdefault(k, v)` in a loop            → `agg` (first-wins keyed table, keys in
                                               first-insertion order)
* iteration order of a dict's keys          → `firsts` (first-appearance order, no dups)
* `d[k].append(x)` / per-key sub-lists      → `l.filter (key · = k)` (arrival order)
* `xs[0]` of such a sub-list (first wins)   → `List.head?`, `pick_head`
* `d[k] = v` in a loop (last wins)          → `List.getLast?`, `pick_last`
* `sorted(...)` of what comes out of a dict → `sortOn`, `sortOn_eq_of_perm`

Everything an observer can see after sorting depends only on the *set* of inputs
(`SameSet`), provided inputs with the same key carry the same value (`Consistent`).
-/
namespace PyatvModel.Agg

variable {α β κ : Type}

/-! ### same-set -/

/-- the two lists have the same elements (order and multiplicity forgotten) -/
def SameSet (l₁ l₂ : List α) : Prop := ∀ a, a ∈ l₁ ↔ a ∈ l₂

theorem SameSet.refl (l : List α) : SameSet l l := fun _ => Iff.rfl
theorem SameSet.symm {l₁ l₂ : List α} (h : SameSet l₁ l₂) : SameSet l₂ l₁ := fun a => (h a).symm
theorem SameSet.trans {l₁ l₂ l₃ : List α} (h : SameSet l₁ l₂) (h' : SameSet l₂ l₃) : SameSet l₁ l₃ :=
  fun a => (h a).trans (h' a)

theorem SameSet.of_perm {l₁ l₂ : List α} (h : l₁.Perm l₂) : SameSet l₁ l₂ := fun _ => h.mem_iff

/-- an adjacent duplicate does not change the set -/
theorem SameSet.dup (x : α) (l : List α) : SameSet (x :: x :: l) (x :: l) := by
  intro a; simp

/-- duplicating anything already present does not change the set -/
theorem SameSet.cons_of_mem {x : α} {l : List α} (h : x ∈ l) : SameSet (x :: l) l := by
  intro a; constructor
  · intro ha; rcases List.mem_cons.mp ha with rfl | ha
    · exact h
    · exact ha
  · exact List.mem_cons_of_mem _

theorem SameSet.filter (p : α → Bool) {l₁ l₂ : List α} (h : SameSet l₁ l₂) :
    SameSet (l₁.filter p) (l₂.filter p) := by
  intro a; simp only [List.mem_filter, h a]

theorem SameSet.map (f : α → β) {l₁ l₂ : List α} (h : SameSet l₁ l₂) :
    SameSet (l₁.map f) (l₂.map f) := by
  intro b; simp only [List.mem_map]
  constructor <;> (rintro ⟨a, ha, rfl⟩; exact ⟨a, (by first | exact (h a).mp ha | exact (h a).mpr ha), rfl⟩)

theorem SameSet.filterMap (f : α → Option β) {l₁ l₂ : List α} (h : SameSet l₁ l₂) :
    SameSet (l₁.filterMap f) (l₂.filterMap f) := by
  intro b; simp only [List.mem_filterMap]
  constructor <;> (rintro ⟨a, ha, hb⟩; exact ⟨a, (by first | exact (h a).mp ha | exact (h a).mpr ha), hb⟩)

theorem SameSet.flatMap (f : α → List β) {l₁ l₂ : List α} (h : SameSet l₁ l₂) :
    SameSet (l₁.flatMap f) (l₂.flatMap f) := by
  intro b; simp only [List.mem_flatMap]
  constructor <;> (rintro ⟨a, ha, hb⟩; exact ⟨a, (by first | exact (h a).mp ha | exact (h a).mpr ha), hb⟩)

theorem SameSet.any (p : α → Bool) {l₁ l₂ : List α} (h : SameSet l₁ l₂) : l₁.any p = l₂.any p := by
  rw [Bool.eq_iff_iff]; simp only [List.any_eq_true]
  constructor <;> (rintro ⟨a, ha, hp⟩; exact ⟨a, (by first | exact (h a).mp ha | exact (h a).mpr ha), hp⟩)

theorem SameSet.all (p : α → Bool) {l₁ l₂ : List α} (h : SameSet l₁ l₂) : l₁.all p = l₂.all p := by
  rw [Bool.eq_iff_iff]; simp only [List.all_eq_true]
  constructor
  · intro hp a ha; exact hp a ((h a).mpr ha)
  · intro hp a ha; exact hp a ((h a).mp ha)

theorem SameSet.isEmpty {l₁ l₂ : List α} (h : SameSet l₁ l₂) : l₁.isEmpty = l₂.isEmpty := by
  cases l₁ with
  | nil =>
    cases l₂ with
    | nil => rfl
    | cons b _ => exact absurd ((h b).mpr List.mem_cons_self) List.not_mem_nil
  | cons a _ =>
    cases l₂ with
    | nil => exact absurd ((h a).mp List.mem_cons_self) List.not_mem_nil
    | cons _ _ => rfl

/-! ### first-wins / last-wins reads of a consistent sub-list -/

/-- `xs[0]` of a per-key list: if all elements agree on `f`, the answer depends only on the set -/
theorem pick_head (f : α → β) {l₁ l₂ : List α} (h : SameSet l₁ l₂)
    (hc : ∀ x ∈ l₁, ∀ y ∈ l₁, f x = f y) : l₁.head?.map f = l₂.head?.map f := by
  cases l₁ with
  | nil =>
    cases l₂ with
    | nil => rfl
    | cons b _ => exact absurd ((h b).mpr List.mem_cons_self) List.not_mem_nil
  | cons a t₁ =>
    cases l₂ with
    | nil => exact absurd ((h a).mp List.mem_cons_self) List.not_mem_nil
    | cons b t₂ =>
      simp only [List.head?_cons, Option.map_some]
      exact congrArg some (hc a List.mem_cons_self b ((h b).mpr List.mem_cons_self))

/-- last write wins: same statement for `getLast?` -/
theorem pick_last (f : α → β) {l₁ l₂ : List α} (h : SameSet l₁ l₂)
    (hc : ∀ x ∈ l₁, ∀ y ∈ l₁, f x = f y) : l₁.getLast?.map f = l₂.getLast?.map f := by
  have h' : SameSet l₁.reverse l₂.reverse := fun a => by simp only [List.mem_reverse]; exact h a
  have := pick_head f h' (fun x hx y hy => hc x (List.mem_reverse.mp hx) y (List.mem_reverse.mp hy))
  simpa only [List.head?_reverse] using this

/-! ### first-wins keyed table (`dict.setdefault` in a loop) -/

/-- `t.setdefault(k, v)` -/
def insertFW [DecidableEq κ] (t : List (κ × β)) (kv : κ × β) : List (κ × β) :=
  if kv.1 ∈ t.map Prod.fst then t else t ++ [kv]

def aggFrom [DecidableEq κ] (t : List (κ × β)) (l : List (κ × β)) : List (κ × β) := l.foldl insertFW t

/-- the aggregator: fold of first-wins inserts, starting from the empty table -/
def agg [DecidableEq κ] (l : List (κ × β)) : List (κ × β) := aggFrom [] l

/-- all records with the same key carry the same value -/
def Consistent (l : List (κ × β)) : Prop := ∀ x ∈ l, ∀ y ∈ l, x.1 = y.1 → x.2 = y.2

instance [DecidableEq κ] [DecidableEq β] (l : List (κ × β)) : Decidable (Consistent l) := by
  unfold Consistent; infer_instance

section
variable [DecidableEq κ]

theorem aggFrom_cons (t : List (κ × β)) (x) (l) : aggFrom t (x :: l) = aggFrom (insertFW t x) l := rfl

theorem keys_aggFrom (t l : List (κ × β)) (k : κ) :
    k ∈ (aggFrom t l).map Prod.fst ↔ k ∈ t.map Prod.fst ∨ k ∈ l.map Prod.fst := by
  induction l generalizing t with
  | nil => simp [aggFrom]
  | cons x l ih =>
    rw [aggFrom_cons, ih]
    unfold insertFW
    split
    · rename_i hx
      simp only [List.map_cons, List.mem_cons]
      constructor
      · rintro (h | h); exact Or.inl h; exact Or.inr (Or.inr h)
      · rintro (h | rfl | h); exact Or.inl h; exact Or.inl hx; exact Or.inr h
    · simp only [List.map_append, List.map_cons, List.map_nil, List.mem_append, List.mem_cons,
        List.not_mem_nil, or_false]
      constructor
      · rintro ((h | h) | h); exact Or.inl h; exact Or.inr (Or.inl h); exact Or.inr (Or.inr h)
      · rintro (h | h | h); exact Or.inl (Or.inl h); exact Or.inl (Or.inr h); exact Or.inr h

theorem mem_aggFrom (t l : List (κ × β)) (x : κ × β) (hx : x ∈ aggFrom t l) : x ∈ t ∨ x ∈ l := by
  induction l generalizing t with
  | nil => exact Or.inl hx
  | cons y l ih =>
    rw [aggFrom_cons] at hx
    rcases ih _ hx with h | h
    · unfold insertFW at h
      split at h
      · exact Or.inl h
      · rcases List.mem_append.mp h with h | h
        · exact Or.inl h
        · exact Or.inr (by simp only [List.mem_singleton] at h; subst h; exact List.mem_cons_self)
    · exact Or.inr (List.mem_cons_of_mem _ h)

theorem nodup_keys_aggFrom (t l : List (κ × β)) (ht : (t.map Prod.fst).Nodup) :
    ((aggFrom t l).map Prod.fst).Nodup := by
  induction l generalizing t with
  | nil => exact ht
  | cons y l ih =>
    rw [aggFrom_cons]
    apply ih
    unfold insertFW
    split
    · exact ht
    · rename_i hy
      rw [List.map_append, List.nodup_append]
      refine ⟨ht, by simp, ?_⟩
      intro a ha b hb
      simp only [List.map_cons, List.map_nil, List.mem_singleton] at hb
      subst hb
      intro hab; subst hab; exact hy ha

theorem nodup_keys_agg (l : List (κ × β)) : ((agg l).map Prod.fst).Nodup :=
  nodup_keys_aggFrom [] l (by simp)

theorem nodup_agg (l : List (κ × β)) : (agg l).Nodup :=
  List.Pairwise.of_map Prod.fst (fun _ _ h h' => h (congrArg Prod.fst h')) (nodup_keys_agg l)


/-- under consistency the table holds exactly the input pairs (as a set) -/
theorem mem_agg_iff {l : List (κ × β)} (hc : Consistent l) (x : κ × β) : x ∈ agg l ↔ x ∈ l := by
  constructor
  · intro hx
    rcases mem_aggFrom [] l x hx with h | h
    · exact absurd h List.not_mem_nil
    · exact h
  · intro hx
    have hk : x.1 ∈ (agg l).map Prod.fst :=
      (keys_aggFrom [] l x.1).mpr (Or.inr (List.mem_map_of_mem hx))
    obtain ⟨y, hy, hyk⟩ := List.mem_map.mp hk
    have hyl : y ∈ l := by
      rcases mem_aggFrom [] l y hy with h | h
      · exact absurd h List.not_mem_nil
      · exact h
    have : y = x := Prod.ext hyk (hc y hyl x hx hyk)
    exact this ▸ hy

omit [DecidableEq κ] in
theorem Consistent.of_sameSet {l₁ l₂ : List (κ × β)} (h : SameSet l₁ l₂) (hc : Consistent l₁) :
    Consistent l₂ := fun x hx y hy => hc x ((h x).mpr hx) y ((h y).mpr hy)

/-- the table of two inputs with the same set of consistent records: same entries, other order -/
theorem agg_perm_of_sameSet {l₁ l₂ : List (κ × β)} (hc : Consistent l₁) (h : SameSet l₁ l₂) :
    (agg l₁).Perm (agg l₂) := by
  rw [List.perm_ext_iff_of_nodup (nodup_agg l₁) (nodup_agg l₂)]
  intro x
  rw [mem_agg_iff hc, mem_agg_iff (hc.of_sameSet h)]
  exact h x

/-- duplicated input: the table is literally unchanged -/
theorem fold_dup (x : κ × β) (l : List (κ × β)) : agg (x :: x :: l) = agg (x :: l) := by
  unfold agg
  rw [aggFrom_cons, aggFrom_cons, aggFrom_cons]
  congr 1
  simp [insertFW]

end

/-! ### dict key order -/

/-- keys of a dict filled in a loop: first-appearance order, no duplicates -/
def firsts [DecidableEq α] (l : List α) : List α := (agg (l.map fun a => (a, ()))).map Prod.fst

section
variable [DecidableEq α]

theorem mem_firsts (l : List α) (a : α) : a ∈ firsts l ↔ a ∈ l := by
  unfold firsts agg
  rw [keys_aggFrom]
  simp

theorem nodup_firsts (l : List α) : (firsts l).Nodup := nodup_keys_agg _

theorem firsts_perm_of_sameSet {l₁ l₂ : List α} (h : SameSet l₁ l₂) : (firsts l₁).Perm (firsts l₂) := by
  rw [List.perm_ext_iff_of_nodup (nodup_firsts l₁) (nodup_firsts l₂)]
  intro a; rw [mem_firsts, mem_firsts]; exact h a

theorem firsts_sameSet (l : List α) : SameSet (firsts l) l := mem_firsts l

theorem firsts_dup (x : α) (l : List α) : firsts (x :: x :: l) = firsts (x :: l) := by
  unfold firsts
  simp only [List.map_cons]
  rw [fold_dup]

end

/-! ### sorting what comes out of dict iteration -/

/-- `sorted(l, key=key)` -/
def sortOn (key : α → Nat) (l : List α) : List α := l.mergeSort (fun a b => decide (key a ≤ key b))

theorem sortOn_perm (key : α → Nat) (l : List α) : (sortOn key l).Perm l := List.mergeSort_perm _ _

theorem pairwise_sortOn (key : α → Nat) (l : List α) :
    (sortOn key l).Pairwise (fun a b => decide (key a ≤ key b) = true) := by
  apply List.pairwise_mergeSort
  · intro a b c; simp only [decide_eq_true_eq]; exact Nat.le_trans
  · intro a b; simp only [Bool.or_eq_true, decide_eq_true_eq]; exact Nat.le_total _ _

/-- two dict dumps with the same entries (distinct keys) sort to the same list -/
theorem sortOn_eq_of_perm (key : α → Nat) {l₁ l₂ : List α} (h : l₁.Perm l₂)
    (nd : ∀ a ∈ l₁, ∀ b ∈ l₁, key a = key b → a = b) : sortOn key l₁ = sortOn key l₂ := by
  apply List.Perm.eq_of_pairwise (le := fun a b => decide (key a ≤ key b) = true)
  · intro a b ha hb hab hba
    simp only [decide_eq_true_eq] at hab hba
    have ha' : a ∈ l₁ := (sortOn_perm key l₁).mem_iff.mp ha
    have hb' : b ∈ l₁ := h.mem_iff.mpr ((sortOn_perm key l₂).mem_iff.mp hb)
    exact nd a ha' b hb' (Nat.le_antisymm hab hba)
  · exact pairwise_sortOn key l₁
  · exact pairwise_sortOn key l₂
  · exact (sortOn_perm key l₁).trans (h.trans (sortOn_perm key l₂).symm)

/-- keys that are distinct as list elements (e.g. `firsts`) mapped through a function that
    reports its key -/
theorem sortOn_map_eq_of_perm (key : β → Nat) (f g : α → β) {l₁ l₂ : List α} (h : l₁.Perm l₂)
    (_nd : l₁.Nodup) (hk : ∀ a ∈ l₁, ∀ b ∈ l₁, key (f a) = key (f b) → a = b)
    (hfg : ∀ a ∈ l₁, f a = g a) : sortOn key (l₁.map f) = sortOn key (l₂.map g) := by
  have hmap : l₂.map g = l₂.map f := by
    apply List.map_congr_left
    intro a ha; exact (hfg a (h.mem_iff.mpr ha)).symm
  rw [hmap]
  apply sortOn_eq_of_perm key (h.map f)
  intro x hx y hy hxy
  obtain ⟨a, ha, rfl⟩ := List.mem_map.mp hx
  obtain ⟨b, hb, rfl⟩ := List.mem_map.mp hy
  rw [hk a ha b hb hxy]

theorem filterMap_congr' (f g : α → Option β) (l : List α) (h : ∀ a ∈ l, f a = g a) :
    l.filterMap f = l.filterMap g := by
  induction l with
  | nil => rfl
  | cons a l ih =>
    simp only [List.filterMap_cons, h a List.mem_cons_self,
      ih (fun b hb => h b (List.mem_cons_of_mem _ hb))]

/-- a dict dump `[f k for k in keys if f k is not None]` where every entry reports its key -/
theorem sortOn_filterMap_congr (key : β → Nat) (f g : Nat → Option β) {l₁ l₂ : List Nat} (h : l₁.Perm l₂)
    (hfg : ∀ a ∈ l₁, f a = g a) (hk : ∀ a b, f a = some b → key b = a) :
    sortOn key (l₁.filterMap f) = sortOn key (l₂.filterMap g) := by
  have hg : l₂.filterMap g = l₂.filterMap f :=
    filterMap_congr' _ _ _ (fun a ha => (hfg a (h.mem_iff.mpr ha)).symm)
  rw [hg]
  apply sortOn_eq_of_perm key (h.filterMap f)
  intro x hx y hy hxy
  obtain ⟨a, _, hax⟩ := List.mem_filterMap.mp hx
  obtain ⟨b, _, hby⟩ := List.mem_filterMap.mp hy
  have hab : a = b := by rw [← hk a x hax, ← hk b y hby, hxy]
  subst hab
  rw [hax] at hby
  exact Option.some.inj hby

theorem perm_filterMap_congr (f g : α → Option β) {l₁ l₂ : List α} (h : l₁.Perm l₂)
    (hfg : ∀ a ∈ l₁, f a = g a) : (l₁.filterMap f).Perm (l₂.filterMap g) := by
  have hg : l₂.filterMap g = l₂.filterMap f :=
    filterMap_congr' _ _ _ (fun a ha => (hfg a (h.mem_iff.mpr ha)).symm)
  rw [hg]
  exact h.filterMap f

/-- the observation of a first-wins table: its entries sorted by key -/
def obs (key : κ → Nat) (t : List (κ × β)) : List (κ × β) := sortOn (fun e => key e.1) t

section
variable [DecidableEq κ]

/-- DESIGN §4.2 `fold_perm`, in the stronger same-set form: for consistent input the sorted
    table depends only on the set of records (so neither on order nor on duplication). -/
theorem fold_sameSet (key : κ → Nat) (inj : ∀ a b, key a = key b → a = b) {l₁ l₂ : List (κ × β)}
    (hc : Consistent l₁) (h : SameSet l₁ l₂) : obs key (agg l₁) = obs key (agg l₂) := by
  apply sortOn_eq_of_perm _ (agg_perm_of_sameSet hc h)
  intro a ha b hb hab
  have hk : a.1 = b.1 := inj _ _ hab
  have hc' := hc a ((mem_agg_iff hc a).mp ha) b ((mem_agg_iff hc b).mp hb) hk
  exact Prod.ext hk hc'

theorem fold_perm (key : κ → Nat) (inj : ∀ a b, key a = key b → a = b) {l₁ l₂ : List (κ × β)}
    (hc : Consistent l₁) (h : l₁.Perm l₂) : obs key (agg l₁) = obs key (agg l₂) :=
  fold_sameSet key inj hc (SameSet.of_perm h)

end

/-! ### nested iteration -/

theorem perm_flatMap_of_pointwise (l : List α) (f g : α → List β) (h : ∀ a ∈ l, (f a).Perm (g a)) :
    (l.flatMap f).Perm (l.flatMap g) := by
  induction l with
  | nil => exact List.Perm.refl _
  | cons a l ih =>
    simp only [List.flatMap_cons]
    exact (h a List.mem_cons_self).append (ih fun b hb => h b (List.mem_cons_of_mem _ hb))

theorem perm_flatMap {l₁ l₂ : List α} (f g : α → List β) (hl : l₁.Perm l₂)
    (h : ∀ a ∈ l₁, (f a).Perm (g a)) : (l₁.flatMap f).Perm (l₂.flatMap g) :=
  (perm_flatMap_of_pointwise l₁ f g h).trans (hl.flatMap_right g)

end PyatvModel.Agg
