import PyatvModel.Base.Bytes
/-
Generic incremental framing (DESIGN.md §4.1) — shared by C02 (segmentation
independence), C05 (loop termination) and C07 (encrypted channels).  Definitions only,
import-free; the theorems are in `Base/FramingLemmas.lean`.

Every receive path in pyatv has the same shape:

    def data_received(self, data):
        self._buffer += data
        while <buffer worth looking at>:
            <try to cut ONE message off the front of the buffer>     -- `Framer.ext`
            if incomplete: break                                     -- `Res.need`
            self._buffer = <rest>; deliver(message)                  -- `Res.msg m rest`
        # an exception leaving the loop = asyncio closes the transport -- `Res.err e`

`drain` is that `while` loop, `feed` is one `data_received` call, `feedAll` is a sequence
of calls (one per TCP read).  The loop is given fuel so that it is total for *every*
`ext`; `FramingLemmas.drain_fuel_irrel` shows the fuel `feed` supplies is never
exhausted when `ext` makes progress, and exhaustion is visible (`ErrClass.fuel`) rather
than silently truncating.
-/
namespace PyatvModel.Framing

/-- Why a receive loop stopped abnormally. -/
inductive ErrClass where
  | malformed   -- the parser raised (exception escapes `data_received`)
  | stall       -- the code would consume nothing and loop again (a hang in Python)
  | auth        -- AEAD open failed
  | fuel        -- model fuel exhausted: only reachable when `ext` does not make progress
  | consumer    -- the layer above (listener / handler) raised and the transport lets it escape
  deriving DecidableEq, Repr

def ErrClass.toStr : ErrClass → String
  | .malformed => "malformed" | .stall => "stall" | .auth => "auth" | .fuel => "fuel"
  | .consumer => "consumer"

/-- Outcome of one attempt to cut a message off the front of the buffer. -/
inductive Res (M : Type) where
  | need                              -- not enough bytes yet; buffer kept as is
  | msg (m : M) (rest : Bytes)        -- one message, buffer becomes `rest`
  | err (e : ErrClass)                -- exception
  deriving Repr

structure Framer (M : Type) where
  ext : Bytes → Res M

/-- Result of running the receive loop: messages delivered (in order), the buffer left
    behind, and the error that ended the loop, if any. -/
structure Out (M : Type) where
  msgs : List M
  rest : Bytes
  err  : Option ErrClass
  deriving Repr, DecidableEq

/-- prepend already delivered messages -/
def Out.pre {M : Type} (ms : List M) (o : Out M) : Out M := ⟨ms ++ o.msgs, o.rest, o.err⟩

variable {M : Type}

/-- The receive loop: extract until `need`/`err`. -/
def drain (f : Framer M) : Nat → Bytes → Out M
  | 0, b => ⟨[], b, some .fuel⟩
  | n + 1, b =>
    match f.ext b with
    | .need => ⟨[], b, none⟩
    | .err e => ⟨[], b, some e⟩
    | .msg m r => (drain f n r).pre [m]

/-- number of `ext` calls the loop makes (for any amount of fuel) -/
def drainSteps (f : Framer M) : Nat → Bytes → Nat
  | 0, _ => 0
  | n + 1, b =>
    match f.ext b with
    | .need => 1
    | .err _ => 1
    | .msg _ r => 1 + drainSteps f n r

/-- does the loop leave through its own exit test (`need`/`err`) within the fuel? -/
def drainHalts (f : Framer M) : Nat → Bytes → Bool
  | 0, _ => false
  | n + 1, b =>
    match f.ext b with
    | .need => true
    | .err _ => true
    | .msg _ r => drainHalts f n r

/-- the loop with the fuel `feed` gives it -/
def drainAll (f : Framer M) (b : Bytes) : Out M := drain f (b.length + 1) b

/-- One `data_received(chunk)` with `buf` left over from earlier calls. -/
def feed (f : Framer M) (buf chunk : Bytes) : Out M :=
  drain f (buf.length + chunk.length + 1) (buf ++ chunk)

/-- A sequence of reads.  An error is sticky: asyncio closes the transport when an
    exception leaves `data_received`, nothing more is delivered. -/
def feedAllFrom (f : Framer M) : Out M → List Bytes → Out M
  | o, [] => o
  | o, c :: cs =>
    match o.err with
    | some _ => o
    | none => feedAllFrom f ((feed f o.rest c).pre o.msgs) cs

def feedAll (f : Framer M) (chunks : List Bytes) : Out M := feedAllFrom f ⟨[], [], none⟩ chunks

/-! ### The layer above fails on a message

What a transport does when its listener/handler raises while being handed message `m`
(`bad m`).  In every receive loop the buffer has already been advanced past `m` at that
point.  Two policies exist in the code:
* *swallow* — `try: … except Exception: log` around the hand-over (MRP `_handle_message`,
  Companion `frame_received`, `BasicHttpServer._parse_and_send_next` → 500 response): the
  loop goes on; framing does not depend on the consumer at all, the framer is unchanged.
* *propagate* — no barrier (`DataStreamChannel.handle_received` → `handle_protobuf`): the
  exception leaves `data_received`, asyncio closes the transport.  `withConsumer f bad` is
  that framer: the hand-over of a bad message ends the run with `err consumer`. -/

def withConsumer (f : Framer M) (bad : M → Bool) : Framer M := ⟨fun b =>
  match f.ext b with
  | .msg m r => if bad m then .err .consumer else .msg m r
  | .need => .need
  | .err e => .err e⟩

/-! ### Sends between reads, and several connections at once

In the code a connection object owns its receive buffer; `send(...)` (any transport),
`HttpConnection.send_and_receive` and the other live connection objects do not touch it.
The model says so explicitly: a `send` operation leaves the receive state alone, and a
schedule that interleaves the reads of several connections updates only the connection
that reads.  (`FramingLemmas.runOps_eq`, `runSched_eq`; the harness interleaves real sends
and real connection objects to check that the code has no hidden shared/cleared state.) -/

inductive Op where
  | recv (chunk : Bytes)      -- `data_received(chunk)`
  | send (data : Bytes)       -- the application sends something on the same connection
  | ctl (tag : Nat)           -- any other operation that is not a read: `enable_encryption`, the
                              -- caller of a pending request giving up (timeout / cancel), …

def Op.recvs : List Op → List Bytes
  | [] => []
  | .recv c :: r => c :: Op.recvs r
  | .send _ :: r => Op.recvs r
  | .ctl _ :: r => Op.recvs r

def stepOp (f : Framer M) (o : Out M) : Op → Out M
  | .recv c => feedAllFrom f o [c]
  | .send _ => o
  | .ctl _ => o

def runOps (f : Framer M) (o : Out M) (ops : List Op) : Out M := ops.foldl (stepOp f) o

/-- reads of connections `0,1,2,…` (all of the same type) in the order the event loop
    happens to deliver them -/
def runSched (f : Framer M) (st : Nat → Out M) : List (Nat × Bytes) → (Nat → Out M)
  | [] => st
  | (i, c) :: rest => runSched f (fun j => if j = i then feedAllFrom f (st i) [c] else st j) rest

/-- Per-read trace (what was delivered by each `data_received`, buffer after it); used by
    the drivers.  `feedTrace_last` ties it to `feedAll`. -/
def feedTrace (f : Framer M) : Bytes → List Bytes → List (Out M)
  | _, [] => []
  | buf, c :: cs =>
    let o := feed f buf c
    match o.err with
    | some _ => [o]
    | none => o :: feedTrace f o.rest cs

/-- What makes a framer insensitive to segmentation.  `b` is a buffer whose first byte is
    the first byte of a message, `x` is whatever arrives later.  (DESIGN's "no early
    commitment" `ext (b ++ x) = need → ext b = need` is the derived
    `FramingLemmas.PrefixStable.needUp`.) -/
structure PrefixStable (f : Framer M) : Prop where
  /-- a message once complete stays the same message; later bytes only extend the rest -/
  mono : ∀ {b x : Bytes} {m : M} {r : Bytes}, f.ext b = .msg m r → f.ext (b ++ x) = .msg m (r ++ x)
  /-- strict progress -/
  prog : ∀ {b : Bytes} {m : M} {r : Bytes}, f.ext b = .msg m r → r.length < b.length
  /-- an error does not go away when more bytes arrive -/
  errUp : ∀ {b x : Bytes} {e : ErrClass}, f.ext b = .err e → ∃ e', f.ext (b ++ x) = .err e'

/-- Only progress (enough for termination, C05). -/
def Progress (f : Framer M) : Prop :=
  ∀ {b : Bytes} {m : M} {r : Bytes}, f.ext b = .msg m r → r.length < b.length

/-! ### Layer above the framer: stateful per-message processing (decrypt, parse, dispatch) -/

/-- Fold a stateful handler over delivered messages (`σ` = cipher counters, …). -/
def deliver {σ D : Type} (step : σ → M → σ × List D) : σ → List M → σ × List D
  | s, [] => (s, [])
  | s, m :: ms =>
    let (s1, d1) := step s m
    let (s2, d2) := deliver step s1 ms
    (s2, d1 ++ d2)

/-! ### Two framers stacked: lower blocks are decrypted to a byte stream that an upper
framer cuts into messages (`AbstractHAPChannel.data_received`: `HAPSession.decrypt` then
`handle_received`; `HttpConnection.receive_processor`). -/

structure Layered (B U σ : Type) where
  lower : Framer B
  dec   : σ → B → σ × Bytes          -- AEAD open as a parameter; state = nonce counter
  upper : Framer U

structure LState (U σ : Type) where
  lbuf : Bytes                       -- `HAPSession._encrypted_data`
  cs   : σ                           -- cipher state
  ubuf : Bytes                       -- `AbstractHAPChannel.buffer`
  out  : List U
  err  : Option ErrClass

/-- plaintext produced by a list of blocks (concatenated, as `decrypt` does) -/
def decAll {B σ : Type} (dec : σ → B → σ × Bytes) : σ → List B → σ × Bytes
  | s, [] => (s, [])
  | s, b :: bs => ((decAll dec (dec s b).1 bs).1, (dec s b).2 ++ (decAll dec (dec s b).1 bs).2)

/-- one `data_received` of the layered channel.  `handle_received` runs only when the
    decrypted output is non-empty (`if decrypt:`). -/
def lfeed {B U σ : Type} (L : Layered B U σ) (s : LState U σ) (chunk : Bytes) : LState U σ :=
  match s.err with
  | some _ => s
  | none =>
    let lo := feed L.lower s.lbuf chunk
    let cs' := (decAll L.dec s.cs lo.msgs).1
    let plain := (decAll L.dec s.cs lo.msgs).2
    match lo.err with
    | some e => { s with lbuf := lo.rest, cs := cs', err := some e }
    | none =>
      if plain.isEmpty then { s with lbuf := lo.rest, cs := cs' }
      else
        let uo := feed L.upper s.ubuf plain
        { lbuf := lo.rest, cs := cs', ubuf := uo.rest, out := s.out ++ uo.msgs, err := uo.err }

def lfeedAll {B U σ : Type} (L : Layered B U σ) (s : LState U σ) : List Bytes → LState U σ
  | [] => s
  | c :: cs => lfeedAll L (lfeed L s c) cs

def LState.init {U σ : Type} (cs : σ) : LState U σ := ⟨[], cs, [], [], none⟩

end PyatvModel.Framing
