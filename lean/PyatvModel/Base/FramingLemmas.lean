import PyatvModel.Base.Framing
/-
Theorems of the generic framing theory (DESIGN.md §4.1), proved once for every framer.

* `drain_fuel_irrel`, `drain_halts`, `drain_steps_le` — the receive loop terminates by its
  own exit test after at most `length+1` extraction attempts (C05 reuses these).
* `drainAll_append` — the split lemma: running the loop on `b`, then on what is left
  plus `x`, is the same as running it on `b ++ x`.
* `feedAll_concat` — segmentation independence (C02) for every `PrefixStable` framer and
  every list of chunks: messages, residual buffer and (absent) error all coincide with
  the unsplit run.
* `PrefixStable.needUp` — DESIGN's third condition is a consequence of `mono`+`errUp`.
  (DESIGN's original triple mono/prog/need↑ is *not* sufficient: `ext [a] = err`,
  `ext (a :: b :: _) = msg` satisfies it and is segmentation dependent; hence `errUp`.)
* `deliver_feedAll`, `lfeedAll_concat` — the same for a stateful handler above the framer
  and for two stacked framers (HAP blocks → plaintext stream → upper framer).
-/
namespace PyatvModel.Framing

variable {M : Type}

@[simp] theorem Out.pre_msgs (ms : List M) (o : Out M) : (o.pre ms).msgs = ms ++ o.msgs := rfl
@[simp] theorem Out.pre_rest (ms : List M) (o : Out M) : (o.pre ms).rest = o.rest := rfl
@[simp] theorem Out.pre_err (ms : List M) (o : Out M) : (o.pre ms).err = o.err := rfl
@[simp] theorem Out.pre_nil (o : Out M) : o.pre [] = o := rfl
theorem Out.pre_pre (a b : List M) (o : Out M) : (o.pre b).pre a = o.pre (a ++ b) := by
  simp [Out.pre, List.append_assoc]
theorem Out.ext' {a b : Out M} (h1 : a.msgs = b.msgs) (h2 : a.rest = b.rest) (h3 : a.err = b.err) :
    a = b := by
  cases a; cases b; simp_all

/-! ### Termination of the receive loop -/

theorem drain_fuel_irrel {f : Framer M} (hp : Progress f) :
    ∀ (n k : Nat) (b : Bytes), b.length < n → b.length < k → drain f n b = drain f k b := by
  intro n
  induction n with
  | zero => intro k b h; omega
  | succ n ih =>
    intro k b hn hk
    cases k with
    | zero => omega
    | succ k =>
      simp only [drain]
      cases h : f.ext b with
      | need => rfl
      | err e => rfl
      | msg m r =>
        have := hp h
        simp only
        rw [ih k r (by omega) (by omega)]

/-- with at least `length+1` fuel the loop leaves through `need`/`err`, never by running
    out of fuel -/
theorem drain_halts {f : Framer M} (hp : Progress f) :
    ∀ (n : Nat) (b : Bytes), b.length < n → drainHalts f n b = true := by
  intro n
  induction n with
  | zero => intro b h; omega
  | succ n ih =>
    intro b hn
    simp only [drainHalts]
    cases h : f.ext b with
    | need => rfl
    | err e => rfl
    | msg m r =>
      have := hp h
      simp only
      exact ih r (by omega)

/-- whatever fuel is supplied, at most `length+1` extraction attempts are made -/
theorem drain_steps_le {f : Framer M} (hp : Progress f) :
    ∀ (n : Nat) (b : Bytes), drainSteps f n b ≤ b.length + 1 := by
  intro n
  induction n with
  | zero => intro b; simp [drainSteps]
  | succ n ih =>
    intro b
    simp only [drainSteps]
    cases h : f.ext b with
    | need => simp
    | err e => simp
    | msg m r =>
      have := hp h
      have := ih r
      simp only
      omega

theorem PrefixStable.progress {f : Framer M} (hs : PrefixStable f) : Progress f := hs.prog

/-! ### Unfolding `drainAll` -/

theorem drainAll_need {f : Framer M} {b : Bytes} (h : f.ext b = .need) :
    drainAll f b = ⟨[], b, none⟩ := by
  simp [drainAll, drain, h]

theorem drainAll_err {f : Framer M} {b : Bytes} {e : ErrClass} (h : f.ext b = .err e) :
    drainAll f b = ⟨[], b, some e⟩ := by
  simp [drainAll, drain, h]

theorem drainAll_msg {f : Framer M} (hp : Progress f) {b : Bytes} {m : M} {r : Bytes}
    (h : f.ext b = .msg m r) : drainAll f b = (drainAll f r).pre [m] := by
  have := hp h
  have e : drain f (b.length + 1) b = (drain f b.length r).pre [m] := by
    simp only [drain, h]
  unfold drainAll
  rw [e, drain_fuel_irrel hp b.length (r.length + 1) r (by omega) (by omega)]

theorem feed_eq_drainAll (f : Framer M) (buf c : Bytes) : feed f buf c = drainAll f (buf ++ c) := by
  simp [feed, drainAll, List.length_append]

/-! ### The split lemma -/

theorem drainAll_append {f : Framer M} (hs : PrefixStable f) :
    ∀ (n : Nat) (b x : Bytes), b.length ≤ n → (drainAll f (b ++ x)).err = none →
      (drainAll f b).err = none ∧
      drainAll f (b ++ x) = (drainAll f ((drainAll f b).rest ++ x)).pre (drainAll f b).msgs := by
  intro n
  induction n with
  | zero =>
    intro b x hb hno
    have : b = [] := List.eq_nil_of_length_eq_zero (by omega)
    subst this
    cases h : f.ext [] with
    | need => rw [drainAll_need h]; simp
    | err e =>
      obtain ⟨e', he'⟩ := hs.errUp (x := x) h
      rw [drainAll_err he'] at hno; simp at hno
    | msg m r => have := hs.prog h; simp at this
  | succ n ih =>
    intro b x hb hno
    cases h : f.ext b with
    | need => rw [drainAll_need h]; simp
    | err e =>
      obtain ⟨e', he'⟩ := hs.errUp (x := x) h
      rw [drainAll_err he'] at hno; simp at hno
    | msg m r =>
      have h' := hs.mono (x := x) h
      have hlt := hs.prog h
      rw [drainAll_msg hs.prog h'] at hno ⊢
      rw [drainAll_msg hs.prog h]
      obtain ⟨e1, e2⟩ := ih r x (by omega) (by simpa using hno)
      refine ⟨by simpa using e1, ?_⟩
      rw [e2]
      simp [Out.pre]

/-- after a clean run the buffer left behind holds no complete message -/
theorem drainAll_rest_need {f : Framer M} (hp : Progress f) :
    ∀ (n : Nat) (b : Bytes), b.length ≤ n → (drainAll f b).err = none →
      f.ext (drainAll f b).rest = .need := by
  intro n
  induction n with
  | zero =>
    intro b hb hno
    have : b = [] := List.eq_nil_of_length_eq_zero (by omega)
    subst this
    cases h : f.ext [] with
    | need => rw [drainAll_need h]; exact h
    | err e => rw [drainAll_err h] at hno; simp at hno
    | msg m r => have := hp h; simp at this
  | succ n ih =>
    intro b hb hno
    cases h : f.ext b with
    | need => rw [drainAll_need h]; exact h
    | err e => rw [drainAll_err h] at hno; simp at hno
    | msg m r =>
      have hlt := hp h
      rw [drainAll_msg hp h] at hno ⊢
      simpa using ih r (by omega) (by simpa using hno)

/-- DESIGN's "no early commitment" follows from `mono` and `errUp`. -/
theorem PrefixStable.needUp {f : Framer M} (hs : PrefixStable f) {b x : Bytes}
    (h : f.ext (b ++ x) = .need) : f.ext b = .need := by
  cases hb : f.ext b with
  | need => rfl
  | err e => obtain ⟨e', he'⟩ := hs.errUp (x := x) hb; rw [he'] at h; cases h
  | msg m r => rw [hs.mono (x := x) hb] at h; cases h

/-- an empty buffer is never a message; if the run is clean it is `need` -/
theorem PrefixStable.ext_nil {f : Framer M} (hs : PrefixStable f) {x : Bytes}
    (hno : (drainAll f x).err = none) : f.ext [] = .need := by
  cases h : f.ext [] with
  | need => rfl
  | err e =>
    obtain ⟨e', he'⟩ := hs.errUp (x := x) h
    rw [List.nil_append] at he'
    rw [drainAll_err he'] at hno; simp at hno
  | msg m r => have := hs.prog h; simp at this

/-- a framer that never raises and makes progress never ends its loop with an error -/
theorem drainAll_noErr {f : Framer M} (hp : Progress f) (hne : ∀ b e, f.ext b ≠ .err e) :
    ∀ (n : Nat) (b : Bytes), b.length ≤ n → (drainAll f b).err = none := by
  intro n
  induction n with
  | zero =>
    intro b hb
    have : b = [] := List.eq_nil_of_length_eq_zero (by omega)
    subst this
    cases h : f.ext [] with
    | need => rw [drainAll_need h]
    | err e => exact absurd h (hne _ _)
    | msg m r => have := hp h; simp at this
  | succ n ih =>
    intro b hb
    cases h : f.ext b with
    | need => rw [drainAll_need h]
    | err e => exact absurd h (hne _ _)
    | msg m r =>
      have hlt := hp h
      rw [drainAll_msg hp h]
      simpa using ih r (by omega)

/-- streams produced by an encoder the framer inverts (on the frames used) are processed
    without error and yield exactly the encoded messages: valid streams satisfy the
    `noErr` hypothesis of `feedAll_concat` -/
theorem drainAll_encoded {f : Framer M} (hp : Progress f) (enc : M → Bytes) (hnil : f.ext [] = .need)
    (ms : List M) (henc : ∀ m ∈ ms, ∀ x, f.ext (enc m ++ x) = .msg m x) :
    drainAll f (ms.flatMap enc) = ⟨ms, [], none⟩ := by
  induction ms with
  | nil => simpa using drainAll_need hnil
  | cons m ms ih =>
    rw [List.flatMap_cons, drainAll_msg hp (henc m (by simp) _), ih (fun m' hm' => henc m' (by simp [hm']))]
    rfl

/-! ### Segmentation independence -/

theorem feedAllFrom_concat {f : Framer M} (hs : PrefixStable f) :
    ∀ (chunks : List Bytes) (ms : List M) (buf : Bytes), f.ext buf = .need →
      (drainAll f (buf ++ chunks.flatten)).err = none →
      feedAllFrom f ⟨ms, buf, none⟩ chunks = (drainAll f (buf ++ chunks.flatten)).pre ms := by
  intro chunks
  induction chunks with
  | nil =>
    intro ms buf hb _
    simp [feedAllFrom, drainAll_need hb, Out.pre]
  | cons c cs ih =>
    intro ms buf hb hno
    have hassoc : buf ++ (c :: cs).flatten = (buf ++ c) ++ cs.flatten := by simp
    rw [hassoc] at hno ⊢
    obtain ⟨e1, e2⟩ := drainAll_append hs (buf ++ c).length (buf ++ c) cs.flatten (Nat.le_refl _) hno
    have hrest := drainAll_rest_need hs.prog (buf ++ c).length (buf ++ c) (Nat.le_refl _) e1
    have hno' : (drainAll f ((drainAll f (buf ++ c)).rest ++ cs.flatten)).err = none := by
      rw [e2] at hno; simpa using hno
    have hstate : (feed f buf c).pre ms
        = ⟨ms ++ (drainAll f (buf ++ c)).msgs, (drainAll f (buf ++ c)).rest, none⟩ := by
      rw [feed_eq_drainAll]
      exact Out.ext' rfl rfl e1
    simp only [feedAllFrom]
    rw [hstate, ih _ _ hrest hno', e2, Out.pre_pre]

/-- **Segmentation independence.**  For a prefix-stable framer and *any* way of cutting a
    byte stream into reads, if the unsplit stream is processed without an exception then
    the split stream delivers the same messages, leaves the same buffer behind and raises
    no exception either. -/
theorem feedAll_concat {f : Framer M} (hs : PrefixStable f) (chunks : List Bytes)
    (hok : (feed f [] chunks.flatten).err = none) :
    feedAll f chunks = feed f [] chunks.flatten := by
  rw [feed_eq_drainAll] at hok ⊢
  have hnil := hs.ext_nil (by simpa using hok)
  have := feedAllFrom_concat hs chunks [] [] hnil hok
  simpa [feedAll] using this

/-- consequence: two segmentations of the same stream are indistinguishable -/
theorem feedAll_segmentation_irrel {f : Framer M} (hs : PrefixStable f) (c1 c2 : List Bytes)
    (hsame : c1.flatten = c2.flatten) (hok : (feed f [] c1.flatten).err = none) :
    feedAll f c1 = feedAll f c2 := by
  rw [feedAll_concat hs c1 hok, feedAll_concat hs c2 (by rw [← hsame]; exact hok), hsame]

/-- "leaves the connection usable": a further read after the split stream behaves exactly
    as after the unsplit one. -/
theorem feedAll_then {f : Framer M} (hs : PrefixStable f) (chunks : List Bytes) (next : Bytes)
    (hok : (feed f [] chunks.flatten).err = none) :
    feedAllFrom f (feedAll f chunks) [next] = feedAllFrom f (feed f [] chunks.flatten) [next] := by
  rw [feedAll_concat hs chunks hok]

/-- the same for whatever stateful handler consumes the messages (decrypt with a nonce
    counter, protobuf parse, dispatch): deliveries depend on the message list only -/
theorem deliver_feedAll {σ D : Type} {f : Framer M} (hs : PrefixStable f)
    (step : σ → M → σ × List D) (s : σ) (chunks : List Bytes)
    (hok : (feed f [] chunks.flatten).err = none) :
    deliver step s (feedAll f chunks).msgs = deliver step s (feed f [] chunks.flatten).msgs := by
  rw [feedAll_concat hs chunks hok]

theorem feedAllFrom_err (f : Framer M) (o : Out M) (e : ErrClass) (h : o.err = some e) (cs : List Bytes) :
    feedAllFrom f o cs = o := by
  cases cs with
  | nil => rfl
  | cons c cs => simp [feedAllFrom, h]

/-! ### Streams on which the run ends with an exception: messages and closure are still
segmentation independent (only the buffer left behind in the dead connection differs) -/

theorem drainAll_append_ok {f : Framer M} (hs : PrefixStable f) :
    ∀ (n : Nat) (b x : Bytes), b.length ≤ n → (drainAll f b).err = none →
      drainAll f (b ++ x) = (drainAll f ((drainAll f b).rest ++ x)).pre (drainAll f b).msgs := by
  intro n
  induction n with
  | zero =>
    intro b x hb hno
    have : b = [] := List.eq_nil_of_length_eq_zero (by omega)
    subst this
    cases h : f.ext [] with
    | need => rw [drainAll_need h]; simp
    | err e => rw [drainAll_err h] at hno; simp at hno
    | msg m r => have := hs.prog h; simp at this
  | succ n ih =>
    intro b x hb hno
    cases h : f.ext b with
    | need => rw [drainAll_need h]; simp
    | err e => rw [drainAll_err h] at hno; simp at hno
    | msg m r =>
      have h' := hs.mono (x := x) h
      have hlt := hs.prog h
      rw [drainAll_msg hs.prog h] at hno ⊢
      rw [drainAll_msg hs.prog h', ih r x (by omega) (by simpa using hno)]
      simp [Out.pre]

theorem drainAll_append_err {f : Framer M} (hs : PrefixStable f) :
    ∀ (n : Nat) (b x : Bytes), b.length ≤ n → (drainAll f b).err.isSome = true →
      (drainAll f (b ++ x)).msgs = (drainAll f b).msgs ∧ (drainAll f (b ++ x)).err.isSome = true := by
  intro n
  induction n with
  | zero =>
    intro b x hb he
    have : b = [] := List.eq_nil_of_length_eq_zero (by omega)
    subst this
    cases h : f.ext [] with
    | need => rw [drainAll_need h] at he; simp at he
    | err e =>
      obtain ⟨e', he'⟩ := hs.errUp (x := x) h
      rw [drainAll_err he', drainAll_err h]; simp
    | msg m r => have := hs.prog h; simp at this
  | succ n ih =>
    intro b x hb he
    cases h : f.ext b with
    | need => rw [drainAll_need h] at he; simp at he
    | err e =>
      obtain ⟨e', he'⟩ := hs.errUp (x := x) h
      rw [drainAll_err he', drainAll_err h]; simp
    | msg m r =>
      have h' := hs.mono (x := x) h
      have hlt := hs.prog h
      rw [drainAll_msg hs.prog h] at he ⊢
      rw [drainAll_msg hs.prog h']
      obtain ⟨e1, e2⟩ := ih r x (by omega) (by simpa using he)
      exact ⟨by simp [e1], by simpa using e2⟩

theorem feedAllFrom_msgs {f : Framer M} (hs : PrefixStable f) :
    ∀ (chunks : List Bytes) (ms : List M) (buf : Bytes), f.ext buf = .need →
      (feedAllFrom f ⟨ms, buf, none⟩ chunks).msgs = ms ++ (drainAll f (buf ++ chunks.flatten)).msgs ∧
      (feedAllFrom f ⟨ms, buf, none⟩ chunks).err.isSome = (drainAll f (buf ++ chunks.flatten)).err.isSome := by
  intro chunks
  induction chunks with
  | nil => intro ms buf hb; simp [feedAllFrom, drainAll_need hb]
  | cons c cs ih =>
    intro ms buf hb
    have hassoc : buf ++ (c :: cs).flatten = (buf ++ c) ++ cs.flatten := by simp
    rw [hassoc]
    simp only [feedAllFrom]
    cases he : (drainAll f (buf ++ c)).err with
    | none =>
      have hrest := drainAll_rest_need hs.prog (buf ++ c).length (buf ++ c) (Nat.le_refl _) he
      have hst : (feed f buf c).pre ms
          = ⟨ms ++ (drainAll f (buf ++ c)).msgs, (drainAll f (buf ++ c)).rest, none⟩ := by
        rw [feed_eq_drainAll]; exact Out.ext' rfl rfl he
      rw [hst, drainAll_append_ok hs _ _ _ (Nat.le_refl _) he]
      obtain ⟨i1, i2⟩ := ih (ms ++ (drainAll f (buf ++ c)).msgs) _ hrest
      exact ⟨by rw [i1]; simp, by rw [i2]; simp⟩
    | some e =>
      have hsome : (drainAll f (buf ++ c)).err.isSome = true := by rw [he]; rfl
      obtain ⟨a1, a2⟩ := drainAll_append_err hs _ (buf ++ c) cs.flatten (Nat.le_refl _) hsome
      have herr : ((feed f buf c).pre ms).err = some e := by rw [feed_eq_drainAll]; simpa using he
      rw [feedAllFrom_err f _ e herr, a1, a2, feed_eq_drainAll]
      simp [he]

/-- **Segmentation independence without any hypothesis on the stream.**  For every byte
    stream (valid or not) and every segmentation: the messages delivered are those of the
    unsplit run, and the connection ends closed by an exception iff the unsplit run does. -/
theorem feedAll_concat_msgs {f : Framer M} (hs : PrefixStable f) (hnil : f.ext [] = .need)
    (chunks : List Bytes) :
    (feedAll f chunks).msgs = (feed f [] chunks.flatten).msgs ∧
    (feedAll f chunks).err.isSome = (feed f [] chunks.flatten).err.isSome := by
  have := feedAllFrom_msgs hs chunks [] [] hnil
  simpa [feedAll, feed_eq_drainAll] using this

/-! ### A consumer that raises (propagating transports) -/

theorem withConsumer_prefixStable {f : Framer M} (hs : PrefixStable f) (bad : M → Bool) :
    PrefixStable (withConsumer f bad) where
  mono := by
    intro b x m r h
    simp only [withConsumer] at h ⊢
    cases hb : f.ext b with
    | need => rw [hb] at h; cases h
    | err e => rw [hb] at h; cases h
    | msg m' r' =>
      rw [hb] at h
      rw [hs.mono (x := x) hb]
      by_cases hbad : bad m' = true
      · simp [hbad] at h
      · simp only [hbad] at h ⊢
        cases h; rfl
  prog := by
    intro b m r h
    simp only [withConsumer] at h
    cases hb : f.ext b with
    | need => rw [hb] at h; cases h
    | err e => rw [hb] at h; cases h
    | msg m' r' =>
      rw [hb] at h
      by_cases hbad : bad m' = true
      · simp [hbad] at h
      · simp only [hbad] at h
        cases h; exact hs.prog hb
  errUp := by
    intro b x e h
    simp only [withConsumer] at h ⊢
    cases hb : f.ext b with
    | need => rw [hb] at h; cases h
    | err e' =>
      obtain ⟨e'', he''⟩ := hs.errUp (x := x) hb
      exact ⟨e'', by rw [he'']⟩
    | msg m' r' =>
      rw [hb] at h
      rw [hs.mono (x := x) hb]
      by_cases hbad : bad m' = true
      · exact ⟨.consumer, by simp [hbad]⟩
      · simp [hbad] at h

theorem withConsumer_nil {f : Framer M} (bad : M → Bool) (hnil : f.ext [] = .need) :
    (withConsumer f bad).ext [] = .need := by
  simp [withConsumer, hnil]

/-! ### The per-read trace printed by the drivers is the run the theorems talk about -/

/-- `feedTrace` lists, read by read, exactly what `feedAllFrom` accumulates: messages are
    the concatenation of the per-read messages, buffer and error are those of the last read -/
theorem feedTrace_feedAllFrom (f : Framer M) : ∀ (cs : List Bytes) (ms : List M) (buf : Bytes),
    feedAllFrom f ⟨ms, buf, none⟩ cs =
      ⟨ms ++ (feedTrace f buf cs).flatMap (·.msgs),
       ((feedTrace f buf cs).getLast?.map (·.rest)).getD buf,
       (feedTrace f buf cs).getLast?.bind (·.err)⟩ := by
  intro cs
  induction cs with
  | nil => intro ms buf; simp [feedAllFrom, feedTrace]
  | cons c cs ih =>
    intro ms buf
    simp only [feedAllFrom, feedTrace]
    cases he : (feed f buf c).err with
    | some e =>
      have : ((feed f buf c).pre ms).err = some e := by simpa using he
      rw [feedAllFrom_err f _ e this]
      simp [Out.pre, he]
    | none =>
      have hst : (feed f buf c).pre ms = ⟨ms ++ (feed f buf c).msgs, (feed f buf c).rest, none⟩ :=
        Out.ext' rfl rfl (by simpa using he)
      rw [hst, ih]
      simp only [List.flatMap_cons, List.append_assoc]
      cases htr : feedTrace f (feed f buf c).rest cs with
      | nil => simp [he]
      | cons o tr =>
        have hl : (o :: tr).getLast? = some ((o :: tr).getLast (by simp)) := List.getLast?_eq_some_getLast (by simp)
        simp [List.getLast?_cons_cons, hl]

/-! ### Sends and other connections do not matter (in the model: by construction) -/

theorem feedAllFrom_append (f : Framer M) : ∀ (a b : List Bytes) (o : Out M),
    feedAllFrom f o (a ++ b) = feedAllFrom f (feedAllFrom f o a) b := by
  intro a
  induction a with
  | nil => intro b o; rfl
  | cons c a ih =>
    intro b o
    cases he : o.err with
    | some e => rw [feedAllFrom_err f o e he, feedAllFrom_err f o e he, feedAllFrom_err f o e he]
    | none => simp only [List.cons_append, feedAllFrom, he, ih]

/-- operations on one connection: only the reads count, in order -/
theorem runOps_eq (f : Framer M) : ∀ (ops : List Op) (o : Out M),
    runOps f o ops = feedAllFrom f o (Op.recvs ops) := by
  intro ops
  induction ops with
  | nil => intro o; rfl
  | cons op ops ih =>
    intro o
    cases op with
    | recv c =>
      have : Op.recvs (Op.recv c :: ops) = [c] ++ Op.recvs ops := rfl
      rw [this, feedAllFrom_append]
      exact ih _
    | send d => exact ih o
    | ctl t => exact ih o

/-- interleaved reads of several connections: connection `i` ends where its own reads,
    in order, take it -/
theorem runSched_eq (f : Framer M) : ∀ (sched : List (Nat × Bytes)) (st : Nat → Out M) (i : Nat),
    runSched f st sched i = feedAllFrom f (st i) ((sched.filter (fun p => p.1 = i)).map (·.2)) := by
  intro sched
  induction sched with
  | nil => intro st i; rfl
  | cons p sched ih =>
    intro st i
    obtain ⟨j, c⟩ := p
    simp only [runSched]
    rw [ih]
    by_cases h : j = i
    · subst h
      simp only [if_true, List.filter_cons, decide_true, List.map_cons]
      have : (c :: List.map (·.2) (List.filter (fun p => p.1 = j) sched))
          = [c] ++ List.map (·.2) (List.filter (fun p => p.1 = j) sched) := rfl
      rw [this, feedAllFrom_append]
    · have h' : ¬ i = j := fun e => h e.symm
      simp [h, h']

theorem feedTrace_feedAll (f : Framer M) (cs : List Bytes) :
    feedAll f cs = ⟨(feedTrace f [] cs).flatMap (·.msgs),
                    ((feedTrace f [] cs).getLast?.map (·.rest)).getD [],
                    (feedTrace f [] cs).getLast?.bind (·.err)⟩ := by
  simpa [feedAll] using feedTrace_feedAllFrom f cs [] []

end PyatvModel.Framing
