/-
C08 — control-flow skeleton of the pairing handlers.

What is transcribed (pyatv tree under test, after the `fix:` commits of findings/C08.json):

* `pyatv/support/__init__.py:68 error_handler` — the guard `handler`: OSError/TimeoutError →
  ConnectionFailedError (a *connection* error), every other exception → the fallback
  `PairingError` (a *pairing* error).  Guard `raw` = a call made outside `error_handler`
  (`http_connect` in `AirPlayPairingHandler.begin`, airplay/pairing.py:50): only an OSError /
  lost connection is a connection error there, anything else escapes as it is (`other`).
  Guard `server` = code running inside the request handler of the handler's *own* web server
  (`DmapPairingHandler.handle_request`, dmap/pairing.py:126): a failure aborts the request
  (the peer gets an error status), nothing is raised to `begin()`/`finish()`.
* The scripts (one per handler configuration) list, in program order, the await points
  (`connect`, `recv`), the sends, and the three writes
  `service.credentials = …` (`storeService`), `settings.protocols.<p>.credentials = …`
  (`storeSettings`), `self._has_paired = True` (`setPaired`):
    mrp            mrp/pairing.py:45-76 begin/finish + mrp/auth.py start_pairing,
                   finish_pairing, verify_credentials + mrp/protocol.py start(skip_initial_messages)
    companion      companion/pairing.py:47-70 + companion/auth.py start_pairing, finish_pairing
    companionReauth the same with credentials already stored: companion/protocol.py start()
                   first runs `_setup_encryption` (pair-verify M1..M4, companion/auth.py)
    airplayHap     airplay/pairing.py:48-91 + airplay/auth/hap.py start_pairing, finish_pairing
    airplayLegacy  airplay/pairing.py + airplay/auth/legacy.py start_pairing, finish_pairing
    raopHap/raopLegacy  raop/__init__.py:592 pair() = the AirPlay handler on a RAOP service
    dmap           dmap/pairing.py:78-96 begin/finish, :126 handle_request, :145 _verify_pin
  For every `recv` the script records which fault kinds can be expressed on that reply
  (`app`) and which of them the code detects (`chk`): error TLV / HTTP error status
  (`_get_pairing_data`, `HttpConnection.send_and_receive`), wrong PIN (the device answers the
  proof with an error), dropped reply (the timeouts of `MrpProtocol._receive`,
  `SharedData.wait`, `HttpConnection.send_and_receive`), garbage, a missing required field
  (`pairing_data[TlvValue.X]`, `body["pk"]`, `_require_fields`), disconnect.  `garbage` and
  `missingField` include faults INSIDE the sealed sub-messages (pair-setup M6: `SRPAuthHandler.step4`
  requires Identifier, PublicKey, Signature, rejects impossible credentials and verifies the
  accessory signature over AccessoryX+identifier+LTPK; pair-verify M2: `verify1` compares the
  identifier with the paired one and verifies the signature).
  `AirPlayPairingHandler.begin` resetting `_has_paired = False` is not a step (the flag is
  already false in every run considered here).

The interpreter `exec` is generic; the scripts are data.  They are tied to the code on every
check: the step list is compared with the real trace of connects/sends/receives/writes on the
fault-free run, the `app` lists with the replies the real peers send, and `run` with the real
handlers for every (await point, fault kind).  Import-free.
-/
namespace PyatvModel.C08

inductive Fault | errorReply | wrongPin | dropped | garbage | missingField | disconnect
  deriving DecidableEq, Repr

inductive ErrClass | pairing | connection | other
  deriving DecidableEq, Repr

inductive Guard | handler | raw | server
  deriving DecidableEq, Repr

inductive Step
  | connect (g : Guard)
  | send
  | recv (g : Guard) (app chk : List Fault)
  | guardPaired
  | storeService
  | storeSettings
  | setPaired
  deriving DecidableEq, Repr

/-- `svc`/`settings` = "the new credentials have been written there" (false = the previously
    stored value is untouched); `paired` = `has_paired`. -/
structure St where
  svc : Bool
  settings : Bool
  paired : Bool
  deriving DecidableEq, Repr

def St.init : St := ⟨false, false, false⟩
def St.done : St := ⟨true, true, true⟩

/-- `ok` = begin()/finish() returned and success is reported; `silent` = they returned
    without raising although nothing was paired; `error e` = an exception of class `e`. -/
inductive Outcome | ok | silent | error (e : ErrClass)
  deriving DecidableEq, Repr

/-- exception class that reaches the caller when a step under guard `g` fails with `f` -/
def errClass : Guard → Fault → ErrClass
  | .handler, .dropped => .connection          -- TimeoutError → ConnectionFailedError
  | .handler, _ => .pairing                    -- fallback PairingError
  | .raw, .dropped => .connection              -- builtin TimeoutError (an OSError)
  | .raw, .disconnect => .connection           -- builtin OSError / ConnectionLostError
  | .raw, _ => .other                          -- KeyError, ValueError, … escape unmapped
  | .server, _ => .other                       -- never raised (see `exec`)

/-- A failed connect is an OSError under every guard. -/
def connectErr : Guard → ErrClass
  | _ => .connection

def Step.isAwait : Step → Bool
  | .connect _ | .recv _ _ _ => true
  | _ => false

def Step.isWrite : Step → Bool
  | .storeService | .storeSettings | .setPaired => true
  | _ => false

/-- Does fault `(i, f)` hit the await point number `k` which accepts the kinds `app`? -/
def hits (fault : Option (Nat × Fault)) (k : Nat) (app : List Fault) : Option Fault :=
  match fault with
  | some (i, f) => if i = k ∧ f ∈ app then some f else none
  | none => none

/-- `exec steps skip k fault st`: run the rest of a script.  `k` = number of await points
    already passed; `skip` = a request handled by the handler's own server was aborted, the
    rest of that request handler is not executed (resumes at `guardPaired` in `finish()`). -/
def exec : List Step → Bool → Nat → Option (Nat × Fault) → St → Outcome × St
  | [], skip, _, _, st => (if skip then .silent else .ok, st)
  | .guardPaired :: r, _, k, fault, st =>
      if st.paired then exec r false k fault st else (.silent, st)
  | .connect g :: r, skip, k, fault, st =>
      if skip then exec r true (k + 1) fault st else
      match hits fault k [.disconnect] with
      | some _ => if g = .server then exec r true (k + 1) fault st else (.error (connectErr g), st)
      | none => exec r false (k + 1) fault st
  | .recv g app chk :: r, skip, k, fault, st =>
      if skip then exec r true (k + 1) fault st else
      match hits fault k app with
      | some f =>
          if f ∈ chk then
            (if g = .server then exec r true (k + 1) fault st else (.error (errClass g f), st))
          else exec r false (k + 1) fault st        -- the fault is swallowed
      | none => exec r false (k + 1) fault st
  | .send :: r, skip, k, fault, st => exec r skip k fault st
  | .storeService :: r, skip, k, fault, st =>
      exec r skip k fault (if skip then st else { st with svc := true })
  | .storeSettings :: r, skip, k, fault, st =>
      exec r skip k fault (if skip then st else { st with settings := true })
  | .setPaired :: r, skip, k, fault, st =>
      exec r skip k fault (if skip then st else { st with paired := true })

def run (s : List Step) (fault : Option (Nat × Fault)) : Outcome × St :=
  exec s false 0 fault St.init

/-- the `k`-th await point of a script -/
def awaitAt? : List Step → Nat → Option Step
  | [], _ => none
  | s :: r, k => if s.isAwait then (match k with | 0 => some s | k + 1 => awaitAt? r k) else awaitAt? r k

/-- fault kinds that can be injected at await point `i` -/
def appAt (s : List Step) (i : Nat) : List Fault :=
  match awaitAt? s i with
  | some (.connect _) => [.disconnect]
  | some (.recv _ app _) => app
  | _ => []

/-! ## the initial state as a parameter

What is stored before the pairing starts is arbitrary and the two places are independent:
`service.credentials` of the configuration handed to `pyatv.pair()` and
`settings.protocols.<p>.credentials` of the storage may each hold nothing, or (different)
older credentials.  The handlers never read the settings slot and only ever *assign* the two
places (the three writes of a script), so the value held afterwards is the initial one unless
the corresponding write step was executed. -/

inductive Cred | none | oldA | oldB | fresh
  deriving DecidableEq, Repr

/-- values held by (service, settings) after a run that started from `(a, b)` -/
def credsAfter (a b : Cred) (st : St) : Cred × Cred :=
  (if st.svc then Cred.fresh else a, if st.settings then Cred.fresh else b)

def Cred.toStr : Cred → String
  | .none => "0" | .oldA => "1" | .oldB => "2" | .fresh => "9"

def Cred.ofStr? : String → Option Cred
  | "0" => some .none | "1" => some .oldA | "2" => some .oldB | "9" => some .fresh | _ => Option.none

/-! ## the PIN as a parameter

The only secret a handler compares is the PIN: the device checks the SRP proof derived from the
PIN typed by the user against the PIN it displays (MRP/Companion/AirPlay-HAP M3→M4, legacy
step 2), and `DmapPairingHandler._verify_pin` compares the received pairing code with the hash
of the PIN given to `pin()`.  In the model the comparison is equality of the two values, for
EVERY value (0 = "0000" included); a mismatch is the fault `wrongPin` at the await point that
carries the proof. -/

def pinFault (expected typed : Nat) : Option Fault :=
  if expected = typed then none else some .wrongPin

/-- the await point at which a wrong PIN shows (the first one that accepts `wrongPin`) -/
def proofIndex? (s : List Step) : Option Nat :=
  (List.range s.length).find? (fun i => (appAt s i).contains Fault.wrongPin)

/-- run a script with the PIN the peer expects and the PIN that was supplied -/
def runPins (s : List Step) (expected typed : Nat) : Outcome × St :=
  match pinFault expected typed, proofIndex? s with
  | some f, some i => run s (some (i, f))
  | _, _ => run s none

/-! ## sequences of operations on one DMAP handler

`pin()` may be called several times and the device may send several `/pair` requests, in any
order (dmap/pairing.py `pin`, `handle_request`, `_verify_pin`, `finish`).  A request is judged
against the PIN that is current WHEN IT ARRIVES (nothing is remembered from earlier
requests or earlier PINs); no PIN given at all = any code is accepted (documented behaviour).
The pairing code is a function of the PIN, so a request is represented by the PIN its code was
derived from (`none` = a code that belongs to no PIN). -/

inductive DOp
  | pin (p : Nat)
  | request (code : Option Nat)
  /-- a request whose code is checked but whose `cmpa` answer cannot be encoded with the handler's
      configuration (pairing guid wider than 64 bit or not hexadecimal, remote name that is not
      UTF-8 encodable): `handle_request` raises before `_has_paired = True`, the device gets an
      error status — the exchange has failed whatever the code was -/
  | badReply (code : Option Nat)
  | finish
  deriving DecidableEq, Repr

structure DSt where
  pin : Option Nat
  paired : Bool
  stored : Bool
  deriving DecidableEq, Repr

def DSt.init : DSt := ⟨none, false, false⟩

def accepts (pin : Option Nat) (code : Option Nat) : Bool :=
  match pin with
  | none => true
  | some p => code == some p

def dstep (s : DSt) : DOp → DSt
  | .pin p => { s with pin := some p }
  | .request c => if accepts s.pin c then { s with paired := true } else s
  | .badReply _ => s
  | .finish => if s.paired then { s with stored := true } else s

def drun (ops : List DOp) : DSt := ops.foldl dstep DSt.init

/-- the PIN given by the most recent `pin()` of a sequence -/
def lastPin : List DOp → Option Nat
  | [] => none
  | .pin p :: r => (match lastPin r with | some q => some q | none => some p)
  | _ :: r => lastPin r

/-- answers (accepted?) to the requests of a sequence, in order -/
def answers : DSt → List DOp → List Bool
  | _, [] => []
  | s, .request c :: r => accepts s.pin c :: answers (dstep s (.request c)) r
  | s, .badReply _ :: r => false :: answers s r
  | s, op :: r => answers (dstep s op) r

/-! ## well-formedness predicates (all decidable, computed) -/

def noAwait : List Step → Bool
  | [] => true
  | s :: r => !s.isAwait && noAwait r

/-- the steps that write credentials or set `has_paired` come after all await points -/
def storeLast : List Step → Bool
  | [] => true
  | s :: r => if s.isWrite then noAwait r else storeLast r

def subset (a b : List Fault) : Bool := a.all (fun f => b.contains f)

/-- every reply is checked for every fault kind that can occur on it -/
def allChecked : List Step → Bool
  | [] => true
  | .recv _ app chk :: r => subset app chk && allChecked r
  | _ :: r => allChecked r

/-- every await point raises, what it raises is a pairing or connection error, and there is
    no exit that returns silently (`guardPaired`) -/
def allGuarded : List Step → Bool
  | [] => true
  | .guardPaired :: _ => false
  | .connect g :: r => (g != .server) && allGuarded r
  | .recv g app _ :: r => (g != .server) && app.all (fun f => errClass g f != .other) && allGuarded r
  | _ :: r => allGuarded r

/-- on the fault-free run every `guardPaired` finds the flag set (`p` = set so far) -/
def guardOK : List Step → Bool → Bool
  | [], _ => true
  | .guardPaired :: r, p => p && guardOK r p
  | .setPaired :: r, _ => guardOK r true
  | _ :: r, p => guardOK r p

def wellFormed (s : List Step) : Bool := storeLast s && allChecked s && allGuarded s

/-- the script performs the three writes (and its guards pass) -/
def commits (s : List Step) : Bool :=
  s.contains .storeService && s.contains .storeSettings && s.contains .setPaired && guardOK s false

/-! ## the scripts -/

open Fault in
def plainReply : List Fault := [dropped, garbage, disconnect]
open Fault in
def httpPlainReply : List Fault := [errorReply, dropped, garbage, disconnect]
open Fault in
def fieldReply : List Fault := [errorReply, dropped, garbage, missingField, disconnect]
open Fault in
def proofReply : List Fault := [errorReply, wrongPin, dropped, garbage, missingField, disconnect]

/-- a checked request/reply pair under `error_handler` -/
def xchg (app : List Fault) : List Step := [.send, .recv .handler app app]

def commit : List Step := [.storeService, .storeSettings, .setPaired]

/-- MRP: connect, DEVICE_INFO, pair-setup M1..M6, pair-verify M1..M4, then the writes. -/
def mrp : List Step :=
  [.connect .handler] ++ xchg plainReply
    ++ xchg fieldReply ++ xchg proofReply ++ xchg fieldReply
    ++ xchg fieldReply ++ xchg fieldReply
    ++ commit

/-- Companion: connect, pair-setup M1..M6, writes (no verification round in the handler). -/
def companion : List Step :=
  [.connect .handler] ++ xchg fieldReply ++ xchg proofReply ++ xchg fieldReply ++ commit

/-- Companion with stored credentials: `protocol.start()` pair-verifies them first. -/
def companionReauth : List Step :=
  [.connect .handler] ++ xchg fieldReply ++ xchg fieldReply
    ++ xchg fieldReply ++ xchg proofReply ++ xchg fieldReply ++ commit

/-- AirPlay HAP: `http_connect` outside error_handler, /pair-pin-start, /pair-setup M1..M6. -/
def airplayHap : List Step :=
  [.connect .raw] ++ xchg httpPlainReply
    ++ xchg fieldReply ++ xchg proofReply ++ xchg fieldReply ++ commit

/-- AirPlay legacy: /pair-pin-start, /pair-setup-pin steps 1..3. -/
def airplayLegacy : List Step :=
  [.connect .raw] ++ xchg httpPlainReply
    ++ xchg fieldReply ++ xchg proofReply ++ xchg fieldReply ++ commit

def raopHap : List Step := airplayHap
def raopLegacy : List Step := airplayLegacy

/-- DMAP: the device sends `GET /pair?pairingcode=…` to the handler's web server; the PIN hash
    is checked, `_has_paired` set and the answer sent inside the request handler; `finish()`
    stores the credentials only when `_has_paired`. -/
def dmap : List Step :=
  [.recv .server [.wrongPin, .dropped, .garbage, .missingField, .disconnect]
                 [.wrongPin, .dropped, .garbage, .missingField, .disconnect],
   .setPaired, .send, .guardPaired, .storeService, .storeSettings]

/-- AirPlay HAP as it was on the pinned tree: the reply to M3 was awaited but never looked at. -/
def airplayHapPinned : List Step :=
  [.connect .raw] ++ xchg httpPlainReply ++ xchg fieldReply
    ++ [.send, .recv .handler proofReply [.dropped, .disconnect, .garbage]]
    ++ xchg fieldReply ++ commit

/-- MRP as it was on the pinned tree: the last pair-verify reply was not checked. -/
def mrpPinned : List Step :=
  [.connect .handler] ++ xchg plainReply
    ++ xchg fieldReply ++ xchg proofReply ++ xchg fieldReply
    ++ xchg fieldReply ++ [.send, .recv .handler fieldReply [.dropped, .disconnect]]
    ++ commit

def handlers : List (String × List Step) :=
  [("mrp", mrp), ("companion", companion), ("companion-reauth", companionReauth),
   ("airplay-hap", airplayHap), ("airplay-legacy", airplayLegacy),
   ("raop-hap", raopHap), ("raop-legacy", raopLegacy), ("dmap", dmap)]

/-! ## wire names -/

def Fault.toStr : Fault → String
  | .errorReply => "error" | .wrongPin => "wrongpin" | .dropped => "dropped"
  | .garbage => "garbage" | .missingField => "missing" | .disconnect => "disconnect"

def Fault.ofStr? : String → Option Fault
  | "error" => some .errorReply | "wrongpin" => some .wrongPin | "dropped" => some .dropped
  | "garbage" => some .garbage | "missing" => some .missingField | "disconnect" => some .disconnect
  | _ => none

def ErrClass.toStr : ErrClass → String
  | .pairing => "pairing" | .connection => "connection" | .other => "other"

def Outcome.toStr : Outcome → String
  | .ok => "ok" | .silent => "silent" | .error e => "error:" ++ e.toStr

def Step.toStr : Step → String
  | .connect _ => "connect" | .send => "send" | .recv _ _ _ => "recv" | .guardPaired => "guard"
  | .storeService => "storeService" | .storeSettings => "storeSettings" | .setPaired => "setPaired"

def script? (name : String) : Option (List Step) :=
  (handlers.find? (fun p => p.1 == name)).map (·.2)

end PyatvModel.C08
