import PyatvModel.Base.Bytes
import PyatvModel.C08.Model
/-
Line protocol:
  `run <script> <idx|-> <kind|->`  → `<outcome> <svc> <settings> <paired>`   (0/1 flags)
  `trace <script>`                 → step names, comma separated
  `app <script> <idx>`             → fault kinds injectable at await point idx (`none` = no such point)
  `wf <script>`                    → `<storeLast> <allChecked> <allGuarded> <commits>`
  `errclass <handler|raw> <kind>`  → `pairing|connection|other` (the error_handler mapping)
  `runpin <script> <expected> <typed>` → as `run`, the fault derived from the two PIN values
  `dmapseq <op,op,...>`  ops `p<n>` pin(n) | `r<n>` request with the code of PIN n | `rx` request with a
       code of no PIN | `b<n>`/`bx` the same with an answer that cannot be encoded | `f` finish  → `<paired> <stored> <answer bits of the requests|->`
  `runinit <script> <idx|-> <kind|-> <a> <b>` → `<outcome> <svc> <settings> <paired>` with the
       credential VALUES held afterwards (0 none, 1 A, 2 B, 9 freshly paired) from initial (a, b)
-/
namespace PyatvModel.C08

def b01 (b : Bool) : String := if b then "1" else "0"

def showRun (r : Outcome × St) : String :=
  s!"{r.1.toStr} {b01 r.2.svc} {b01 r.2.settings} {b01 r.2.paired}"

def handle (_ : Unit) (ws : List String) : Unit × String :=
  match ws with
  | ["run", name, idx, kind] =>
    match script? name with
    | none => ((), "bad-op")
    | some s =>
      if idx == "-" && kind == "-" then ((), showRun (run s none))
      else match idx.toNat?, Fault.ofStr? kind with
        | some i, some f => ((), showRun (run s (some (i, f))))
        | _, _ => ((), "bad-op")
  | ["trace", name] =>
    match script? name with
    | some s => ((), csv (s.map Step.toStr))
    | none => ((), "bad-op")
  | ["app", name, idx] =>
    match script? name, idx.toNat? with
    | some s, some i =>
      (match awaitAt? s i with
       | none => ((), "none")
       | some _ => ((), csv ((appAt s i).map Fault.toStr)))
    | _, _ => ((), "bad-op")
  | ["wf", name] =>
    match script? name with
    | some s => ((), s!"{b01 (storeLast s)} {b01 (allChecked s)} {b01 (allGuarded s)} {b01 (commits s)}")
    | none => ((), "bad-op")
  | ["runinit", name, idx, kind, a, b] =>
    match script? name, Cred.ofStr? a, Cred.ofStr? b with
    | some s, some a, some b =>
      let fault? : Option (Option (Nat × Fault)) :=
        if idx == "-" && kind == "-" then some none
        else match idx.toNat?, Fault.ofStr? kind with
          | some i, some f => some (some (i, f))
          | _, _ => none
      (match fault? with
       | some fault =>
         let r := run s fault
         let c := credsAfter a b r.2
         ((), s!"{r.1.toStr} {c.1.toStr} {c.2.toStr} {b01 r.2.paired}")
       | none => ((), "bad-op"))
    | _, _, _ => ((), "bad-op")
  | ["dmapseq", ops] =>
    let parse (w : String) : Option DOp :=
      if w == "f" then some DOp.finish
      else if w == "rx" then some (DOp.request none)
      else if w.startsWith "p" then (w.drop 1).toNat?.map DOp.pin
      else if w.startsWith "r" then (w.drop 1).toNat?.map (fun n => DOp.request (some n))
      else if w == "bx" then some (DOp.badReply none)
      else if w.startsWith "b" then (w.drop 1).toNat?.map (fun n => DOp.badReply (some n))
      else none
    match (ops.splitOn ",").mapM parse with
    | some l =>
      let st := drun l
      let bits := (answers DSt.init l).map b01
      ((), s!"{b01 st.paired} {b01 st.stored} {if bits.isEmpty then "-" else String.join bits}")
    | none => ((), "bad-op")
  | ["runpin", name, e, t] =>
    match script? name, e.toNat?, t.toNat? with
    | some s, some e, some t => ((), showRun (runPins s e t))
    | _, _, _ => ((), "bad-op")
  | ["errclass", g, kind] =>
    match (if g == "handler" then some Guard.handler else if g == "raw" then some Guard.raw else none),
          Fault.ofStr? kind with
    | some g, some f => ((), (errClass g f).toStr)
    | _, _ => ((), "bad-op")
  | _ => ((), "bad-op")

end PyatvModel.C08
