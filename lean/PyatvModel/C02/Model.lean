import PyatvModel.Base.Framing
import PyatvModel.Gen.C02Consts
/-
C02 — one `Framer` per receive path (DESIGN.md §5 C02).  Each `ext` transcribes ONE
iteration of the `while` loop of the real receive callback; the loop itself is
`Framing.drain`, one callback is `Framing.feed`.

| framer        | source transcribed                                                           |
|---------------|------------------------------------------------------------------------------|
| `readVar`     | pyatv/support/variant.py:4-13 `read_variant`                                 |
| `mrpPinned`   | pyatv/protocols/mrp/connection.py:137-165 `data_received` as pinned (D1)     |
| `mrp`         | same, after `fix: MRP data_received waits for more data …` (try/except→break)|
| `companion`   | pyatv/protocols/companion/connection.py:126-153 `data_received`              |
| `hap`         | pyatv/auth/hap_session.py:31-51 `HAPSession.decrypt` (block boundaries)      |
| `dataStream`  | pyatv/protocols/airplay/channels.py:166-188 `decode_message`, :241-255 loop  |
| `http P`      | pyatv/support/http.py:111-141 `_parse_http_message`, :146-163 `parse_response`,
|               | :178-195 `parse_request`; loops :386-404 `HttpConnection.data_received`,
|               | :552-563 `BasicHttpServer.data_received`, channels.py:61-70 `EventChannel` |
| `Layered`     | pyatv/auth/hap_channel.py:51-60 `AbstractHAPChannel.data_received`
|               | (HAP blocks → plaintext → `handle_received`), http.py:388 `receive_processor`|

What is a *message* here: the bytes the framer hands upward for one frame (payload,
still encrypted where the transport encrypts per frame).  Decryption / protobuf / plist
parsing happen per message above the framer (`Framing.deliver`) and are parameters.

Not modelled (outside the property: streams on which the unsplit run raises): what the
HTTP *server* and the event channel do after a parse exception (500 + buffer dropped /
exception swallowed inside the loop — D3b, C05).  A data-stream header whose `size` is smaller
than the header raises `ProtocolError` (`fix: data stream channel rejects a header whose size is
smaller than the header`, D3a/C05; the pinned loop, which spun on `size = 0`, is
`C05.Model.dataStreamPinned`).
-/
namespace PyatvModel.C02
open PyatvModel PyatvModel.Framing
open PyatvModel.Gen.C02

/-! ### integers -/

/-- `int.from_bytes(b, "big")` -/
def be (b : Bytes) : Nat := b.foldl (fun a d => a * 256 + d.toNat) 0

/-- `int.from_bytes(b, "little")` -/
def le : Bytes → Nat
  | [] => 0
  | d :: ds => d.toNat + 256 * le ds

/-- `read_variant`: `none` = the loop ran off the end (`raise ValueError`). -/
def readVarAux : Nat → Nat → Bytes → Option (Nat × Bytes)
  | _, _, [] => none
  | cnt, result, d :: ds =>
    let result' := result ||| ((d.toNat &&& 0x7F) <<< (7 * cnt))
    if d.toNat &&& 0x80 = 0 then some (result', ds) else readVarAux (cnt + 1) result' ds

def readVar (b : Bytes) : Option (Nat × Bytes) := readVarAux 0 0 b

/-- `write_variant` (used for non-vacuity examples and by the driver's self-test) -/
def writeVar (fuel : Nat) (n : Nat) : Bytes :=
  match fuel with
  | 0 => [UInt8.ofNat n]
  | fuel + 1 =>
    if n < 128 then [UInt8.ofNat n] else UInt8.ofNat ((n &&& 0x7F) ||| 0x80) :: writeVar fuel (n >>> 7)

/-! ### MRP -/

/-- one iteration of `MrpConnection.data_received`; `incomplete` is what happens when
    `read_variant` raises. -/
def mrpExtWith (incomplete : Res Bytes) (b : Bytes) : Res Bytes :=
  if b.isEmpty then .need                       -- `while self._buffer:`
  else match readVar b with
    | none => incomplete
    | some (length, raw) =>
      if raw.length < length then .need          -- `if len(raw) < length: break`
      else .msg (raw.take length) (raw.drop length)

/-- the pinned code: `ValueError` escapes `data_received` -/
def mrpPinned : Framer Bytes := ⟨mrpExtWith (.err .malformed)⟩

/-- the repaired code: `except ValueError: break` -/
def mrp : Framer Bytes := ⟨mrpExtWith .need⟩

/-! ### Companion: 1 byte type, 3 bytes big-endian length -/

/-- `HEADER_LENGTH + int.from_bytes(buf[1:HEADER_LENGTH], "big")` -/
def companionTotal (b : Bytes) : Nat :=
  companionHeaderLength + be ((b.take companionHeaderLength).drop 1)

def companion : Framer (UInt8 × Bytes) := ⟨fun b =>
  if b.length < companionHeaderLength then .need            -- `while len(buf) >= HEADER_LENGTH`
  else
    let total := companionTotal b
    if b.length < total then .need
    else .msg (b.headD 0, (b.take total).drop companionHeaderLength) (b.drop total)⟩

/-! ### HAP session blocks: 2 bytes little-endian length, ciphertext, 16 bytes tag -/

/-- message = (the length bytes used as AAD, ciphertext ‖ tag) -/
def hap : Framer (Bytes × Bytes) := ⟨fun b =>
  if b.isEmpty then .need                                   -- `while self._encrypted_data:`
  else
    let length := b.take 2
    let blockLength := le length + hapTagLength
    if b.length < blockLength + 2 then .need
    else .msg (length, (b.take (2 + blockLength)).drop 2) (b.drop (2 + blockLength))⟩

/-! ### AirPlay data stream: 32-byte header whose `size` counts the header -/

/-- message = (header, payload) -/
def dataStream : Framer (Bytes × Bytes) := ⟨fun b =>
  if b.length < dataHeaderLength then .need
  else
    let size := be ((b.drop dataSizeOffset).take dataSizeWidth)
    if size < dataHeaderLength then .err .malformed         -- repaired D3a: `ProtocolError`
    else if b.length < size then .need
    else .msg (b.take dataHeaderLength, (b.take size).drop dataHeaderLength) (b.drop size)⟩

/-! ### HTTP / RTSP -/

def crlf2 : Bytes := [13, 10, 13, 10]

/-- `message.split(b"\r\n\r\n", maxsplit=1)`: (header block, everything after the first
    separator); `none` = no separator yet (`ValueError` → "need more"). -/
def splitSep : Bytes → Option (Bytes × Bytes)
  | [] => none
  | c :: t =>
    if crlf2.isPrefixOf (c :: t) then some ([], (c :: t).drop 4)
    else match splitSep t with
      | none => none
      | some (h, body) => some (c :: h, body)

/-- What the header block determines.  Parameters of every HTTP theorem:
    `clen hdr = none`  — building the header dict raises (UnicodeDecodeError, a header
                         line without ": ", `int()` of a bad Content-Length);
    `clen hdr = some n` — `int(headers.get("Content-Length", 0)) = n`;
    `lineOk hdr`       — the first line matches the request/response regular expression
                         (tested only once the body is complete). -/
structure HttpParams where
  clen : Bytes → Option Nat
  lineOk : Bytes → Bool

/-- message = (header block, body) -/
def http (P : HttpParams) : Framer (Bytes × Bytes) := ⟨fun b =>
  if b.isEmpty then .need                                   -- `while self._buffer:`
  else match splitSep b with
    | none => .need
    | some (hdr, body) =>
      match P.clen hdr with
      | none => .err .malformed
      | some n =>
        if body.length < n then .need                       -- `if len(body) < content_length`
        else if P.lineOk hdr then .msg (hdr, body.take n) (body.drop n)
        else .err .malformed⟩

/-! ### Concrete header parameters (driver; the theorems hold for every `HttpParams`) -/

def lower (c : UInt8) : UInt8 := if 65 ≤ c.toNat ∧ c.toNat ≤ 90 then c + 32 else c

/-- split on CRLF -/
def splitLines : Bytes → Bytes → List Bytes
  | acc, [] => [acc.reverse]
  | acc, 13 :: 10 :: t => acc.reverse :: splitLines [] t
  | acc, c :: t => splitLines (c :: acc) t

/-- `line.split(": ", 1)` -/
def splitKV : Bytes → Bytes → Option (Bytes × Bytes)
  | _, [] => none
  | acc, 58 :: 32 :: t => some (acc.reverse, t)
  | acc, c :: t => splitKV (c :: acc) t

def isDigit (c : UInt8) : Bool := 48 ≤ c.toNat ∧ c.toNat ≤ 57

def parseNat? (b : Bytes) : Option Nat :=
  if b.isEmpty ∨ ¬ b.all isDigit then none
  else some (b.foldl (fun a d => a * 10 + (d.toNat - 48)) 0)

/-- `content-length` (CaseInsensitiveDict key, lower-cased) -/
def contentLengthKey : Bytes := [99, 111, 110, 116, 101, 110, 116, 45, 108, 101, 110, 103, 116, 104]

/-- dict built from the header lines (last occurrence wins): the raw value stored under
    `content-length`; outer `none` = a header line without ": " (`_key_value` raises) -/
def stdClenLines : List Bytes → Option Bytes → Option (Option Bytes)
  | [], cur => some cur
  | l :: ls, cur =>
    if l.isEmpty then stdClenLines ls cur
    else match splitKV [] l with
      | none => none
      | some (k, v) =>
        if k.map lower = contentLengthKey then stdClenLines ls (some v) else stdClenLines ls cur

/-- `int(msg_headers.get("Content-Length", 0))`: only the value that ended up in the dict is parsed -/
def stdClen (hdr : Bytes) : Option Nat :=
  match splitLines [] hdr with
  | [] => some 0
  | _ :: ls =>
    match stdClenLines ls none with
    | none => none
    | some none => some 0
    | some (some v) => parseNat? v

def firstLine (hdr : Bytes) : Bytes := (splitLines [] hdr).headD []

/-- consume one-or-more bytes satisfying `p` -/
def many1 (p : UInt8 → Bool) (b : Bytes) : Option Bytes :=
  match b with
  | c :: _ => if p c then some (b.dropWhile p) else none
  | [] => none

def lit (c : UInt8) : Bytes → Option Bytes
  | d :: t => if d = c then some t else none
  | [] => none

def isNumDot (c : UInt8) : Bool := isDigit c ∨ c = 46

/-- `re.match(r"([^/]+)/([0-9.]+) ([0-9]+) (.*)", first_line)` -/
def responseLineOk (hdr : Bytes) : Bool :=
  ((many1 (· ≠ 47) (firstLine hdr)).bind (lit 47) |>.bind (many1 isNumDot) |>.bind (lit 32)
    |>.bind (many1 isDigit) |>.bind (lit 32)).isSome

/-- `re.match(r"([A-Z_]+) ([^ ]+) ([^/]+)/([0-9.]+)", first_line)` -/
def requestLineOk (hdr : Bytes) : Bool :=
  ((many1 (fun c => (65 ≤ c.toNat ∧ c.toNat ≤ 90) ∨ c = 95) (firstLine hdr)).bind (lit 32)
    |>.bind (many1 (· ≠ 32)) |>.bind (lit 32) |>.bind (many1 (· ≠ 47)) |>.bind (lit 47)
    |>.bind (many1 isNumDot)).isSome

def responseParams : HttpParams := ⟨stdClen, responseLineOk⟩
def requestParams : HttpParams := ⟨stdClen, requestLineOk⟩

/-- HTTP/RTSP client (`HttpConnection`) -/
def httpClient : Framer (Bytes × Bytes) := http responseParams
/-- built-in server (`BasicHttpServer`) and AirPlay event channel (`EventChannel`) -/
def httpServer : Framer (Bytes × Bytes) := http requestParams

end PyatvModel.C02
