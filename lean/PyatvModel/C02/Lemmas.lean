import PyatvModel.C02.Model
import PyatvModel.Base.FramingLemmas
/-
C02 — `PrefixStable` for every framer of `C02/Model.lean`.
-/
namespace PyatvModel.C02
open PyatvModel PyatvModel.Framing
open PyatvModel.Gen.C02

/-! ### list helpers -/

theorem take_app {α : Type} {n : Nat} {l : List α} (x : List α) (h : n ≤ l.length) :
    (l ++ x).take n = l.take n := List.take_append_of_le_length h

theorem drop_app {α : Type} {n : Nat} {l : List α} (x : List α) (h : n ≤ l.length) :
    (l ++ x).drop n = l.drop n ++ x := List.drop_append_of_le_length h

theorem isEmpty_app_false {α : Type} {l : List α} (x : List α) (h : l.isEmpty = false) :
    (l ++ x).isEmpty = false := by
  cases l with
  | nil => simp at h
  | cons a t => rfl

theorem headD_app {α : Type} {l : List α} (x : List α) (d : α) (h : 0 < l.length) :
    (l ++ x).headD d = l.headD d := by
  cases l with
  | nil => simp at h
  | cons a t => rfl

/-! ### MRP -/

theorem readVarAux_append (x : Bytes) : ∀ (b : Bytes) (c a n : Nat) (r : Bytes),
    readVarAux c a b = some (n, r) → readVarAux c a (b ++ x) = some (n, r ++ x) := by
  intro b
  induction b with
  | nil => intro c a n r h; simp [readVarAux] at h
  | cons d ds ih =>
    intro c a n r h
    simp only [readVarAux, List.cons_append] at h ⊢
    split at h
    · rename_i hd
      simp only [hd, if_true]
      cases h; rfl
    · rename_i hd
      simp only [hd, if_false]
      exact ih _ _ _ _ h

theorem readVarAux_length : ∀ (b : Bytes) (c a n : Nat) (r : Bytes),
    readVarAux c a b = some (n, r) → r.length < b.length := by
  intro b
  induction b with
  | nil => intro c a n r h; simp [readVarAux] at h
  | cons d ds ih =>
    intro c a n r h
    simp only [readVarAux] at h
    split at h
    · cases h; simp
    · have := ih _ _ _ _ h
      simp; omega

theorem mrp_msg_iff (inc : Res Bytes) (hinc : ∀ m r, inc ≠ .msg m r) (b m r : Bytes) :
    mrpExtWith inc b = .msg m r ↔
      ∃ len raw, readVar b = some (len, raw) ∧ len ≤ raw.length ∧ m = raw.take len ∧ r = raw.drop len := by
  unfold mrpExtWith
  constructor
  · intro h
    split at h
    · cases h
    · split at h
      · exact absurd h (hinc m r)
      · rename_i len raw hrv
        split at h
        · cases h
        · rename_i hlen
          cases h
          exact ⟨len, raw, hrv, by omega, rfl, rfl⟩
  · rintro ⟨len, raw, hrv, hlen, rfl, rfl⟩
    have hne : b.isEmpty = false := by
      cases b with
      | nil => simp [readVar, readVarAux] at hrv
      | cons a t => rfl
    simp only [hne, hrv]
    have : ¬ raw.length < len := by omega
    simp [this]

theorem mrp_never_err (b : Bytes) (e : ErrClass) : mrp.ext b ≠ .err e := by
  simp only [mrp, mrpExtWith]
  split
  · simp
  · split
    · simp
    · split <;> simp

theorem mrp_prefixStable : PrefixStable mrp where
  mono := by
    intro b x m r h
    simp only [mrp] at h ⊢
    rw [mrp_msg_iff _ (by intro m r h; cases h)] at h ⊢
    obtain ⟨len, raw, hrv, hlen, rfl, rfl⟩ := h
    refine ⟨len, raw ++ x, readVarAux_append x b 0 0 len raw hrv, ?_, ?_, ?_⟩
    · simp; omega
    · rw [take_app x hlen]
    · rw [drop_app x hlen]
  prog := by
    intro b m r h
    simp only [mrp] at h
    rw [mrp_msg_iff _ (by intro m r h; cases h)] at h
    obtain ⟨len, raw, hrv, hlen, rfl, rfl⟩ := h
    have := readVarAux_length b 0 0 len raw hrv
    simp; omega
  errUp := by
    intro b x e h
    exact absurd h (mrp_never_err b e)

/-! ### Companion -/

theorem companionTotal_app (b x : Bytes) (h : companionHeaderLength ≤ b.length) :
    companionTotal (b ++ x) = companionTotal b := by
  unfold companionTotal
  rw [take_app x h]

theorem companionTotal_ge (b : Bytes) : companionHeaderLength ≤ companionTotal b := by
  unfold companionTotal; omega

theorem companion_msg_iff (b : Bytes) (m : UInt8 × Bytes) (r : Bytes) :
    companion.ext b = .msg m r ↔
      companionHeaderLength ≤ b.length ∧ companionTotal b ≤ b.length ∧
      m = (b.headD 0, (b.take (companionTotal b)).drop companionHeaderLength) ∧
      r = b.drop (companionTotal b) := by
  simp only [companion]
  constructor
  · intro h
    split at h
    · cases h
    · split at h
      · cases h
      · cases h
        exact ⟨by omega, by omega, rfl, rfl⟩
  · rintro ⟨h1, h2, rfl, rfl⟩
    have a : ¬ b.length < companionHeaderLength := by omega
    have c : ¬ b.length < companionTotal b := by omega
    simp [a, c]

theorem companion_never_err (b : Bytes) (e : ErrClass) : companion.ext b ≠ .err e := by
  simp only [companion]
  split
  · simp
  · split <;> simp

theorem companion_prefixStable : PrefixStable companion where
  mono := by
    intro b x m r h
    rw [companion_msg_iff] at h ⊢
    obtain ⟨h1, h2, rfl, rfl⟩ := h
    have hpos : 0 < b.length := by
      have : companionHeaderLength = 4 := rfl
      omega
    rw [companionTotal_app b x h1]
    refine ⟨by simp; omega, by simp; omega, ?_, ?_⟩
    · rw [take_app x h2, headD_app x 0 hpos]
    · rw [drop_app x h2]
  prog := by
    intro b m r h
    rw [companion_msg_iff] at h
    obtain ⟨h1, h2, rfl, rfl⟩ := h
    have : companionHeaderLength = 4 := rfl
    have := companionTotal_ge b
    simp; omega
  errUp := by
    intro b x e h
    exact absurd h (companion_never_err b e)

/-! ### HAP blocks -/

theorem hap_msg_iff (b : Bytes) (m : Bytes × Bytes) (r : Bytes) :
    hap.ext b = .msg m r ↔
      le (b.take 2) + hapTagLength + 2 ≤ b.length ∧
      m = (b.take 2, (b.take (2 + (le (b.take 2) + hapTagLength))).drop 2) ∧
      r = b.drop (2 + (le (b.take 2) + hapTagLength)) := by
  simp only [hap]
  constructor
  · intro h
    split at h
    · cases h
    · split at h
      · cases h
      · cases h
        exact ⟨by omega, rfl, rfl⟩
  · rintro ⟨h1, rfl, rfl⟩
    have hne : b.isEmpty = false := by
      cases b with
      | nil => simp at h1
      | cons a t => rfl
    have c : ¬ b.length < le (b.take 2) + hapTagLength + 2 := by omega
    simp [hne, c]

theorem hap_never_err (b : Bytes) (e : ErrClass) : hap.ext b ≠ .err e := by
  simp only [hap]
  split
  · simp
  · split <;> simp

theorem hap_prefixStable : PrefixStable hap where
  mono := by
    intro b x m r h
    rw [hap_msg_iff] at h ⊢
    obtain ⟨h1, rfl, rfl⟩ := h
    have h2 : 2 ≤ b.length := by omega
    rw [take_app x h2]
    refine ⟨by simp; omega, ?_, ?_⟩
    · rw [take_app x (by omega)]
    · rw [drop_app x (by omega)]
  prog := by
    intro b m r h
    rw [hap_msg_iff] at h
    obtain ⟨h1, rfl, rfl⟩ := h
    simp; omega
  errUp := by
    intro b x e h
    exact absurd h (hap_never_err b e)

/-! ### Data stream -/

def dsSize (b : Bytes) : Nat := be ((b.drop dataSizeOffset).take dataSizeWidth)

theorem dsSize_app (b x : Bytes) (h : dataHeaderLength ≤ b.length) : dsSize (b ++ x) = dsSize b := by
  have h1 : dataHeaderLength = 32 := rfl
  have h2 : dataSizeOffset = 0 := rfl
  have h3 : dataSizeWidth = 4 := rfl
  unfold dsSize
  rw [drop_app x (by omega), take_app x (by simp; omega)]

theorem dataStream_msg_iff (b : Bytes) (m : Bytes × Bytes) (r : Bytes) :
    dataStream.ext b = .msg m r ↔
      dataHeaderLength ≤ b.length ∧ dsSize b ≤ b.length ∧ dataHeaderLength ≤ dsSize b ∧
      m = (b.take dataHeaderLength, (b.take (dsSize b)).drop dataHeaderLength) ∧
      r = b.drop (dsSize b) := by
  simp only [dataStream, dsSize]
  constructor
  · intro h
    split at h
    · cases h
    · split at h
      · cases h
      · split at h
        · cases h
        · cases h
          exact ⟨by omega, by omega, by omega, rfl, rfl⟩
  · rintro ⟨h1, h2, h3, rfl, rfl⟩
    have a : ¬ b.length < dataHeaderLength := by omega
    have c : ¬ b.length < be ((b.drop dataSizeOffset).take dataSizeWidth) := by omega
    have d : ¬ be ((b.drop dataSizeOffset).take dataSizeWidth) < dataHeaderLength := by omega
    simp [a, c, d]

theorem dataStream_err_iff (b : Bytes) (e : ErrClass) :
    dataStream.ext b = .err e ↔ dataHeaderLength ≤ b.length ∧ dsSize b < dataHeaderLength ∧ e = .malformed := by
  simp only [dataStream, dsSize]
  constructor
  · intro h
    split at h
    · cases h
    · split at h
      · cases h
        exact ⟨by omega, by assumption, rfl⟩
      · split at h
        · cases h
        · cases h
  · rintro ⟨h1, h2, rfl⟩
    have a : ¬ b.length < dataHeaderLength := by omega
    simp [a, h2]

theorem dataStream_prefixStable : PrefixStable dataStream where
  mono := by
    intro b x m r h
    rw [dataStream_msg_iff] at h ⊢
    obtain ⟨h1, h2, h3, rfl, rfl⟩ := h
    rw [dsSize_app b x h1]
    refine ⟨by simp; omega, by simp; omega, h3, ?_, ?_⟩
    · rw [take_app x h1, take_app x h2]
    · rw [drop_app x h2]
  prog := by
    intro b m r h
    rw [dataStream_msg_iff] at h
    obtain ⟨h1, h2, h3, rfl, rfl⟩ := h
    have h0 : dataHeaderLength = 32 := rfl
    simp; omega
  errUp := by
    intro b x e h
    rw [dataStream_err_iff] at h
    obtain ⟨h1, h2, rfl⟩ := h
    refine ⟨.malformed, ?_⟩
    rw [dataStream_err_iff, dsSize_app b x h1]
    exact ⟨by simp; omega, h2, rfl⟩

/-! ### HTTP -/

theorem isPrefixOf_app (p b x : Bytes) (h : p.isPrefixOf b = true) : p.isPrefixOf (b ++ x) = true := by
  rw [List.isPrefixOf_iff_prefix] at h ⊢
  exact h.trans (List.prefix_append b x)

theorem splitSep_length : ∀ (b hdr body : Bytes),
    splitSep b = some (hdr, body) → hdr.length + 4 + body.length = b.length := by
  intro b
  induction b with
  | nil => intro hdr body h; simp [splitSep] at h
  | cons c t ih =>
    intro hdr body h
    simp only [splitSep] at h
    split at h
    · rename_i hp
      cases h
      have := (List.isPrefixOf_iff_prefix.mp hp).length_le
      simp [crlf2] at this
      simp; omega
    · split at h
      · cases h
      · rename_i h' b' hs
        cases h
        have := ih _ _ hs
        simp; omega

theorem splitSep_append (x : Bytes) : ∀ (b hdr body : Bytes),
    splitSep b = some (hdr, body) → splitSep (b ++ x) = some (hdr, body ++ x) := by
  intro b
  induction b with
  | nil => intro hdr body h; simp [splitSep] at h
  | cons c t ih =>
    intro hdr body h
    simp only [splitSep, List.cons_append] at h ⊢
    split at h
    · rename_i hp
      have hp' := isPrefixOf_app crlf2 (c :: t) x hp
      simp only [List.cons_append] at hp'
      simp only [hp', if_true]
      cases h
      have hlen : 4 ≤ (c :: t).length := by
        have := List.isPrefixOf_iff_prefix.mp hp
        have := this.length_le
        simpa [crlf2] using this
      have := drop_app x hlen
      simp only [List.cons_append] at this
      rw [this]
    · rename_i hp
      split at h
      · cases h
      · rename_i h' b' hs
        cases h
        have hnp : crlf2.isPrefixOf (c :: (t ++ x)) = false := by
          -- the separator is found later in `t`, and (c :: t) does not start with it
          cases hq : crlf2.isPrefixOf (c :: (t ++ x)) with
          | false => rfl
          | true =>
            exfalso
            -- `t` contains a separator, so it has at least 4 bytes; then the first four
            -- bytes of `c :: t ++ x` are those of `c :: t`
            have hlen : 4 ≤ t.length := by
              have := splitSep_length t _ _ hs
              omega
            apply hp
            rw [List.isPrefixOf_iff_prefix] at hq ⊢
            have h4 : crlf2 = (c :: (t ++ x)).take 4 := by
              have := List.prefix_iff_eq_take.mp hq
              simpa [crlf2] using this
            have h5 : (c :: (t ++ x)).take 4 = (c :: t).take 4 := by
              have : c :: (t ++ x) = (c :: t) ++ x := rfl
              rw [this, take_app x (by simp; omega)]
            rw [h4, h5]
            exact List.take_prefix 4 (c :: t)
        simp only [hnp, Bool.false_eq_true, if_false, ih _ _ hs]

theorem http_msg_iff (P : HttpParams) (b : Bytes) (m : Bytes × Bytes) (r : Bytes) :
    (http P).ext b = .msg m r ↔
      ∃ hdr body n, splitSep b = some (hdr, body) ∧ P.clen hdr = some n ∧ n ≤ body.length ∧
        P.lineOk hdr = true ∧ m = (hdr, body.take n) ∧ r = body.drop n := by
  simp only [http]
  constructor
  · intro h
    split at h
    · cases h
    · split at h
      · cases h
      · rename_i hdr body hs
        split at h
        · cases h
        · rename_i n hc
          split at h
          · cases h
          · split at h
            · cases h
              exact ⟨hdr, body, n, hs, hc, by omega, by assumption, rfl, rfl⟩
            · cases h
  · rintro ⟨hdr, body, n, hs, hc, hn, hl, rfl, rfl⟩
    have hne : b.isEmpty = false := by
      cases b with
      | nil => simp [splitSep] at hs
      | cons a t => rfl
    have c : ¬ body.length < n := by omega
    simp [hne, hs, hc, c, hl]

theorem http_err_iff (P : HttpParams) (b : Bytes) (e : ErrClass) :
    (http P).ext b = .err e ↔
      ∃ hdr body, splitSep b = some (hdr, body) ∧ e = .malformed ∧
        (P.clen hdr = none ∨ ∃ n, P.clen hdr = some n ∧ n ≤ body.length ∧ P.lineOk hdr = false) := by
  simp only [http]
  constructor
  · intro h
    split at h
    · cases h
    · split at h
      · cases h
      · rename_i hdr body hs
        split at h
        · rename_i hc
          cases h
          exact ⟨hdr, body, hs, rfl, Or.inl hc⟩
        · rename_i n hc
          split at h
          · cases h
          · split at h
            · cases h
            · rename_i hl
              cases h
              exact ⟨hdr, body, hs, rfl, Or.inr ⟨n, hc, by omega, by simpa using hl⟩⟩
  · rintro ⟨hdr, body, hs, rfl, hcase⟩
    have hne : b.isEmpty = false := by
      cases b with
      | nil => simp [splitSep] at hs
      | cons a t => rfl
    rcases hcase with hc | ⟨n, hc, hn, hl⟩
    · simp [hne, hs, hc]
    · have c : ¬ body.length < n := by omega
      simp [hne, hs, hc, c, hl]

/-- for EVERY interpretation of the header block -/
theorem http_prefixStable (P : HttpParams) : PrefixStable (http P) where
  mono := by
    intro b x m r h
    rw [http_msg_iff] at h ⊢
    obtain ⟨hdr, body, n, hs, hc, hn, hl, rfl, rfl⟩ := h
    refine ⟨hdr, body ++ x, n, splitSep_append x b hdr body hs, hc, by simp; omega, hl, ?_, ?_⟩
    · rw [take_app x hn]
    · rw [drop_app x hn]
  prog := by
    intro b m r h
    rw [http_msg_iff] at h
    obtain ⟨hdr, body, n, hs, hc, hn, hl, rfl, rfl⟩ := h
    have := splitSep_length b hdr body hs
    simp; omega
  errUp := by
    intro b x e h
    rw [http_err_iff] at h
    obtain ⟨hdr, body, hs, rfl, hcase⟩ := h
    refine ⟨.malformed, ?_⟩
    rw [http_err_iff]
    refine ⟨hdr, body ++ x, splitSep_append x b hdr body hs, rfl, ?_⟩
    rcases hcase with hc | ⟨n, hc, hn, hl⟩
    · exact Or.inl hc
    · exact Or.inr ⟨n, hc, by simp; omega, hl⟩

/-! ### valid streams raise no error (the hypothesis of the C02 theorems is met) -/

/-- a well-formed HTTP message: the header block contains no separator (also not across its
    end), Content-Length is the body length, the first line parses -/
structure HttpWF (P : HttpParams) (m : Bytes × Bytes) : Prop where
  sep : ∀ x, splitSep (m.1 ++ crlf2 ++ x) = some (m.1, x)
  len : P.clen m.1 = some m.2.length
  line : P.lineOk m.1 = true

def httpEnc (m : Bytes × Bytes) : Bytes := m.1 ++ crlf2 ++ m.2

theorem http_valid_noErr (P : HttpParams) (ms : List (Bytes × Bytes)) (h : ∀ m ∈ ms, HttpWF P m) :
    drainAll (http P) (ms.flatMap httpEnc) = ⟨ms, [], none⟩ := by
  apply drainAll_encoded (http_prefixStable P).prog httpEnc (by simp [http])
  intro m hm x
  obtain ⟨hsep, hlen, hline⟩ := h m hm
  rw [http_msg_iff]
  refine ⟨m.1, m.2 ++ x, m.2.length, ?_, hlen, by simp, hline, ?_, ?_⟩
  · have := hsep (m.2 ++ x)
    simpa [httpEnc, List.append_assoc] using this
  · simp
  · simp

/-- a well-formed data-stream frame: 32-byte header whose size field counts header+payload -/
structure DataWF (m : Bytes × Bytes) : Prop where
  hlen : m.1.length = dataHeaderLength
  size : be ((m.1.drop dataSizeOffset).take dataSizeWidth) = dataHeaderLength + m.2.length

def dataEnc (m : Bytes × Bytes) : Bytes := m.1 ++ m.2

theorem dataStream_valid_noErr (ms : List (Bytes × Bytes)) (h : ∀ m ∈ ms, DataWF m) :
    drainAll dataStream (ms.flatMap dataEnc) = ⟨ms, [], none⟩ := by
  have h1 : dataHeaderLength = 32 := rfl
  apply drainAll_encoded dataStream_prefixStable.prog dataEnc (by simp [dataStream, h1])
  intro m hm x
  obtain ⟨hl, hsz⟩ := h m hm
  obtain ⟨hd, pl⟩ := m
  simp only at hl hsz
  have e1 : dataEnc (hd, pl) ++ x = hd ++ (pl ++ x) := by simp [dataEnc]
  have e2 : dataEnc (hd, pl) ++ x = (hd ++ pl) ++ x := by simp [dataEnc]
  have hds : dsSize (dataEnc (hd, pl) ++ x) = dataHeaderLength + pl.length := by
    rw [e1, dsSize_app hd _ (by omega)]
    exact hsz
  rw [dataStream_msg_iff, hds]
  refine ⟨by rw [e1]; simp; omega, by rw [e1]; simp; omega, by omega, ?_, ?_⟩
  · congr 1
    · rw [e1, take_app _ (by omega), ← hl, List.take_length]
    · rw [e2, take_app x (by simp; omega), ← hl, ← List.length_append, List.take_length]
      simp
  · rw [e2, drop_app x (by simp; omega), ← hl, ← List.length_append, List.drop_length]
    simp

end PyatvModel.C02
