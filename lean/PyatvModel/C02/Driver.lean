import PyatvModel.Base.Bytes
import PyatvModel.Base.Framing
import PyatvModel.C02.Model
/-
Line protocol (stateful: the current stream and the block-plaintext table are kept so
that thousands of segmentations of one stream do not resend it):

  stream <hex>                      → `ok <length>`
  plains <hex> <hex> …  | plains -  → `ok <count>`   plaintext of HAP block 0,1,2,… (the
                                      AEAD is a parameter of the model: the harness
                                      supplies what the real cipher produced)
  run <framer> <cuts>               → per read  `<msgs>|<restlen>` joined by `;`
                                      (`|err:<class>` appended to the read that raised;
                                      later reads are not processed)
  layer <upper> <cuts>              → per read  `<nblocks>|<lrest>|<msgs>|<urest>`
                                      HAP blocks below, <upper> framer above (`lfeed`)
  reset                             → `ok`

<framer> ∈ mrp | mrppinned | companion | hap | data | http | httpreq
<cuts>   = `-` or sorted csv of absolute cut positions (repeats = empty reads)
message descriptors (`,`-separated, `-` = none), `<n>.<adler32>` = length and checksum:
  mrp       <n>.<a>            companion <type>.<n>.<a>        hap  <aadhex>.<n>.<a>
  data      <headerhex>.<n>.<a>     http/httpreq  <hn>.<ha>.<bn>.<ba>
-/
namespace PyatvModel.C02
open PyatvModel PyatvModel.Framing

structure DState where
  stream : Bytes := []
  plains : Array Bytes := #[]

def hexTR : List Char → Bytes → Option Bytes
  | [], acc => some acc.reverse
  | [_], _ => none
  | a :: b :: rest, acc =>
    match hexVal? a, hexVal? b with
    | some x, some y => hexTR rest (UInt8.ofNat (x * 16 + y) :: acc)
    | _, _ => none

def ofHexFast? (s : String) : Option Bytes := if s == "-" then some [] else hexTR s.toList []

/-- zlib.adler32 -/
def adler32 (b : Bytes) : Nat :=
  let p := b.foldl (fun (p : Nat × Nat) d =>
    let a := (p.1 + d.toNat) % 65521
    (a, (p.2 + a) % 65521)) (1, 0)
  p.2 * 65536 + p.1

def sig (b : Bytes) : String := s!"{b.length}.{adler32 b}"

/-- cut `b` (which starts at absolute offset `off`) at the absolute positions `cuts` -/
def cutAt : Nat → List Nat → Bytes → Option (List Bytes)
  | _, [], b => some [b]
  | off, c :: cs, b =>
    if c < off ∨ c - off > b.length then none
    else (cutAt c cs (b.drop (c - off))).map (fun r => b.take (c - off) :: r)

def errSuffix : Option ErrClass → String
  | none => ""
  | some e => "|err:" ++ e.toStr

def showTrace {M : Type} (sh : M → String) (tr : List (Out M)) : String :=
  String.intercalate ";" (tr.map (fun o => s!"{csv (o.msgs.map sh)}|{o.rest.length}{errSuffix o.err}"))

def runFramer (name : String) (chunks : List Bytes) : Option String :=
  match name with
  | "mrp" => some (showTrace sig (feedTrace mrp [] chunks))
  | "mrppinned" => some (showTrace sig (feedTrace mrpPinned [] chunks))
  | "companion" => some (showTrace (fun m => s!"{m.1.toNat}.{sig m.2}") (feedTrace companion [] chunks))
  | "hap" => some (showTrace (fun m => s!"{toHex m.1}.{sig m.2}") (feedTrace hap [] chunks))
  | "data" => some (showTrace (fun m => s!"{toHex m.1}.{sig m.2}") (feedTrace dataStream [] chunks))
  | "http" => some (showTrace (fun m => s!"{sig m.1}.{sig m.2}") (feedTrace httpClient [] chunks))
  | "httpreq" => some (showTrace (fun m => s!"{sig m.1}.{sig m.2}") (feedTrace httpServer [] chunks))
  | _ => none

/-- the AEAD as supplied by the harness: block `i` opens to `plains[i]` -/
def tableDec (plains : Array Bytes) (i : Nat) (_ : Bytes × Bytes) : Nat × Bytes :=
  (i + 1, plains.getD i [])

def layerTrace {U : Type} (L : Layered (Bytes × Bytes) U Nat) (sh : U → String) :
    LState U Nat → List Bytes → List String
  | _, [] => []
  | s, c :: cs =>
    let s' := lfeed L s c
    let line := s!"{s'.cs - s.cs}|{s'.lbuf.length}|{csv ((s'.out.drop s.out.length).map sh)}|{s'.ubuf.length}{errSuffix s'.err}"
    match s'.err with
    | some _ => [line]
    | none => line :: layerTrace L sh s' cs

def runLayer (plains : Array Bytes) (upper : String) (chunks : List Bytes) : Option String :=
  let fin (n : Nat) (r : List String) : Option String :=
    -- the model must not have asked for a block the harness did not supply
    if n > plains.size then none else some (String.intercalate ";" r)
  let count (chunks : List Bytes) : Nat := (feedAll hap chunks).msgs.length
  match upper with
  | "data" =>
    fin (count chunks) (layerTrace ⟨hap, tableDec plains, dataStream⟩ (fun m => s!"{toHex m.1}.{sig m.2}") (LState.init 0) chunks)
  | "http" =>
    fin (count chunks) (layerTrace ⟨hap, tableDec plains, httpClient⟩ (fun m => s!"{sig m.1}.{sig m.2}") (LState.init 0) chunks)
  | "httpreq" =>
    fin (count chunks) (layerTrace ⟨hap, tableDec plains, httpServer⟩ (fun m => s!"{sig m.1}.{sig m.2}") (LState.init 0) chunks)
  | _ => none

def handle (st : DState) (ws : List String) : DState × String :=
  match ws with
  | ["reset"] => ({}, "ok")
  | ["stream", h] =>
    match ofHexFast? h with
    | some b => ({ st with stream := b }, s!"ok {b.length}")
    | none => (st, "bad-op")
  | "plains" :: hs =>
    match (if hs == ["-"] then some [] else hs.mapM ofHexFast?) with
    | some ps => if hs.isEmpty then (st, "bad-op") else ({ st with plains := ps.toArray }, s!"ok {ps.length}")
    | none => (st, "bad-op")
  | ["run", name, cuts] =>
    match (csvNats? cuts).bind (fun cs => cutAt 0 cs st.stream) with
    | some chunks => (st, (runFramer name chunks).getD "bad-op")
    | none => (st, "bad-op")
  | ["layer", upper, cuts] =>
    match (csvNats? cuts).bind (fun cs => cutAt 0 cs st.stream) with
    | some chunks => (st, (runLayer st.plains upper chunks).getD "bad-op")
    | none => (st, "bad-op")
  | _ => (st, "bad-op")

end PyatvModel.C02
