import PyatvModel.C20.Lemmas
/-
C20 — volume stays within 0–100 percent end to end.

Property text → theorems (model: PyatvModel/C20/Model.lean, constants: Gen/C20Consts.lean).

"The volume read from the device object is always within 0.0-100.0 and a level outside
 that range is never forwarded to a protocol; out-of-range values from either side raise a
 protocol error instead."
   facade_set_forwards_iff, facade_set_error_iff, facade_read_returns_iff,
   facade_read_error_iff  (decision logic over the float classes NaN / ±inf / finite),
   raop_history_safe, mrp_history_safe (every history of set / up / down / read / device
   report, any float class anywhere, any lawful rounding).
"Conversion between percent and the dBFS scale used by AirPlay is monotonic and the two
 directions invert each other over the whole range"
   exact arithmetic: pctToDbfs_strictMono, dbfsToPct_strictMono, roundtrip_pct,
   roundtrip_dbfs, pctToDbfs_range_exact; any lawful rounding: pctToDbfs_mono_weak,
   dbfsToPct_mono_weak, range_closed, pctToDbfs_error_iff, dbfsToPct_error_iff.
"so setting a level and reading it back returns that level"
   set_then_read_exact (exact arithmetic; for binary64 the harness checks read-back to a
   stated tolerance — equality is not claimed for floats).
   stream_start_keeps_user_level, stream_start_ignores_receiver_level_once_set,
   stream_start_adopts_iff: a stream start (RaopStream.stream_file) keeps a user-set level
   and sends it to the receiver; other_device_inert: MRP updates for other output devices
   change nothing.
"and stepping the volume up or down never leaves the range"
   step_closed, and the `up`/`down` cases of raop_history_safe / mrp_history_safe.

`RoundingLaws rnd`: rnd is monotone and exact on 0, 1, 30, 100, 3000, -30.
-/
namespace PyatvModel.Props.C20
open PyatvModel.C20 PyatvModel.Gen.C20

/-! ## the rounding laws are satisfiable -/

example : RoundingLaws id := roundingLaws_id

/-- the binary64 rounding used by the model driver is exact on every constant of the path -/
theorem rne_exact_on_constants :
    rne 0 = 0 ∧ rne 1 = 1 ∧ rne 30 = 30 ∧ rne 100 = 100 ∧ rne 3000 = 3000 ∧ rne (-30) = -30
      ∧ rne 5 = 5 ∧ rne 33 = 33 ∧ rne (-144) = -144 := rne_fixes_constants

/-! ## guards as decision logic over the float classes -/

/-- `set_volume(x)` hands `y` to the protocol ⇔ `y` is `x` itself and `x` is a finite
    number with `0 ≤ x ≤ 100` -/
theorem facade_set_forwards_iff (x y : FVal) :
    facadeSet x = .ok y ↔ y = x ∧ ∃ q, x = .fin q ∧ 0 ≤ q ∧ q ≤ 100 := by
  constructor
  · exact facadeSet_ok
  · rintro ⟨rfl, q, rfl, h0, h1⟩
    unfold facadeSet
    rw [facadeSetLo_eq, facadeSetHi_eq, if_pos ((inRangeF_fin 0 100 q).mpr ⟨h0, h1⟩)]

/-- everything else — NaN, either infinity, a finite level outside the range — raises
    ProtocolError and nothing is forwarded -/
theorem facade_set_error_iff (x : FVal) :
    facadeSet x = .error .protocol ↔ ¬ ∃ q, x = .fin q ∧ 0 ≤ q ∧ q ≤ 100 := by
  constructor
  · intro h; exact (facadeSet_err h).2
  · intro h
    cases hx : facadeSet x with
    | error e => rw [(facadeSet_err hx).1]
    | ok y => exact absurd (facadeSet_ok hx).2 h

theorem facade_read_returns_iff (v y : FVal) :
    facadeRead v = .ok y ↔ y = v ∧ ∃ q, v = .fin q ∧ 0 ≤ q ∧ q ≤ 100 := by
  constructor
  · exact facadeRead_ok
  · rintro ⟨rfl, q, rfl, h0, h1⟩
    unfold facadeRead
    rw [facadeReadLo_eq, facadeReadHi_eq, if_pos ((inRangeF_fin 0 100 q).mpr ⟨h0, h1⟩)]

theorem facade_read_error_iff (v : FVal) :
    facadeRead v = .error .protocol ↔ ¬ ∃ q, v = .fin q ∧ 0 ≤ q ∧ q ≤ 100 := by
  constructor
  · intro h; exact (facadeRead_err h).2
  · intro h
    cases hx : facadeRead v with
    | error e => rw [(facadeRead_err hx).1]
    | ok y => exact absurd (facadeRead_ok hx).2 h

/-- the class split, spelled out -/
theorem facade_guards_nan_inf :
    facadeSet .nan = .error .protocol ∧ facadeSet .pinf = .error .protocol ∧ facadeSet .ninf = .error .protocol
    ∧ facadeRead .nan = .error .protocol ∧ facadeRead .pinf = .error .protocol ∧ facadeRead .ninf = .error .protocol := by
  decide +kernel

example : facadeSet (.fin 0) = .ok (.fin 0) ∧ facadeSet (.fin 100) = .ok (.fin 100)
    ∧ facadeRead (.fin 0) = .ok (.fin 0) ∧ facadeRead (.fin 100) = .ok (.fin 100) := by decide +kernel

/-- `map_range`, hence both conversions, reject NaN and the infinities (after the repair) -/
theorem conversions_reject_nan_inf (rnd : Rat → Rat) :
    pctToDbfsF rnd .nan = .error .value ∧ pctToDbfsF rnd .pinf = .error .value ∧ pctToDbfsF rnd .ninf = .error .value
    ∧ dbfsToPctF rnd .nan = .error .value ∧ dbfsToPctF rnd .pinf = .error .value := by
  refine ⟨?_, ?_, ?_, ?_, ?_⟩
  · unfold pctToDbfsF; rw [if_neg (by simp [isCloseF])]; exact mapRangeF_not_inRange rfl
  · unfold pctToDbfsF; rw [if_neg (by simp [isCloseF])]; exact mapRangeF_not_inRange rfl
  · unfold pctToDbfsF; rw [if_neg (by simp [isCloseF])]; exact mapRangeF_not_inRange rfl
  · unfold dbfsToPctF; rw [if_neg (by simp [FVal.lt])]; exact mapRangeF_not_inRange rfl
  · unfold dbfsToPctF; rw [if_neg (by simp [FVal.lt])]; exact mapRangeF_not_inRange rfl

/-- the defect repaired by `fix: map_range rejects NaN as out of range`: the pinned guard
    `value < in_min or value > in_max` let NaN through (and agreed with the repaired guard
    on every other float), so `pct_to_dbfs(nan)` returned NaN -/
theorem pinned_map_range_guard_passes_nan (lo hi : Rat) :
    pinnedGuardRejects lo hi .nan = false ∧ inRangeF lo hi .nan = false ∧
    ∀ x, x ≠ .nan → pinnedGuardRejects lo hi x = !(inRangeF lo hi x) := by
  refine ⟨rfl, rfl, ?_⟩
  intro x hx
  cases x with
  | nan => exact absurd rfl hx
  | ninf => rfl
  | pinf => rfl
  | fin q =>
    simp only [pinnedGuardRejects, inRangeF, lt_fin_fin, le_fin_fin]
    by_cases h1 : lo ≤ q <;> by_cases h2 : q ≤ hi <;> simp [h1, h2, not_lt.mpr, not_le.mp]

/-! ## exact arithmetic (`rnd = id`) -/

/-- percent → dBFS is strictly increasing on the whole range [0, 100] (the mute sentinel
    -144 at 0 lies below everything else) -/
theorem pctToDbfs_strictMono {p₁ p₂ : Rat} (h0 : 0 ≤ p₁) (h12 : p₁ < p₂) (h2 : p₂ ≤ 100) :
    ∃ d₁ d₂, pctToDbfs id p₁ = .ok d₁ ∧ pctToDbfs id p₂ = .ok d₂ ∧ d₁ < d₂ := by
  have hp2 : p₂ ≠ 0 := by intro h; linarith
  by_cases hp1 : p₁ = 0
  · subst hp1
    exact ⟨_, _, pctToDbfs_zero, p2d_id hp2 (by linarith) h2, by linarith⟩
  · exact ⟨_, _, p2d_id hp1 h0 (by linarith), p2d_id hp2 (by linarith) h2, by linarith⟩

example : ∃ d₁ d₂, pctToDbfs id 0 = .ok d₁ ∧ pctToDbfs id (1 / 1000) = .ok d₂ ∧ d₁ < d₂ :=
  pctToDbfs_strictMono (by norm_num) (by norm_num) (by norm_num)

/-- dBFS → percent is strictly increasing on [-30, 0] -/
theorem dbfsToPct_strictMono {d₁ d₂ : Rat} (h0 : -30 ≤ d₁) (h12 : d₁ < d₂) (h2 : d₂ ≤ 0) :
    ∃ p₁ p₂, dbfsToPct id d₁ = .ok p₁ ∧ dbfsToPct id d₂ = .ok p₂ ∧ p₁ < p₂ := by
  refine ⟨_, _, d2p_id h0 (by linarith), d2p_id (by linarith) h2, ?_⟩
  have : (d₁ + 30) * 100 < (d₂ + 30) * 100 := by linarith
  exact div_lt_div_of_pos_right this (by norm_num)

example : ∃ p₁ p₂, dbfsToPct id (-30) = .ok p₁ ∧ dbfsToPct id (-15) = .ok p₂ ∧ p₁ < p₂ :=
  dbfsToPct_strictMono (by norm_num) (by norm_num) (by norm_num)

/-- set then read: percent → dBFS → percent is the identity on [0, 100] -/
theorem roundtrip_pct {p : Rat} (h0 : 0 ≤ p) (h1 : p ≤ 100) :
    (pctToDbfs id p >>= dbfsToPct id) = .ok p := by
  by_cases hp : p = 0
  · subst hp
    rw [pctToDbfs_zero]
    show dbfsToPct id (-144) = _
    exact dbfsToPct_of_lt (by norm_num)
  · rw [p2d_id hp h0 h1]
    show dbfsToPct id _ = _
    have hpos : 0 ≤ p * 30 / 100 := by positivity
    have hle : p * 30 / 100 ≤ 30 := by rw [div_le_iff₀ (by norm_num)]; linarith
    rw [d2p_id (by linarith) (by linarith)]
    congr 1
    field_simp
    ring

example : (pctToDbfs id (100 / 3) >>= dbfsToPct id) = .ok (100 / 3) := roundtrip_pct (by norm_num) (by norm_num)

/-- dBFS → percent → dBFS is the identity on every level percent → dBFS can produce:
    (-30, 0] and the mute sentinel -/
theorem roundtrip_dbfs {d : Rat} (hd : (-30 < d ∧ d ≤ 0) ∨ d = -144) :
    (dbfsToPct id d >>= pctToDbfs id) = .ok d := by
  rcases hd with ⟨h0, h1⟩ | rfl
  · rw [d2p_id h0.le h1]
    show pctToDbfs id _ = _
    have hpos : 0 < (d + 30) * 100 / 30 := by
      apply div_pos _ (by norm_num); linarith
    have hle : (d + 30) * 100 / 30 ≤ 100 := by rw [div_le_iff₀ (by norm_num)]; linarith
    rw [p2d_id hpos.ne' hpos.le hle]
    congr 1
    field_simp
    ring
  · rw [dbfsToPct_of_lt (by norm_num)]
    exact pctToDbfs_zero (rnd := id)

example : (dbfsToPct id (-1 / 7) >>= pctToDbfs id) = .ok (-1 / 7) :=
  roundtrip_dbfs (Or.inl ⟨by norm_num, by norm_num⟩)

/-- the one level of [-30, 0] outside that range: -30 dBFS reads as 0 %, which is sent as
    the mute sentinel (both mean "muted") -/
theorem roundtrip_dbfs_at_min : (dbfsToPct id (-30) >>= pctToDbfs id) = .ok (-144) := by
  rw [d2p_id (le_refl _) (by norm_num)]
  show pctToDbfs id ((-30 + 30) * 100 / 30) = _
  have : ((-30 : Rat) + 30) * 100 / 30 = 0 := by norm_num
  rw [this]
  exact pctToDbfs_zero

/-- range of percent → dBFS in exact arithmetic: (-30, 0] ∪ {-144}, all of it -/
theorem pctToDbfs_range_exact (d : Rat) :
    (∃ p, 0 ≤ p ∧ p ≤ 100 ∧ pctToDbfs id p = .ok d) ↔ ((-30 < d ∧ d ≤ 0) ∨ d = -144) := by
  constructor
  · rintro ⟨p, h0, h1, hp⟩
    by_cases hz : p = 0
    · subst hz
      rw [pctToDbfs_zero] at hp
      cases hp
      exact Or.inr rfl
    · rw [p2d_id hz h0 h1] at hp
      cases hp
      have hpos : 0 < p * 30 / 100 := by
        have : 0 < p := lt_of_le_of_ne h0 (Ne.symm hz)
        positivity
      have hle : p * 30 / 100 ≤ 30 := by rw [div_le_iff₀ (by norm_num)]; linarith
      exact Or.inl ⟨by linarith, by linarith⟩
  · intro hd
    have hrt := roundtrip_dbfs hd
    rcases hd with ⟨h0, h1⟩ | rfl
    · rw [d2p_id h0.le h1] at hrt
      refine ⟨(d + 30) * 100 / 30, ?_, ?_, hrt⟩
      · apply div_nonneg _ (by norm_num); linarith
      · rw [div_le_iff₀ (by norm_num)]; linarith
    · exact ⟨0, le_refl _, by norm_num, pctToDbfs_zero⟩

/-! ## any lawful rounding -/

section
variable {rnd : Rat → Rat}

/-- out-of-range (finite) input makes the conversion raise ValueError, in-range never does -/
theorem pctToDbfs_error_iff (h : RoundingLaws rnd) (p : Rat) :
    pctToDbfs rnd p = .error .value ↔ ¬ (0 ≤ p ∧ p ≤ 100) := by
  by_cases hp : p = 0
  · subst hp
    rw [pctToDbfs_zero]
    constructor
    · intro hh; cases hh
    · intro hh; exact absurd ⟨le_refl _, by norm_num⟩ hh
  · rw [pctToDbfs_of_ne h hp]
    by_cases hr : 0 ≤ p ∧ p ≤ 100
    · rw [if_pos hr]
      constructor
      · intro hh; cases hh
      · intro hh; exact absurd hr hh
    · rw [if_neg hr]
      exact ⟨fun _ => hr, fun _ => rfl⟩

theorem dbfsToPct_error_iff (h : RoundingLaws rnd) (d : Rat) :
    dbfsToPct rnd d = .error .value ↔ 0 < d := by
  by_cases hlt : d < -30
  · rw [dbfsToPct_of_lt hlt]
    constructor
    · intro hh; cases hh
    · intro hh; linarith
  · rw [dbfsToPct_of_ge h (not_lt.mp hlt)]
    by_cases h0 : d ≤ 0
    · rw [if_pos h0]
      constructor
      · intro hh; cases hh
      · intro hh; linarith
    · rw [if_neg h0]
      exact ⟨fun _ => not_le.mp h0, fun _ => rfl⟩

/-- a level in [0,100] converted to dBFS and back is again in [0,100]: no conversion on
    the set/read path can raise or leave the range, whatever the rounding does -/
theorem range_closed (h : RoundingLaws rnd) {p : Rat} (h0 : 0 ≤ p) (h1 : p ≤ 100) :
    ∃ d r, pctToDbfs rnd p = .ok d ∧ (d = -144 ∨ (-30 ≤ d ∧ d ≤ 0)) ∧
           dbfsToPct rnd d = .ok r ∧ 0 ≤ r ∧ r ≤ 100 := by
  obtain ⟨d, hd⟩ := pctToDbfs_ok h h0 h1
  have hg := (pctToDbfs_good h hd).2
  have hd0 : d ≤ 0 := by rcases hg with rfl | ⟨_, hh⟩ <;> linarith
  obtain ⟨r, hr, hr0, hr1⟩ := dbfsToPct_good h hd0
  exact ⟨d, r, hd, hg, hr, hr0, hr1⟩

example : ∃ d r, pctToDbfs id 50 = .ok d ∧ (d = -144 ∨ (-30 ≤ d ∧ d ≤ 0)) ∧
    dbfsToPct id d = .ok r ∧ 0 ≤ r ∧ r ≤ 100 := range_closed roundingLaws_id (by norm_num) (by norm_num)

/-- monotonicity survives rounding (non-strictly) -/
theorem pctToDbfs_mono_weak (h : RoundingLaws rnd) {p₁ p₂ : Rat} (h0 : 0 ≤ p₁) (h12 : p₁ ≤ p₂)
    (h2 : p₂ ≤ 100) :
    ∃ d₁ d₂, pctToDbfs rnd p₁ = .ok d₁ ∧ pctToDbfs rnd p₂ = .ok d₂ ∧ d₁ ≤ d₂ := by
  obtain ⟨d₁, hd₁⟩ := pctToDbfs_ok h h0 (le_trans h12 h2)
  obtain ⟨d₂, hd₂⟩ := pctToDbfs_ok h (le_trans h0 h12) h2
  refine ⟨d₁, d₂, hd₁, hd₂, ?_⟩
  by_cases hp1 : p₁ = 0
  · subst hp1
    rw [pctToDbfs_zero] at hd₁
    cases hd₁
    rcases (pctToDbfs_good h hd₂).2 with rfl | ⟨hh, _⟩
    · exact le_refl _
    · linarith
  · have hp2 : p₂ ≠ 0 := by
      intro hh; subst hh
      exact hp1 (le_antisymm h12 h0)
    rw [pctToDbfs_of_ne h hp1, if_pos ⟨h0, le_trans h12 h2⟩] at hd₁
    rw [pctToDbfs_of_ne h hp2, if_pos ⟨le_trans h0 h12, h2⟩] at hd₂
    cases hd₁; cases hd₂
    apply mapArith_mono h.mono _ _ h12
    · have : (0 : Rat) - -30 = 30 := by norm_num
      rw [this, h.fix30]; norm_num
    · have : (100 : Rat) - 0 = 100 := by norm_num
      rw [this, h.fix100]; norm_num

example : ∃ d₁ d₂, pctToDbfs id 0 = .ok d₁ ∧ pctToDbfs id 100 = .ok d₂ ∧ d₁ ≤ d₂ :=
  pctToDbfs_mono_weak roundingLaws_id (le_refl _) (by norm_num) (le_refl _)

theorem dbfsToPct_mono_weak (h : RoundingLaws rnd) {d₁ d₂ : Rat} (h12 : d₁ ≤ d₂) (h2 : d₂ ≤ 0) :
    ∃ p₁ p₂, dbfsToPct rnd d₁ = .ok p₁ ∧ dbfsToPct rnd d₂ = .ok p₂ ∧ p₁ ≤ p₂ := by
  obtain ⟨p₁, hp₁, _, _⟩ := dbfsToPct_good h (le_trans h12 h2)
  obtain ⟨p₂, hp₂, hp₂0, _⟩ := dbfsToPct_good h h2
  refine ⟨p₁, p₂, hp₁, hp₂, ?_⟩
  by_cases hlt : d₁ < -30
  · rw [dbfsToPct_of_lt hlt] at hp₁
    cases hp₁
    exact hp₂0
  · have hge1 : -30 ≤ d₁ := not_lt.mp hlt
    rw [dbfsToPct_of_ge h hge1, if_pos (le_trans h12 h2)] at hp₁
    rw [dbfsToPct_of_ge h (le_trans hge1 h12), if_pos h2] at hp₂
    cases hp₁; cases hp₂
    apply mapArith_mono h.mono _ _ h12
    · have : (100 : Rat) - 0 = 100 := by norm_num
      rw [this, h.fix100]; norm_num
    · have : (0 : Rat) - -30 = 30 := by norm_num
      rw [this, h.fix30]; norm_num

example : ∃ p₁ p₂, dbfsToPct id (-144) = .ok p₁ ∧ dbfsToPct id (-10) = .ok p₂ ∧ p₁ ≤ p₂ :=
  dbfsToPct_mono_weak roundingLaws_id (by norm_num) (by norm_num)

/-- one step up or down from a level in [0,100] is a level in [0,100] -/
theorem step_closed (h : RoundingLaws rnd) {v : Rat} (h0 : 0 ≤ v) (h1 : v ≤ 100) :
    (∃ u, pyMin (addF rnd (.fin v) raopUpStep) (.fin raopUpBound) = .fin u ∧ 0 ≤ u ∧ u ≤ 100) ∧
    (∃ w, pyMax (subF rnd (.fin v) raopDownStep) (.fin raopDownBound) = .fin w ∧ 0 ≤ w ∧ w ≤ 100) ∧
    (∃ u, pyMin (addF rnd (.fin v) mrpUpStep) (.fin mrpUpBound) = .fin u ∧ 0 ≤ u ∧ u ≤ 100) ∧
    (∃ w, pyMax (subF rnd (.fin v) mrpDownStep) (.fin mrpDownBound) = .fin w ∧ 0 ≤ w ∧ w ≤ 100) := by
  rw [raopUpStep_eq, raopUpBound_eq, raopDownStep_eq, raopDownBound_eq, mrpUpStep_eq, mrpUpBound_eq,
    mrpDownStep_eq, mrpDownBound_eq]
  exact ⟨stepUp_inPct h ⟨v, rfl, h0, h1⟩, stepDown_inPct h ⟨v, rfl, h0, h1⟩,
    stepUp_inPct h ⟨v, rfl, h0, h1⟩, stepDown_inPct h ⟨v, rfl, h0, h1⟩⟩

example : (∃ u, pyMin (addF id (.fin 98) raopUpStep) (.fin raopUpBound) = .fin u ∧ 0 ≤ u ∧ u ≤ 100) :=
  (step_closed roundingLaws_id (by norm_num) (by norm_num)).1

/-! ## whole histories: facade over RaopAudio -/

/-- one operation keeps the invariant and emits only allowed events -/
theorem raop_step_safe (h : RoundingLaws rnd) {s : Raop} (hs : RaopInv s) (op : Op) :
    RaopInv (Raop.step rnd s op).1 ∧ ∀ ev ∈ (Raop.step rnd s op).2, GoodEv GoodDbfs ev := by
  have single : ∀ (e : Ev), GoodEv GoodDbfs e → ∀ ev ∈ [e], GoodEv GoodDbfs ev := by
    intro e he ev hev
    simp only [List.mem_cons, List.not_mem_nil, or_false] at hev
    subst hev; exact he
  cases op with
  | set x =>
    cases hf : facadeSet x with
    | error e =>
      have he : Raop.step rnd s (.set x) = (s, [.raised e]) := by simp only [Raop.step, hf]
      rw [he]
      exact ⟨hs, single _ (facadeSet_err hf).1⟩
    | ok l =>
      have he : Raop.step rnd s (.set x) = Raop.setVolume rnd s l := by simp only [Raop.step, hf]
      rw [he]
      obtain ⟨rfl, hx⟩ := facadeSet_ok hf
      exact raop_after_set h s hx
  | up =>
    obtain ⟨v, hv, hvr⟩ := raop_volume_good h hs
    have he : Raop.step rnd s .up = Raop.setVolume rnd s (pyMin (addF rnd v 5) (.fin 100)) := by
      simp only [Raop.step, hv, raopUpStep_eq, raopUpBound_eq]
    rw [he]
    exact raop_after_set h s (stepUp_inPct h hvr)
  | down =>
    obtain ⟨v, hv, hvr⟩ := raop_volume_good h hs
    have he : Raop.step rnd s .down = Raop.setVolume rnd s (pyMax (subF rnd v 5) (.fin 0)) := by
      simp only [Raop.step, hv, raopDownStep_eq, raopDownBound_eq]
    rw [he]
    exact raop_after_set h s (stepDown_inPct h hvr)
  | read =>
    obtain ⟨v, hv, hvr⟩ := raop_volume_good h hs
    have hfr : facadeRead v = .ok v := (facade_read_returns_iff v v).mpr ⟨rfl, hvr⟩
    have he : Raop.step rnd s .read = (s, [.ret v]) := by simp only [Raop.step, hv, hfr]
    rw [he]
    exact ⟨hs, single _ hvr⟩
  | report x =>
    cases hp : pctToDbfsF rnd x with
    | error e =>
      have he : Raop.step rnd s (.report x) = (s, [.logged e]) := by simp only [Raop.step, hp]
      rw [he]
      exact ⟨hs, single _ trivial⟩
    | ok d =>
      have he : Raop.step rnd s (.report x) = (⟨some d⟩, []) := by simp only [Raop.step, hp]
      rw [he]
      refine ⟨?_, ?_⟩
      · intro d' hd'; cases hd'; exact goodDbfs_ctxOk (pctToDbfsF_good h hp).2
      · intro ev hev; cases hev
  | reportOther x =>
    have he : Raop.step rnd s (.reportOther x) = (s, []) := rfl
    rw [he]
    exact ⟨hs, fun ev hev => by cases hev⟩
  | setRefused x =>
    cases hf : facadeSet x with
    | error e =>
      have he : Raop.step rnd s (.setRefused x) = (s, [.raised e]) := by simp only [Raop.step, hf]
      rw [he]
      exact ⟨hs, single _ (facadeSet_err hf).1⟩
    | ok l =>
      obtain ⟨hl, hx⟩ := facadeSet_ok hf
      subst hl
      obtain ⟨d, hd, hg⟩ := pctToDbfsF_ok h hx
      have he : Raop.step rnd s (.setRefused l) = (s, [.recv l, .tried d, .raised .protocol]) := by
        simp only [Raop.step, hf, hd]
      rw [he]
      refine ⟨hs, ?_⟩
      intro ev hev
      simp only [List.mem_cons, List.not_mem_nil, or_false] at hev
      rcases hev with rfl | rfl | rfl
      · exact hx
      · exact hg
      · rfl
  | streamStart init accepts =>
    obtain ⟨v, hv, hvr⟩ := raop_volume_good h hs
    -- the "else" branch: set now, or deferred into send_audio
    have helse : (match Raop.volume rnd s with
        | .error e => (s, [Ev.raised e])
        | .ok v => if accepts = true then Raop.setVolume rnd s v else Raop.deferred rnd s v) =
        (if accepts = true then Raop.setVolume rnd s v else Raop.deferred rnd s v) := by rw [hv]
    have hgood : RaopInv (if accepts = true then Raop.setVolume rnd s v else Raop.deferred rnd s v).1 ∧
        ∀ ev ∈ (if accepts = true then Raop.setVolume rnd s v else Raop.deferred rnd s v).2, GoodEv GoodDbfs ev := by
      cases accepts
      · simpa using raop_after_deferred h hs hvr
      · simpa using raop_after_set h s hvr
    cases hc : s.ctx with
    | some d =>
      have he : Raop.step rnd s (.streamStart init accepts) =
          (if accepts = true then Raop.setVolume rnd s v else Raop.deferred rnd s v) := by
        simp only [Raop.step, hc]; exact helse
      rw [he]; exact hgood
    | none =>
      cases init with
      | none =>
        have he : Raop.step rnd s (.streamStart none accepts) =
            (if accepts = true then Raop.setVolume rnd s v else Raop.deferred rnd s v) := by
          simp only [Raop.step, hc]; exact helse
        rw [he]; exact hgood
      | some iv =>
        by_cases hiv : FVal.le iv (.fin dbfsMax) = true
        · have he : Raop.step rnd s (.streamStart (some iv) accepts) = (⟨some iv⟩, []) := by
            simp only [Raop.step, hc, hiv, if_true]
          rw [he]
          refine ⟨?_, fun ev hev => by cases hev⟩
          intro d' hd'; cases hd'
          rw [dbfsMax_eq] at hiv
          exact hiv
        · have he : Raop.step rnd s (.streamStart (some iv) accepts) = (s, [.raised .protocol]) := by
            simp only [Raop.step, hc, hiv]; rfl
          rw [he]
          exact ⟨hs, single _ rfl⟩

/-- **Every history** of `set x` (x any float: NaN, ±inf, any finite number), `volume_up`,
    `volume_down`, `volume` reads and volume reports from other protocols (again any float),
    from the initial state, under any lawful rounding: every level received by the
    protocol's `set_volume` is a finite number in [0,100]; every level handed to the
    receiver is -144 or within [-30,0] dBFS; every value dispatched or returned by
    `audio.volume` is a finite number in [0,100]; the only exception a caller ever sees is
    ProtocolError (never map_range's ValueError). -/
theorem raop_history_safe (h : RoundingLaws rnd) (ops : List Op) :
    ∀ evs ∈ Raop.run rnd Raop.init ops, ∀ ev ∈ evs, GoodEv GoodDbfs ev := by
  suffices hgen : ∀ (s : Raop), RaopInv s → ∀ evs ∈ Raop.run rnd s ops, ∀ ev ∈ evs, GoodEv GoodDbfs ev from
    hgen _ raopInv_init
  induction ops with
  | nil => intro s _ evs hevs; cases hevs
  | cons op ops ih =>
    intro s hs evs hevs
    obtain ⟨hs', hstep⟩ := raop_step_safe h hs op
    simp only [Raop.run, List.mem_cons] at hevs
    rcases hevs with rfl | hevs
    · exact hstep
    · exact ih _ hs' evs hevs

example : [Ev.recv (.fin 50), .wire (.fin (-15)), .disp (.fin 50)] ∈
    Raop.run id Raop.init [.read, .report .nan, .set (.fin 50), .up, .set .nan] := by decide +kernel

/-- a `ProtocolError` from `set_volume(x)` means exactly that `x` is not a finite level in
    [0,100]; otherwise `x` itself is what the protocol receives -/
theorem raop_set_spec (h : RoundingLaws rnd) (s : Raop) (x : FVal) :
    (InPct x → ∃ d p, (Raop.step rnd s (.set x)).2 = [.recv x, .wire d, .disp p]) ∧
    (¬ InPct x → (Raop.step rnd s (.set x)).2 = [.raised .protocol]) := by
  constructor
  · intro hx
    have hf : facadeSet x = .ok x := (facade_set_forwards_iff x x).mpr ⟨rfl, hx⟩
    obtain ⟨d, p, _, _, he⟩ := raop_setVolume_spec h s hx
    exact ⟨d, p, by simp only [Raop.step, hf, he]⟩
  · intro hx
    have hf : facadeSet x = .error .protocol := (facade_set_error_iff x).mpr hx
    simp only [Raop.step, hf]

/-- setting a level and reading it back returns that level (exact arithmetic), also when
    the volume update dispatched by the set has been fed back in between -/
theorem set_then_read_exact (s : Raop) {p : Rat} (h0 : 0 ≤ p) (h1 : p ≤ 100) :
    (Raop.run id s [.set (.fin p), .read]).getLast? = some [.ret (.fin p)] ∧
    (Raop.run id s [.set (.fin p), .report (.fin p), .read]).getLast? = some [.ret (.fin p)] := by
  have hx : InPct (.fin p) := ⟨p, rfl, h0, h1⟩
  have hf : facadeSet (.fin p) = .ok (.fin p) := (facade_set_forwards_iff _ _).mpr ⟨rfl, hx⟩
  have hfr : facadeRead (.fin p) = .ok (.fin p) := (facade_read_returns_iff _ _).mpr ⟨rfl, hx⟩
  obtain ⟨d, hd⟩ := pctToDbfs_ok roundingLaws_id h0 h1
  have hrt := roundtrip_pct h0 h1
  rw [hd] at hrt
  have hrt' : dbfsToPct id d = .ok p := hrt
  have hdF : pctToDbfsF id (.fin p) = .ok (.fin d) := by rw [pctToDbfsF_fin, hd]; rfl
  have hpF : dbfsToPctF id (.fin d) = .ok (.fin p) := by rw [dbfsToPctF_fin, hrt']; rfl
  constructor
  · simp [Raop.run, Raop.step, hf, Raop.setVolume, hdF, Raop.volume, hpF, hfr]
  · simp [Raop.run, Raop.step, hf, Raop.setVolume, hdF, Raop.volume, hpF, hfr]

example : (Raop.run id Raop.init [.set (.fin (100 / 3)), .read]).getLast? = some [.ret (.fin (100 / 3))] :=
  (set_then_read_exact _ (by norm_num) (by norm_num)).1

/-- once a level is stored (any successful set / step / accepted report), a stream start
    ignores whatever `initialVolume` the receiver advertises -/
theorem stream_start_ignores_receiver_level_once_set (s : Raop) (hs : s.ctx ≠ none) (init : Option FVal)
    (accepts : Bool) :
    Raop.step rnd s (.streamStart init accepts) = Raop.step rnd s (.streamStart none accepts) := by
  cases hc : s.ctx with
  | none => exact absurd hc hs
  | some d => simp only [Raop.step, hc]

/-- a user-set level survives a stream start (exact arithmetic): whatever the receiver
    advertises, stream start hands exactly the level set — boundaries 0 and 100 included —
    to the receiver and `audio.volume` still returns it afterwards -/
theorem stream_start_keeps_user_level (s : Raop) (init : Option FVal) {p : Rat} (h0 : 0 ≤ p) (h1 : p ≤ 100) :
    ∃ d, pctToDbfs id p = .ok d ∧
      Raop.run id s [.set (.fin p), .streamStart init true, .read] =
        [[.recv (.fin p), .wire (.fin d), .disp (.fin p)],
         [.recv (.fin p), .wire (.fin d), .disp (.fin p)],
         [.ret (.fin p)]] := by
  have hx : InPct (.fin p) := ⟨p, rfl, h0, h1⟩
  have hf : facadeSet (.fin p) = .ok (.fin p) := (facade_set_forwards_iff _ _).mpr ⟨rfl, hx⟩
  have hfr : facadeRead (.fin p) = .ok (.fin p) := (facade_read_returns_iff _ _).mpr ⟨rfl, hx⟩
  obtain ⟨d, hd⟩ := pctToDbfs_ok roundingLaws_id h0 h1
  have hrt := roundtrip_pct h0 h1
  rw [hd] at hrt
  have hrt' : dbfsToPct id d = .ok p := hrt
  have hdF : pctToDbfsF id (.fin p) = .ok (.fin d) := by rw [pctToDbfsF_fin, hd]; rfl
  have hpF : dbfsToPctF id (.fin d) = .ok (.fin p) := by rw [dbfsToPctF_fin, hrt']; rfl
  refine ⟨d, hd, ?_⟩
  cases init <;> simp [Raop.run, Raop.step, hf, Raop.setVolume, hdF, Raop.volume, hpF, hfr]

example : ∃ d, pctToDbfs id 100 = .ok d ∧
    Raop.run id Raop.init [.set (.fin 100), .streamStart (some (.fin (-15))) true, .read] =
      [[.recv (.fin 100), .wire (.fin d), .disp (.fin 100)], [.recv (.fin 100), .wire (.fin d), .disp (.fin 100)],
       [.ret (.fin 100)]] := stream_start_keeps_user_level _ _ (by norm_num) (le_refl _)

/-- the same against a receiver that rejects the level before RECORD (the deferred
    hand-over inside `send_audio`): every level offered to the receiver — rejected or
    accepted — is the conversion of the level the user set, and `audio.volume` still returns
    that level afterwards (also for 0, which `if volume:` never re-sends: the stored -144
    stays) -/
theorem stream_start_deferred_keeps_user_level (s : Raop) (init : Option FVal) {p : Rat} (h0 : 0 ≤ p) (h1 : p ≤ 100) :
    ∃ d, pctToDbfs id p = .ok d ∧
      Raop.run id s [.set (.fin p), .streamStart init false, .read] =
        [[.recv (.fin p), .wire (.fin d), .disp (.fin p)],
         if p = 0 then [.recv (.fin p), .tried (.fin d)] else [.recv (.fin p), .tried (.fin d), .late (.fin d)],
         [.ret (.fin p)]] := by
  have hx : InPct (.fin p) := ⟨p, rfl, h0, h1⟩
  have hf : facadeSet (.fin p) = .ok (.fin p) := (facade_set_forwards_iff _ _).mpr ⟨rfl, hx⟩
  have hfr : facadeRead (.fin p) = .ok (.fin p) := (facade_read_returns_iff _ _).mpr ⟨rfl, hx⟩
  obtain ⟨d, hd⟩ := pctToDbfs_ok roundingLaws_id h0 h1
  have hrt := roundtrip_pct h0 h1
  rw [hd] at hrt
  have hrt' : dbfsToPct id d = .ok p := hrt
  have hdF : pctToDbfsF id (.fin p) = .ok (.fin d) := by rw [pctToDbfsF_fin, hd]; rfl
  have hpF : dbfsToPctF id (.fin d) = .ok (.fin p) := by rw [dbfsToPctF_fin, hrt']; rfl
  refine ⟨d, hd, ?_⟩
  by_cases hp : p = 0
  · subst hp
    cases init <;>
      simp [Raop.run, Raop.step, hf, Raop.setVolume, hdF, Raop.volume, hpF, hfr, Raop.deferred, truthyF]
  · cases init <;>
      simp [Raop.run, Raop.step, hf, Raop.setVolume, hdF, Raop.volume, hpF, hfr, Raop.deferred, truthyF, hp]

example : Raop.run id Raop.init [.streamStart none false, .read] =
    [[.recv (.fin 33), .tried (.fin (-201 / 10)), .late (.fin (-201 / 10))], [.ret (.fin 33)]] := by decide +kernel

/-- without a stored level the receiver's advertised level is adopted iff it is at most
    0 dBFS; anything else (positive, NaN, +inf) raises ProtocolError and stores nothing -/
theorem stream_start_adopts_iff (iv : FVal) (accepts : Bool) :
    (FVal.le iv (.fin 0) = true → Raop.step rnd Raop.init (.streamStart (some iv) accepts) = (⟨some iv⟩, [])) ∧
    (FVal.le iv (.fin 0) = false →
      Raop.step rnd Raop.init (.streamStart (some iv) accepts) = (Raop.init, [.raised .protocol])) := by
  constructor
  · intro hiv
    simp only [Raop.step, Raop.init, dbfsMax_eq, hiv, if_true]
  · intro hiv
    simp only [Raop.step, Raop.init, dbfsMax_eq, hiv]
    rfl

example : (Raop.run id Raop.init [.streamStart (some (.fin (-15))) true, .read, .streamStart (some (.fin 5)) true]) =
    [[], [.ret (.fin 50)], [.recv (.fin 50), .wire (.fin (-15)), .disp (.fin 50)]] := by decide +kernel

/-- a `set_volume` the receiver refuses (or that times out) leaves the stored level exactly
    as it is — also the level stored by operations that overlapped it: nothing is rolled
    back — so deleting every refused set from a history leaves the outcome of all other
    operations unchanged -/
def isRefused : Op → Bool
  | .setRefused _ => true
  | _ => false

theorem refused_set_inert_step (s : Raop) (x : FVal) : (Raop.step rnd s (.setRefused x)).1 = s := by
  cases hf : facadeSet x with
  | error e => simp only [Raop.step, hf]
  | ok l =>
    cases hd : pctToDbfsF rnd l with
    | error e => simp only [Raop.step, hf, hd]
    | ok d => simp only [Raop.step, hf, hd]

theorem refused_set_inert (s : Raop) (ops : List Op) :
    Raop.run rnd s (ops.filter (fun o => !isRefused o)) =
      ((Raop.run rnd s ops).zip ops).filterMap (fun p => if isRefused p.2 then none else some p.1) := by
  induction ops generalizing s with
  | nil => rfl
  | cons op ops ih =>
    by_cases ho : isRefused op = true
    · have hstep : (Raop.step rnd s op).1 = s := by
        cases op <;> first | exact refused_set_inert_step s _ | (simp [isRefused] at ho)
      have hf : (op :: ops).filter (fun o => !isRefused o) = ops.filter (fun o => !isRefused o) := by
        rw [List.filter_cons]; simp [ho]
      rw [hf, ih s]
      simp only [Raop.run, hstep, List.zip_cons_cons, List.filterMap_cons, ho, if_true]
    · have ho' : isRefused op = false := by simpa using ho
      have hf : (op :: ops).filter (fun o => !isRefused o) = op :: ops.filter (fun o => !isRefused o) := by
        rw [List.filter_cons]; simp [ho']
      rw [hf]
      simp only [Raop.run, List.zip_cons_cons, List.filterMap_cons, ho', Bool.false_eq_true, if_false]
      rw [ih]

example : Raop.run id ⟨some (.fin (-21))⟩ [.setRefused (.fin 20), .set (.fin 50), .read] =
    [[.recv (.fin 20), .tried (.fin (-24)), .raised .protocol],
     [.recv (.fin 50), .wire (.fin (-15)), .disp (.fin 50)], [.ret (.fin 50)]] := by decide +kernel

/-! ## whole histories: facade over MrpAudio (absolute volume control) -/

theorem mrp_step_safe (h : RoundingLaws rnd) (s : Mrp) (op : Op) :
    ∀ ev ∈ (Mrp.step rnd s op).2, GoodEv InUnit ev := by
  have single : ∀ (e : Ev), GoodEv InUnit e → ∀ ev ∈ [e], GoodEv InUnit ev := by
    intro e he ev hev
    simp only [List.mem_cons, List.not_mem_nil, or_false] at hev
    subst hev; exact he
  have hchk : ∀ {v}, Mrp.checked s = .ok v → InPct v := by
    intro v hv
    unfold Mrp.checked at hv
    split at hv
    · rename_i hr; cases hv; exact inRangeF_true hr
    · cases hv
  have hchke : ∀ {e}, Mrp.checked s = .error e → e = .protocol := by
    intro e he
    unfold Mrp.checked at he
    split at he
    · cases he
    · cases he; rfl
  cases op with
  | set x =>
    cases hf : facadeSet x with
    | error e =>
      have he : Mrp.step rnd s (.set x) = (s, [.raised e]) := by simp only [Mrp.step, hf]
      rw [he]
      exact single _ (facadeSet_err hf).1
    | ok l =>
      have he : Mrp.step rnd s (.set x) = (s, Mrp.setVolume rnd l) := by simp only [Mrp.step, hf]
      rw [he]
      obtain ⟨rfl, hx⟩ := facadeSet_ok hf
      exact mrp_setVolume_good h hx
  | up =>
    by_cases hstop : FVal.eqPy s.vol (.fin mrpUpStop) = true
    · have he : Mrp.step rnd s .up = (s, []) := by simp only [Mrp.step, hstop, if_true]
      rw [he]; intro ev hev; cases hev
    · cases hc : Mrp.checked s with
      | error e =>
        have he : Mrp.step rnd s .up = (s, [.raised e]) := by simp only [Mrp.step, hstop, hc]; rfl
        rw [he]
        exact single _ (hchke hc)
      | ok v =>
        have he : Mrp.step rnd s .up = (s, Mrp.setVolume rnd (pyMin (addF rnd v 5) (.fin 100))) := by
          simp only [Mrp.step, hstop, hc, mrpUpStep_eq, mrpUpBound_eq]; rfl
        rw [he]
        exact mrp_setVolume_good h (stepUp_inPct h (hchk hc))
  | down =>
    by_cases hstop : FVal.eqPy s.vol (.fin mrpDownStop) = true
    · have he : Mrp.step rnd s .down = (s, []) := by simp only [Mrp.step, hstop, if_true]
      rw [he]; intro ev hev; cases hev
    · cases hc : Mrp.checked s with
      | error e =>
        have he : Mrp.step rnd s .down = (s, [.raised e]) := by simp only [Mrp.step, hstop, hc]; rfl
        rw [he]
        exact single _ (hchke hc)
      | ok v =>
        have he : Mrp.step rnd s .down = (s, Mrp.setVolume rnd (pyMax (subF rnd v 5) (.fin 0))) := by
          simp only [Mrp.step, hstop, hc, mrpDownStep_eq, mrpDownBound_eq]; rfl
        rw [he]
        exact mrp_setVolume_good h (stepDown_inPct h (hchk hc))
  | read =>
    cases hf : facadeRead s.vol with
    | error e =>
      have he : Mrp.step rnd s .read = (s, [.raised e]) := by simp only [Mrp.step, hf]
      rw [he]
      exact single _ (facadeRead_err hf).1
    | ok r =>
      have he : Mrp.step rnd s .read = (s, [.ret r]) := by simp only [Mrp.step, hf]
      rw [he]
      obtain ⟨rfl, hx⟩ := facadeRead_ok hf
      exact single _ hx
  | report x =>
    intro ev hev
    simp only [Mrp.step] at hev
    cases hev
  | reportOther x =>
    intro ev hev
    simp only [Mrp.step] at hev
    cases hev
  | streamStart x a =>
    intro ev hev
    simp only [Mrp.step] at hev
    cases hev
  | setRefused x =>
    intro ev hev
    simp only [Mrp.step] at hev
    cases hev

/-- **Every history** over MrpAudio, from any initial device level, with device reports of
    any float (NaN, ±inf, out of range): every level received by `set_volume` is a finite
    number in [0,100], what is put on the wire is within [0,1], every value returned by
    `audio.volume` is in [0,100], and the only exception is ProtocolError. -/
theorem mrp_history_safe (h : RoundingLaws rnd) (s : Mrp) (ops : List Op) :
    ∀ evs ∈ Mrp.run rnd s ops, ∀ ev ∈ evs, GoodEv InUnit ev := by
  induction ops generalizing s with
  | nil => intro evs hevs; cases hevs
  | cons op ops ih =>
    intro evs hevs
    simp only [Mrp.run, List.mem_cons] at hevs
    rcases hevs with rfl | hevs
    · exact mrp_step_safe h s op
    · exact ih _ evs hevs

/-- absolute-only capabilities: `stepC` is the model used above -/
theorem mrp_stepC_absolute (s : Mrp) (op : Op) : Mrp.stepC rnd true false s op = Mrp.step rnd s op := by
  cases op <;> try rfl
  · by_cases hstop : FVal.eqPy s.vol (.fin mrpUpStop) = true
    · simp [Mrp.stepC, Mrp.step, hstop]
    · simp [Mrp.stepC, hstop]
  · by_cases hstop : FVal.eqPy s.vol (.fin mrpDownStop) = true
    · simp [Mrp.stepC, Mrp.step, hstop]
    · simp [Mrp.stepC, hstop]

theorem mrp_stepC_safe (h : RoundingLaws rnd) (ab rl : Bool) (s : Mrp) (op : Op) :
    ∀ ev ∈ (Mrp.stepC rnd ab rl s op).2, GoodEv InUnit ev := by
  have hnil : ∀ ev ∈ ([] : List Ev), GoodEv InUnit ev := fun ev hev => by cases hev
  have hkey : ∀ b, ∀ ev ∈ [Ev.key b], GoodEv InUnit ev := by
    intro b ev hev
    simp only [List.mem_cons, List.not_mem_nil, or_false] at hev
    subst hev; trivial
  cases op with
  | up =>
    simp only [Mrp.stepC]
    split
    · exact hnil
    · split
      · exact hkey _
      · split
        · exact mrp_step_safe h s .up
        · exact hnil
  | down =>
    simp only [Mrp.stepC]
    split
    · exact hnil
    · split
      · exact hkey _
      · split
        · exact mrp_step_safe h s .down
        · exact hnil
  | set x => exact mrp_step_safe h s (.set x)
  | read => exact mrp_step_safe h s .read
  | report x => exact mrp_step_safe h s (.report x)
  | reportOther x => exact mrp_step_safe h s (.reportOther x)
  | streamStart i a => exact mrp_step_safe h s (.streamStart i a)
  | setRefused x => exact mrp_step_safe h s (.setRefused x)

/-- **Every history, every volume capability of the device** (none / relative / absolute /
    both): every level received by `set_volume` is a finite number in [0,100], what is put on
    the wire is within [0,1] (key presses carry no level), every value read is in [0,100],
    the only exception is ProtocolError. -/
theorem mrp_history_safe_caps (h : RoundingLaws rnd) (ab rl : Bool) (s : Mrp) (ops : List Op) :
    ∀ evs ∈ Mrp.runC rnd ab rl s ops, ∀ ev ∈ evs, GoodEv InUnit ev := by
  induction ops generalizing s with
  | nil => intro evs hevs; cases hevs
  | cons op ops ih =>
    intro evs hevs
    simp only [Mrp.runC, List.mem_cons] at hevs
    rcases hevs with rfl | hevs
    · exact mrp_stepC_safe h ab rl s op
    · exact ih _ evs hevs

example : Mrp.runC id true true ⟨.fin 98⟩ [.up, .report (.fin 100), .up, .set (.fin 20), .down] =
    [[.key true], [], [], [.recv (.fin 20), .wire (.fin (1 / 5))], [.key false]] := by decide +kernel

/-- a volume update addressed to another output device -/
def isOther : Op → Bool
  | .reportOther _ => true
  | _ => false

/-- **Updates for other output devices are inert**: such an update changes neither our
    stored level nor anything observable, so deleting all of them from a history leaves
    the outcome of every remaining operation exactly as it was.  In particular they can
    never re-validate an out-of-range level reported for our device. -/
theorem other_device_inert (s : Mrp) (ops : List Op) :
    Mrp.run rnd s (ops.filter (fun o => !isOther o)) =
      ((Mrp.run rnd s ops).zip ops).filterMap (fun p => if isOther p.2 then none else some p.1) := by
  induction ops generalizing s with
  | nil => rfl
  | cons op ops ih =>
    by_cases ho : isOther op = true
    · have hstep : Mrp.step rnd s op = (s, []) := by
        cases op <;> first | rfl | (simp [isOther] at ho)
      have hf : (op :: ops).filter (fun o => !isOther o) = ops.filter (fun o => !isOther o) := by
        rw [List.filter_cons]; simp [ho]
      rw [hf, ih s]
      simp only [Mrp.run, hstep, List.zip_cons_cons, List.filterMap_cons, ho, if_true]
    · have ho' : isOther op = false := by simpa using ho
      have hf : (op :: ops).filter (fun o => !isOther o) = op :: ops.filter (fun o => !isOther o) := by
        rw [List.filter_cons]; simp [ho']
      rw [hf]
      simp only [Mrp.run, List.zip_cons_cons, List.filterMap_cons, ho', Bool.false_eq_true, if_false]
      rw [ih]

example : Mrp.run id ⟨.fin 50⟩ [.report (.fin 150), .reportOther (.fin 30), .down, .report (.fin (-50)), .reportOther (.fin 30), .up] =
    [[], [], [.raised .protocol], [], [], [.raised .protocol]] := by decide +kernel

example : Mrp.run id ⟨.fin 98⟩ [.up, .report (.fin (-50)), .up, .read, .report .nan, .down] =
    [[.recv (.fin 100), .wire (.fin 1)], [], [.raised .protocol], [.raised .protocol], [], [.raised .protocol]] := by
  decide +kernel

end

end PyatvModel.Props.C20
