import PyatvModel.C16.Model
import PyatvModel.C16.Lemmas
/-
C16 — streamed audio is sent completely, in order, and can be retransmitted.

All theorems are about `packetize c cap src s0 comp` (one whole `_stream_data` run of the
model in `C16/Model.lean`) for EVERY source `src`, frame size, latency, start sequence
number `s0 < 2^16`, backlog size `0 < cap < 2^16` and EVERY list `comp` of compensation
decisions (the wall-clock dependent pacing), and for every `wire` function (AirPlay v1,
v2 plain, v2 with any cipher).  `Gen.C16` supplies the values the code uses today
(`gen_valid`: FRAMES_PER_PACKET > 0, 1000 ≤ PACKET_BACKLOG_SIZE < 2^16 — the property's
"most recent 1000").

* `packetize_finished`     the run ends normally: the backlog insertion never raises and
                           the loop terminates;
* `comp_irrelevant`        the datagrams do not depend on the compensation decisions;
* `payload_exact`          concatenated payloads = source ++ zeros, with the exact number
                           of zeros (`zeros_bound`, `silence_covers_latency`: last packet
                           padded, then the least number of silent packets covering the latency);
* `seq_consecutive_mod`    packet i carries sequence number (s0 + i) mod 2^16;
* `ts_step`                packet i carries timestamp latency + FRAMES_PER_PACKET * i;
* `marker_first_only`      the first-packet marker is set on packet 0 and on no other;
* `padding_count`          number of packets = ⌈len/packet⌉ + ⌈latency/fpp⌉, each payload one packet long;
* `backlog_last_n`         after any k packets the backlog holds exactly the last min k cap
                           (seq, datagram) pairs, with distinct keys;
* `retransmit_identical`   a retransmit request (first, count) resends, in request order,
                           the stored datagram of every requested sequence number (taken
                           mod 2^16) that is among those, byte-identically (`resend_embeds`);
* `retransmit_window`      a request for a window of packets that are all still in the
                           backlog resends exactly those datagrams — also across the wrap;
* `header_roundtrip`, `dgram_v1`, `control_request`   the wire formats.
* `d11_unreduced_counterexample`   the loop as it was before the `fix:` commit (no
                           `% 2**16`) does not serve a request that spans the wrap.
-/
namespace PyatvModel.Props.C16
open PyatvModel PyatvModel.C16

/-- the side conditions every theorem needs (all hold for the values in the code). -/
structure Valid (c : Cfg) (cap s0 : Nat) : Prop where
  fpp : 0 < c.fpp
  frame : 0 < c.frameSize
  cap_pos : 0 < cap
  cap_lt : cap < 65536
  s0_lt : s0 < 65536

/-- tie A: the constants regenerated from the source tree satisfy the side conditions. -/
theorem gen_valid :
    0 < Gen.C16.framesPerPacket ∧ 1000 ≤ Gen.C16.packetBacklogSize ∧ Gen.C16.packetBacklogSize < 65536 ∧
      Gen.C16.audioHeaderLayout = [1, 1, 2, 4, 4] ∧ Gen.C16.retransmitLayout = [1, 1, 2, 2, 2] := by
  decide

/-- padding (silent) packets sent after the source is exhausted: ⌈latency / fpp⌉. -/
def padPackets (c : Cfg) : Nat := (c.latency + c.fpp - 1) / c.fpp

/-- data packets for a source of `len` bytes: ⌈len / packet_size⌉. -/
def dataPackets (c : Cfg) (len : Nat) : Nat := (len + c.packetSize - 1) / c.packetSize

/-- zero bytes that follow the source in the stream. -/
def zeros (c : Cfg) (len : Nat) : Nat := tailPad c.packetSize len + padPackets c * c.packetSize

/-! A small concrete run used by the non-vacuity examples: 2 frames per packet, 2-byte
frames, latency 3 frames, 5 source bytes, start sequence number 65535 (wraps), backlog
of 3, compensation decisions 1,0,2. -/
def cEx : Cfg := { fpp := 2, frameSize := 2, latency := 3, startTs := 100, ssrc := 7, wire := wireV1 }
def srcEx : Bytes := [1, 2, 3, 4, 5]
def runEx : Run := packetize cEx 3 srcEx 65535 [1, 0, 2]

theorem validEx : Valid cEx 3 65535 := ⟨by decide, by decide, by decide, by decide, by decide⟩

/-- the backlog after the first k packets of the example run, by the model's `Fifo.set`. -/
def backlogAfterEx (k : Nat) : Option Fifo :=
  (runEx.sent.take k).foldlM (fun f e => f.set e.pkt.seq e.dgram) (Fifo.empty 3)

section
variable {c : Cfg} {cap s0 : Nat} (hv : Valid c cap s0) (src : Bytes) (comp : List Nat)
include hv

theorem init_KInv : KInv cap (initSt c cap src s0) :=
  ⟨rfl, Nat.zero_le _, rfl, hv.s0_lt, List.nodup_nil⟩

omit hv in
theorem init_items : (initSt c cap src s0).backlog.items = lastN cap (([] : List Sent).map pair) := by
  simp [initSt, Fifo.empty, lastN]

/-- The core refinement: the run finishes, and what it sent is the sequence of
    `_send_packet` results from the initial state up to the first state in which
    `_send_packet` returns 0. -/
theorem packetize_steps :
    (packetize c cap src s0 comp).status = .finished ∧
      Steps c true (initSt c cap src s0) (packetize c cap src s0 comp).sent (packetize c cap src s0 comp).final ∧
      Stopped c (packetize c cap src s0 comp).final := by
  unfold packetize
  have := loop_spec hv.fpp hv.frame hv.cap_pos hv.cap_lt (src.length + c.latency + 1) comp 0
    (initSt c cap src s0) (init_KInv hv src) (by unfold mu initSt; simp only; omega)
  simpa using this

/-- The stream always runs to completion: the backlog never rejects a packet (sequence
    numbers in it are distinct because `cap < 2^16`) and the loop terminates. -/
theorem packetize_finished : (packetize c cap src s0 comp).status = .finished :=
  (packetize_steps hv src comp).1

omit hv in
example : runEx.status = .finished := by decide

/-- Pacing cannot change what is sent: any two lists of compensation decisions give the
    same datagrams and the same final state. -/
theorem comp_irrelevant (comp' : List Nat) :
    (packetize c cap src s0 comp).sent = (packetize c cap src s0 comp').sent ∧
      (packetize c cap src s0 comp).final = (packetize c cap src s0 comp').final := by
  obtain ⟨_, h1, s1⟩ := packetize_steps hv src comp
  obtain ⟨_, h2, s2⟩ := packetize_steps hv src comp'
  exact steps_det h1 s1 h2 s2

omit hv in
example : (packetize cEx 3 srcEx 65535 []).sent = runEx.sent ∧ [1, 0, 2] ≠ ([] : List Nat) := by decide

/-- Packet i carries sequence number (s0 + i) mod 2^16. -/
theorem seq_consecutive_mod (i : Nat) (hi : i < (packetize c cap src s0 comp).sent.length) :
    ((packetize c cap src s0 comp).sent[i]).pkt.seq = (s0 + i) % 65536 :=
  steps_seq (packetize_steps hv src comp).2.1 hv.s0_lt i hi

omit hv in
example : runEx.sent.map (·.pkt.seq) = [65535, 0, 1, 2] := by decide

/-- Packet i carries timestamp latency + fpp·i: it advances by the frames per packet. -/
theorem ts_step (i : Nat) (hi : i < (packetize c cap src s0 comp).sent.length) :
    ((packetize c cap src s0 comp).sent[i]).pkt.ts = (c.latency : Int) + (c.fpp : Int) * (i : Int) := by
  rw [steps_ts (packetize_steps hv src comp).2.1 hv.frame i hi]
  unfold rtptime initSt
  simp only
  omega

omit hv in
example : runEx.sent.map (·.pkt.ts) = [3, 5, 7, 9] := by decide

/-- The first-packet marker is on packet 0 and on no other packet. -/
theorem marker_first_only (i : Nat) (hi : i < (packetize c cap src s0 comp).sent.length) :
    ((packetize c cap src s0 comp).sent[i]).pkt.marker = (i == 0) := by
  rw [steps_marker (packetize_steps hv src comp).2.1 i hi]
  simp

omit hv in
example : runEx.sent.map (·.pkt.marker) = [true, false, false, false] := by decide

/-- Every packet carries the session id, one packet of audio, and the datagram is what
    the protocol makes of (packet index, header, audio). -/
theorem packet_shape (i : Nat) (hi : i < (packetize c cap src s0 comp).sent.length) :
    ((packetize c cap src s0 comp).sent[i]).pkt.ssrc = c.ssrc ∧
      ((packetize c cap src s0 comp).sent[i]).pkt.payload.length = c.packetSize ∧
      ((packetize c cap src s0 comp).sent[i]).dgram =
        c.wire i ((packetize c cap src s0 comp).sent[i]).pkt.header ((packetize c cap src s0 comp).sent[i]).pkt.payload := by
  have := steps_each (packetize_steps hv src comp).2.1 i hi
  simpa [initSt] using this

omit hv in
example : runEx.sent.map (·.dgram.take 12) =
    [[0x80, 0xE0, 0xff, 0xff, 0, 0, 0, 3, 0, 0, 0, 7], [0x80, 0x60, 0, 0, 0, 0, 0, 5, 0, 0, 0, 7],
     [0x80, 0x60, 0, 1, 0, 0, 0, 7, 0, 0, 0, 7], [0x80, 0x60, 0, 2, 0, 0, 0, 9, 0, 0, 0, 7]] := by decide

/-- Payload conservation: the concatenated payloads are the source followed by zeros —
    every source byte exactly once, in order — and the number of zeros is exact: the
    padding of the last data packet plus `padPackets` silent packets. -/
theorem payload_exact (hl : 0 < c.latency) :
    ((packetize c cap src s0 comp).sent.map (·.pkt.payload)).flatten =
      src ++ List.replicate (zeros c src.length) 0 := by
  have := (steps_payload (packetize_steps hv src comp).2.1 hv.fpp hv.frame hl
    (packetize_steps hv src comp).2.2 (Or.inr rfl)).1
  simpa [initSt, zeros, padPackets, nPad] using this

omit hv in
example : 0 < cEx.latency ∧ zeros cEx srcEx.length = 11 ∧
    (runEx.sent.map (·.pkt.payload)).flatten = [1, 2, 3, 4, 5, 0, 0, 0, 0, 0, 0, 0, 0, 0, 0, 0] := by decide

/-- Number of packets: ⌈len/packet⌉ data packets and ⌈latency/fpp⌉ padding packets. -/
theorem padding_count (hl : 0 < c.latency) :
    (packetize c cap src s0 comp).sent.length = dataPackets c src.length + padPackets c := by
  have := (steps_payload (packetize_steps hv src comp).2.1 hv.fpp hv.frame hl
    (packetize_steps hv src comp).2.2 (Or.inr rfl)).2
  simpa [initSt, dataPackets, padPackets, nPad, nData] using this

omit hv in
example : dataPackets cEx srcEx.length = 2 ∧ padPackets cEx = 2 ∧ runEx.sent.length = 4 := by decide

/-- After any k packets the backlog holds exactly the last `min k cap` (seq, datagram)
    pairs, oldest first, and its keys are distinct. -/
theorem backlog_last_n (k : Nat) :
    ∃ st, Steps c true (initSt c cap src s0) ((packetize c cap src s0 comp).sent.take k) st ∧
      st.backlog.items = (lastN cap ((packetize c cap src s0 comp).sent.take k)).map pair ∧
      st.backlog.items.length = min (min k (packetize c cap src s0 comp).sent.length) cap ∧
      st.backlog.keys.Nodup := by
  obtain ⟨st, hst⟩ := (packetize_steps hv src comp).2.1.take k
  obtain ⟨hk, hitems⟩ := steps_backlog hst hv.cap_lt [] (init_KInv hv src) (init_items src)
  rw [List.nil_append, lastN_map] at hitems
  refine ⟨st, hst, hitems, ?_, hk.nodup⟩
  rw [hitems, List.length_map, lastN_length, List.length_take]

omit hv in
example : (backlogAfterEx 2).map Fifo.keys = some [65535, 0] ∧ (backlogAfterEx 4).map Fifo.keys = some [0, 1, 2] := by
  decide

/-- ... in particular at the end of the stream. -/
theorem backlog_final :
    (packetize c cap src s0 comp).final.backlog.items = (lastN cap (packetize c cap src s0 comp).sent).map pair := by
  obtain ⟨_, hitems⟩ := steps_backlog (packetize_steps hv src comp).2.1 hv.cap_lt [] (init_KInv hv src) (init_items src)
  rw [hitems, List.nil_append, lastN_map]

omit hv in
example : runEx.final.backlog.keys = [0, 1, 2] := by decide

/-- Retransmission, in whatever state `st` the stream is after its first k packets: for
    each requested sequence number (first + i) mod 2^16, i = 0..count-1 in this order, the
    packet among the last `cap` sent that carries this number (there is at most one) is
    resent as `80 d6 <seq> <the stored datagram>`; numbers not among them are skipped. -/
theorem retransmit_identical (k : Nat) (st : St)
    (hst : Steps c true (initSt c cap src s0) ((packetize c cap src s0 comp).sent.take k) st)
    (first count : Nat) :
    retransmit st.backlog first count =
      (List.range count).filterMap fun i =>
        ((lastN cap ((packetize c cap src s0 comp).sent.take k)).find?
          (fun e => e.pkt.seq == (first + i) % 65536)).map (fun e => resend e.dgram) := by
  obtain ⟨_, hitems⟩ := steps_backlog hst hv.cap_lt [] (init_KInv hv src) (init_items src)
  apply retransmit_of_items
  rw [hitems, List.nil_append, lastN_map]

-- a request spanning the wrap, made after 3 packets (65535, 0, 1 are in the backlog); 65534 is not
omit hv in
example : (backlogAfterEx 3).map (fun f => (retransmit f 65534 4).map (·.take 4)) =
    some [[0x80, 0xd6, 0xff, 0xff], [0x80, 0xd6, 0, 0], [0x80, 0xd6, 0, 1]] := by decide

/-- A request for packets a, a+1, …, a+count-1 of the stream (by the sequence number of
    packet a), all of them among the last `cap` of the k sent so far, resends exactly
    their datagrams, in order — wherever the 2^16 wrap falls. -/
theorem retransmit_window (k : Nat) (st : St)
    (hst : Steps c true (initSt c cap src s0) ((packetize c cap src s0 comp).sent.take k) st)
    (a count : Nat) (ha : a + count ≤ ((packetize c cap src s0 comp).sent.take k).length)
    (hw : ((packetize c cap src s0 comp).sent.take k).length - a ≤ cap) :
    retransmit st.backlog ((s0 + a) % 65536) count =
      ((((packetize c cap src s0 comp).sent.take k).drop a).take count).map (fun e => resend e.dgram) := by
  rw [retransmit_identical hv src comp k st hst]
  obtain ⟨hk, hitems⟩ := steps_backlog hst hv.cap_lt [] (init_KInv hv src) (init_items src)
  have hn : ((lastN cap ((packetize c cap src s0 comp).sent.take k)).map (fun e => e.pkt.seq)).Nodup := by
    have h := hk.nodup
    unfold Fifo.keys at h
    rw [hitems, List.nil_append, lastN_map, List.map_map] at h
    exact h
  rw [← window_aux cap s0 _ (steps_seq hst hv.s0_lt) hn count a ha hw]
  apply filterMap_congr'
  intro i _
  have : ((s0 + a) % 65536 + i) % 65536 = (s0 + a + i) % 65536 := by omega
  rw [this]

-- the hypotheses are satisfiable across the wrap: packets 0..2 (65535, 0, 1) requested after 3 packets
omit hv in
example : ∃ st, Steps cEx true (initSt cEx 3 srcEx 65535) (runEx.sent.take 3) st ∧
    retransmit st.backlog 65535 3 = (((runEx.sent.take 3).drop 0).take 3).map (fun e => resend e.dgram) := by
  obtain ⟨st, hst, _⟩ := backlog_last_n validEx srcEx [1, 0, 2] 3
  exact ⟨st, hst, retransmit_window validEx srcEx [1, 0, 2] 3 st hst 0 3 (by decide) (by decide)⟩

end

/-! ### facts that need no run -/

/-- the resent datagram ends with the stored datagram, byte for byte. -/
theorem resend_embeds (d : Bytes) : d <:+ resend d := by
  unfold resend; exact List.suffix_append _ _

/-- the tail padding is less than one packet. -/
theorem tailPad_lt (c : Cfg) (len : Nat) (h : 0 < c.packetSize) : tailPad c.packetSize len < c.packetSize :=
  Nat.mod_lt _ h

/-- "silence covering the latency": the padding packets cover the latency, and one
    fewer would not. -/
theorem silence_covers_latency (c : Cfg) (hf : 0 < c.fpp) :
    c.latency ≤ padPackets c * c.fpp ∧ padPackets c * c.fpp < c.latency + c.fpp := by
  unfold padPackets
  have h1 := Nat.div_add_mod (c.latency + c.fpp - 1) c.fpp
  have h2 := Nat.mod_lt (c.latency + c.fpp - 1) hf
  rw [Nat.mul_comm] at h1
  constructor <;> omega

example : 0 < cEx.fpp ∧ cEx.latency = 3 ∧ padPackets cEx * cEx.fpp = 4 ∧ tailPad cEx.packetSize 5 = 3 := by decide

/-- bound on the zeros that follow the source: less than one packet of tail padding plus
    the latency plus one more packet. -/
theorem zeros_bound (c : Cfg) (len : Nat) (hf : 0 < c.fpp) (hs : 0 < c.frameSize) :
    zeros c len < c.packetSize + (c.latency * c.frameSize + c.packetSize) := by
  have h1 := tailPad_lt c len (Nat.mul_pos hf hs)
  have h2 := (silence_covers_latency c hf).2
  have h3 : padPackets c * c.packetSize < (c.latency + c.fpp) * c.frameSize := by
    unfold Cfg.packetSize
    rw [← Nat.mul_assoc]
    exact Nat.mul_lt_mul_of_pos_right h2 hs
  rw [Nat.add_mul] at h3
  unfold zeros
  unfold Cfg.packetSize at *
  omega

example : zeros cEx 5 = 11 ∧ cEx.packetSize + (cEx.latency * cEx.frameSize + cEx.packetSize) = 14 := by decide

/-- the 12 header bytes decode (by `AudioPacketHeader.decode`) to the packet's fields. -/
theorem header_roundtrip (p : Packet) (h : p.fits) :
    unpack Gen.C16.audioHeaderLayout p.header =
      some [0x80, if p.marker then 0xE0 else 0x60, p.seq, p.ts.toNat, p.ssrc] := by
  unfold Packet.header
  apply unpack_pack
  obtain ⟨h1, h2, h3, h4⟩ := h
  simp only [Gen.C16.audioHeaderLayout, FitsAll]
  refine ⟨by omega, by split <;> omega, by omega, by omega, by omega, trivial⟩

example : (⟨true, 65535, 3, 7, []⟩ : Packet).fits := by decide

/-- AirPlay v1 (and v2 without a cipher): the datagram is header ++ audio. -/
theorem dgram_v1 (count : Nat) (p : Packet) : wireV1 count p.header p.payload = p.header ++ p.payload := rfl

/-- a well-formed retransmit request datagram (`RetransmitReqeust.encode(proto, type,
    seqno, first, count)` with type & 0x7F = 0x55) triggers exactly `retransmit first count`. -/
theorem control_request (bl : Fifo) (proto type seqno first count : Nat) (hp : proto < 256)
    (ht : type < 256) (ht' : type % 128 = 0x55) (hs : seqno < 65536) (hf : first < 65536)
    (hc : count < 65536) :
    controlReceived bl (pack Gen.C16.retransmitLayout [proto, type, seqno, first, count]) =
      some (retransmit bl first count) := by
  have hu := unpack_pack Gen.C16.retransmitLayout [proto, type, seqno, first, count]
    (by simp only [Gen.C16.retransmitLayout, FitsAll]
        exact ⟨by omega, by omega, by omega, by omega, by omega, trivial⟩)
  have hshape : pack Gen.C16.retransmitLayout [proto, type, seqno, first, count] =
      UInt8.ofNat (proto % 256) :: UInt8.ofNat (type % 256) ::
        (be 2 seqno ++ (be 2 first ++ (be 2 count ++ []))) := by
    simp [Gen.C16.retransmitLayout, pack, be]
  unfold controlReceived
  rw [hu]
  rw [hshape]
  have : (UInt8.ofNat (type % 256)).toNat % 128 = 85 := by
    simp [UInt8.toNat_ofNat']; omega
  simp only [this, if_true]

/-! ### D11 (repaired by the `fix:` commit): the unreduced loop misses the wrap -/

def d11Backlog : Fifo :=
  ⟨[(65534, [0x80, 0x60, 0xff, 0xfe, 1]), (65535, [0x80, 0x60, 0xff, 0xff, 2]),
    (0, [0x80, 0x60, 0, 0, 3]), (1, [0x80, 0x60, 0, 1, 4])], 1000⟩

/-- Before the repair a request (65534, 4) was answered with 2 packets instead of 4. -/
theorem d11_unreduced_counterexample :
    (retransmitUnreduced d11Backlog 65534 4).length = 2 ∧ (retransmit d11Backlog 65534 4).length = 4 ∧
      ¬ retransmitUnreduced d11Backlog 65534 4 = retransmit d11Backlog 65534 4 := by
  decide

/-- `control_request` applies to the D11 request as the receiver encodes it (80 d5 0001 fffe 0004). -/
example : pack Gen.C16.retransmitLayout [0x80, 0xD5, 1, 65534, 4] = [0x80, 0xd5, 0, 1, 0xff, 0xfe, 0, 4] ∧
    controlReceived d11Backlog [0x80, 0xd5, 0, 1, 0xff, 0xfe, 0, 4] = some (retransmit d11Backlog 65534 4) := by
  decide

/-! ### every stream of any sequence of streams on one StreamContext

`session fpp cap x specs` is any number of consecutive `stream_file` calls on one shared
context `x` (whatever state earlier streams, earlier retransmissions or anything else left
it in).  Because `StreamContext.reset()` re-initialises rtpseq, start_ts, head_ts, latency
and padding_sent, and the backlog / cipher counter belong to the per-stream client, each
stream is exactly the run `packetize` describes for a brand-new context — so every
theorem above holds for every stream of the sequence.  Only `sample_rate` (with
channels / bytes_per_channel, credentials, ports, volume: not read by the loop) persists,
and `initialize` overwrites it per stream. -/

/-- After `reset()` the loop-relevant context is a function of the sample rate and the
    two fresh values only: nothing else of the earlier state survives. -/
theorem reset_forgets (x y : Ctx) (h : x.sampleRate = y.sampleRate) (rnd : Nat) (now : Int) :
    x.reset rnd now = y.reset rnd now := by
  unfold Ctx.reset; rw [h]

/-- State after reset = fresh state: the loop starts from `initSt`, with the `Cfg` of a
    brand-new context. -/
theorem reset_fresh (x : Ctx) (fpp cap : Nat) (s : StreamSpec) :
    (((x.withRate s.sampleRate).reset s.rnd s.now).cfgOf fpp s.frameSize s.ssrc s.wire = s.cfg fpp) ∧
      ((x.withRate s.sampleRate).reset s.rnd s.now).stOf cap s.src = initSt (s.cfg fpp) cap s.src s.rnd :=
  ⟨rfl, rfl⟩

/-- One `stream_file` on ANY context is the `packetize` run of a brand-new one. -/
theorem streamFile_eq_packetize (fpp cap : Nat) (x : Ctx) (s : StreamSpec) :
    (streamFile fpp cap x s).1 = packetize (s.cfg fpp) cap s.src s.rnd s.comp := rfl

/-- ... hence every stream of every session. -/
theorem session_eq (fpp cap : Nat) (x : Ctx) (specs : List StreamSpec) :
    session fpp cap x specs = specs.map (fun s => packetize (s.cfg fpp) cap s.src s.rnd s.comp) := by
  induction specs generalizing x with
  | nil => rfl
  | cons s rest ih => rw [session, ih, streamFile_eq_packetize]; rfl

theorem session_length (fpp cap : Nat) (x : Ctx) (specs : List StreamSpec) :
    (session fpp cap x specs).length = specs.length := by
  rw [session_eq, List.length_map]

theorem session_getElem (fpp cap : Nat) (x : Ctx) (specs : List StreamSpec) (i : Nat)
    (hi : i < (session fpp cap x specs).length) :
    (session fpp cap x specs)[i] =
      packetize ((specs[i]'(by rw [session_length] at hi; exact hi)).cfg fpp) cap
        (specs[i]'(by rw [session_length] at hi; exact hi)).src
        (specs[i]'(by rw [session_length] at hi; exact hi)).rnd
        (specs[i]'(by rw [session_length] at hi; exact hi)).comp := by
  simp [session_eq]

theorem spec_latency_pos (s : StreamSpec) (fpp : Nat) : 0 < (s.cfg fpp).latency := by
  unfold StreamSpec.cfg
  have : 0 < Gen.C16.latencyBase := by decide
  simp only; omega

section
variable {fpp cap : Nat} (x : Ctx) (specs : List StreamSpec)
  (hv : ∀ s ∈ specs, Valid (s.cfg fpp) cap s.rnd)
include hv

/-- every run of the session is the `packetize` run of some valid stream. -/
theorem session_mem (r : Run) (hr : r ∈ session fpp cap x specs) :
    ∃ s ∈ specs, Valid (s.cfg fpp) cap s.rnd ∧ r = packetize (s.cfg fpp) cap s.src s.rnd s.comp := by
  rw [session_eq] at hr
  obtain ⟨s, hs, rfl⟩ := List.mem_map.mp hr
  exact ⟨s, hs, hv s hs, rfl⟩

/-- Every stream of the sequence runs to completion ... -/
theorem session_finished (r : Run) (hr : r ∈ session fpp cap x specs) : r.status = .finished := by
  obtain ⟨s, _, hvs, rfl⟩ := session_mem x specs hv r hr
  exact packetize_finished hvs _ _

/-- ... carries its own source exactly once, in order, followed by the zeros ... -/
theorem session_payload_exact (r : Run) (hr : r ∈ session fpp cap x specs) :
    ∃ s ∈ specs, (r.sent.map (·.pkt.payload)).flatten = s.src ++ List.replicate (zeros (s.cfg fpp) s.src.length) 0 ∧
      r.sent.length = dataPackets (s.cfg fpp) s.src.length + padPackets (s.cfg fpp) := by
  obtain ⟨s, hs, hvs, rfl⟩ := session_mem x specs hv r hr
  exact ⟨s, hs, payload_exact hvs _ _ (spec_latency_pos s fpp), padding_count hvs _ _ (spec_latency_pos s fpp)⟩

/-- ... with consecutive sequence numbers from its own start number, timestamps from its
    own latency in steps of fpp, and the marker on its first packet only ... -/
theorem session_headers (r : Run) (hr : r ∈ session fpp cap x specs) :
    ∃ s ∈ specs, ∀ (i : Nat) (hi : i < r.sent.length),
      (r.sent[i]).pkt.seq = (s.rnd + i) % 65536 ∧
      (r.sent[i]).pkt.ts = ((Gen.C16.latencyBase + s.sampleRate : Nat) : Int) + (fpp : Int) * (i : Int) ∧
      (r.sent[i]).pkt.marker = (i == 0) := by
  obtain ⟨s, hs, hvs, rfl⟩ := session_mem x specs hv r hr
  exact ⟨s, hs, fun i hi => ⟨seq_consecutive_mod hvs _ _ i hi, ts_step hvs _ _ i hi, marker_first_only hvs _ _ i hi⟩⟩

/-- ... and its backlog holds its own most recent packets only (so `backlog_last_n`,
    `retransmit_identical`, `retransmit_window` apply to it verbatim). -/
theorem session_backlog (r : Run) (hr : r ∈ session fpp cap x specs) :
    r.final.backlog.items = (lastN cap r.sent).map pair := by
  obtain ⟨s, _, hvs, rfl⟩ := session_mem x specs hv r hr
  exact backlog_final hvs _ _

end

/-- two streams of different formats on one context: the hypotheses are satisfiable -/
def specA : StreamSpec :=
  { sampleRate := 44100, frameSize := 4, ssrc := 7, wire := wireV1, src := [1, 2, 3, 4, 5], comp := [1, 0, 2],
    rnd := 65535, now := 1000, rnd' := 17, now' := 2000 }
def specB : StreamSpec :=
  { sampleRate := 8000, frameSize := 1, ssrc := 9, wire := wireV1, src := [], comp := [], rnd := 65535, now := 3000,
    rnd' := 4, now' := 4000 }

theorem validAB : ∀ s ∈ [specA, specB], Valid (s.cfg 352) 1000 s.rnd := by
  intro s hs
  simp only [List.mem_cons, List.mem_nil_iff, or_false] at hs
  rcases hs with rfl | rfl <;> exact ⟨by decide, by decide, by decide, by decide, by decide⟩

example : ∀ r ∈ session 352 1000 Ctx.fresh [specA, specB], r.status = .finished :=
  fun r hr => session_finished Ctx.fresh _ validAB r hr

example : (session 352 1000 Ctx.fresh [specA, specB]).length = 2 := session_length _ _ _ _

/-- Why `reset()` must zero `padding_sent` (the class of defect "state carried over from
    the previous stream"): on a context that still says the latency is covered,
    `_stream_data` sends nothing at all, whatever the source. -/
theorem stale_padding_sends_nothing (fpp cap : Nat) (x : Ctx) (s : StreamSpec) (h : x.latency ≤ x.paddingSent) :
    (streamOn fpp cap x s).sent = [] := by
  unfold streamOn
  have hstop : sendPacket (x.cfgOf fpp s.frameSize s.ssrc s.wire) (0 == 0) (x.stOf cap s.src) = .stop :=
    (sendPacket_stop_iff _ _ _).mpr h
  simp only [loop, hstop]

/-- the state a completed default-format stream leaves behind (188 silent packets) -/
def stAfterEx : St :=
  { src := [], rtpseq := 5, headTs := 70000, paddingSent := 66176, backlog := Fifo.empty 1000, count := 188 }

-- ... which satisfies the hypothesis: without the reset the next stream would be empty
example : (Ctx.fresh.after stAfterEx).latency ≤ (Ctx.fresh.after stAfterEx).paddingSent := by decide

/-! ### sources with short reads before the end (`padChunks`) -/

/-- the padded read starts with the read itself and ends in zeros only. -/
theorem padChunk_split (ps : Nat) (chunk : Bytes) :
    (padChunk ps chunk).take chunk.length = chunk ∧
      (padChunk ps chunk).drop chunk.length = List.replicate (ps - chunk.length) 0 := by
  unfold padChunk; simp

theorem padChunk_length (ps : Nat) (chunk : Bytes) (h : chunk.length ≤ ps) :
    (padChunk ps chunk).length = ps := by
  unfold padChunk; simp; omega

/-- For a source delivering the reads `chunks`: the packets carry, in order, every read
    followed by the zeros that fill its packet, then the silence — every delivered frame
    exactly once. -/
theorem chunks_payload_exact {c : Cfg} {cap s0 : Nat} (hv : Valid c cap s0) (chunks : List Bytes)
    (comp : List Nat) (hl : 0 < c.latency) :
    ((packetize c cap (padChunks c.packetSize chunks) s0 comp).sent.map (·.pkt.payload)).flatten =
      (chunks.map (padChunk c.packetSize)).flatten ++
        List.replicate (zeros c (padChunks c.packetSize chunks).length) 0 :=
  payload_exact hv _ comp hl

example : padChunks 4 [[1, 2, 3, 4], [5], [6, 7, 8, 9], [10, 11]] = [1, 2, 3, 4, 5, 0, 0, 0, 6, 7, 8, 9, 10, 11, 0, 0] ∧
    ((packetize cEx 3 (padChunks 4 [[1, 2, 3, 4], [5], [6, 7, 8, 9]]) 65535 []).sent.map (·.pkt.payload)).take 3 =
      [[1, 2, 3, 4], [5, 0, 0, 0], [6, 7, 8, 9]] := by decide

end PyatvModel.Props.C16
