import PyatvModel.C03.Model
namespace PyatvModel.Props.C03
open PyatvModel.C03

theorem stub : runT fstep finit [] = [] := rfl

end PyatvModel.Props.C03
