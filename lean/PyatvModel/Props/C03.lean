import PyatvModel.C03.LemmasKeyed
import PyatvModel.C03.LemmasFifo
/-
C03 — a response reaches exactly the request that it answers.
Part 1: keyed transports (MRP identifier, Companion XID) and plain HTTP (FIFO).
(RTSP: `Props/C03Rtsp.lean`.)

All theorems quantify over ALL histories `evs : List Ev` (sends, key burns, arriving messages
with any / no / unknown / duplicated identifier, timer expiries of any request at any point),
any number of concurrent requests.  `T = p ++ (e, o) :: q` reads: at some point of the run the
environment event `e` happened after the trace `p` and produced exactly the outputs `o`.
Observable vocabulary: `sent r k` (request r on the wire with identifier k), `deliver r k v`
(caller r returns message (k, v)), `dispatch` (listeners), `drop`, `timeoutErr r`.
`outcomes r os` counts the completions (response / timeout error / other error) of caller r.
-/
namespace PyatvModel.Props.C03
open PyatvModel.C03

/-- the trace of the keyed matcher from its initial state (`base` = first identifier) -/
abbrev ktrace (cfg : Cfg) (base : Nat) (evs : List Ev) : Trace := runT (kstep cfg) (kinit base) evs
abbrev ftrace (evs : List Ev) : Trace := runT fstep finit evs

/-! ## Keyed: MRP and Companion -/

/-- **Identifiers are unique (proved, not assumed).**  No two requests ever go out with the same
    identifier, and a request has one identifier. -/
theorem keyed_keys_unique (cfg : Cfg) (b : Nat) (evs : List Ev) (r r' k k' : Nat)
    (h : Out.sent r k ∈ outs (ktrace cfg b evs)) (h' : Out.sent r' k' ∈ outs (ktrace cfg b evs)) :
    (k = k' ↔ r = r') := by
  have inv := kinv_run cfg b evs
  constructor
  · intro hk; subst hk; exact inv.uniq r r' k h h'
  · intro hr; subst hr
    have h1 := (inv.snt r k h).2.2
    have h2 := (inv.snt r k' h').2.2
    omega

/-- **Each arriving message has exactly one fate, and a caller only ever gets the message that
    carries its own identifier while it is still waiting.**  For every received message exactly
    one output is produced; if it is a delivery to caller `r` then it is this very message, the
    message carries an identifier `c`, request `r` was sent with `c`, and `r` had not completed. -/
theorem keyed_recv_one_fate (cfg : Cfg) (b : Nat) (evs : List Ev) (p q : Trace) (k : Option Nat) (v : Nat)
    (o : List Out) (h : ktrace cfg b evs = p ++ (.recv k v, o) :: q) :
    ∃ x, o = [x] ∧
      (x = .dispatch k v ∨ x = .drop k v ∨
        ∃ r c, x = .deliver r k v ∧ k = some c ∧ Out.sent r c ∈ outs p ∧ outcomes r (outs p) = 0) := by
  have hl := (kinv_run cfg b evs).good p _ o q h
  cases k with
  | none =>
    have hl' : o = [unmatched cfg none v] := hl
    by_cases hd : cfg.dispatchUnmatched = true
    · exact ⟨_, hl', Or.inl (by simp [unmatched, hd])⟩
    · exact ⟨_, hl', Or.inr (Or.inl (by simp [unmatched, hd]))⟩
  | some c =>
    obtain ⟨h1, h2⟩ := hl
    by_cases hw : ∃ r, Out.sent r c ∈ outs p ∧ outcomes r (outs p) = 0
    · obtain ⟨r, hs, ho⟩ := hw
      exact ⟨_, h1 r hs ho, Or.inr (Or.inr ⟨r, c, rfl, rfl, hs, ho⟩)⟩
    · have := (h2 (fun r hs ho => hw ⟨r, hs, ho⟩)).1
      rcases this with h | h
      · exact ⟨_, h, Or.inl rfl⟩
      · exact ⟨_, h, Or.inr (Or.inl rfl)⟩

/-- **A message never wakes a request that waits under another key** — in particular a
    type-matched MRP request (`generate_identifier=False`; one per message type at a time, so its
    pseudo identifier `type_N` is a key like any other, spelt "no identifier + type N" on the
    wire) is not woken by a message that carries an identifier of its own, stale or unknown. -/
theorem keyed_other_key_not_woken (cfg : Cfg) (b : Nat) (evs : List Ev) (p q : Trace) (c v : Nat)
    (o : List Out) (h : ktrace cfg b evs = p ++ (.recv (some c) v, o) :: q)
    (r' c' : Nat) (hs : Out.sent r' c' ∈ outs p) (hne : c' ≠ c) :
    ∀ k w, Out.deliver r' k w ∉ o := by
  intro k w hd
  obtain ⟨x, hx, hcase⟩ := keyed_recv_one_fate cfg b evs p q (some c) v o h
  rw [hx] at hd
  simp only [List.mem_singleton] at hd
  subst hd
  rcases hcase with hc | hc | ⟨r, c1, heq, hk, hsr, _⟩
  · cases hc
  · cases hc
  · cases heq; cases hk
    have hmem : ∀ y, y ∈ outs p → y ∈ outs (ktrace cfg b evs) := by
      intro y hy; rw [h, outs_append]; exact List.mem_append_left _ hy
    have := (keyed_keys_unique cfg b evs r' r' c' c (hmem _ hs) (hmem _ hsr)).mpr rfl
    exact hne this

/-- **A response reaches the request it answers**, whatever else is outstanding and in whatever
    order the device answers: a message carrying the identifier of a request that is still
    waiting is returned to exactly that caller. -/
theorem keyed_response_reaches_its_request (cfg : Cfg) (b : Nat) (evs : List Ev) (p q : Trace)
    (c v r : Nat) (o : List Out) (h : ktrace cfg b evs = p ++ (.recv (some c) v, o) :: q)
    (hs : Out.sent r c ∈ outs p) (hw : outcomes r (outs p) = 0) :
    o = [.deliver r (some c) v] :=
  ((kinv_run cfg b evs).good p _ o q h).1 r hs hw

/-- **Every caller completes at most once** (one response or one timeout error, never both,
    never two responses). -/
theorem keyed_at_most_one_outcome (cfg : Cfg) (b : Nat) (evs : List Ev) (r : Nat) :
    outcomes r (outs (ktrace cfg b evs)) ≤ 1 :=
  (kinv_run cfg b evs).once r

/-- **MRP: a message that answers no outstanding request reaches the listeners exactly once and
    no waiter.**  (No identifier, an unknown identifier, or the identifier of a request that
    already completed or was abandoned.) -/
theorem mrp_unmatched_dispatched_once (b : Nat) (evs : List Ev) (p q : Trace) (k : Option Nat) (v : Nat)
    (o : List Out) (h : ktrace .mrp b evs = p ++ (.recv k v, o) :: q)
    (hun : ∀ r c, k = some c → Out.sent r c ∈ outs p → outcomes r (outs p) ≠ 0) :
    o = [.dispatch k v] := by
  have hl := (kinv_run .mrp b evs).good p _ o q h
  cases k with
  | none => exact hl
  | some c =>
    have := (hl.2 (fun r hs => hun r c rfl hs)).2 (Or.inl rfl)
    simpa [unmatched, Cfg.mrp] using this

/-- **Companion: a response (`_t` = 3) that answers no outstanding request reaches nobody**
    (there is nothing to subscribe to for responses). -/
theorem companion_unmatched (b : Nat) (evs : List Ev) (p q : Trace) (k : Option Nat) (v : Nat)
    (o : List Out) (h : ktrace .companion b evs = p ++ (.recv k v, o) :: q)
    (hun : ∀ r c, k = some c → Out.sent r c ∈ outs p → outcomes r (outs p) ≠ 0) :
    o = [.drop k v] := by
  have hl := (kinv_run .companion b evs).good p _ o q h
  cases k with
  | none => exact hl
  | some c =>
    have := (hl.2 (fun r hs => hun r c rfl hs)).2 (Or.inr rfl)
    simpa [unmatched, Cfg.companion] using this

/-- **Companion: an event is not an answer.**  Whatever transaction-id field an event (`_t` = 1)
    carries — none, unknown, or equal to the id of a request that is outstanding, completed or
    abandoned — it reaches the listener exactly once and no caller (no hypothesis on `k`), and
    no waiter is consumed: the request stays outstanding, so by
    `keyed_response_reaches_its_request` its genuine response still reaches it. -/
theorem companion_event_to_listener_only (b : Nat) (evs : List Ev) (p q : Trace) (k : Option Nat)
    (v : Nat) (o : List Out) (h : ktrace .companion b evs = p ++ (.msg .event k v, o) :: q) :
    o = [.dispatch k v] ∧ ∀ r, outcomes r (outs (p ++ [(.msg .event k v, o)])) = outcomes r (outs p) := by
  have hl := (kinv_run .companion b evs).good p _ o q h
  have ho : o = [.dispatch k v] := by simpa [KLocal, Cfg.companion] using hl
  subst ho
  exact ⟨rfl, fun r => by simp⟩

/-- Companion: any other non-response frame (device-originated request, missing `_t`) is only
    logged; it reaches no caller either. -/
theorem companion_other_dropped (b : Nat) (evs : List Ev) (p q : Trace) (k : Option Nat)
    (v : Nat) (o : List Out) (h : ktrace .companion b evs = p ++ (.msg .other k v, o) :: q) :
    o = [.drop k v] := by
  have hl := (kinv_run .companion b evs).good p _ o q h
  simpa [KLocal, Cfg.companion] using hl

/-- **MRP matches on the identifier alone**: a ProtocolMessage of any type that carries the
    identifier of a waiting request is its answer (the response type is not fixed by the
    protocol), one that carries none / an unknown / a completed one is dispatched once. -/
theorem mrp_any_type_matched_by_identifier (b : Nat) (evs : List Ev) (p q : Trace) (kd : Kind)
    (k : Option Nat) (v : Nat) (o : List Out) (h : ktrace .mrp b evs = p ++ (.msg kd k v, o) :: q) :
    (∀ r c, k = some c → Out.sent r c ∈ outs p → outcomes r (outs p) = 0 → o = [.deliver r k v]) ∧
    ((∀ r c, k = some c → Out.sent r c ∈ outs p → outcomes r (outs p) ≠ 0) → o = [.dispatch k v]) := by
  have hl := (kinv_run .mrp b evs).good p _ o q h
  have hl' : KRecvSpec .mrp p k v o := by simpa [KLocal, Cfg.mrp] using hl
  cases k with
  | none =>
    refine ⟨fun r c hk => (by cases hk), fun _ => ?_⟩
    exact hl'
  | some c =>
    refine ⟨fun r c' hk hs ho => ?_, fun hun => ?_⟩
    · cases hk; exact hl'.1 r hs ho
    · have := (hl'.2 (fun r hs => hun r c rfl hs)).2 (Or.inl rfl)
      simpa [unmatched, Cfg.mrp] using this

/-- **A caller whose response does not arrive in time gets a timeout error** (and nothing else
    happens); a timer of a request that is not waiting does nothing. -/
theorem keyed_timeout_error (cfg : Cfg) (b : Nat) (evs : List Ev) (p q : Trace) (r : Nat)
    (o : List Out) (h : ktrace cfg b evs = p ++ (.timeout r, o) :: q) :
    ((∃ k, Out.sent r k ∈ outs p) ∧ outcomes r (outs p) = 0 → o = [.timeoutErr r]) ∧
    (¬ ((∃ k, Out.sent r k ∈ outs p) ∧ outcomes r (outs p) = 0) → o = []) := by
  have hl := (kinv_run cfg b evs).good p _ o q h
  exact ⟨fun hh => hl.1 hh.1 hh.2, hl.2⟩

/-- **A response that arrives after its request was abandoned is never handed to a different
    request** — in fact to nobody: after the timer of request `r` (sent with identifier `c`)
    fired, a later message carrying `c` is not delivered to any caller. -/
theorem keyed_no_cross_after_timeout (cfg : Cfg) (b : Nat) (evs : List Ev) (p q1 q2 : Trace)
    (r c v : Nat) (o1 o2 : List Out)
    (h : ktrace cfg b evs = p ++ (.timeout r, o1) :: (q1 ++ (.recv (some c) v, o2) :: q2))
    (hs : Out.sent r c ∈ outs p) :
    ∀ r' k' v', Out.deliver r' k' v' ∉ o2 := by
  intro r' k' v' hd
  have inv := kinv_run cfg b evs
  -- after the timeout step request r has completed
  have h1 : ktrace cfg b evs = p ++ (.timeout r, o1) :: (q1 ++ (.recv (some c) v, o2) :: q2) := h
  have ht := inv.good p _ o1 _ h1
  have hdone : outcomes r (outs (p ++ [(.timeout r, o1)])) ≠ 0 := by
    by_cases hw : outcomes r (outs p) = 0
    · have := ht.1 ⟨c, hs⟩ hw
      subst this; simp [hw]
    · simp only [outs_snoc, outcomes_append]; omega
  have h2 : ktrace cfg b evs = (p ++ (.timeout r, o1) :: q1) ++ (.recv (some c) v, o2) :: q2 := by
    rw [h]; simp
  have hr := inv.good _ _ o2 q2 h2
  have hall : ∀ r'', Out.sent r'' c ∈ outs (p ++ (.timeout r, o1) :: q1) →
      outcomes r'' (outs (p ++ (.timeout r, o1) :: q1)) ≠ 0 := by
    intro r'' hs''
    have hmem : ∀ x, x ∈ outs (p ++ (.timeout r, o1) :: q1) → x ∈ outs (ktrace cfg b evs) := by
      intro x hx; rw [h2, outs_append]; exact List.mem_append_left _ hx
    have hsr : Out.sent r c ∈ outs (p ++ (.timeout r, o1) :: q1) := by
      rw [outs_append]; exact List.mem_append_left _ hs
    have : r'' = r := inv.uniq r'' r c (hmem _ hs'') (hmem _ hsr)
    subst this
    have : p ++ (.timeout r'', o1) :: q1 = (p ++ [(.timeout r'', o1)]) ++ q1 := by simp
    rw [this, outs_append, outcomes_append]
    omega
  rcases (hr.2 hall).1 with ho | ho <;> rw [ho] at hd <;> simp at hd

/-- **A request whose transmission raises leaves no waiter behind**: only the failing caller is
    affected (it gets the exception); nothing is sent, nobody completes.  All theorems of this
    file hold for histories that contain failed sends, so later requests are matched as ever. -/
theorem keyed_failed_send (cfg : Cfg) (b : Nat) (evs : List Ev) (p q : Trace) (o : List Out)
    (h : ktrace cfg b evs = p ++ (.sendFail, o) :: q) : o = [.sendErr] :=
  (kinv_run cfg b evs).good p _ o q h

/-! ## plain HTTP: FIFO matching -/

/-- **A response goes to the oldest waiting request, or to nobody**: exactly one output per
    response; a delivery is to a request that is waiting and was sent before every other waiting
    request (request numbers are allocated in send order). -/
theorem fifo_recv_oldest (evs : List Ev) (p q : Trace) (k : Option Nat) (v : Nat) (o : List Out)
    (h : ftrace evs = p ++ (.recv k v, o) :: q) :
    (o = [.drop k v] ∧ ∀ r, ¬ Waiting (outs p) r) ∨
    (∃ r, o = [.deliver r k v] ∧ Waiting (outs p) r ∧ ∀ r', Waiting (outs p) r' → r ≤ r') := by
  have inv := finv_run evs
  have hl := inv.good p _ o q h
  -- the state before this step
  by_cases hw : ∃ r, Waiting (outs p) r
  · -- pick the least waiting request
    obtain ⟨r0, hr0⟩ := hw
    have : ∃ r, Waiting (outs p) r ∧ ∀ r', Waiting (outs p) r' → r ≤ r' :=
      exists_least _ r0 hr0
    obtain ⟨r, hr, hmin⟩ := this
    exact Or.inr ⟨r, hl.1 r hr hmin, hr, hmin⟩
  · exact Or.inl ⟨hl.2 (fun r hr => hw ⟨r, hr⟩), fun r hr => hw ⟨r, hr⟩⟩

theorem fifo_at_most_one_outcome (evs : List Ev) (r : Nat) : outcomes r (outs (ftrace evs)) ≤ 1 :=
  (finv_run evs).once r

theorem fifo_timeout_error (evs : List Ev) (p q : Trace) (r : Nat) (o : List Out)
    (h : ftrace evs = p ++ (.timeout r, o) :: q) :
    (Waiting (outs p) r → o = [.timeoutErr r]) ∧ (¬ Waiting (outs p) r → o = []) :=
  (finv_run evs).good p _ o q h

theorem ftrace_failed_send_gen (evs : List Ev) : ∀ s : FState,
    (runT fstep s evs).filter (fun x => x.1 != Ev.sendFail) =
      runT fstep s (evs.filter fun e => e != Ev.sendFail) := by
  induction evs with
  | nil => intro s; rfl
  | cons e es ih =>
    intro s
    by_cases he : e = Ev.sendFail
    · subst he
      simp only [runT, List.filter, bne_self_eq_false]
      exact ih _
    · have hb : (e != Ev.sendFail) = true := by simpa using he
      simp only [runT, List.filter, hb]
      rw [ih]

/-- **plain HTTP: a failed send allocates nothing that stays.**  Erasing the failed sends from a
    history changes no other step: every other event produces exactly the same outputs (the
    order matching is not shifted by a request that was never written). -/
theorem fifo_failed_send_transparent (evs : List Ev) :
    (ftrace evs).filter (fun x => x.1 != Ev.sendFail) = ftrace (evs.filter fun e => e != Ev.sendFail) :=
  ftrace_failed_send_gen evs finit

/-- The full-strength statement for plain HTTP ("every response is returned only to the request
    it answers — the j-th response of the device answers the j-th request — even when requests
    were abandoned"):

        ∀ evs p e o q, ftrace evs = p ++ (e, o) :: q →
          ∀ r k v, deliver r k v ∈ o → r = numRecv (p.map Prod.fst)

    is FALSE of the code (DESIGN §6 D9): request 0 times out, request 1 is sent, the late
    response to request 0 arrives and is returned to request 1. -/
theorem C03_http_counterexample :
    ¬ (∀ (evs : List Ev) (p q : Trace) (e : Ev) (o : List Out), ftrace evs = p ++ (e, o) :: q →
        ∀ r k v, Out.deliver r k v ∈ o → r = numRecv (p.map Prod.fst)) := by
  intro h
  have := h [.send, .timeout 0, .send, .recv none 0]
    [(.send, [.sent 0 0]), (.timeout 0, [.timeoutErr 0]), (.send, [.sent 1 1])] []
    (.recv none 0) [.deliver 1 none 0] (by decide) 1 none 0 (by simp)
  simp [numRecv] at this

/-- **plain HTTP, partial**: in every history in which no abandoned request is still unanswered
    while a later request is waiting (`QuietFrom`, a decidable predicate of the history alone),
    each response is returned only to the request it answers. -/
theorem C03_http_partial (evs : List Ev) (hq : QuietFrom tinit evs = true)
    (p q : Trace) (e : Ev) (o : List Out) (h : ftrace evs = p ++ (e, o) :: q) :
    ∀ r k v, Out.deliver r k v ∈ o → r = numRecv (p.map Prod.fst) := by
  have := hinv_run_gen evs finit tinit [] hinv_init hq
  simp only [List.nil_append] at this
  exact this p e o q h

/-! ## Non-vacuity -/

/-- three concurrent MRP requests answered in reverse order, an unsolicited message in between,
    request 1 abandoned, its late response dispatched to the listeners -/
example : ktrace .mrp 7 [.send, .send, .send, .recv (some 9) 40, .recv none 41, .timeout 1,
      .recv (some 8) 42, .recv (some 7) 43, .recv (some 9) 44]
    = [(.send, [.sent 0 7]), (.send, [.sent 1 8]), (.send, [.sent 2 9]),
       (.recv (some 9) 40, [.deliver 2 (some 9) 40]), (.recv none 41, [.dispatch none 41]),
       (.timeout 1, [.timeoutErr 1]), (.recv (some 8) 42, [.dispatch (some 8) 42]),
       (.recv (some 7) 43, [.deliver 0 (some 7) 43]), (.recv (some 9) 44, [.dispatch (some 9) 44])] := by
  decide

/-- Companion: the abandoned entry stays, the late response is dropped, a burnt XID shifts keys -/
example : ktrace .companion 100 [.send, .burn, .send, .timeout 0, .recv (some 100) 5, .recv (some 102) 6]
    = [(.send, [.sent 0 100]), (.burn, []), (.send, [.sent 1 102]), (.timeout 0, [.timeoutErr 0]),
       (.recv (some 100) 5, [.drop (some 100) 5]), (.recv (some 102) 6, [.deliver 1 (some 102) 6])] := by
  decide

/-- Companion: events carrying the XID of an outstanding (100), an abandoned (101) and a
    completed (100, again) request go to the listener; the genuine response still arrives -/
example : ktrace .companion 100 [.send, .send, .msg .event (some 100) 5, .timeout 1,
      .msg .event (some 101) 6, .recv (some 100) 7, .msg .event (some 100) 8, .msg .other (some 101) 9]
    = [(.send, [.sent 0 100]), (.send, [.sent 1 101]), (.msg .event (some 100) 5, [.dispatch (some 100) 5]),
       (.timeout 1, [.timeoutErr 1]), (.msg .event (some 101) 6, [.dispatch (some 101) 6]),
       (.recv (some 100) 7, [.deliver 0 (some 100) 7]), (.msg .event (some 100) 8, [.dispatch (some 100) 8]),
       (.msg .other (some 101) 9, [.drop (some 101) 9])] := by
  decide

/-- hypotheses of `keyed_no_cross_after_timeout` are met by a concrete run -/
example : ktrace .mrp 0 [.send, .send, .timeout 0, .recv (some 1) 3, .recv (some 0) 4]
    = [(.send, [.sent 0 0]), (.send, [.sent 1 1])] ++ (.timeout 0, [.timeoutErr 0]) ::
      ([(.recv (some 1) 3, [.deliver 1 (some 1) 3])] ++ (.recv (some 0) 4, [.dispatch (some 0) 4]) :: []) := by
  decide

/-- `QuietFrom` admits histories with timeouts, late responses and pipelining -/
example : QuietFrom tinit [.send, .send, .recv none 0, .timeout 1, .recv none 1, .send, .send,
    .timeout 3, .recv none 2, .recv none 3] = true := by decide

example : ftrace [.send, .send, .recv none 0, .timeout 1, .recv none 1, .send, .send, .timeout 3,
      .recv none 2, .recv none 3]
    = [(.send, [.sent 0 0]), (.send, [.sent 1 1]), (.recv none 0, [.deliver 0 none 0]),
       (.timeout 1, [.timeoutErr 1]), (.recv none 1, [.drop none 1]), (.send, [.sent 2 2]),
       (.send, [.sent 3 3]), (.timeout 3, [.timeoutErr 3]), (.recv none 2, [.deliver 2 none 2]),
       (.recv none 3, [.drop none 3])] := by decide

/-- a failed send between pipelined requests does not shift the order matching -/
example : ftrace [.send, .sendFail, .send, .send, .recv none 0, .recv none 1, .recv none 2]
    = [(.send, [.sent 0 0]), (.sendFail, [.sendErr]), (.send, [.sent 1 1]), (.send, [.sent 2 2]),
       (.recv none 0, [.deliver 0 none 0]), (.recv none 1, [.deliver 1 none 1]),
       (.recv none 2, [.deliver 2 none 2])] := by decide

/-- … and excludes exactly the D9 shape -/
example : QuietFrom tinit [.send, .timeout 0, .send, .recv none 0] = false := by decide

end PyatvModel.Props.C03
