import PyatvModel.C05.Lemmas
import PyatvModel.C04.Opack.Fuel
/-
C05 (a) — every receive loop and every small decoder leaves within an explicit, linear number of
iterations, whatever bytes arrive.  (DNS: `Props/C05Dns.lean`; discovery: `Props/C05Discover.lean`.)

Reading.  In Lean every definition is total, so "terminates" is stated through the ranking
function: `…Steps` counts the iterations the model loop makes *for any amount of fuel* and is
bounded by the measure; `…Halts` with the fuel taken from the measure is `true`, i.e. the loop
leaves through its own exit (need more data / break / exception), never because the model ran
out of fuel.  The pinned loops of D3a and D3b have no such measure: for them the negation is
proved (`…_pinned_counterexample`: for every fuel `n` the loop has not left).

* `framer_steps` / `framer_halts`      the five framers of C02 whose loop is `Framing.drain`:
      MRP, Companion, HAP session blocks, AirPlay data stream (repaired), HTTP/RTSP client
      (`HttpConnection`): at most `len + 1` extraction attempts.
* `event_steps` / `event_halts`        `EventChannel.handle_received` (repaired, D3b)
* `server_steps` / `server_halts`      `BasicHttpServer.data_received`
* `protobufs_steps` / `protobufs_halts` `decode_protobufs`
* `dataStream_pinned_counterexample`   D3a: a complete header with `size = 0` — never leaves
* `event_pinned_counterexample`        D3b: `b"garbage\r\n\r\n"` — never leaves
* `httpZ_steps` / `httpZ_halts` / `httpZ_event_steps`  the HTTP loops for ANY integer Content-Length
                         (negative values slice from the end): the header block is always consumed
* `control_rounds` / `retransmit_seqs`  RAOP control datagrams: at most 2^16 − 1 rounds, one reduced
                         sequence number per round
* `readTlv_steps`        `read_tlv`: at most `len/2 + 1` `_parse` frames (≥ 2 bytes per item)
* `readVariant_steps`    `read_variant`: at most `len` iterations; the rest returned is the
                         input after exactly that many bytes
* `opack_within_budget`  OPACK `unpack`: recursion depth and number of `_unpack` calls are at most
                         `len + 1` — the model's budget `len + 1` is never exhausted and every
                         `_unpack` call consumes at least one byte (`opack_call_consumes`)
* `dmapParse_frames_partial`  DMAP `_parse`: at most `n/4 + 1` frames when every declared length
                         stays inside what its parent declared.
      Full statement, kept visible:  ∃ c, ∀ data, frames (parse data) ≤ c · (|data| + 1).
      Missing: a container that declares more than the data holds makes `_parse` walk over the
      declared (not the actual) length; the pinned code is stopped there by Python's recursion
      limit only (one stack frame per tag → `RecursionError`, an ordinary exception, after at
      most `sys.getrecursionlimit()` frames).  The harness observes that bound on the real code.
-/
namespace PyatvModel.Props.C05
open PyatvModel PyatvModel.Framing PyatvModel.C05

/-- the loops that are `Framing.drain` of a C02 framer -/
inductive Loop | mrp | companion | hap | dataStream | httpClient
  deriving DecidableEq, Repr

def Loop.steps : Loop → Nat → Bytes → Nat
  | .mrp => drainSteps C02.mrp
  | .companion => drainSteps C02.companion
  | .hap => drainSteps C02.hap
  | .dataStream => drainSteps C02.dataStream
  | .httpClient => drainSteps C02.httpClient

def Loop.halts : Loop → Nat → Bytes → Bool
  | .mrp => drainHalts C02.mrp
  | .companion => drainHalts C02.companion
  | .hap => drainHalts C02.hap
  | .dataStream => drainHalts C02.dataStream
  | .httpClient => drainHalts C02.httpClient

/-- **Step bound, framers**: whatever is in the buffer and whatever fuel the model is given, the
    receive loop makes at most `len + 1` extraction attempts. -/
theorem framer_steps (l : Loop) (fuel : Nat) (b : Bytes) : l.steps fuel b ≤ b.length + 1 := by
  cases l
  · exact drain_steps_le C02.mrp_prefixStable.prog fuel b
  · exact drain_steps_le C02.companion_prefixStable.prog fuel b
  · exact drain_steps_le C02.hap_prefixStable.prog fuel b
  · exact drain_steps_le C02.dataStream_prefixStable.prog fuel b
  · exact drain_steps_le (C02.http_prefixStable C02.responseParams).prog fuel b

/-- … and with `len + 1` fuel it leaves through its own exit test. -/
theorem framer_halts (l : Loop) (b : Bytes) : l.halts (b.length + 1) b = true := by
  cases l
  · exact drain_halts C02.mrp_prefixStable.prog _ b (by omega)
  · exact drain_halts C02.companion_prefixStable.prog _ b (by omega)
  · exact drain_halts C02.hap_prefixStable.prog _ b (by omega)
  · exact drain_halts C02.dataStream_prefixStable.prog _ b (by omega)
  · exact drain_halts (C02.http_prefixStable C02.responseParams).prog _ b (by omega)

/-- a stream of two data-stream frames followed by a header with `size = 5`: three attempts -/
example : Loop.dataStream.steps 100 (([0, 0, 0, 32] ++ List.replicate 28 0) ++ ([0, 0, 0, 33] ++ List.replicate 29 0)
    ++ ([0, 0, 0, 5] ++ List.replicate 28 0)) = 3 := by
  decide +kernel

/-- **D3a, pinned**: `∀ b, ∃ n, the loop has left after n iterations` is false of the pinned data
    stream loop — a complete header with `size = 0` is handed back unchanged for ever. -/
theorem dataStream_pinned_counterexample :
    ¬ (∀ b : Bytes, ∃ n, drainHalts dataStreamPinned n b = true) := by
  intro h
  obtain ⟨n, hn⟩ := h (List.replicate 32 0)
  rw [dataStreamPinned_never_halts (List.replicate 32 0) (by decide) (by decide) n] at hn
  cases hn

/-- the repaired loop on the same buffer: one attempt, `ProtocolError` -/
example : (drainAll C02.dataStream (List.replicate 32 0)).err = some .malformed := by decide +kernel
example : Loop.dataStream.steps 5 (List.replicate 32 0) = 1 := by decide +kernel

/-- **`EventChannel.handle_received`** (repaired) -/
theorem event_steps (fuel : Nat) (b : Bytes) : loopSteps eventStep fuel b ≤ b.length + 1 :=
  loop_steps_le eventStep_consumes fuel b

theorem event_halts (b : Bytes) : loopHalts eventStep (b.length + 1) b = true :=
  loop_halts eventStep_consumes _ b (by omega)

/-- **D3b, pinned**: the swallowed exception makes the loop go round on the same buffer -/
theorem event_pinned_counterexample :
    ¬ (∀ b : Bytes, ∃ n, loopHalts eventStepPinned n b = true) := by
  intro h
  obtain ⟨n, hn⟩ := h garbage
  rw [loop_never_halts eventStepPinned_garbage n] at hn
  cases hn

/-- the repaired loop on the same buffer: one iteration, the buffer is dropped -/
example : loopSteps eventStep 5 garbage = 1 ∧ loopRest eventStep eventFin 5 garbage = some [] := by
  decide +kernel

/-- **`BasicHttpServer.data_received`** -/
theorem server_steps (fuel : Nat) (b : Bytes) : loopSteps serverStep fuel b ≤ b.length + 1 :=
  loop_steps_le serverStep_consumes fuel b

theorem server_halts (b : Bytes) : loopHalts serverStep (b.length + 1) b = true :=
  loop_halts serverStep_consumes _ b (by omega)

example : loopSteps serverStep 5 garbage = 2 := by decide +kernel

/-- **`decode_protobufs`** -/
theorem protobufs_steps (fuel : Nat) (b : Bytes) : loopSteps protobufsStep fuel b ≤ b.length + 1 :=
  loop_steps_le protobufsStep_consumes fuel b

theorem protobufs_halts (b : Bytes) : loopHalts protobufsStep (b.length + 1) b = true :=
  loop_halts protobufsStep_consumes _ b (by omega)

/-- two length-prefixed messages, then a length that runs past the end -/
example : loopSteps protobufsStep 9 [1, 8, 2, 8, 7, 5, 8] = 3 := by decide

/-- **HTTP receive loops, any integer Content-Length** (`int()` accepts "-5"; Python slices then count
    from the end): for every way of reading the headers (`P`), an iteration that yields a message has
    consumed at least the header block — so `HttpConnection.data_received` and
    `EventChannel.handle_received` make at most `len + 1` iterations whatever the header VALUES say. -/
theorem httpZ_steps (P : HttpParamsZ) (fuel : Nat) (b : Bytes) : drainSteps (httpZ P) fuel b ≤ b.length + 1 :=
  drain_steps_le (httpZ_progress P) fuel b

theorem httpZ_halts (P : HttpParamsZ) (b : Bytes) : drainHalts (httpZ P) (b.length + 1) b = true :=
  drain_halts (httpZ_progress P) _ b (by omega)

theorem httpZ_event_steps (P : HttpParamsZ) (fuel : Nat) (b : Bytes) :
    loopSteps (extStep (httpZ P)) fuel b ≤ b.length + 1 :=
  loop_steps_le (extStep_consumes (httpZ_progress P)) fuel b

/-- `Content-Length: -100000` on a 12-byte body: the message is delivered and the whole body is left
    (`body[-100000:]`) — 8 bytes fewer than before, not the same buffer again -/
example : (sliceFrom [1, 2, 3] (-100000)).length = 3 ∧ sliceTo [1, 2, 3] (-100000) = [] ∧
    sliceFrom [1, 2, 3] (-1) = [3] ∧ sliceFrom [1, 2, 3] 2 = [3] := by decide

/-- **RAOP control port** (`ControlClient.datagram_received`): one datagram makes at most `2^16 − 1`
    rounds of the retransmit loop (its 16-bit packet count), the sequence numbers it looks up are
    reduced modulo `2^16`, one per round. -/
theorem control_rounds (data : Bytes) (n : Nat) (h : controlRounds data = some n) : n ≤ 65535 :=
  controlRounds_le data n h

theorem retransmit_seqs (lostSeqno lostPackets : Nat) :
    (retransmitSeqs lostSeqno lostPackets).length = lostPackets ∧
      ∀ s ∈ retransmitSeqs lostSeqno lostPackets, s < 65536 := by
  refine ⟨by simp [retransmitSeqs], ?_⟩
  intro s hs
  simp only [retransmitSeqs, List.mem_map] at hs
  obtain ⟨i, _, rfl⟩ := hs
  exact Nat.mod_lt _ (by decide)

/-- a request spanning the wrap: 65530 … 65535, 0 … 3 -/
example : controlRounds [0x80, 0xD5, 0, 1, 0xFF, 0xFA, 0, 10] = some 10 ∧
    retransmitSeqs 65530 10 = [65530, 65531, 65532, 65533, 65534, 65535, 0, 1, 2, 3] := by decide +kernel

/-- **TLV8 `read_tlv`**: every item takes at least its tag and length byte -/
theorem readTlv_steps (data : Bytes) : tlvSteps data ≤ data.length / 2 + 1 := tlvSteps_le data

example : tlvSteps [1, 0, 2, 1, 9, 3] = 3 := by decide +kernel

/-- **`read_variant`**: one iteration per byte read; what is returned is the input after them -/
theorem readVariant_steps (bs : Bytes) :
    varSteps bs ≤ bs.length ∧
      ∀ n rest, C04.Varint.readVar bs = some (n, rest) → rest = bs.drop (varSteps bs) :=
  ⟨varSteps_le bs, fun n rest h => readLoop_rest bs 0 0 n rest h⟩

example : varSteps [0x80, 0x80, 0x01, 7] = 3 := by decide

/-- **OPACK `unpack`**: the model's recursion budget `len + 1` is never exhausted, on any input … -/
theorem opack_within_budget (data : Bytes) : C04.Opack.unpack data ≠ .error .fuel :=
  C04.Opack.unpack_ne_fuel data

/-- … because every `_unpack` call consumes at least one byte (so depth and number of calls are
    at most `len`), for every budget -/
theorem opack_call_consumes (fuel : Nat) (d : Bytes) (t : C04.Opack.DTable) (v : C04.Opack.Value)
    (r : Bytes) (t' : C04.Opack.DTable) (h : C04.Opack.unpackAux fuel d t = .ok (v, r, t')) :
    r.length < d.length :=
  ((C04.Opack.unpackAux_good fuel) d t).1 v r t' h

/-- **DMAP `_parse`** (partial: declared lengths inside their parent, see the header) -/
theorem dmapParse_frames_partial (lk : Bytes → C04.Dmap.Kind) (utf8 : Bytes → Bool) (fuel : Nat)
    (data : Bytes) (h : dmapDeclOk lk fuel data data.length = true) :
    dmapFrames lk utf8 fuel data data.length ≤ data.length / 4 + 1 := by
  have := dmapFrames_le lk utf8 fuel data data.length h
  omega

/-- a container with one child: inside the domain, three frames + two end-of-region frames -/
example : dmapDeclOk (fun n => if n = [1, 1, 1, 1] then .container else .raw) 10
    ([1, 1, 1, 1, 0, 0, 0, 9, 2, 2, 2, 2, 0, 0, 0, 1, 7]) 17 = true := by decide +kernel
/-- a container that declares 255 bytes in a 8-byte buffer: outside the domain -/
example : dmapDeclOk (fun _ => .container) 10 [1, 1, 1, 1, 0, 0, 0, 255] 8 = false := by decide +kernel

end PyatvModel.Props.C05
