import PyatvModel.C03.Pair
/-
C03 — two protocol objects of one transport alive at once, with arbitrary (also identical)
identifiers in flight on both and arbitrarily interleaved histories: each object behaves exactly
as if it were alone, so every theorem of Props/C03*.lean holds per connection ("each caller
gets its own connection's response").  Generic in the matcher (`kstep cfg`, `fstep`, `rstep`).
-/
namespace PyatvModel.Props.C03
open PyatvModel.C03

theorem instances_independent_gen {σ : Type} (step : σ → Ev → σ × List Out) (evs : List (Bool × Ev)) :
    ∀ s : σ × σ,
      projT false (runP step s evs) = runT step s.1 (projE false evs) ∧
      projT true (runP step s evs) = runT step s.2 (projE true evs) := by
  induction evs with
  | nil => intro s; exact ⟨rfl, rfl⟩
  | cons e es ih =>
    intro s
    obtain ⟨b, ev⟩ := e
    cases b with
    | false =>
      have h := ih (pstep step s (false, ev)).1
      simp only [pstep, Bool.false_eq_true, if_false, projT, projE] at h
      simp only [runP, projT, projE, List.filter, pstep, Bool.false_eq_true, if_false, beq_self_eq_true,
        List.map_cons, runT, show (false == true) = false from rfl]
      exact ⟨by rw [h.1], h.2⟩
    | true =>
      have h := ih (pstep step s (true, ev)).1
      simp only [pstep, if_true, projT, projE] at h
      simp only [runP, projT, projE, List.filter, pstep, if_true, beq_self_eq_true,
        List.map_cons, runT, show (true == false) = false from rfl]
      exact ⟨h.1, by rw [h.2]⟩

/-- **Each connection is matched on its own**: in any interleaving of the histories of two
    objects, what each object outputs at each of its events is exactly what it outputs when it
    runs its own history alone — equal identifiers on the other connection change nothing. -/
theorem instances_independent {σ : Type} (step : σ → Ev → σ × List Out) (s1 s2 : σ)
    (evs : List (Bool × Ev)) :
    projT false (runP step (s1, s2) evs) = runT step s1 (projE false evs) ∧
    projT true (runP step (s1, s2) evs) = runT step s2 (projE true evs) :=
  instances_independent_gen step evs (s1, s2)

/-- two Companion connections using the same XIDs, device A answers first -/
example : runP (kstep .companion) (kinit 100, kinit 100)
      [(false, .send), (true, .send), (false, .recv (some 100) 1), (true, .recv (some 100) 2)]
    = [((false, .send), [.sent 0 100]), ((true, .send), [.sent 0 100]),
       ((false, .recv (some 100) 1), [.deliver 0 (some 100) 1]),
       ((true, .recv (some 100) 2), [.deliver 0 (some 100) 2])] := by decide

end PyatvModel.Props.C03
