import PyatvModel.C03.Lemmas
/-
C03 — the segmentation of the device's message stream is a free parameter of every history:
however the messages are cut into reads (k messages handed over by one `data_received` /
one data-stream frame, for any k), every request gets the same outcome as with one message per
read.  A read is a list of consecutive events processed without the loop running in between;
what is observable after the read is the concatenation of what its events produce.  Generic in
the matcher (`kstep cfg`, `fstep`, `rstep`).  (That the byte framing below a transport is itself
segmentation independent is C02.)
-/
namespace PyatvModel.Props.C03
open PyatvModel.C03

/-- process read by read: per read, everything its events output -/
def runReads {σ : Type} (step : σ → Ev → σ × List Out) : σ → List (List Ev) → List (List Ev × List Out)
  | _, [] => []
  | s, r :: rs => (r, outs (runT step s r)) :: runReads step (finalS step s r) rs

/-- **Segmentation independence of what C03 observes**: the outputs of any cutting of a history
    into reads are, in order, the outputs of the history processed one event at a time. -/
theorem reads_independent {σ : Type} (step : σ → Ev → σ × List Out) (reads : List (List Ev)) :
    ∀ s : σ, (runReads step s reads).flatMap (·.2) = outs (runT step s reads.flatten) := by
  induction reads with
  | nil => intro s; rfl
  | cons r rs ih =>
    intro s
    simp only [runReads, List.flatMap_cons, List.flatten_cons, runT_append, outs_append]
    rw [ih]

/-- … hence every caller completes in the same way (response / timeout error / never),
    whatever the segmentation: two cuttings of the same history give the same outcomes. -/
theorem reads_same_outcomes {σ : Type} (step : σ → Ev → σ × List Out) (s : σ)
    (reads reads' : List (List Ev)) (h : reads.flatten = reads'.flatten) (r : Nat) :
    outcomes r ((runReads step s reads).flatMap (·.2)) =
      outcomes r ((runReads step s reads').flatMap (·.2)) := by
  rw [reads_independent, reads_independent, h]

/-- two pipelined HTTP requests, both responses in one read: each still gets its own -/
example : runReads fstep finit [[.send], [.send], [.recv none 0, .recv none 1]]
    = [([.send], [.sent 0 0]), ([.send], [.sent 1 1]),
       ([.recv none 0, .recv none 1], [.deliver 0 none 0, .deliver 1 none 1])] := by decide

end PyatvModel.Props.C03
