import PyatvModel.C15.Model
/-
C15 — saving settings to file is crash-atomic.

* `safe_atomic`        a trace of the safe-save shape (never touches the target before an
                       atomic `rename tmp target` issued when `tmp` holds the complete new
                       content with nothing pending, never touches it afterwards) leaves, at
                       EVERY crash point (operation boundaries, inside every write/flush),
                       the target with exactly the old or exactly the new content — for all
                       traces, paths, contents and initial file systems.
* `safeSaveB_sound`    the executable shape check used by the driver implies `SafeSave`.
* `repaired_safe`      the operation sequence of the repaired `_save_file` has the shape,
                       for every content and every pair of distinct paths.
* `untouched_old`      a trace that never touches the target (failed save that only cleans
                       its temp file up) leaves the old content at every crash point.
* `inplace_not_atomic` the pinned `_save_file` trace [openTrunc p, write p new, close p] has
                       a crash state where the target is the empty file (D10), for all p/new.
-/
namespace PyatvModel.Props.C15
open PyatvModel PyatvModel.C15

/-- the safe-save shape (DESIGN §5 C15), relative to the file system the save starts in -/
def SafeSave (fs0 : FS) (new : Bytes) (tr : List Op) (t : Path) : Prop :=
  ∃ pre tmp post, tr = pre ++ Op.rename tmp t :: post ∧ tmp ≠ t ∧
    (∀ op ∈ pre, touches t op = false) ∧ (∀ op ∈ post, touches t op = false) ∧
    (run fs0 pre).disk tmp = some new ∧ (run fs0 pre).pend tmp = []

/-- crash states as whole file systems: stop after any prefix of the trace; every file
    shows its disk content plus any prefix of its pending data. -/
def CrashState (fs0 : FS) (tr : List Op) (v : Path → Option Bytes) : Prop :=
  ∃ pre, pre <+: tr ∧ ∀ p, ∃ k, k ≤ ((run fs0 pre).pend p).length ∧
    v p = ((run fs0 pre).disk p).map
      (overwrite · ((run fs0 pre).off p) (((run fs0 pre).pend p).take k))

section Lemmas

theorem overwrite_nil (d : Bytes) (o : Nat) : overwrite d o [] = d := by
  simp [overwrite]

theorem overwrite_empty (bs : Bytes) : overwrite [] 0 bs = bs := by
  simp [overwrite]

theorem step_untouched (fs : FS) (op : Op) (t : Path) (h : touches t op = false) :
    (step fs op).disk t = fs.disk t ∧ (step fs op).pend t = fs.pend t ∧
      (step fs op).off t = fs.off t := by
  cases op <;> simp only [touches, Bool.or_eq_false_iff, beq_eq_false_iff_ne, ne_eq] at h
  case openTrunc p => simp [step, upd, Ne.symm h]
  case openKeep p => simp [step, upd, Ne.symm h]
  case write p bs => simp [step, upd, Ne.symm h]
  case flush p => simp [step, FS.flush, upd, Ne.symm h]
  case fsync p => simp [step]
  case close p => simp [step, FS.flush, upd, Ne.symm h]
  case rename p q =>
    simp only [step]
    split
    · exact ⟨rfl, rfl, rfl⟩
    · simp [upd, Ne.symm h.1, Ne.symm h.2]
  case unlink p => simp [step, upd, Ne.symm h]

theorem views_congr (fs fs' : FS) (t : Path) (hd : fs'.disk t = fs.disk t)
    (hp : fs'.pend t = fs.pend t) (ho : fs'.off t = fs.off t) : views fs' t = views fs t := by
  simp [views, hd, hp, ho]

theorem views_nopend (fs : FS) (t : Path) (hp : fs.pend t = []) : views fs t = [fs.disk t] := by
  simp [views, hp, overwrite_nil]

/-- a trace that never touches `t`: every crash point shows one of the initial views -/
theorem crash_untouched (tr : List Op) (t : Path) : ∀ (fs : FS),
    (∀ op ∈ tr, touches t op = false) → ∀ c ∈ crashTargets fs tr t, c ∈ views fs t := by
  induction tr with
  | nil => intro fs _ c hc; simpa [crashTargets] using hc
  | cons op tr ih =>
    intro fs h c hc
    simp only [crashTargets, List.mem_append] at hc
    rcases hc with hc | hc
    · exact hc
    · have h1 := step_untouched fs op t (h op (by simp))
      have := ih (step fs op) (fun o ho => h o (by simp [ho])) c hc
      rwa [views_congr _ _ _ h1.1 h1.2.1 h1.2.2] at this

theorem run_untouched (tr : List Op) (t : Path) : ∀ (fs : FS),
    (∀ op ∈ tr, touches t op = false) →
    (run fs tr).disk t = fs.disk t ∧ (run fs tr).pend t = fs.pend t ∧
      (run fs tr).off t = fs.off t := by
  induction tr with
  | nil => intro fs _; exact ⟨rfl, rfl, rfl⟩
  | cons op tr ih =>
    intro fs h
    have h1 := step_untouched fs op t (h op (by simp))
    have h2 := ih (step fs op) (fun o ho => h o (by simp [ho]))
    simp only [run, List.foldl_cons] at h2 ⊢
    exact ⟨h2.1.trans h1.1, h2.2.1.trans h1.2.1, h2.2.2.trans h1.2.2⟩

theorem crashTargets_append (pre : List Op) (tr : List Op) (t : Path) : ∀ (fs : FS) c,
    c ∈ crashTargets fs (pre ++ tr) t →
    (∃ pre', pre' <+: pre ∧ c ∈ views (run fs pre') t) ∨ c ∈ crashTargets (run fs pre) tr t := by
  induction pre with
  | nil => intro fs c hc; right; simpa [run] using hc
  | cons op pre ih =>
    intro fs c hc
    simp only [List.cons_append, crashTargets, List.mem_append] at hc
    rcases hc with hc | hc
    · left; exact ⟨[], List.nil_prefix, by simpa [run] using hc⟩
    · rcases ih (step fs op) c hc with ⟨p', hp', hv⟩ | h
      · left; exact ⟨op :: p', by simpa using hp', by simpa [run] using hv⟩
      · right; simpa [run] using h

theorem mem_crashTargets_of_prefix (tr : List Op) (t : Path) : ∀ (fs : FS) (pre : List Op),
    pre <+: tr → ∀ c ∈ views (run fs pre) t, c ∈ crashTargets fs tr t := by
  induction tr with
  | nil =>
    intro fs pre hp c hc
    have : pre = [] := List.prefix_nil.mp hp
    subst this; simpa [crashTargets, run] using hc
  | cons op tr ih =>
    intro fs pre hp c hc
    cases pre with
    | nil => simp only [crashTargets, List.mem_append]; left; simpa [run] using hc
    | cons o pre =>
      obtain ⟨ho, hp'⟩ := List.cons_prefix_cons.mp hp
      subst ho
      simp only [crashTargets, List.mem_append]; right
      exact ih (step fs o) pre hp' c (by simpa [run] using hc)

theorem splitTouch_spec (t : Path) (tr : List Op) :
    (∀ op ∈ (splitTouch t tr).1, touches t op = false) ∧
    match (splitTouch t tr).2 with
    | none => tr = (splitTouch t tr).1
    | some (op, post) => tr = (splitTouch t tr).1 ++ op :: post := by
  induction tr with
  | nil => simp [splitTouch]
  | cons op tr ih =>
    by_cases h : touches t op = true
    · simp [splitTouch, h]
    · simp only [splitTouch, h, Bool.false_eq_true, if_false]
      obtain ⟨ih1, ih2⟩ := ih
      refine ⟨?_, ?_⟩
      · intro o ho
        rcases List.mem_cons.mp ho with rfl | ho
        · simpa using h
        · exact ih1 o ho
      · cases hs : (splitTouch t tr).2 with
        | none => simp only [hs] at ih2; simp; exact ih2
        | some x => obtain ⟨o, post⟩ := x; simp only [hs] at ih2; simpa using ih2

end Lemmas

/-! ## Property theorems -/

/-- **C15, atomicity of the safe-save shape.**  For every trace of that shape, from any
    file system in which the target holds `old` (possibly absent) with nothing pending, every
    crash point leaves the target holding exactly `old` or exactly `new`. -/
theorem safe_atomic (fs0 : FS) (old : Option Bytes) (new : Bytes) (tr : List Op) (t : Path)
    (hold : fs0.disk t = old) (hpend : fs0.pend t = [])
    (hs : SafeSave fs0 new tr t) :
    ∀ c ∈ crashTargets fs0 tr t, c = old ∨ c = some new := by
  obtain ⟨pre, tmp, post, rfl, hne, hpre, hpost, hdisk, hp⟩ := hs
  intro c hc
  rcases crashTargets_append pre _ t fs0 c hc with ⟨p', hp', hv⟩ | hc
  · -- before the rename: target untouched
    left
    have hsub : ∀ op ∈ p', touches t op = false := fun o ho => hpre o (hp'.subset ho)
    have := run_untouched p' t fs0 hsub
    rw [views_congr fs0 _ t this.1 this.2.1 this.2.2, views_nopend _ _ hpend] at hv
    simpa [hold] using hv
  · have hu := run_untouched pre t fs0 hpre
    simp only [crashTargets, List.mem_append] at hc
    rcases hc with hc | hc
    · left
      rw [views_congr fs0 _ t hu.1 hu.2.1 hu.2.2, views_nopend _ _ hpend] at hc
      simpa [hold] using hc
    · right
      have hv := crash_untouched post t _ hpost c hc
      have hd : (step (run fs0 pre) (Op.rename tmp t)).disk t = some new := by
        simp [step, hdisk, upd, Ne.symm hne]
      have hq : (step (run fs0 pre) (Op.rename tmp t)).pend t = [] := by
        simp [step, hdisk, upd, hp, Ne.symm hne]
      rw [views_nopend _ _ hq, hd] at hv
      simpa using hv

/-- the same for crash states taken as whole file systems (DESIGN's `crashStates`) -/
theorem safe_atomic_fs (fs0 : FS) (old : Option Bytes) (new : Bytes) (tr : List Op) (t : Path)
    (hold : fs0.disk t = old) (hpend : fs0.pend t = [])
    (hs : SafeSave fs0 new tr t) (v : Path → Option Bytes) (hv : CrashState fs0 tr v) :
    v t = old ∨ v t = some new := by
  obtain ⟨pre, hp, hall⟩ := hv
  obtain ⟨k, hk, hvt⟩ := hall t
  apply safe_atomic fs0 old new tr t hold hpend hs
  apply mem_crashTargets_of_prefix tr t fs0 pre hp
  simp only [views, List.mem_map, List.mem_range]
  exact ⟨k, by omega, hvt.symm⟩

/-- the driver's executable check is sound for the shape -/
theorem safeSaveB_sound (fs0 : FS) (new : Bytes) (tr : List Op) (t : Path)
    (h : safeSaveB fs0 new tr t = true) : SafeSave fs0 new tr t := by
  unfold safeSaveB at h
  have hspec := splitTouch_spec t tr
  split at h
  next pre tmp q post heq =>
    rw [heq] at hspec
    simp only [Bool.and_eq_true, beq_iff_eq, bne_iff_ne, ne_eq, List.all_eq_true,
      Bool.not_eq_true'] at h
    obtain ⟨⟨⟨⟨hq, hne⟩, hd⟩, hp⟩, hpost⟩ := h
    subst hq
    exact ⟨pre, tmp, post, hspec.2, hne, hspec.1, hpost, hd, hp⟩
  next => exact absurd h (by simp)

/-- a save that fails before the rename and only cleans up its temp file never shows
    anything but the old content -/
theorem untouched_old (fs0 : FS) (old : Option Bytes) (tr : List Op) (t : Path)
    (hold : fs0.disk t = old) (hpend : fs0.pend t = [])
    (h : ∀ op ∈ tr, touches t op = false) :
    ∀ c ∈ crashTargets fs0 tr t, c = old := by
  intro c hc
  have := crash_untouched tr t fs0 h c hc
  rw [views_nopend _ _ hpend] at this
  simpa [hold] using this

/-- the operation sequence issued by the repaired `_save_file` -/
def repairedTrace (tmp t : Path) (new : Bytes) : List Op :=
  [.openTrunc tmp, .write tmp new, .flush tmp, .fsync tmp, .close tmp, .rename tmp t]

/-- **C15 on the repaired code's trace shape**: it is a safe save, for every content, every
    initial file system and every temp path different from the target. -/
theorem repaired_safe (fs0 : FS) (new : Bytes) (tmp t : Path) (hne : tmp ≠ t) :
    SafeSave fs0 new (repairedTrace tmp t new) t := by
  refine ⟨[.openTrunc tmp, .write tmp new, .flush tmp, .fsync tmp, .close tmp], tmp, [],
    rfl, hne, ?_, by simp, ?_, ?_⟩
  · intro op hop
    simp only [List.mem_cons, List.not_mem_nil, or_false] at hop
    rcases hop with rfl | rfl | rfl | rfl | rfl <;> simp [touches, hne]
  · simp [run, step, FS.flush, upd, overwrite_empty, overwrite_nil]
  · simp [run, step, FS.flush, upd]

theorem repaired_atomic (old : Option Bytes) (new : Bytes) (tmp t : Path) (hne : tmp ≠ t) :
    ∀ c ∈ crashTargets (initFS t old) (repairedTrace tmp t new) t, c = old ∨ c = some new :=
  safe_atomic _ old new _ t (by simp [initFS]) rfl (repaired_safe _ new tmp t hne)

/-- the operation sequence issued by the pinned `_save_file` (`open(filename, "w")`) -/
def inplaceTrace (t : Path) (new : Bytes) : List Op :=
  [.openTrunc t, .write t new, .close t]

/-- **D10.**  Writing in place is not atomic: there is a crash point where the target is the
    empty file — for every path, every new content, every initial file system. -/
theorem inplace_not_atomic (fs0 : FS) (new : Bytes) (t : Path) :
    some [] ∈ crashTargets fs0 (inplaceTrace t new) t := by
  simp only [inplaceTrace, crashTargets, List.mem_append]
  right; left
  simp [views, step, upd, overwrite_empty]

/-- hence, whenever old and new contents are non-empty, the full-strength claim fails for
    the in-place trace -/
theorem inplace_counterexample (old new : Bytes) (t : Path) (ho : old ≠ []) (hn : new ≠ []) :
    ¬ (∀ c ∈ crashTargets (initFS t (some old)) (inplaceTrace t new) t,
        c = some old ∨ c = some new) := by
  intro h
  rcases h _ (inplace_not_atomic (initFS t (some old)) new t) with h | h
  · exact ho (by simpa using h.symm)
  · exact hn (by simpa using h.symm)

/-- every truncation of `new` is also a possible crash content of the in-place trace -/
theorem inplace_truncated (fs0 : FS) (new : Bytes) (t : Path) (k : Nat) (hk : k ≤ new.length) :
    some (new.take k) ∈ crashTargets fs0 (inplaceTrace t new) t := by
  simp only [inplaceTrace, crashTargets, List.mem_append]
  right; right; left
  simp only [views, List.mem_map, List.mem_range]
  exact ⟨k, by simp [step, upd]; omega, by simp [step, upd, overwrite_empty]⟩

/-! ### a single failing operation (fault injection) -/

/-- the repaired `_save_file` when `os.replace` (or any earlier step) raises: what was done
    up to the fault, then only the temp file is closed and removed -/
def failedRenameTrace (tmp : Path) (new : Bytes) : List Op :=
  [.openTrunc tmp, .write tmp new, .flush tmp, .fsync tmp, .close tmp, .unlink tmp]

/-- **C15 with a failing rename (or earlier fault): clean-up only.**  Every prefix-closed
    variant of the repaired sequence that ends with temp-file clean-up instead of the rename
    leaves the OLD content at every crash point. -/
theorem failed_rename_cleanup_old (fs0 : FS) (old : Option Bytes) (new : Bytes) (tmp t : Path)
    (hne : tmp ≠ t) (hold : fs0.disk t = old) (hpend : fs0.pend t = []) :
    ∀ c ∈ crashTargets fs0 (failedRenameTrace tmp new) t, c = old := by
  apply untouched_old fs0 old _ t hold hpend
  intro op hop
  simp only [failedRenameTrace, List.mem_cons, List.not_mem_nil, or_false] at hop
  rcases hop with rfl | rfl | rfl | rfl | rfl | rfl <;> simp [touches, hne]

/-- **Any fallback that truncates the target in place is unsafe**, wherever it occurs in the
    trace (e.g. after a failed rename): a trace containing `openTrunc target` has a crash
    point at which the target is the empty file — for all traces and file systems. -/
theorem openTrunc_exposes_empty (fs0 : FS) (tr : List Op) (t : Path)
    (h : Op.openTrunc t ∈ tr) : some [] ∈ crashTargets fs0 tr t := by
  obtain ⟨pre, post, rfl⟩ := List.append_of_mem h
  apply mem_crashTargets_of_prefix _ t fs0 (pre ++ [Op.openTrunc t])
  · exact ⟨post, by simp⟩
  · have : run fs0 (pre ++ [Op.openTrunc t]) = step (run fs0 pre) (Op.openTrunc t) := by
      simp [run, List.foldl_append]
    rw [this]
    simp [views, step, upd, overwrite_empty]

/-- hence such a trace is never of the safe shape when old and new are non-empty files -/
theorem openTrunc_not_safe (fs0 : FS) (old new : Bytes) (tr : List Op) (t : Path)
    (hold : fs0.disk t = some old) (hpend : fs0.pend t = []) (ho : old ≠ []) (hn : new ≠ [])
    (h : Op.openTrunc t ∈ tr) : ¬ SafeSave fs0 new tr t := by
  intro hs
  rcases safe_atomic fs0 (some old) new tr t hold hpend hs _ (openTrunc_exposes_empty fs0 tr t h) with h | h
  · exact ho (by simpa using h.symm)
  · exact hn (by simpa using h.symm)

/-- the fallback of seeded change "write directly when os.replace fails": failed rename, then
    truncate-and-rewrite of the target -/
example : some [] ∈ crashTargets (initFS "conf" (some [1, 2, 3]))
    [.openTrunc "tmp", .write "tmp" [9, 8], .flush "tmp", .fsync "tmp", .close "tmp",
     .openTrunc "conf", .write "conf" [9, 8], .flush "conf", .fsync "conf", .close "conf",
     .unlink "tmp"] "conf" :=
  openTrunc_exposes_empty _ _ _ (by decide)

example : ∀ c ∈ crashTargets (initFS "conf" (some [1, 2, 3])) (failedRenameTrace "conf.tmp1" [9, 8]) "conf",
    c = some [1, 2, 3] :=
  failed_rename_cleanup_old _ _ _ _ _ (by decide) (by simp [initFS]) rfl

/-! ### the initial directory: leftovers of an earlier, crashed save -/

/-- a save whose temp file is opened WITHOUT truncation (`os.open(O_WRONLY|O_CREAT)`) -/
def keepTrace (tmp t : Path) (new : Bytes) : List Op :=
  [.openKeep tmp, .write tmp new, .flush tmp, .fsync tmp, .close tmp, .rename tmp t]

/-- from a directory without leftover temp file that sequence is a safe save … -/
theorem keep_clean_dir_safe (fs0 : FS) (new : Bytes) (tmp t : Path) (hne : tmp ≠ t)
    (hclean : fs0.disk tmp = none) : SafeSave fs0 new (keepTrace tmp t new) t := by
  refine ⟨[.openKeep tmp, .write tmp new, .flush tmp, .fsync tmp, .close tmp], tmp, [],
    rfl, hne, ?_, by simp, ?_, ?_⟩
  · intro op hop
    simp only [List.mem_cons, List.not_mem_nil, or_false] at hop
    rcases hop with rfl | rfl | rfl | rfl | rfl <;> simp [touches, hne]
  · simp [run, step, FS.flush, upd, hclean, overwrite_empty, overwrite_nil]
  · simp [run, step, FS.flush, upd]

/-- … but when an earlier save was killed and left `stale` in the temp file, the new
    content only overwrites its beginning: the file that is renamed over the target is
    `new ++ (tail of stale)` — a mixed file whenever `stale` is longer than `new`.  This is
    why crash points are also enumerated from every crash state of a previous save. -/
theorem keep_leftover_mixed (fs0 : FS) (stale new : Bytes) (tmp t : Path) (hne : tmp ≠ t)
    (hstale : fs0.disk tmp = some stale) :
    some (new ++ stale.drop new.length) ∈ crashTargets fs0 (keepTrace tmp t new) t := by
  apply mem_crashTargets_of_prefix _ t fs0 (keepTrace tmp t new) (List.prefix_refl _)
  have hd : (run fs0 (keepTrace tmp t new)).disk t = some (new ++ stale.drop new.length) := by
    simp [keepTrace, run, step, FS.flush, upd, hstale, overwrite, Ne.symm hne]
  have hp : (run fs0 (keepTrace tmp t new)).pend t = [] := by
    simp [keepTrace, run, step, FS.flush, upd, hstale, Ne.symm hne]
  rw [views_nopend _ _ hp, hd]; simp

theorem keep_leftover_not_safe (fs0 : FS) (old : Option Bytes) (stale new : Bytes) (tmp t : Path)
    (hne : tmp ≠ t) (hold : fs0.disk t = old) (hpend : fs0.pend t = [])
    (hstale : fs0.disk tmp = some stale) (hlen : new.length < stale.length)
    (hmix : old ≠ some (new ++ stale.drop new.length)) :
    ¬ SafeSave fs0 new (keepTrace tmp t new) t := by
  intro hs
  rcases safe_atomic fs0 old new _ t hold hpend hs _ (keep_leftover_mixed fs0 stale new tmp t hne hstale)
    with h | h
  · exact hmix h.symm
  · have : (new ++ stale.drop new.length).length = new.length := by
      have := congrArg (Option.map List.length) h; simpa using this
    simp at this; omega

example : crashTargets (initFSx "conf" (some [1]) [("conf.tmp1", [5, 6, 7, 8])]) (keepTrace "conf.tmp1" "conf" [9]) "conf"
    = [some [1], some [1], some [1], some [1], some [1], some [1], some [9, 6, 7, 8]] := by decide

example : safeSaveB (initFSx "conf" (some [1]) [("conf.tmp1", [5, 6, 7, 8])]) [9] (keepTrace "conf.tmp1" "conf" [9]) "conf"
    = false := by decide

example : safeSaveB (initFSx "conf" (some [1]) [("conf.tmp1", [5, 6, 7, 8])]) [9] (repairedTrace "conf.tmp1" "conf" [9]) "conf"
    = true := by decide

/-! ### partial success of a primitive: a short write that is not noticed -/

/-- when the write accepted only `part` of the data and nobody noticed, the rest of the
    repaired sequence runs on `part`: the truncated temp file is renamed over the target -/
theorem short_write_exposes_truncated (fs0 : FS) (part : Bytes) (tmp t : Path) (hne : tmp ≠ t) :
    some part ∈ crashTargets fs0 (repairedTrace tmp t part) t := by
  apply mem_crashTargets_of_prefix _ t fs0 (repairedTrace tmp t part) (List.prefix_refl _)
  have hd : (run fs0 (repairedTrace tmp t part)).disk t = some part := by
    simp [repairedTrace, run, step, FS.flush, upd, overwrite_empty, overwrite_nil, Ne.symm hne]
  have hp : (run fs0 (repairedTrace tmp t part)).pend t = [] := by
    simp [repairedTrace, run, step, FS.flush, upd, Ne.symm hne]
  rw [views_nopend _ _ hp, hd]; simp

/-- **an unnoticed short write is not a safe save of `new`**: the trace that really happened is
    the repaired sequence for `part ≠ new`; it leaves the target holding `part`, which is neither
    the old nor the new content -/
theorem short_write_not_safe (fs0 : FS) (old : Option Bytes) (new part : Bytes) (tmp t : Path)
    (hne : tmp ≠ t) (hold : fs0.disk t = old) (hpend : fs0.pend t = [])
    (hpart : part ≠ new) (hold' : old ≠ some part) :
    ¬ SafeSave fs0 new (repairedTrace tmp t part) t := by
  intro hs
  rcases safe_atomic fs0 old new _ t hold hpend hs _ (short_write_exposes_truncated fs0 part tmp t hne) with h | h
  · exact hold' h.symm
  · exact hpart (by simpa using h)

example : safeSaveB (initFS "conf" (some [1, 2, 3])) [9, 8, 7] (repairedTrace "conf.tmp1" "conf" [9, 8]) "conf" = false := by
  decide

/-! ### two savers sharing one temp file -/

/-- when a second writer truncates the temp file that the first writer is about to rename
    (same temp name in two processes), the rename installs the empty file: whatever happened
    before, `… openTrunc tmp, rename tmp target` has a crash point with an empty target -/
theorem shared_tmp_exposes_empty (fs0 : FS) (pre post : List Op) (tmp t : Path) (hne : tmp ≠ t) :
    some [] ∈ crashTargets fs0 (pre ++ [.openTrunc tmp, .rename tmp t] ++ post) t := by
  apply mem_crashTargets_of_prefix _ t fs0 (pre ++ [.openTrunc tmp, .rename tmp t])
  · exact ⟨post, rfl⟩
  · have : run fs0 (pre ++ [Op.openTrunc tmp, Op.rename tmp t])
        = step (step (run fs0 pre) (Op.openTrunc tmp)) (Op.rename tmp t) := by
      simp [run, List.foldl_append]
    rw [this]
    simp [views, step, upd, overwrite_empty, Ne.symm hne]

/-- the driver prints `crashGroups`; flattened it is exactly `crashTargets` -/
theorem crashGroups_flatten (tr : List Op) (t : Path) : ∀ fs : FS,
    (crashGroups fs tr t).flatten = crashTargets fs tr t := by
  induction tr with
  | nil => intro fs; simp [crashGroups, crashTargets]
  | cons op tr ih => intro fs; simp [crashGroups, crashTargets, ih]

/-! ## Non-vacuity -/

example : SafeSave (initFS "conf" (some [1, 2, 3])) [9, 8]
    (repairedTrace "conf.tmp1" "conf" [9, 8]) "conf" :=
  repaired_safe _ _ _ _ (by decide)

example : safeSaveB (initFS "conf" (some [1, 2, 3])) [9, 8]
    (repairedTrace "conf.tmp1" "conf" [9, 8]) "conf" = true := by decide

example : crashTargets (initFS "conf" (some [1, 2, 3])) (repairedTrace "conf.tmp1" "conf" [9, 8]) "conf"
    = [some [1, 2, 3], some [1, 2, 3], some [1, 2, 3], some [1, 2, 3], some [1, 2, 3],
       some [1, 2, 3], some [9, 8]] := by decide

/-- hypothesis of `untouched_old`: the clean-up trace of a save whose write failed -/
example : ∀ op ∈ [Op.openTrunc "conf.tmp1", .close "conf.tmp1", .unlink "conf.tmp1"],
    touches "conf" op = false := by decide

/-- renaming before the data is flushed is rejected by the shape and really is unsafe -/
example : safeSaveB (initFS "conf" (some [1])) [9, 8]
    [.openTrunc "tmp", .write "tmp" [9, 8], .rename "tmp" "conf", .close "conf"] "conf" = false := by
  decide

example : some [9] ∈ crashTargets (initFS "conf" (some [1]))
    [.openTrunc "tmp", .write "tmp" [9, 8], .rename "tmp" "conf", .close "conf"] "conf" := by
  decide

example : safeSaveB (initFS "conf" (some [1])) [9, 8] (inplaceTrace "conf" [9, 8]) "conf" = false := by
  decide

example : CrashState (initFS "conf" (some [1])) (inplaceTrace "conf" [9, 8])
    (fun p => if p = "conf" then some [9] else none) := by
  refine ⟨[.openTrunc "conf", .write "conf" [9, 8]], ⟨[.close "conf"], rfl⟩, fun p => ?_⟩
  by_cases hp : p = "conf"
  · subst hp; exact ⟨1, by decide, by decide⟩
  · exact ⟨0, Nat.zero_le _, by simp [run, step, upd, initFS, hp]⟩

end PyatvModel.Props.C15
