import PyatvModel.C04.Datastream.Lemmas
/-
C04 / data-stream messages (pyatv/protocols/airplay/channels.py encode_message, encode_reply,
decode_message, the buffer loop of handle_received).  Property theorems only.

* `decode_encode`    for every message of the domain `Msg.Ok` — payload of ANY length, including
                     the empty payload of replies — and whatever follows it in the buffer:
                     `decode_message(encode_message(m) + rest) = (m, encode_message(m), rest)`;
* `encode_size`      the frame is 32 + len(payload) bytes and its size field says so;
* `reply_roundtrip`  `encode_reply(seqno)` (size field exactly 32) decodes back to the reply;
* `receive_all`      a buffer holding any number of encoded messages followed by an incomplete
                     tail is taken apart by `handle_received` into exactly those messages, in
                     order, the tail left in the buffer, nothing raised;
* `undersized_rejected`  a size field below 32 is the only thing `decode_message` rejects on a
                     full header, and it then leaves the buffer alone;
* `hdr_is_gen`       the header layout used here is the one regenerated from the source tree.
-/
namespace PyatvModel.Props.C04Datastream
open PyatvModel PyatvModel.C04.Datastream
open PyatvModel.C04.Headers (layoutOf enc decExcess)

theorem hdr_is_gen : layoutOf PyatvModel.Gen.C04Headers.DataHeader = some hdr
    ∧ PyatvModel.Gen.C04Headers.DataHeader.size = hdrLen := by decide

/-- **C04 data-stream message round trip**, all payload lengths ≥ 0, any following bytes. -/
theorem decode_encode (m : Msg) (hok : m.Ok) :
    ∃ bs, encodeMessage m = some bs ∧ ∀ rest, decodeMessage (bs ++ rest) = .msg m bs rest := by
  obtain ⟨bs, he, _, hd⟩ := PyatvModel.C04.Datastream.decode_encode m hok
  exact ⟨bs, he, hd⟩

/-- non-vacuity: a payload-less reply, a payload-less sync and a message with payload are in the domain -/
example : Msg.Ok ⟨rply, [0, 0, 0, 0], 2 ^ 64 - 1, 0, []⟩
    ∧ Msg.Ok ⟨[0x73, 0x79, 0x6e, 0x63, 0, 0, 0, 0, 0, 0, 0, 0], [0x63, 0x6f, 0x6d, 0x6d], 5, 0, []⟩
    ∧ Msg.Ok ⟨[0x73, 0x79, 0x6e, 0x63, 0, 0, 0, 0, 0, 0, 0, 0], [0x63, 0x6f, 0x6d, 0x6d], 5, 0, [1, 2, 3]⟩
    ∧ ¬ Msg.Ok ⟨[0x73], [0x63, 0x6f, 0x6d, 0x6d], 5, 0, []⟩ := by decide

theorem encode_size (m : Msg) (hok : m.Ok) :
    ∃ bs, encodeMessage m = some bs ∧ bs.length = hdrLen + m.payload.length
      ∧ decExcess hdr bs = some [.int (hdrLen + m.payload.length), .bytes m.messageType, .bytes m.command,
          .int m.seqno, .int m.padding] := by
  obtain ⟨bs, he, hl, hd⟩ := PyatvModel.C04.Datastream.decode_encode m hok
  refine ⟨bs, he, hl, ?_⟩
  -- read the header back through the decoder's own result
  have h := hd []
  rw [List.append_nil] at h
  unfold decodeMessage at h
  have h1 : ¬ bs.length < hdrLen := by omega
  simp only [h1, if_false] at h
  obtain ⟨hmt, hcmd, hseq, hpad, hsize⟩ := hok
  have hfits : PyatvModel.C04.Headers.Fits hdr [.int (hdrLen + m.payload.length), .bytes m.messageType,
      .bytes m.command, .int m.seqno, .int m.padding] := ⟨hsize, hmt, hcmd, hseq, hpad, trivial⟩
  obtain ⟨hb, heb, hlb, hdb⟩ := PyatvModel.C04.Headers.enc_decFields hdr _ hfits
  have hbs : bs = hb ++ m.payload := by
    simp only [encodeMessage, heb] at he; cases he; rfl
  have hlen : hb.length = 32 := by rw [hlb, width_hdr]
  have := hdb []
  rw [List.append_nil] at this
  rw [hbs]
  simp [decExcess, PyatvModel.C04.Headers.dec, width_hdr, ← hlen, this]

/-- **replies** (no payload, size field = 32) round-trip -/
theorem reply_roundtrip (seqno : Nat) (h : seqno < 256 ^ 8) :
    ∃ bs, encodeReply seqno = some bs ∧ bs.length = 32
      ∧ ∀ rest, decodeMessage (bs ++ rest) = .msg ⟨rply, [0, 0, 0, 0], seqno, 0, []⟩ bs rest := by
  have hok : Msg.Ok ⟨rply, [0, 0, 0, 0], seqno, 0, []⟩ := ⟨rfl, rfl, h, by simp, by simp [hdrLen]⟩
  obtain ⟨bs, he, hl, hd⟩ := PyatvModel.C04.Datastream.decode_encode _ hok
  exact ⟨bs, he, by simpa [hdrLen] using hl, hd⟩

example : encodeReply 14936527117008585134
    = some [0x00, 0x00, 0x00, 0x20, 0x72, 0x70, 0x6c, 0x79, 0, 0, 0, 0, 0, 0, 0, 0,
            0, 0, 0, 0, 0xcf, 0x49, 0x34, 0x46, 0x9b, 0x49, 0x41, 0xae, 0, 0, 0, 0] := by decide

/-- **several messages per buffer**: all of them, in order; the incomplete tail stays -/
theorem receive_all (ms : List (Msg × Bytes)) (tail : Bytes)
    (hms : ∀ p ∈ ms, p.1.Ok ∧ encodeMessage p.1 = some p.2)
    (htail : decodeMessage tail = .need) :
    handleReceived ((ms.map (·.2)).flatten ++ tail) = (ms.map (·.1), tail, false) := by
  apply drain_all ms tail hms htail
  -- every encoded message has at least 32 bytes, so the buffer is at least as long as the list
  have : ∀ (l : List (Msg × Bytes)), (∀ p ∈ l, p.1.Ok ∧ encodeMessage p.1 = some p.2) →
      l.length ≤ ((l.map (·.2)).flatten).length := by
    intro l
    induction l with
    | nil => intro _; simp
    | cons p ps ih =>
      intro h
      obtain ⟨hok, he⟩ := h p (by simp)
      obtain ⟨bs, he', hl, _⟩ := PyatvModel.C04.Datastream.decode_encode p.1 hok
      rw [he] at he'; cases he'
      have := ih (fun q hq => h q (by simp [hq]))
      simp only [List.map_cons, List.flatten_cons, List.length_append, List.length_cons, hl, hdrLen]
      omega
  have := this ms hms
  simp only [List.length_append]
  omega

/-- tails that count as incomplete: fewer than 32 bytes, or a header announcing more than is there -/
example : decodeMessage [] = .need ∧ decodeMessage [0, 0, 0, 0x20, 1, 2, 3] = .need := by decide

theorem undersized_rejected (data : Bytes) (h : hdrLen ≤ data.length)
    (size : Nat) (mt cmd : Bytes) (seqno pad : Nat)
    (hd : decExcess hdr data = some [.int size, .bytes mt, .bytes cmd, .int seqno, .int pad]) :
    (decodeMessage data = .protocolError ↔ size < hdrLen)
    ∧ (size < hdrLen → handleReceived data = ([], data, true)) := by
  have h1 : ¬ data.length < hdrLen := by omega
  constructor
  · simp only [decodeMessage, h1, if_false, hd]
    constructor
    · intro he
      by_cases hs : size < hdrLen
      · exact hs
      · rw [if_neg hs] at he; split at he <;> cases he
    · intro hs; rw [if_pos hs]
  · intro hs
    have : decodeMessage data = .protocolError := by
      simp only [decodeMessage, h1, if_false, hd, if_pos hs]
    simp only [handleReceived, drain, h1, if_false, this]

end PyatvModel.Props.C04Datastream
