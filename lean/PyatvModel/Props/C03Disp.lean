import PyatvModel.C03.LemmasDisp
/-
C03 — "messages that answer no outstanding request reach the subscribed listeners exactly once":
the subscription side.  The matchers (Props/C03.lean) hand such a message to the dispatcher
exactly once (`mrp_unmatched_dispatched_once`: output `[dispatch k v]`); here: what ONE
`dispatch(type, message)` does, for every sequence of `listen_to` calls (any number of
subscriptions, the same callable subscribed repeatedly, any filters, any types).
-/
namespace PyatvModel.Props.C03
open PyatvModel.C03

/-- the subscriptions (positions among all `listen_to` calls) called for one message -/
abbrev called (subs : List Sub) (ty v : Nat) : List Nat := (ddispatch (drun subs) ty v).map Prod.fst

/-- **Each message is delivered to every subscription whose type and filter accept it exactly
    once, and to no other**: no subscription is called twice, and subscription `i` is called iff
    it exists, is for this message type and its filter accepts the message. -/
theorem dispatcher_exactly_once (subs : List Sub) (ty v : Nat) :
    (called subs ty v).Nodup ∧
    ∀ i, i ∈ called subs ty v ↔ ∃ s, subs[i]? = some s ∧ s.ty = ty ∧ s.flt v = true := by
  have inv := dinv_run subs
  constructor
  · have hs := inv.sorted ty
    have h1 : ((drun subs).tbl ty |>.filter fun e => e.sub.flt v).Pairwise fun a b => a.sid < b.sid :=
      hs.sublist List.filter_sublist
    simp only [called, ddispatch, List.map_map]
    unfold List.Nodup
    rw [List.pairwise_map]
    exact h1.imp (fun hab => Nat.ne_of_lt hab)
  · intro i
    simp only [called, ddispatch, List.map_map, List.mem_map, List.mem_filter, Function.comp]
    constructor
    · rintro ⟨e, ⟨he, hf⟩, rfl⟩
      have := inv.sound ty e he
      exact ⟨e.sub, this.1, this.2, hf⟩
    · rintro ⟨s, hs, hty, hf⟩
      obtain ⟨e, he, h1, h2⟩ := inv.complete i s hs
      rw [hty] at he
      exact ⟨e, ⟨he, by rw [h2]; exact hf⟩, h1⟩

/-- every call goes to the callable of the subscription it is made for -/
theorem dispatcher_right_callable (subs : List Sub) (ty v i l : Nat)
    (h : (i, l) ∈ ddispatch (drun subs) ty v) : ∃ s, subs[i]? = some s ∧ s.lid = l := by
  have inv := dinv_run subs
  simp only [ddispatch, List.mem_map, List.mem_filter] at h
  obtain ⟨e, ⟨he, _⟩, heq⟩ := h
  cases heq
  exact ⟨e.sub, (inv.sound ty e he).1, rfl⟩

/-- the number of times a callable is invoked is the number of ITS subscriptions that accept:
    a later subscription of the same callable never replaces an earlier one. -/
theorem dispatcher_same_callable_twice (ty l v : Nat) (f g : Nat → Bool) (hf : f v = true) (hg : g v = false) :
    ddispatch (drun [⟨ty, l, f⟩, ⟨ty, l, g⟩]) ty v = [(0, l)] := by
  simp [drun, dlisten, dinit, ddispatch, List.filter, hf, hg]

/-- **Listeners that raise do not take the message away from the others**: whatever subset of
    the calls raises, every subscription whose type and filter accept the message is still
    called exactly once, and no other. -/
theorem dispatcher_raising_listener_isolated (raises : Nat → Nat → Bool) (subs : List Sub) (ty v : Nat) :
    ((dcalls raises (drun subs) ty v).map fun c => c.1).Nodup ∧
    ∀ i, i ∈ ((dcalls raises (drun subs) ty v).map fun c => c.1) ↔
      ∃ s, subs[i]? = some s ∧ s.ty = ty ∧ s.flt v = true := by
  have h : ((dcalls raises (drun subs) ty v).map fun c => c.1) = called subs ty v := by
    simp [dcalls, called, List.map_map, Function.comp_def]
  rw [h]
  exact dispatcher_exactly_once subs ty v

/-! ## Non-vacuity -/

/-- the first subscriber raises on the message: the second and third are still called -/
example : dcalls (fun sid _ => sid == 0) (drun [⟨1, 7, fun _ => true⟩, ⟨1, 8, fun _ => true⟩,
      ⟨1, 9, fun _ => true⟩]) 1 4 = [(0, 7, true), (1, 8, false), (2, 9, false)] := by decide


/-- one callable (7) subscribed twice for type 1 with disjoint filters, another callable (8)
    unfiltered, a listener for another type -/
example : ddispatch (drun [⟨1, 7, fun v => v % 3 == 0⟩, ⟨1, 8, fun _ => true⟩, ⟨2, 9, fun _ => true⟩,
      ⟨1, 7, fun v => v % 3 == 1⟩]) 1 4 = [(1, 8), (3, 7)] := by decide

example : ddispatch (drun [⟨1, 7, fun v => v % 3 == 0⟩, ⟨1, 8, fun _ => true⟩, ⟨2, 9, fun _ => true⟩,
      ⟨1, 7, fun v => v % 3 == 1⟩]) 1 3 = [(0, 7), (1, 8)] := by decide

end PyatvModel.Props.C03
