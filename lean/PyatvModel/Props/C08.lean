import PyatvModel.C08.Model
/-
C08 — pairing is all-or-nothing.  Property theorems (general over ALL scripts that meet the
decidable well-formedness predicates, then instantiated on the concrete handler scripts).

* `fault_no_effect`  stores come last ∧ every reply checked ⇒ whatever applicable fault is
                     injected at whatever await point: credentials in the service and in the
                     settings are untouched, `has_paired` is false, success is not reported;
* `fault_raises`     … ∧ every await point guarded ⇒ the run ends with an exception and it is
                     a pairing or a connection error;
* `fault_atomic`     both (the property's failure clause), for every well-formed script;
* `success`          a script that contains the three writes (and whose guards pass) ends the
                     fault-free run with `ok`, credentials written in both places, `has_paired`;
* `stored_only_on_success` anything written ⇒ no applicable fault was injected;
* `pins_equal_success`, `pins_differ_atomic`, `dmap_pins_differ`: the PIN is a parameter of the
  run (`runPins`): for EVERY value (0 = "0000" included) equal PINs give the fault-free run,
  different PINs the wrong-PIN fault with the failure clause;
* `fault_initial_untouched`, `success_overwrites_any_initial`: the initial contents of the
  service and of the settings are independent parameters (`credsAfter`);
* `dmap_current_pin`, `dmap_paired_iff`, `dmap_stored_only_if_paired`: sequences of pin() /
  request / finish() on one DMAP handler: a request is judged against the most recent PIN only;
  `dmap_bad_reply_no_effect`: a request whose answer cannot be encoded pairs nothing;
* per handler: `wellFormed` by `decide`, and the instantiated statements.
* DMAP signals failure only through `has_paired = False` (finish() returns normally):
  `handlers_fault_atomic_counterexample`, `handlers_fault_atomic_partial`, `dmap_fault_no_effect`.
-/
namespace PyatvModel.Props.C08
open PyatvModel.C08

/-- the property's failure clause for one injected fault -/
def FaultAtomic (s : List Step) (i : Nat) (f : Fault) : Prop :=
  (run s (some (i, f))).2 = St.init ∧
  ∃ e, (run s (some (i, f))).1 = Outcome.error e ∧ (e = ErrClass.pairing ∨ e = ErrClass.connection)

section Lemmas

theorem exec_skip (r : List Step) : ∀ (k : Nat) (fault : Option (Nat × Fault)) (st : St),
    st.paired = false → exec r true k fault st = (Outcome.silent, st) := by
  induction r with
  | nil => intro k fault st _; simp [exec]
  | cons s r ih =>
    intro k fault st hp
    cases s <;> simp [exec, hp, ih]

theorem awaitAt_noAwait (r : List Step) (h : noAwait r = true) : ∀ j, awaitAt? r j = none := by
  induction r with
  | nil => intro j; rfl
  | cons s r ih =>
    intro j
    simp only [noAwait, Bool.and_eq_true, Bool.not_eq_true'] at h
    simp [awaitAt?, h.1, ih h.2]

theorem appAt_noAwait (r : List Step) (h : noAwait r = true) (j : Nat) : appAt r j = [] := by
  simp [appAt, awaitAt_noAwait r h j]

theorem appAt_skip (s : Step) (r : List Step) (h : s.isAwait = false) (j : Nat) :
    appAt (s :: r) j = appAt r j := by
  simp [appAt, awaitAt?, h]

theorem appAt_await_succ (s : Step) (r : List Step) (h : s.isAwait = true) (j : Nat) :
    appAt (s :: r) (j + 1) = appAt r j := by
  simp [appAt, awaitAt?, h]

theorem subset_mem {a b : List Fault} (h : subset a b = true) {f : Fault} (hf : f ∈ a) : f ∈ b := by
  simp only [subset, List.all_eq_true] at h
  simpa using h f hf

/-- What a run looks like from any point before the fault: the general statement behind
    `fault_no_effect` and `fault_raises` (`g?` = also demand the guards). -/
theorem exec_fault (i : Nat) (f : Fault) (s : List Step) :
    ∀ (k : Nat) (st : St), st.paired = false → storeLast s = true → allChecked s = true →
      k ≤ i → f ∈ appAt s (i - k) →
      (exec s false k (some (i, f)) st).2 = st ∧ (exec s false k (some (i, f)) st).1 ≠ Outcome.ok ∧
      (allGuarded s = true → ∃ e, (exec s false k (some (i, f)) st).1 = Outcome.error e ∧
          (e = ErrClass.pairing ∨ e = ErrClass.connection)) := by
  induction s with
  | nil => intro k st _ _ _ _ hf; simp [appAt, awaitAt?] at hf
  | cons s r ih =>
    intro k st hp hsl hck hk hf
    cases s with
    | send =>
      rw [appAt_skip _ _ rfl] at hf
      simpa [exec, allGuarded] using ih k st hp (by simpa [storeLast, Step.isWrite] using hsl)
        (by simpa [allChecked] using hck) hk hf
    | guardPaired =>
      simp [exec, hp, allGuarded]
    | storeService =>
      rw [appAt_skip _ _ rfl, appAt_noAwait r (by simpa [storeLast, Step.isWrite] using hsl)] at hf
      cases hf
    | storeSettings =>
      rw [appAt_skip _ _ rfl, appAt_noAwait r (by simpa [storeLast, Step.isWrite] using hsl)] at hf
      cases hf
    | setPaired =>
      rw [appAt_skip _ _ rfl, appAt_noAwait r (by simpa [storeLast, Step.isWrite] using hsl)] at hf
      cases hf
    | connect g =>
      have hsl' : storeLast r = true := by simpa [storeLast, Step.isWrite] using hsl
      have hck' : allChecked r = true := by simpa [allChecked] using hck
      by_cases hik : i = k
      · subst hik
        have hf' : f = Fault.disconnect := by simpa [appAt, awaitAt?, Step.isAwait] using hf
        subst hf'
        by_cases hg : g = Guard.server
        · subst hg
          simp [exec, hits, exec_skip r _ _ st hp, allGuarded]
        · simp [exec, hits, hg, connectErr, allGuarded]
      · have hlt : k + 1 ≤ i := by omega
        have hidx : i - k = (i - (k + 1)) + 1 := by omega
        rw [hidx, appAt_await_succ _ _ rfl] at hf
        have := ih (k + 1) st hp hsl' hck' hlt hf
        have hh : hits (some (i, f)) k [Fault.disconnect] = none := by simp [hits, hik]
        simp only [exec, hh, Bool.false_eq_true, if_false]
        refine ⟨this.1, this.2.1, fun hga => this.2.2 ?_⟩
        simp only [allGuarded, Bool.and_eq_true] at hga
        exact hga.2
    | recv g app chk =>
      have hsl' : storeLast r = true := by simpa [storeLast, Step.isWrite] using hsl
      have hck' : subset app chk = true ∧ allChecked r = true := by simpa [allChecked] using hck
      by_cases hik : i = k
      · subst hik
        have hfa : f ∈ app := by simpa [appAt, awaitAt?, Step.isAwait] using hf
        have hfc : f ∈ chk := subset_mem hck'.1 hfa
        by_cases hg : g = Guard.server
        · subst hg
          simp [exec, hits, hfa, hfc, exec_skip r _ _ st hp, allGuarded]
        · simp only [exec, hits, hfa, hfc, hg, and_self, if_true, if_false, Bool.false_eq_true,
            ne_eq, reduceCtorEq, not_false_eq_true, true_and]
          intro hga
          simp only [allGuarded, Bool.and_eq_true, List.all_eq_true, bne_iff_ne, ne_eq] at hga
          have hne : errClass g f ≠ ErrClass.other := hga.1.2 f hfa
          refine ⟨errClass g f, rfl, ?_⟩
          cases h : errClass g f <;> simp_all
      · have hlt : k + 1 ≤ i := by omega
        have hidx : i - k = (i - (k + 1)) + 1 := by omega
        rw [hidx, appAt_await_succ _ _ rfl] at hf
        have := ih (k + 1) st hp hsl' hck'.2 hlt hf
        have hh : hits (some (i, f)) k app = none := by simp [hits, hik]
        simp only [exec, hh, Bool.false_eq_true, if_false]
        refine ⟨this.1, this.2.1, fun hga => this.2.2 ?_⟩
        simp only [allGuarded, Bool.and_eq_true] at hga
        exact hga.2

/-- effect of the write steps of a script, ignoring control flow -/
def writes : List Step → St → St
  | [], st => st
  | .storeService :: r, st => writes r { st with svc := true }
  | .storeSettings :: r, st => writes r { st with settings := true }
  | .setPaired :: r, st => writes r { st with paired := true }
  | _ :: r, st => writes r st

theorem exec_none (s : List Step) : ∀ (k : Nat) (st : St), guardOK s st.paired = true →
    exec s false k none st = (Outcome.ok, writes s st) := by
  induction s with
  | nil => intro k st _; simp [exec, writes]
  | cons x r ih =>
    intro k st hg
    cases x with
    | guardPaired =>
      simp only [guardOK, Bool.and_eq_true] at hg
      simp [exec, hg.1, writes, ih k st hg.2]
    | setPaired =>
      simp only [guardOK] at hg
      simp [exec, writes, ih k { st with paired := true } hg]
    | connect g => simpa [exec, hits, writes] using ih (k + 1) st (by simpa [guardOK] using hg)
    | recv g a c => simpa [exec, hits, writes] using ih (k + 1) st (by simpa [guardOK] using hg)
    | send => simpa [exec, writes] using ih k st (by simpa [guardOK] using hg)
    | storeService =>
      simpa [exec, writes] using ih k { st with svc := true } (by simpa [guardOK] using hg)
    | storeSettings =>
      simpa [exec, writes] using ih k { st with settings := true } (by simpa [guardOK] using hg)

theorem writes_spec (s : List Step) : ∀ st : St,
    writes s st = ⟨st.svc || s.contains Step.storeService, st.settings || s.contains Step.storeSettings,
                   st.paired || s.contains Step.setPaired⟩ := by
  induction s with
  | nil => intro st; simp [writes]
  | cons x r ih =>
    intro st
    cases x <;> simp [writes, ih]

end Lemmas

/-! ## Property theorems — for every script -/

/-- **C08, nothing is written on failure.**  If the writes come after all await points and
    every reply is checked, then any applicable fault at any await point leaves the service
    credentials, the settings credentials and `has_paired` as they were, and the run does not
    report success. -/
theorem fault_no_effect (s : List Step) (hsl : storeLast s = true) (hck : allChecked s = true)
    (i : Nat) (f : Fault) (hf : f ∈ appAt s i) :
    (run s (some (i, f))).2 = St.init ∧ (run s (some (i, f))).1 ≠ Outcome.ok := by
  have := exec_fault i f s 0 St.init rfl hsl hck (Nat.zero_le _) (by simpa using hf)
  exact ⟨this.1, this.2.1⟩

/-- **C08, failure is raised as a pairing or connection error.** -/
theorem fault_raises (s : List Step) (hwf : wellFormed s = true) (i : Nat) (f : Fault)
    (hf : f ∈ appAt s i) :
    ∃ e, (run s (some (i, f))).1 = Outcome.error e ∧ (e = ErrClass.pairing ∨ e = ErrClass.connection) := by
  simp only [wellFormed, Bool.and_eq_true] at hwf
  exact (exec_fault i f s 0 St.init rfl hwf.1.1 hwf.1.2 (Nat.zero_le _) (by simpa using hf)).2.2 hwf.2

/-- **C08, failure clause.**  For EVERY well-formed script, every await point and every fault
    kind applicable there: an error of class pairing/connection, credentials unchanged in both
    places, `has_paired` false. -/
theorem fault_atomic (s : List Step) (hwf : wellFormed s = true) (i : Nat) (f : Fault)
    (hf : f ∈ appAt s i) : FaultAtomic s i f := by
  have h := hwf
  simp only [wellFormed, Bool.and_eq_true] at h
  exact ⟨(fault_no_effect s h.1.1 h.1.2 i f hf).1, fault_raises s hwf i f hf⟩

/-- **C08, success clause.**  The fault-free run of a script that contains the three writes
    reports success with the new credentials in the service and in the settings. -/
theorem success (s : List Step) (hc : commits s = true) : run s none = (Outcome.ok, St.done) := by
  simp only [commits, Bool.and_eq_true] at hc
  rw [run, exec_none s 0 St.init hc.2, writes_spec]
  simp_all [St.init, St.done]

/-- **C08, only after the complete exchange.**  If anything was written (or success reported)
    then no applicable fault had been injected. -/
theorem stored_only_on_success (s : List Step) (hsl : storeLast s = true) (hck : allChecked s = true)
    (i : Nat) (f : Fault)
    (h : (run s (some (i, f))).2 ≠ St.init ∨ (run s (some (i, f))).1 = Outcome.ok) :
    f ∉ appAt s i := by
  intro hf
  have := fault_no_effect s hsl hck i f hf
  rcases h with h | h
  · exact h this.1
  · exact this.2 h

/-! ## The concrete handlers -/

theorem wf_mrp : wellFormed mrp = true := by decide
theorem wf_companion : wellFormed companion = true := by decide
theorem wf_companionReauth : wellFormed companionReauth = true := by decide
theorem wf_airplayHap : wellFormed airplayHap = true := by decide
theorem wf_airplayLegacy : wellFormed airplayLegacy = true := by decide
theorem wf_raopHap : wellFormed raopHap = true := by decide
theorem wf_raopLegacy : wellFormed raopLegacy = true := by decide

/-- DMAP writes last and checks the request, but its failures are not raised. -/
theorem dmap_storeLast_checked_unguarded :
    storeLast dmap = true ∧ allChecked dmap = true ∧ allGuarded dmap = false := by decide

/-- the handlers whose failures are raised -/
def raising : List (List Step) :=
  [mrp, companion, companionReauth, airplayHap, airplayLegacy, raopHap, raopLegacy]

theorem raising_wellFormed : ∀ s ∈ raising, wellFormed s = true := by decide

/-- **C08 for MRP, Companion, AirPlay (HAP, legacy) and RAOP.**  The full statement
        ∀ handler ∈ {MRP, Companion, AirPlay-HAP, AirPlay-legacy, RAOP, DMAP}, ∀ i f, FaultAtomic
    is false because of DMAP (`handlers_fault_atomic_counterexample`); this is the part that
    holds: every handler but DMAP. -/
theorem handlers_fault_atomic_partial (s : List Step) (hs : s ∈ raising) (i : Nat) (f : Fault)
    (hf : f ∈ appAt s i) : FaultAtomic s i f :=
  fault_atomic s (raising_wellFormed s hs) i f hf

/-- DMAP: a failed exchange changes nothing and leaves `has_paired` false — but `finish()`
    returns normally instead of raising. -/
theorem dmap_fault_no_effect (i : Nat) (f : Fault) (hf : f ∈ appAt dmap i) :
    run dmap (some (i, f)) = (Outcome.silent, St.init) := by
  have h0 : i = 0 := by
    cases i with
    | zero => rfl
    | succ n => simp [appAt, awaitAt?, dmap, Step.isAwait] at hf
  subst h0
  have : f ∈ [Fault.wrongPin, .dropped, .garbage, .missingField, .disconnect] := by
    simpa [appAt, awaitAt?, dmap, Step.isAwait] using hf
  simp only [List.mem_cons, List.not_mem_nil, or_false] at this
  rcases this with rfl | rfl | rfl | rfl | rfl <;> decide

/-- The property's failure clause does not hold for all six handlers: a wrong PIN sent to the
    DMAP handler raises nothing. -/
theorem handlers_fault_atomic_counterexample :
    ¬ (∀ p ∈ handlers, ∀ i f, f ∈ appAt p.2 i → FaultAtomic p.2 i f) := by
  intro h
  have := (h ("dmap", dmap) (by decide) 0 Fault.wrongPin (by decide)).2
  obtain ⟨e, he, _⟩ := this
  have hr : (run dmap (some (0, Fault.wrongPin))).1 = Outcome.silent := by decide
  rw [hr] at he
  cases he

/-- every handler (DMAP included) completes the fault-free exchange with credentials written
    to the service and the settings and `has_paired` true -/
theorem handlers_success : ∀ p ∈ handlers, run p.2 none = (Outcome.ok, St.done) := by
  intro p hp
  apply success
  revert p
  decide

/-! ## The initial state as a parameter: service and settings independent -/

/-- **C08, previously stored credentials untouched — whatever they were.**  For every initial
    pair (service value, settings value), equal or not, a failed exchange leaves exactly that
    pair. -/
theorem fault_initial_untouched (s : List Step) (hsl : storeLast s = true) (hck : allChecked s = true)
    (i : Nat) (f : Fault) (hf : f ∈ appAt s i) (a b : Cred) :
    credsAfter a b (run s (some (i, f))).2 = (a, b) := by
  rw [(fault_no_effect s hsl hck i f hf).1]
  simp [credsAfter, St.init]

/-- **C08, success overwrites both places — whatever they held.** -/
theorem success_overwrites_any_initial (s : List Step) (hc : commits s = true) (a b : Cred) :
    credsAfter a b (run s none).2 = (Cred.fresh, Cred.fresh) := by
  rw [success s hc]
  simp [credsAfter, St.done]

example : credsAfter Cred.none Cred.oldA (run airplayLegacy (some (3, Fault.wrongPin))).2 = (Cred.none, Cred.oldA) ∧
    credsAfter Cred.oldB Cred.oldA (run raopHap none).2 = (Cred.fresh, Cred.fresh) := by decide

/-! ## The PIN as a parameter: every value, boundary values included -/

theorem proofIndex_app (s : List Step) (i : Nat) (h : proofIndex? s = some i) :
    Fault.wrongPin ∈ appAt s i := by
  have := List.find?_some h
  simpa using this

/-- **C08, right PIN.**  Whatever the PIN is (0 = "0000" included): if the supplied PIN equals
    the expected one the exchange is the fault-free one. -/
theorem pins_equal_success (s : List Step) (hc : commits s = true) (p : Nat) :
    runPins s p p = (Outcome.ok, St.done) := by
  simp [runPins, pinFault, success s hc]

/-- **C08, wrong PIN.**  For every well-formed script and EVERY pair of different PIN values:
    a pairing/connection error, nothing written, `has_paired` false. -/
theorem pins_differ_atomic (s : List Step) (hwf : wellFormed s = true) (i : Nat)
    (hi : proofIndex? s = some i) (expected typed : Nat) (hne : expected ≠ typed) :
    (runPins s expected typed).2 = St.init ∧
    ∃ e, (runPins s expected typed).1 = Outcome.error e ∧ (e = ErrClass.pairing ∨ e = ErrClass.connection) := by
  have h := fault_atomic s hwf i Fault.wrongPin (proofIndex_app s i hi)
  simpa [runPins, pinFault, hne, hi, FaultAtomic] using h

/-- every raising handler has a proof-carrying await point -/
theorem raising_proofIndex : ∀ s ∈ raising, (proofIndex? s).isSome = true := by decide

/-- DMAP, wrong PIN of any value: nothing written, not paired (and, the known finding, silent) -/
theorem dmap_pins_differ (expected typed : Nat) (hne : expected ≠ typed) :
    runPins dmap expected typed = (Outcome.silent, St.init) := by
  have hi : proofIndex? dmap = some 0 := by decide
  have := dmap_fault_no_effect 0 Fault.wrongPin (by decide)
  simpa [runPins, pinFault, hne, hi] using this

example : runPins mrp 0 0 = (Outcome.ok, St.done) ∧
    runPins mrp 0 1 = (Outcome.error ErrClass.pairing, St.init) ∧
    runPins dmap 0 9999 = (Outcome.silent, St.init) ∧ proofIndex? mrp = some 3 := by decide

/-! ## Sequences of operations on one DMAP handler -/

theorem foldl_dstep_pin (ops : List DOp) : ∀ s : DSt,
    (ops.foldl dstep s).pin = (match lastPin ops with | some q => some q | none => s.pin) := by
  induction ops with
  | nil => intro s; rfl
  | cons op r ih =>
    intro s
    cases op with
    | pin p =>
      simp only [List.foldl_cons, ih, dstep, lastPin]
      cases lastPin r <;> rfl
    | request c =>
      simp only [List.foldl_cons, ih, lastPin]
      cases lastPin r <;> simp [dstep] <;> split <;> rfl
    | finish =>
      simp only [List.foldl_cons, ih, lastPin]
      cases lastPin r <;> simp [dstep] <;> split <;> rfl
    | badReply c =>
      simp only [List.foldl_cons, ih, lastPin]
      cases lastPin r <;> simp [dstep]

/-- **C08/DMAP, no memory of earlier PINs.**  The PIN a request is judged against is the one
    given by the most recent `pin()`, whatever happened before (other PINs, other requests). -/
theorem dmap_current_pin (ops : List DOp) : (drun ops).pin = lastPin ops := by
  rw [drun, foldl_dstep_pin]; cases lastPin ops <;> rfl

theorem foldl_dstep_paired_mono (ops : List DOp) : ∀ s : DSt, s.paired = true →
    (ops.foldl dstep s).paired = true := by
  induction ops with
  | nil => intro s h; exact h
  | cons op r ih =>
    intro s h
    apply ih
    cases op <;> simp [dstep, h] <;> split <;> simp [h]

theorem foldl_dstep_paired (ops : List DOp) : ∀ s : DSt, s.paired = false →
    ((ops.foldl dstep s).paired = true ↔
      ∃ pre c post, ops = pre ++ DOp.request c :: post ∧ accepts (pre.foldl dstep s).pin c = true) := by
  induction ops with
  | nil => intro s h; simp [h]
  | cons op r ih =>
    intro s h
    by_cases hacc : ∃ c, op = DOp.request c ∧ accepts s.pin c = true
    · obtain ⟨c, rfl, hc⟩ := hacc
      constructor
      · intro _; exact ⟨[], c, r, rfl, by simpa using hc⟩
      · intro _
        exact foldl_dstep_paired_mono r _ (by simp [dstep, hc])
    · have hs : (dstep s op).paired = false := by
        cases op with
        | pin p => simp [dstep, h]
        | finish => simp [dstep, h]
        | badReply c => simp [dstep, h]
        | request c =>
          have : accepts s.pin c = false := by
            cases hx : accepts s.pin c with
            | false => rfl
            | true => exact absurd ⟨c, rfl, hx⟩ hacc
          simp [dstep, this, h]
      rw [List.foldl_cons, ih (dstep s op) hs]
      constructor
      · rintro ⟨pre, c, post, rfl, hc⟩
        exact ⟨op :: pre, c, post, rfl, by simpa using hc⟩
      · rintro ⟨pre, c, post, heq, hc⟩
        cases pre with
        | nil =>
          simp only [List.nil_append, List.cons.injEq] at heq
          exact absurd ⟨c, heq.1, by simpa using hc⟩ hacc
        | cons x pre =>
          simp only [List.cons_append, List.cons.injEq] at heq
          obtain ⟨rfl, rfl⟩ := heq
          exact ⟨pre, c, post, rfl, by simpa using hc⟩

/-- **C08/DMAP, paired iff some request matched the PIN current at its arrival.**  For every
    sequence of `pin()` calls, requests and `finish()` calls. -/
theorem dmap_paired_iff (ops : List DOp) :
    (drun ops).paired = true ↔
      ∃ pre c post, ops = pre ++ DOp.request c :: post ∧ accepts (lastPin pre) c = true := by
  rw [drun, foldl_dstep_paired ops DSt.init rfl]
  constructor <;> rintro ⟨pre, c, post, h, hc⟩ <;> refine ⟨pre, c, post, h, ?_⟩
  · rw [← dmap_current_pin]; exact hc
  · rw [← dmap_current_pin] at hc; exact hc

theorem foldl_dstep_stored (ops : List DOp) : ∀ s : DSt, (s.stored = true → s.paired = true) →
    (ops.foldl dstep s).stored = true → (ops.foldl dstep s).paired = true := by
  induction ops with
  | nil => intro s h; exact h
  | cons op r ih =>
    intro s h
    apply ih
    cases op with
    | pin p => simpa [dstep] using h
    | request c => simp only [dstep]; split <;> simp_all
    | badReply c => simpa [dstep] using h
    | finish => simp only [dstep]; split <;> simp_all

/-- **C08/DMAP, credentials only after a matching request.** -/
theorem dmap_stored_only_if_paired (ops : List DOp) :
    (drun ops).stored = true → (drun ops).paired = true :=
  foldl_dstep_stored ops DSt.init (by simp [DSt.init])

/-- **C08/DMAP, an answer that cannot be built pairs nothing**, whatever the code was: the
    device was told the pairing failed. -/
theorem dmap_bad_reply_no_effect (s : DSt) (c : Option Nat) : dstep s (DOp.badReply c) = s := rfl

example : (drun [.pin 5, .badReply (some 5), .finish]) = ⟨some 5, false, false⟩ := by decide

/-- the code of a PIN that is no longer the configured one is refused (and so is any code of
    another PIN), even right after a request was judged under the old PIN -/
example : (drun [.pin 5, .request (some 9), .pin 7, .request (some 5), .finish]) = ⟨some 7, false, false⟩ ∧
    (drun [.pin 0, .request none, .pin 7, .request (some 7), .finish]) = ⟨some 7, true, true⟩ := by decide

/-! ## The two fixed defects, as scripts of the pinned tree -/

/-- pinned AirPlay-HAP: an error TLV in the reply to M3 was swallowed and the pairing "succeeded" -/
theorem airplayHapPinned_swallows_error :
    allChecked airplayHapPinned = false ∧
    run airplayHapPinned (some (3, Fault.errorReply)) = (Outcome.ok, St.done) := by decide

/-- pinned MRP: an error TLV in the last pair-verify reply was swallowed -/
theorem mrpPinned_swallows_error :
    allChecked mrpPinned = false ∧
    run mrpPinned (some (6, Fault.errorReply)) = (Outcome.ok, St.done) := by decide

/-! ## Non-vacuity -/

example : Fault.wrongPin ∈ appAt mrp 3 ∧ Fault.errorReply ∈ appAt mrp 6 ∧ Fault.disconnect ∈ appAt mrp 0 := by
  decide

example : run mrp (some (3, Fault.wrongPin)) = (Outcome.error ErrClass.pairing, St.init) := by decide

example : run airplayHap (some (0, Fault.disconnect)) = (Outcome.error ErrClass.connection, St.init) := by
  decide

example : commits mrp = true ∧ commits dmap = true := by decide

/-- a script that stores before the last reply is rejected by `storeLast` and really leaks -/
example : storeLast ([.connect .handler, .send, .storeService] ++ xchg fieldReply ++ commit) = false ∧
    (run ([.connect .handler, .send, .storeService] ++ xchg fieldReply ++ commit)
      (some (1, Fault.errorReply))).2 ≠ St.init := by decide

/-- a raw (unwrapped) reply check lets a non-pairing/connection class escape: rejected by `allGuarded` -/
example : allGuarded [.send, .recv .raw fieldReply fieldReply] = false ∧
    run [.send, .recv .raw fieldReply fieldReply] (some (0, Fault.missingField))
      = (Outcome.error ErrClass.other, St.init) := by decide

end PyatvModel.Props.C08
