import PyatvModel.C11.Lemmas
/-
C11 — reported now-playing state tracks the device's active player.

Property (properties.jsonl): after any sequence of MRP now-playing messages, what the
metadata interface reports is derived from the most recent state of the active player of
the active client; messages about other players never change it; removing the active
client or player returns it to idle or the default player; the listener is woken whenever
a message can change the reported state; the reported position is never negative and never
beyond the total time.

All theorems are about `C11/Model.lean` (the handlers of player_state.py with explicit
object handles, on the repaired tree) and quantify over ALL message sequences `msgs`
(any length, any identifiers, any payloads) and all clock values `now`.
`Spec.specReport (Spec.specReach msgs)` is the specification of C11/Spec.lean.

* `refinement`                   report (reach msgs) = specReport (specReach msgs); in particular no
                                 dangling pointer is ever followed
* `other_players_inert`          a set-state / content-item-update / remove-player message about a
                                 player that is not (active client, its active-or-default player)
                                 leaves the report unchanged
* `other_clients_inert`          so does any message addressed to a client that is not active
* `remove_active_client_resets`  removing the active client ⇒ the idle report, no app
* `remove_active_player_resets`  removing the player being reported ⇒ the report derived from the
                                 client's default player (from an empty player if it was the default)
* `wake_on_change`               report changes ⇒ listener woken            (repaired tree)
* `wake_sees_new_state`          a woken listener reads, at the moment it is woken, exactly the state
                                 reported after the message (observation point kept by `stepW`)
* `wake_on_change_observed`      report changes ⇒ woken AND the state seen at the wake-up is the new one
* `listener_in_sync`             a listener that remembers what it read at its last wake-up knows, after
                                 any history, exactly the reported state
* `wake_on_change_pinned_counterexample`   the same statement is FALSE for the pinned
                                 `_handle_remove_player` (defect D8), witness replayed by the harness
* `wake_on_change_pinned_partial`  on the pinned tree the statement holds for every message
                                 except "remove player <default player>" — D8 has no siblings
* `position_clamped`             0 ≤ position ∧ (0 < total → position ≤ total), for total ≥ 0 or absent
* `reported_position_clamped`    the same for the position inside every report of every history whose
                                 messages carry no negative duration
-/
namespace PyatvModel.Props.C11
open PyatvModel.C11 PyatvModel.C11.Spec

/-- **C11, refinement.**  After any message sequence the metadata interface reports exactly
    what the specification derives from the most recent state of the active player of the
    active client (default-player fallback, idle otherwise). -/
theorem refinement (now : Int) (msgs : List Msg) :
    report now (reach msgs) = some (specReport now (specReach msgs)) := by
  obtain ⟨h, hi⟩ := reach_sim msgs
  rw [report_abs now _ hi, h]

/-- **C11, messages about other players never change the report.** -/
theorem other_players_inert (now : Int) (msgs : List Msg) (m : Msg) (b p : Nat)
    (habout : m.about = some (b, p)) (hother : (reach msgs).serving ≠ some (b, p)) :
    report now (step (reach msgs) m).1 = report now (reach msgs) := by
  obtain ⟨_, hi⟩ := reach_sim msgs
  rw [report_step now _ m hi, report_abs now _ hi]
  congr 1
  exact spec_other_player now _ m b p (sinv_abs _ hi) habout (by rw [serving_abs _ hi]; exact hother)

/-- **C11, messages for a client that is not the active one never change the report.** -/
theorem other_clients_inert (now : Int) (msgs : List Msg) (m : Msg) (b : Nat)
    (hclient : m.client = some b) (hother : ∀ p, (reach msgs).serving ≠ some (b, p)) :
    report now (step (reach msgs) m).1 = report now (reach msgs) := by
  obtain ⟨_, hi⟩ := reach_sim msgs
  rw [report_step now _ m hi, report_abs now _ hi]
  congr 1
  apply spec_other_client now _ m b hclient
  intro e
  have := serving_abs _ hi
  simp only [serving, e, Option.map_some] at this
  exact hother _ this.symm

/-- **C11, removing the active client returns the report to idle** (nothing playing, no app). -/
theorem remove_active_client_resets (now : Int) (msgs : List Msg) (b p : Nat) (n : Option Nat)
    (hactive : (reach msgs).serving = some (b, p)) :
    report now (step (reach msgs) (.removeClient b n)).1 = some (idleReport now) := by
  obtain ⟨_, hi⟩ := reach_sim msgs
  rw [report_step now _ _ hi]
  congr 1
  rw [← serving_abs _ hi] at hactive
  simp only [serving, Option.map_eq_some_iff, Prod.mk.injEq] at hactive
  obtain ⟨a, ha, rfl, _⟩ := hactive
  simp [specReport, serving, specStep, ha]

/-- **C11, removing the player being reported returns the report to the default player**
    (of the same client, same app), or to an empty player — idle — when the removed player
    was the default player itself. -/
theorem remove_active_player_resets (now : Int) (msgs : List Msg) (b p : Nat) (n : Option Nat)
    (hactive : (reach msgs).serving = some (b, p)) (hnamed : p ≠ 0) :
    report now (step (reach msgs) (.removePlayer ⟨b, n, p⟩)).1 =
      some (buildPlaying now
        ⟨defaultPlayer,
         if p = defaultPlayer then PlayerInfo.empty else ((specReach msgs).client b).info defaultPlayer,
         ((specReach msgs).client b).cmds⟩
        (some (((specReach msgs).client b).name, b))) := by
  obtain ⟨hab, hi⟩ := reach_sim msgs
  rw [report_step now _ _ hi]
  congr 1
  have hs := sinv_abs _ hi
  rw [← serving_abs _ hi, hab] at hactive
  rw [hab] at hs ⊢
  generalize specReach msgs = st at hactive hs ⊢
  simp only [serving, Option.map_eq_some_iff, Prod.mk.injEq] at hactive
  obtain ⟨a, ha, rfl, hq⟩ := hactive
  have hk := hs a ha
  simp only [specReport, serving, specStep, SState.modClient, ha, Option.map_some, upd_same,
    touch_known _ _ hk, hnamed, if_false]
  cases hc : (st.client a).activePlayer with
  | none =>
    simp only [hc, Option.getD_none] at hq
    subst hq
    simp [upd]
  | some j =>
    simp only [hc, Option.getD_some] at hq
    subst hq
    by_cases e : j = defaultPlayer
    · simp [upd, e]
    · have e' : defaultPlayer ≠ j := fun h => e h.symm
      simp [upd, e, e']

/-- **C11, the listener is woken whenever a message changes the reported state**
    (repaired tree: `fix:` commit for D8 applied). -/
theorem wake_on_change (now : Int) (msgs : List Msg) (m : Msg)
    (hchange : report now (reach msgs) ≠ report now (step (reach msgs) m).1) :
    (step (reach msgs) m).2 = true := by
  obtain ⟨_, hi⟩ := reach_sim msgs
  cases hn : (step (reach msgs) m).2 with
  | true => rfl
  | false =>
    exfalso
    apply hchange
    rw [report_step now _ m hi, report_abs now _ hi, quiet_inert now _ m hi hn]

/-- **C11, what the woken listener sees.**  `stepW` keeps the observation point of the
    wake-up: its second component is the manager state at the moment
    `await self.listener.state_updated()` runs.  Whenever the listener is woken, the state it
    reads then (as `MrpPushUpdater.state_updated` does) is the state reported after the
    message — never a stale one — and the final state is the one all other theorems speak of. -/
theorem wake_sees_new_state (now : Int) (msgs : List Msg) (m : Msg) (seen : Mgr)
    (hwoken : (stepW true (reach msgs) m).2 = some seen) :
    seen = (step (reach msgs) m).1 ∧
    report now seen = report now (stepW true (reach msgs) m).1 := by
  rw [stepW_eq] at hwoken ⊢
  simp only at hwoken ⊢
  split at hwoken
  · cases hwoken; exact ⟨rfl, rfl⟩
  · cases hwoken

/-- **C11, wake-up with the new state.**  Whenever a message changes the reported state the
    listener is woken *and what it sees at that moment is the new reported state*. -/
theorem wake_on_change_observed (now : Int) (msgs : List Msg) (m : Msg)
    (hchange : report now (reach msgs) ≠ report now (step (reach msgs) m).1) :
    ∃ seen, (stepW true (reach msgs) m).2 = some seen ∧
      report now seen = report now (step (reach msgs) m).1 := by
  have hw := wake_on_change now msgs m hchange
  refine ⟨(step (reach msgs) m).1, ?_, rfl⟩
  rw [stepW_eq]
  unfold step at hw ⊢
  simp [hw]

/-- **C11, a listener is always in sync.**  A listener that knew the initial (idle) report and
    afterwards only remembers what it read each time it was woken knows, after ANY message
    sequence, exactly the currently reported state — no wake-up is missing and none shows a
    stale state.  (With messages dispatched back to back while the listener is still busy the
    handlers still run in dispatch order, so this is also the statement for concurrent
    delivery; the harness drives that case with a suspending listener.) -/
theorem listener_in_sync (now : Int) (msgs : List Msg) :
    msgs.foldl (listen now) (Mgr.init, report now Mgr.init) = (reach msgs, report now (reach msgs)) := by
  suffices h : ∀ (ms pre : List Msg),
      ms.foldl (listen now) (reach pre, report now (reach pre))
        = (reach (pre ++ ms), report now (reach (pre ++ ms))) by
    simpa [reach] using h msgs []
  intro ms
  induction ms with
  | nil => intro pre; simp
  | cons m ms ih =>
    intro pre
    have hstep : listen now (reach pre, report now (reach pre)) m
        = (reach (pre ++ [m]), report now (reach (pre ++ [m]))) := by
      rw [reach_snoc]
      simp only [listen]
      rw [stepW_eq]
      unfold step
      cases hn : (stepG true (reach pre) m).2 with
      | true => simp
      | false =>
        simp only [Bool.false_eq_true, if_false]
        congr 1
        by_cases hc : report now (reach pre) = report now (step (reach pre) m).1
        · exact hc
        · have := wake_on_change now pre m hc
          unfold step at this
          rw [hn] at this; cases this
    rw [List.foldl_cons, hstep, ih (pre ++ [m])]
    simp

/-- D8 (DESIGN §6): set-now-playing-client A; set-state (A, default player, Stopped);
    remove-player (A, default player). -/
def d8Prefix : List Msg :=
  [.setNowPlayingClient 1 none, .setState ⟨1, none, defaultPlayer⟩ (some .stopped) none none]
def d8Msg : Msg := .removePlayer ⟨1, none, defaultPlayer⟩

/-- **D8.**  On the pinned tree `wake_on_change` is false: the reported state goes
    Stopped → Idle and `_state_updated` does not call the listener. -/
theorem wake_on_change_pinned_counterexample :
    ¬ (∀ (now : Int) (msgs : List Msg) (m : Msg),
        report now (reachPinned msgs) ≠ report now (stepPinned (reachPinned msgs) m).1 →
        (stepPinned (reachPinned msgs) m).2 = true) := by
  intro h
  have := h 0 d8Prefix d8Msg (by decide)
  revert this
  decide

/-- **Pinned tree, partial.**  Full statement (false on the pinned tree, see the
    counterexample above):
      ∀ now msgs m, report now (reachPinned msgs) ≠ report now (stepPinned (reachPinned msgs) m).1
                    → (stepPinned (reachPinned msgs) m).2 = true.
    Proved: the same for every message that is not "remove player <default player>".  So D8
    is the only way the pinned handlers miss a wake-up: the sibling cases — remove client,
    update client, set-now-playing-player, removal of an explicitly chosen player, set state /
    content-item update for the player being reported — are sound on the pinned tree too. -/
theorem wake_on_change_pinned_partial (now : Int) (msgs : List Msg) (m : Msg)
    (hnotD8 : ∀ p, m = .removePlayer p → p.player ≠ defaultPlayer)
    (hchange : report now (reachPinned msgs) ≠ report now (stepPinned (reachPinned msgs) m).1) :
    (stepPinned (reachPinned msgs) m).2 = true := by
  obtain ⟨_, hi⟩ := reachPinned_sim msgs
  cases hn : (stepPinned (reachPinned msgs) m).2 with
  | true => rfl
  | false =>
    exfalso
    apply hchange
    obtain ⟨a, b⟩ := step_sim false (reachPinned msgs) m hi
    unfold stepPinned at hn ⊢
    rw [report_abs now _ b, a, report_abs now _ hi,
      quiet_inert_G false now _ m hi hn (fun _ => hnotD8)]

/-- **C11, position clamping** (`Playing._post_process`): for every integer position and
    every total time that is absent or non-negative, the reported position is never negative
    and never beyond a positive total time.  (A negative total is outside the property's
    domain — the two bounds would contradict each other; total = 0 is treated by the code
    as "no total time", exactly like an absent one.) -/
theorem position_clamped (pos total : Option Int) (hdom : ∀ t, total = some t → 0 ≤ t) :
    ∀ p, postProcess pos total = some p → 0 ≤ p ∧ (∀ t, total = some t → 0 < t → p ≤ t) := by
  intro p hp
  unfold postProcess at hp
  cases pos with
  | none => cases hp
  | some x =>
    simp only at hp
    split at hp
    · next h0 =>
      cases hp; subst h0
      exact ⟨by omega, fun t _ ht => by omega⟩
    · cases total with
      | none => simp only [Option.some.injEq] at hp; subst hp; exact ⟨by omega, fun t ht => by cases ht⟩
      | some t =>
        have ht := hdom t rfl
        simp only at hp
        split at hp
        · simp only [Option.some.injEq] at hp; subst hp
          exact ⟨by omega, fun t' ht' hpos => by cases ht'; omega⟩
        · simp only [Option.some.injEq] at hp; subst hp
          exact ⟨by omega, fun t' ht' hpos => by cases ht'; omega⟩

/-- the position inside any report built by `build_playing_instance` obeys the same bounds
    whenever the item's duration is absent or non-negative -/
theorem reported_position_clamped (now : Int) (v : PView) (app : Option (Option Nat × Nat))
    (hdom : ∀ t, v.info.field (·.duration) = some t → 0 ≤ t) :
    ∀ p, (buildPlaying now v app).position = some p →
      0 ≤ p ∧ (∀ t, (buildPlaying now v app).total = some t → 0 < t → p ≤ t) :=
  position_clamped _ _ hdom

/-! ## Non-vacuity -/

/-- a history where the premise of `other_players_inert` holds non-trivially: client 1 is
    active with chosen player 2 playing; the message is about (1, 3). -/
example : (reach [.setNowPlayingClient 1 none, .setNowPlayingPlayer ⟨1, none, 2⟩,
    .setState ⟨1, none, 2⟩ (some .playing) none none]).serving = some (1, 2) ∧
    (Msg.setState ⟨1, none, 3⟩ (some .stopped) none none).about = some (1, 3) := by decide

/-- `other_clients_inert`: client 2 is not active while client 1 is. -/
example : ∀ p, (reach [.setNowPlayingClient 1 none, .setState ⟨2, none, 1⟩ (some .playing) none none]).serving
    ≠ some (2, p) := by
  have h : (reach [.setNowPlayingClient 1 none,
      .setState ⟨2, none, 1⟩ (some .playing) none none]).serving = some (1, defaultPlayer) := by decide
  intro p hp
  rw [h] at hp
  simp at hp

/-- `remove_active_*`: a history in which the default player of client 1 is being reported
    as Stopped, and one where the chosen player 2 is reported while the default player has
    its own (Paused, with an item) state to fall back to. -/
example : (reach d8Prefix).serving = some (1, defaultPlayer) ∧
    (report 0 (reach d8Prefix)).map (·.state) = some .stopped := by decide

example :
    let h : List Msg := [.setNowPlayingClient 1 (some 5),
      .setState ⟨1, none, 1⟩ (some .paused) none (some (0, [⟨7, { title := some 9 }⟩])),
      .setNowPlayingPlayer ⟨1, none, 2⟩, .setState ⟨1, none, 2⟩ (some .playing) none none]
    (reach h).serving = some (1, 2) ∧
    (report 0 (reach h)).map (·.state) = some .playing ∧
    (report 0 (step (reach h) (.removePlayer ⟨1, none, 2⟩)).1).map (fun r => (r.state, r.title, r.app))
      = some (.paused, some 9, some (some 5, 1)) := by decide

/-- `wake_on_change`: the D8 history does change the report, and the repaired handler wakes
    the listener (the pinned one does not). -/
example : report 0 (reach d8Prefix) ≠ report 0 (step (reach d8Prefix) d8Msg).1 ∧
    (step (reach d8Prefix) d8Msg).2 = true ∧ (stepPinned (reachPinned d8Prefix) d8Msg).2 = false := by
  decide

/-- `wake_sees_new_state` / `wake_on_change_observed`: removing the active client wakes the
    listener, and what it sees is already the idle state (not the removed client). -/
example :
    let h : List Msg := [.setNowPlayingClient 1 none, .setState ⟨1, none, 1⟩ (some .playing) none none]
    ((stepW true (reach h) (.removeClient 1 none)).2.map fun s => (report 0 s).map (·.state))
      = some (some .idle) ∧
    (report 0 (reach h)).map (·.state) = some .playing := by decide

/-- `wake_on_change_pinned_partial`: a message allowed by its hypothesis that does change the
    report on the pinned tree (removing the explicitly chosen, playing player 2). -/
example :
    let h : List Msg := [.setNowPlayingClient 1 none, .setNowPlayingPlayer ⟨1, none, 2⟩,
      .setState ⟨1, none, 2⟩ (some .playing) none none]
    report 0 (reachPinned h) ≠ report 0 (stepPinned (reachPinned h) (.removePlayer ⟨1, none, 2⟩)).1 ∧
    (stepPinned (reachPinned h) (.removePlayer ⟨1, none, 2⟩)).2 = true := by decide

/-- `position_clamped`: both clamps fire on inputs inside the domain. -/
example : postProcess (some (-3)) (some 10) = some 0 ∧ postProcess (some 25) (some 10) = some 10 ∧
    postProcess (some 25) none = some 25 ∧ postProcess (some 25) (some 0) = some 25 := by decide

/-- outside the domain (negative total) the bounds cannot both hold — why it is excluded -/
example : postProcess (some 3) (some (-5)) = some (-5) := by decide

end PyatvModel.Props.C11
