import PyatvModel.C02.Lemmas
import PyatvModel.Base.FramingLayered
/-
C02 — message framing is independent of how the byte stream is segmented.

Property text: "… the sequence of messages delivered to the layer above depends only on
the bytes received, not on how the network split them into reads.  Any split of a valid
stream … yields exactly the messages the unsplit stream yields and leaves the connection
usable."

Statement proved, per connection type `t` (model: `C02/Model.lean`):

    C02_<t> : ∀ chunks, NoErr t chunks → feedAll t chunks = feed t [] chunks.flatten

for EVERY list of reads `chunks` (any number of cuts, any positions, empty reads
included) whose concatenation the unsplit run processes without an exception (every
valid stream; `valid_<t>` examples).  Equality is of the whole outcome: messages delivered
in order, the residual buffer ("connection stays usable": `C02_usable`), and no exception.
For MRP, Companion and HAP blocks the framer never raises, so the hypothesis disappears.

The theorems are instances of `Framing.feedAll_concat` (generic, proved by induction on
the list of reads) through the `PrefixStable` proofs of `C02/Lemmas.lean`.

MRP: the theorem is about the repaired `data_received` (`fix:` commit, D1).  The pinned
code is `mrpPinned`; `C02_mrpPinned_counterexample` shows the statement is false for it.
-/
namespace PyatvModel.Props.C02
open PyatvModel PyatvModel.Framing PyatvModel.C02

/-- the unsplit run raises no exception -/
def NoErr {M : Type} (f : Framer M) (chunks : List Bytes) : Prop :=
  (feed f [] chunks.flatten).err = none

instance {M : Type} (f : Framer M) (chunks : List Bytes) : Decidable (NoErr f chunks) := by
  unfold NoErr; infer_instance

/-- the property for one framer -/
def SegmentationIndependent {M : Type} (f : Framer M) : Prop :=
  ∀ chunks : List Bytes, NoErr f chunks → feedAll f chunks = feed f [] chunks.flatten

theorem segInd_of_prefixStable {M : Type} {f : Framer M} (hs : PrefixStable f) :
    SegmentationIndependent f :=
  fun chunks hok => feedAll_concat hs chunks hok

theorem noErr_of_never {M : Type} {f : Framer M} (hs : PrefixStable f)
    (hne : ∀ b e, f.ext b ≠ .err e) (chunks : List Bytes) : NoErr f chunks := by
  unfold NoErr
  rw [feed_eq_drainAll]
  exact drainAll_noErr hs.prog hne _ _ (Nat.le_refl _)

/-! ## MRP (varint length prefix) — repaired code -/

/-- **C02, MRP.** Every segmentation of every byte stream (no hypothesis: the repaired
    receive loop never raises). -/
theorem C02_mrp (chunks : List Bytes) : feedAll mrp chunks = feed mrp [] chunks.flatten :=
  segInd_of_prefixStable mrp_prefixStable chunks (noErr_of_never mrp_prefixStable mrp_never_err chunks)

/-- D1: on the pinned code the statement is false — a two-byte varint cut after its first
    byte (shortest witness: the 2-byte encoding `80 00` of length 0; the harness replays
    the canonical 128-byte frame `80 01 ‖ payload` on the real code). -/
theorem C02_mrpPinned_counterexample : ¬ SegmentationIndependent mrpPinned := by
  intro h
  have := h [[0x80], [0x00]] (by decide)
  revert this
  decide

/-! ## Companion (type byte + 3-byte big-endian length) -/

theorem C02_companion (chunks : List Bytes) :
    feedAll companion chunks = feed companion [] chunks.flatten :=
  segInd_of_prefixStable companion_prefixStable chunks
    (noErr_of_never companion_prefixStable companion_never_err chunks)

/-! ## HAP session blocks (2-byte LE length + ciphertext + 16-byte tag) -/

theorem C02_hap (chunks : List Bytes) : feedAll hap chunks = feed hap [] chunks.flatten :=
  segInd_of_prefixStable hap_prefixStable chunks (noErr_of_never hap_prefixStable hap_never_err chunks)

/-! ## AirPlay data stream channel (32-byte header with size field) -/

theorem C02_dataStream : SegmentationIndependent dataStream :=
  segInd_of_prefixStable dataStream_prefixStable

/-! ## HTTP / RTSP client, built-in HTTP server, AirPlay event channel -/

/-- for every interpretation `P` of the header block (Content-Length extraction and
    first-line check are parameters) -/
theorem C02_http (P : HttpParams) : SegmentationIndependent (http P) :=
  segInd_of_prefixStable (http_prefixStable P)

theorem C02_httpClient : SegmentationIndependent httpClient := C02_http responseParams
theorem C02_httpServer : SegmentationIndependent httpServer := C02_http requestParams
/-- `EventChannel.handle_received` cuts requests exactly as the server does -/
theorem C02_eventChannel : SegmentationIndependent httpServer := C02_http requestParams

/-! ## Valid streams meet the hypothesis (`validStream_noErr`) -/

/-- a stream of well-formed HTTP messages is processed without error and yields them -/
theorem valid_http (P : HttpParams) (ms : List (Bytes × Bytes)) (h : ∀ m ∈ ms, HttpWF P m) :
    NoErr (http P) [ms.flatMap httpEnc] ∧ (feed (http P) [] (ms.flatMap httpEnc)).msgs = ms := by
  unfold NoErr
  simp only [List.flatten_cons, List.flatten_nil, List.append_nil, feed_eq_drainAll, List.nil_append,
    http_valid_noErr P ms h, and_self]

/-- a stream of well-formed data-stream frames is processed without error and yields them -/
theorem valid_dataStream (ms : List (Bytes × Bytes)) (h : ∀ m ∈ ms, DataWF m) :
    NoErr dataStream [ms.flatMap dataEnc] ∧ (feed dataStream [] (ms.flatMap dataEnc)).msgs = ms := by
  unfold NoErr
  simp only [List.flatten_cons, List.flatten_nil, List.append_nil, feed_eq_drainAll, List.nil_append,
    dataStream_valid_noErr ms h, and_self]

/-! ## Layered channels: HAP blocks below, message framer above -/

/-- both layers process the unsplit stream without error (`dec` = the AEAD, any) -/
def LNoErr {U σ : Type} (L : Layered (Bytes × Bytes) U σ) (cs0 : σ) (chunks : List Bytes) : Prop :=
  (drainAll L.lower chunks.flatten).err = none ∧
  (drainAll L.upper (decAll L.dec cs0 (drainAll L.lower chunks.flatten).msgs).2).err = none

/-- **C02, AirPlay data channel** (`DataStreamChannel` over `HAPSession`): for every AEAD
    behaviour `dec`, every initial cipher state and every segmentation. -/
theorem C02_dataChannel {σ : Type} (dec : σ → Bytes × Bytes → σ × Bytes) (cs0 : σ) (chunks : List Bytes)
    (h : LNoErr ⟨hap, dec, dataStream⟩ cs0 chunks) :
    lfeedAll ⟨hap, dec, dataStream⟩ (LState.init cs0) chunks
      = lfeedAll ⟨hap, dec, dataStream⟩ (LState.init cs0) [chunks.flatten] :=
  lfeedAll_concat ⟨hap, dec, dataStream⟩ hap_prefixStable dataStream_prefixStable cs0 chunks h.1 h.2

/-- **C02, HTTP/RTSP over HAP** (`HttpConnection.receive_processor = HAPSession.decrypt`,
    `EventChannel`, encrypted `BasicHttpServer`), for every header interpretation `P`. -/
theorem C02_httpOverHap {σ : Type} (P : HttpParams) (dec : σ → Bytes × Bytes → σ × Bytes) (cs0 : σ)
    (chunks : List Bytes) (h : LNoErr ⟨hap, dec, http P⟩ cs0 chunks) :
    lfeedAll ⟨hap, dec, http P⟩ (LState.init cs0) chunks
      = lfeedAll ⟨hap, dec, http P⟩ (LState.init cs0) [chunks.flatten] :=
  lfeedAll_concat ⟨hap, dec, http P⟩ hap_prefixStable (http_prefixStable P) cs0 chunks h.1 h.2

/-- generic form: any two prefix-stable framers stacked -/
theorem C02_layered {B U σ : Type} (L : Layered B U σ) (hl : PrefixStable L.lower)
    (hu : PrefixStable L.upper) (cs0 : σ) (chunks : List Bytes)
    (hlo : (drainAll L.lower chunks.flatten).err = none)
    (huo : (drainAll L.upper (decAll L.dec cs0 (drainAll L.lower chunks.flatten).msgs).2).err = none) :
    lfeedAll L (LState.init cs0) chunks = lfeedAll L (LState.init cs0) [chunks.flatten] :=
  lfeedAll_concat L hl hu cs0 chunks hlo huo

/-! ## "leaves the connection usable" and the layer above -/

/-- after any segmentation the next read is processed exactly as after the unsplit stream -/
theorem C02_usable {M : Type} {f : Framer M} (hs : PrefixStable f) (chunks : List Bytes)
    (next : Bytes) (hok : NoErr f chunks) :
    feedAllFrom f (feedAll f chunks) [next] = feedAllFrom f (feed f [] chunks.flatten) [next] :=
  feedAll_then hs chunks next hok

/-! ## Every stream (valid or not), and a layer above that fails -/

/-- **no hypothesis on the stream**: for every byte stream and every segmentation the
    messages delivered are those of the unsplit run and the connection ends closed by an
    exception iff the unsplit run does (only the bytes left in a dead connection differ) -/
theorem C02_any_stream {M : Type} {f : Framer M} (hs : PrefixStable f) (hnil : f.ext [] = .need)
    (chunks : List Bytes) :
    (feedAll f chunks).msgs = (feed f [] chunks.flatten).msgs ∧
    (feedAll f chunks).err.isSome = (feed f [] chunks.flatten).err.isSome :=
  feedAll_concat_msgs hs hnil chunks

theorem C02_dataStream_any (chunks : List Bytes) :
    (feedAll dataStream chunks).msgs = (feed dataStream [] chunks.flatten).msgs ∧
    (feedAll dataStream chunks).err.isSome = (feed dataStream [] chunks.flatten).err.isSome :=
  C02_any_stream dataStream_prefixStable
    (by have h : PyatvModel.Gen.C02.dataHeaderLength = 32 := rfl; simp [dataStream, h]) chunks

theorem C02_http_any (P : HttpParams) (chunks : List Bytes) :
    (feedAll (http P) chunks).msgs = (feed (http P) [] chunks.flatten).msgs ∧
    (feedAll (http P) chunks).err.isSome = (feed (http P) [] chunks.flatten).err.isSome :=
  C02_any_stream (http_prefixStable P) (by simp [http]) chunks

/-- **the layer above fails on a message, exception escapes** (data channel:
    `handle_protobuf` raising leaves `data_received`, the transport is closed): for every
    predicate `bad` saying on which messages the consumer raises and every segmentation,
    the messages handed over before the failure and the fact that the connection is closed
    are those of the unsplit stream.  (Transports that swallow the consumer's exception —
    MRP, Companion, the HTTP server — frame independently of the consumer: `C02_mrp`,
    `C02_companion`, `C02_httpServer` apply unchanged and `C02_delivered` covers what the
    consumer saw.) -/
theorem C02_consumer_fails {M : Type} {f : Framer M} (hs : PrefixStable f) (hnil : f.ext [] = .need)
    (bad : M → Bool) (chunks : List Bytes) :
    (feedAll (withConsumer f bad) chunks).msgs = (feed (withConsumer f bad) [] chunks.flatten).msgs ∧
    (feedAll (withConsumer f bad) chunks).err.isSome
      = (feed (withConsumer f bad) [] chunks.flatten).err.isSome :=
  feedAll_concat_msgs (withConsumer_prefixStable hs bad) (withConsumer_nil bad hnil) chunks

/-- non-vacuity: three MRP-framed messages, the consumer fails on the second; cut inside
    it: first message delivered, run closed, third never handed over — as unsplit -/
example : feedAll (withConsumer mrp (fun m => m == [7])) [[1, 5, 1], [7, 1, 9]] = ⟨[[5]], [1, 7, 1, 9], some .consumer⟩
    ∧ (feed (withConsumer mrp (fun m => m == [7])) [] [1, 5, 1, 7, 1, 9]).msgs = [[5]] := by decide

/-- **sends and other events between reads**: any sequence of operations on one connection
    (reads interleaved with sends of the application, e.g. RAOP's periodic `/feedback` request
    while a response is half received, and with `Op.ctl` events: `enable_encryption` once the
    last clear-text frame was delivered while the next frame is partly buffered, the caller of
    a pending request giving up) delivers what the unsplit stream delivers — in the
    model a send does not touch the receive state; the harness interleaves real sends -/
theorem C02_sends_irrelevant {M : Type} {f : Framer M} (hs : PrefixStable f) (ops : List Op)
    (hok : NoErr f (Op.recvs ops)) :
    runOps f ⟨[], [], none⟩ ops = feed f [] (Op.recvs ops).flatten := by
  rw [runOps_eq]
  exact feedAll_concat hs _ hok

/-- **several live connections**: however the event loop interleaves the reads of
    connections `0,1,2,…`, connection `i` delivers exactly what its own bytes, unsplit,
    deliver (no state is shared between connection objects) -/
theorem C02_connections_independent {M : Type} {f : Framer M} (hs : PrefixStable f)
    (sched : List (Nat × Bytes)) (i : Nat)
    (hok : NoErr f ((sched.filter (fun p => p.1 = i)).map (·.2))) :
    runSched f (fun _ => ⟨[], [], none⟩) sched i
      = feed f [] ((sched.filter (fun p => p.1 = i)).map (·.2)).flatten := by
  rw [runSched_eq]
  exact feedAll_concat hs _ hok

/-- whatever stateful handler consumes the frames (decrypt with a nonce counter, protobuf
    / plist parse, dispatch to the listener): its outputs are the same -/
theorem C02_delivered {M σ D : Type} {f : Framer M} (hs : PrefixStable f)
    (step : σ → M → σ × List D) (s : σ) (chunks : List Bytes) (hok : NoErr f chunks) :
    deliver step s (feedAll f chunks).msgs = deliver step s (feed f [] chunks.flatten).msgs :=
  deliver_feedAll hs step s chunks hok

/-- two segmentations of one stream cannot be told apart -/
theorem C02_any_two {M : Type} {f : Framer M} (hs : PrefixStable f) (c1 c2 : List Bytes)
    (hsame : c1.flatten = c2.flatten) (hok : NoErr f c1) : feedAll f c1 = feedAll f c2 :=
  feedAll_segmentation_irrel hs c1 c2 hsame hok

/-- the per-read trace the Lean driver prints (and the harness compares with the real
    object read by read) is the run `feedAll` the theorems are about -/
theorem C02_trace {M : Type} (f : Framer M) (chunks : List Bytes) :
    feedAll f chunks = ⟨(feedTrace f [] chunks).flatMap (·.msgs),
                        ((feedTrace f [] chunks).getLast?.map (·.rest)).getD [],
                        (feedTrace f [] chunks).getLast?.bind (·.err)⟩ :=
  feedTrace_feedAll f chunks

/-- the receive loop makes at most `length+1` extraction attempts (shared with C05) -/
theorem C02_loop_bound {M : Type} {f : Framer M} (hs : PrefixStable f) (n : Nat) (b : Bytes) :
    drainSteps f n b ≤ b.length + 1 := drain_steps_le hs.prog n b

/-! ## Non-vacuity: concrete valid streams, cut inside prefixes, deliver what they should -/

/-- three MRP frames (lengths 2, 0, 1) cut inside the second byte and byte-wise -/
example : feedAll mrp [[2, 0xAA], [0xBB, 0], [], [1], [0xCC]]
    = ⟨[[0xAA, 0xBB], [], [0xCC]], [], none⟩ := by decide

/-- a frame with a two-byte varint (`81 00` = 1), cut between the varint bytes -/
example : feedAll mrp [[0x81], [0x00, 0x07, 0x01]] = ⟨[[0x07]], [0x01], none⟩ := by decide

/-- the same cut on the pinned code raises -/
example : (feedAll mrpPinned [[0x81], [0x00, 0x07, 0x01]]).err = some .malformed := by decide

/-- Companion: header cut after 1 byte, payload cut, second frame with empty payload -/
example : feedAll companion [[8], [0, 0, 2, 0xAA], [0xBB, 1, 0, 0], [0]]
    = ⟨[(8, [0xAA, 0xBB]), (1, [])], [], none⟩ := by decide

/-- HAP: one block with 1 plaintext byte (+16 tag), cut inside the length and inside the tag -/
example : feedAll hap [[1], [0, 0x55, 1, 2, 3, 4, 5, 6, 7, 8], [9, 10, 11, 12, 13, 14, 15, 16, 0xEE]]
    = ⟨[([1, 0], [0x55, 1, 2, 3, 4, 5, 6, 7, 8, 9, 10, 11, 12, 13, 14, 15, 16])], [0xEE], none⟩ := by
  decide

/-- data stream: header-only frame (size 32) followed by the start of another, cut in the header -/
example : NoErr dataStream [[0, 0, 0], (32 :: List.replicate 28 1) ++ [0, 0]] := by decide
example : (feedAll dataStream [[0, 0, 0], (32 :: List.replicate 28 1) ++ [0, 0]]).msgs.length = 1
    ∧ (feedAll dataStream [[0, 0, 0], (32 :: List.replicate 28 1) ++ [0, 0]]).rest = [0, 0] := by decide

/-- HTTP: `A\r\n\r\n` with Content-Length 2 (as a parameter), cut inside CRLFCRLF and body -/
example : NoErr (http ⟨fun _ => some 2, fun _ => true⟩) [[65, 13, 10], [13, 10, 1], [2, 66]] := by decide
example : feedAll (http ⟨fun _ => some 2, fun _ => true⟩) [[65, 13, 10], [13, 10, 1], [2, 66]]
    = ⟨[([65], [1, 2])], [66], none⟩ := by decide

/-- the hypothesis excludes something: a bad first line raises once the body is complete -/
example : ¬ NoErr (http ⟨fun _ => some 0, fun _ => false⟩) [[65, 13, 10, 13, 10]] := by decide

/-- concrete header parsing used by the driver: `HTTP/1.1 200 OK\r\nContent-Le` ‖ `ngth: 3\r\n\r` ‖
    `\nabcR` delivers header, body `abc`, leaves `R` -/
example : feedAll httpClient
      [[72, 84, 84, 80, 47, 49, 46, 49, 32, 50, 48, 48, 32, 79, 75, 13, 10, 67, 111, 110, 116, 101, 110, 116, 45, 76, 101],
       [110, 103, 116, 104, 58, 32, 51, 13, 10, 13],
       [10, 97, 98, 99, 82]]
    = ⟨[([72, 84, 84, 80, 47, 49, 46, 49, 32, 50, 48, 48, 32, 79, 75, 13, 10, 67, 111, 110, 116, 101, 110, 116, 45, 76, 101, 110, 103, 116, 104, 58, 32, 51],
         [97, 98, 99])], [82], none⟩ := by decide

/-- two MRP connections interleaved byte-wise, with a send in between on the first -/
example : runSched mrp (fun _ => ⟨[], [], none⟩) [(0, [2]), (1, [1]), (0, [0xAA]), (1, [7, 3]), (0, [0xBB])] 0
      = ⟨[[0xAA, 0xBB]], [], none⟩
    ∧ runSched mrp (fun _ => ⟨[], [], none⟩) [(0, [2]), (1, [1]), (0, [0xAA]), (1, [7, 3]), (0, [0xBB])] 1
      = ⟨[[7]], [3], none⟩
    ∧ runOps mrp ⟨[], [], none⟩ [.recv [2], .send [9], .recv [0xAA], .ctl 0, .recv [0xBB]]
      = ⟨[[0xAA, 0xBB]], [], none⟩ := by decide

/-- well-formed HTTP message exists (header `A`, body 2 bytes, `clen = 2`) -/
example : HttpWF ⟨fun _ => some 2, fun _ => true⟩ ([65], [1, 2]) :=
  ⟨fun x => by simp [splitSep, crlf2, List.isPrefixOf], rfl, rfl⟩

/-- well-formed data-stream frame exists: size field 35 = 32 + 3 -/
example : DataWF ([0, 0, 0, 35] ++ List.replicate 28 7, [1, 2, 3]) := ⟨by decide, by decide⟩

/-- layered: a toy AEAD that "opens" a block to its ciphertext minus the tag -/
def toyL : Layered (Bytes × Bytes) (Bytes × Bytes) Nat :=
  ⟨hap, fun n b => (n + 1, b.2.take (b.2.length - 16)), http ⟨fun _ => some 1, fun _ => true⟩⟩

def toyTag : Bytes := List.replicate 16 0

/-- one HTTP message (`A`, CRLFCRLF, 1 body byte) spread over two HAP blocks; reads cut
    inside the length, the body and the tag -/
def toyStream : List Bytes :=
  [[3], [0, 65, 13], [10] ++ toyTag.take 5, toyTag.drop 5 ++ [3, 0, 13, 10, 9] ++ toyTag]

example : (drainAll toyL.lower toyStream.flatten).err = none ∧
    (drainAll toyL.upper (decAll toyL.dec 0 (drainAll toyL.lower toyStream.flatten).msgs).2).err = none := by
  decide

example : (lfeedAll toyL (LState.init 0) toyStream).out = [([65], [9])]
    ∧ (lfeedAll toyL (LState.init 0) toyStream).cs = 2
    ∧ (lfeedAll toyL (LState.init 0) toyStream).err = none := by decide

end PyatvModel.Props.C02
