import PyatvModel.C04.Headers.Lemmas
/-
C04 / fixed binary headers (pyatv/support/packet.py `defpacket`; the RTP, timing, sync,
audio, retransmit layouts of pyatv/protocols/raop/packets.py and the data-stream header of
pyatv/protocols/airplay/channels.py).  Property theorems only.

Generic, over an ARBITRARY layout (list of field widths), by induction:
* `dec_enc`        `decode(encode(*fs)) = fs` for every field tuple in the domain `Fits`
                   (integers < 2^(8·width), byte-string fields of exactly their size);
* `enc_width`      whatever `encode` accepts, it produces exactly Σ widths bytes;
* `decExcess_enc`  `decode(encode(*fs) + more, allow_excessive=True) = fs`;
* `enc_dec`        conversely every buffer of Σ widths bytes is the encoding of what it
                   decodes to (what a device sends is read without loss);
* `be_roundtrip`   the big-endian integer codec underneath, every width.
Instantiated for the layouts regenerated from the real classes:
* `gen_layouts`    every generated layout is big-endian (network order), uses only modelled
                   format characters, and Σ widths = the class's `.length`;
* `gen_roundtrip`  the round trip for each of them.
Documentation vectors (docs/documentation/protocols.md, data channel "Message format").
-/
namespace PyatvModel.Props.C04Headers
open PyatvModel PyatvModel.C04.Headers

theorem be_roundtrip (w n : Nat) (h : n < 256 ^ w) :
    beDec (beEnc w n) = n ∧ (beEnc w n).length = w :=
  ⟨beDec_beEnc w n h, beEnc_length w n⟩

example : beEnc 2 0xFFFF = [0xFF, 0xFF] ∧ beEnc 2 0x0102 = [0x01, 0x02] ∧ beEnc 4 1 = [0, 0, 0, 1] := by decide

/-- **C04 fixed headers, round trip** for every layout and every in-range field tuple. -/
theorem dec_enc (l : Layout) (vs : List Val) (h : Fits l vs) :
    ∃ bs, enc l vs = some bs ∧ dec l bs = some vs := by
  obtain ⟨bs, he, hl, hd⟩ := enc_decFields l vs h
  refine ⟨bs, he, ?_⟩
  have := hd []
  rw [List.append_nil] at this
  simp [dec, hl, this]

example : Fits [.uint 1, .uint 2, .raw 4, .uint 8]
    [.int 255, .int 65535, .bytes [1, 2, 3, 4], .int (2 ^ 64 - 1)] := by decide

example : ¬ Fits [.uint 2] [.int 65536] := by decide

/-- **length** = Σ widths, for everything `encode` accepts (also padded byte strings). -/
theorem enc_width (l : Layout) (vs : List Val) (bs : Bytes) (h : enc l vs = some bs) :
    bs.length = width l :=
  enc_length l vs bs h

example : enc [.uint 1, .raw 3] [.int 7, .bytes [9]] = some [7, 9, 0, 0] := by decide

theorem decExcess_enc (l : Layout) (vs : List Val) (h : Fits l vs) (r : Bytes) :
    ∃ bs, enc l vs = some bs ∧ decExcess l (bs ++ r) = some vs := by
  obtain ⟨bs, he, hl, hd⟩ := enc_decFields l vs h
  refine ⟨bs, he, ?_⟩
  have := hd []
  rw [List.append_nil] at this
  rw [decExcess, ← hl, List.take_left]
  simp [dec, hl, this]

/-- every buffer of the right size decodes to an in-range tuple that encodes back to it -/
theorem enc_dec (l : Layout) : ∀ (bs : Bytes), bs.length = width l →
    Fits l (decFields l bs) ∧ enc l (decFields l bs) = some bs := by
  induction l with
  | nil =>
    intro bs h
    have : bs = [] := List.eq_nil_of_length_eq_zero (by simpa [width] using h)
    subst this; exact ⟨trivial, rfl⟩
  | cons f fs ih =>
    intro bs h
    have hw : width (f :: fs) = f.width + width fs := by simp [width]
    rw [hw] at h
    have htl : (bs.take f.width).length = f.width := by simp; omega
    obtain ⟨h1, h2⟩ := ih (bs.drop f.width) (by simp; omega)
    cases f with
    | uint w =>
      simp only [Field.width] at htl h1 h2
      refine ⟨⟨?_, h1⟩, ?_⟩
      · have := beDec_lt (bs.take w); rw [htl] at this; exact this
      · have hlt : beDec (bs.take w) < 256 ^ w := by
          have := beDec_lt (bs.take w); rw [htl] at this; exact this
        have hb : beEnc w (beDec (bs.take w)) = bs.take w := by
          have := beEnc_beDec (bs.take w); rw [htl] at this; exact this
        simp [decFields, enc, encField, hlt, hb, h2]
    | raw k =>
      simp only [Field.width] at htl h1 h2
      refine ⟨⟨htl, h1⟩, ?_⟩
      simp only [decFields, enc, encField, h2]
      have : (bs.take k ++ List.replicate (k - (bs.take k).length) 0).take k = bs.take k := by
        rw [htl]; simp [List.take_take]
      rw [this]; simp

open PyatvModel.Gen.C04Headers in
/-- the layouts regenerated from the source tree: network byte order, only modelled format
    characters, and the declared `.length` is the sum of the field widths -/
theorem gen_layouts : ∀ p ∈ all, p.order = '>' ∧ ∃ l, layoutOf p = some l ∧ width l = p.size := by
  decide

open PyatvModel.Gen.C04Headers in
theorem gen_roundtrip : ∀ p ∈ all, ∀ l, layoutOf p = some l → ∀ vs, Fits l vs →
    ∃ bs, enc l vs = some bs ∧ bs.length = p.size ∧ dec l bs = some vs ∧
      ∀ r, decExcess l (bs ++ r) = some vs := by
  intro p hp l hl vs hf
  obtain ⟨bs, he, hd⟩ := dec_enc l vs hf
  obtain ⟨l', hl', hw⟩ := (gen_layouts p hp).2
  rw [hl] at hl'; cases hl'
  refine ⟨bs, he, by rw [enc_width l vs bs he, hw], hd, ?_⟩
  intro r
  obtain ⟨bs', he', hx⟩ := decExcess_enc l vs hf r
  rw [he] at he'; cases he'; exact hx

/-! ### the packets the property names are all present in the generated set -/
open PyatvModel.Gen.C04Headers in
example : (all.map (·.name)) = ["DataHeader", "AudioPacketHeader", "RetransmitReqeust", "RtpHeader",
    "SyncPacket", "TimingPacket"] := by decide

open PyatvModel.Gen.C04Headers in
example : layoutOf RtpHeader = some [.uint 1, .uint 1, .uint 2]
    ∧ layoutOf DataHeader = some [.uint 4, .raw 12, .raw 4, .uint 8, .uint 4] := by decide

/-! ### documentation vectors: protocols.md, data channel, "Here is one without payload" /
    "one with payload" (header part) -/
def dataHeader : Layout := [.uint 4, .raw 12, .raw 4, .uint 8, .uint 4]

example : layoutOf PyatvModel.Gen.C04Headers.DataHeader = some dataHeader := by decide

example : enc dataHeader
    [.int 32, .bytes [0x73, 0x79, 0x6e, 0x63, 0, 0, 0, 0, 0, 0, 0, 0], .bytes [0x63, 0x6d, 0x6e, 0x64],
     .int 14936527117008585134, .int 0]
    = some [0x00, 0x00, 0x00, 0x20, 0x73, 0x79, 0x6e, 0x63, 0x00, 0x00, 0x00, 0x00, 0x00, 0x00, 0x00, 0x00,
            0x63, 0x6d, 0x6e, 0x64, 0xcf, 0x49, 0x34, 0x46, 0x9b, 0x49, 0x41, 0xae, 0x00, 0x00, 0x00, 0x00] := by
  decide

example : dec dataHeader
    [0x00, 0x00, 0x00, 0x9d, 0x73, 0x79, 0x6e, 0x63, 0x00, 0x00, 0x00, 0x00, 0x00, 0x00, 0x00, 0x00,
     0x63, 0x6f, 0x6d, 0x6d, 0x00, 0x00, 0x00, 0x01, 0x61, 0x55, 0xc3, 0xe0, 0x00, 0x00, 0x00, 0x00]
    = some [.int 157, .bytes [0x73, 0x79, 0x6e, 0x63, 0, 0, 0, 0, 0, 0, 0, 0], .bytes [0x63, 0x6f, 0x6d, 0x6d],
            .int 5927977952, .int 0] := by
  decide

end PyatvModel.Props.C04Headers
