import PyatvModel.C05.DiscLemmas
/-
C05 (b) — isolation in discovery.  Model: the C12 scan pipeline (datagrams → `ServiceParser` →
per-source responses → `BaseScanner.handle_response` → `discover()` → `_should_include`) with
the exception barriers that exist in pyatv/core/mdns.py and, after `fix: discover() keeps going
when service_info or a device_info extractor raises …`, in pyatv/core/scan.py
(`C05/Model.lean` §5).

A hostile host is any set of sources `bad`; what it sends is arbitrary — datagrams on which
`DnsMessage.unpack` raises (`recs = none`) or arbitrary record content, including TXT values
on which the protocol handlers, `device_info` extractors or `service_info` raise.

* `isolation_multicast`   for every list of datagrams, in any interleaving, the configurations
      returned at the good addresses are exactly those returned when the bad sources'
      datagrams are removed;
* `isolation`             the statement of DESIGN.md: `results (good ++ [bad]) ↾ goodAddrs =
      results good`, for every bad payload;
* `isolation_unicast`     the same for the unicast scanner (a bad host in the `hosts` list);
* `isolation_unicast_gather` / `unicast_gather_counterexample`  the unicast path has no barrier
      around `ServiceParser.parse` (`get_response` → `_get_services` → `asyncio.gather`): isolation
      there rests on `parse` raising on no record content, and fails without it;
* `isolation_multicast_assemble` / `multicast_assemble_counterexample`  the same for the multicast
      path's assembly step (`get_response`: `_to_response` → `parse`, `_get_model`, after every
      per-datagram barrier);
* `good_only_good`        with no bad source nothing is filtered out;
* `discover_pinned_counterexample`  D7: on the pinned `discover()` a single raising
      `service_info` (Companion `rpfl=zz`, AirPlay `flags=zz`) makes the whole scan fail — the
      good device is not returned.

Hypothesis `Separated…` (decidable, explicit): bad hosts announce services at other addresses
than the good ones.  mDNS is unauthenticated — a host that announces services *at a good
device's address* can rewrite that device's entry by design; that is spoofing, not malformed
input, and not what the property is about.  Scan without identifier (as in C12).
-/
namespace PyatvModel.Props.C05Discover
open PyatvModel PyatvModel.C12 PyatvModel.C05

/-- **Isolation, multicast scanner**, any interleaving, any number of bad datagrams. -/
theorem isolation_multicast (e : Env) (si : SvcInfoFn) (bad goodAddr : Nat → Bool) (ws : List WDgram)
    (hsep : SeparatedM e bad goodAddr ws) :
    (scanM e si ws).filter (fun c => goodAddr c.addr) = scanM e si (ws.filter (fun w => !bad w.src)) := by
  unfold C05.scanM
  rw [handledM_filter e bad goodAddr ws hsep, results_filter]

/-- **Isolation** in the words of the property: one bad payload after any list of datagrams of
    well-behaved hosts. -/
theorem isolation (e : Env) (si : SvcInfoFn) (bad goodAddr : Nat → Bool) (good : List WDgram) (b : WDgram)
    (hgood : ∀ w ∈ good, bad w.src = false) (hbad : bad b.src = true)
    (hsep : SeparatedM e bad goodAddr (good ++ [b])) :
    (scanM e si (good ++ [b])).filter (fun c => goodAddr c.addr) = scanM e si good := by
  rw [isolation_multicast e si bad goodAddr _ hsep]
  congr 1
  rw [List.filter_append]
  have h1 : good.filter (fun w => !bad w.src) = good :=
    List.filter_eq_self.mpr (fun w hw => by simp [hgood w hw])
  have h2 : [b].filter (fun w => !bad w.src) = [] := by simp [hbad]
  rw [h1, h2, List.append_nil]

/-- **Isolation, unicast scanner**: a bad host among the scanned hosts. -/
theorem isolation_unicast (e : Env) (si : SvcInfoFn) (nq : Nat) (bad goodAddr : Nat → Bool)
    (hosts : List Nat) (ws : List WDgram) (hsep : SeparatedU e nq bad goodAddr hosts ws) :
    (scanU e si nq hosts ws).filter (fun c => goodAddr c.addr) =
      scanU e si nq (hosts.filter (fun h => !bad h)) (ws.filter (fun w => !bad w.src)) := by
  unfold C05.scanU
  rw [handledU_filter e nq bad goodAddr hosts ws hsep, results_filter]

/-- **Unicast, the exception path**: when `ServiceParser.parse` raises for no host, the scan that
    joins the hosts with `asyncio.gather` returns, and isolation holds for what it returns. -/
theorem isolation_unicast_gather (e : Env) (si : SvcInfoFn) (nq : Nat) (bad goodAddr : Nat → Bool)
    (hosts : List Nat) (ws : List WDgram) (raises : Nat → Bool) (htotal : ∀ h ∈ hosts, raises h = false)
    (hsep : SeparatedU e nq bad goodAddr hosts ws) :
    ∃ r, scanUGather e si nq hosts ws raises = some r ∧
      r.filter (fun c => goodAddr c.addr) =
        scanU e si nq (hosts.filter (fun h => !bad h)) (ws.filter (fun w => !bad w.src)) := by
  refine ⟨scanU e si nq hosts ws, ?_, isolation_unicast e si nq bad goodAddr hosts ws hsep⟩
  unfold scanUGather
  have : hosts.any raises = false := by
    rw [List.any_eq_false]
    intro h hh
    simp [htotal h hh]
  simp [this]

/-- nothing else is dropped: without bad sources the restriction is the identity -/
theorem good_only_good (e : Env) (si : SvcInfoFn) (goodAddr : Nat → Bool) (ws : List WDgram)
    (hsep : SeparatedM e (fun _ => false) goodAddr ws) :
    (scanM e si ws).filter (fun c => goodAddr c.addr) = scanM e si ws := by
  rw [isolation_multicast e si (fun _ => false) goodAddr ws hsep]
  congr 1
  exact List.filter_eq_self.mpr (fun _ _ => rfl)

/-! ### a concrete network (non-vacuity, and the D7 witness) -/

/-- service types: 0 `_device-info`, 1 `_sleep-proxy`, 3 `_airplay`, 5 `_companion-link`; every
    handler yields a service of protocol = type with identifier = instance -/
def exEnv : Env :=
  { req := [0, 1, 3, 5], devInfoT := 0, sleepT := 1,
    handler := fun t i _ => .res ⟨t, some i, i⟩,
    props := fun _ => [], devModel := fun _ _ => none, infoModel := fun _ => none }

/-- `service_info` of Companion raises on TXT payload 9 (`rpfl=zz`) -/
def exSi : SvcInfoFn := fun _ s => if s.proto = 5 then none else some 1

/-- one complete service announcement: SRV, A and TXT records -/
def announce (inst type host addr port txt : Nat) : List Rec :=
  [⟨.svc inst type, 120, .srv port (.host host)⟩, ⟨.host host, 120, .addr addr false⟩,
   ⟨.svc inst type, 120, .txt txt⟩]

def goodDg : WDgram := ⟨1, 0, some (announce 1 3 1 1 7000 1)⟩
/-- the hostile host's well-formed-looking Companion announcement with `rpfl=zz` -/
def badDg : WDgram := ⟨2, 1, some (announce 2 5 2 2 7001 9)⟩
/-- bytes that make `DnsMessage.unpack` raise -/
def garbageDg : WDgram := ⟨2, 2, none⟩

def isBad (s : Nat) : Bool := s == 2
def isGoodAddr (a : Nat) : Bool := a == 1

example : SeparatedM exEnv isBad isGoodAddr [goodDg, badDg] := by decide +kernel
example : SeparatedM exEnv isBad isGoodAddr [garbageDg, goodDg, badDg, garbageDg] := by decide +kernel
/-- the good device is found, with the hostile host present (two configurations) and without -/
example : (scanM exEnv exSi [goodDg, badDg]).map (·.addr) = [1, 2] ∧
    (scanM exEnv exSi [goodDg]).map (·.addr) = [1] := by decide +kernel
/-- the hostile device is returned without the property `service_info` could not compute -/
example : (scanM exEnv exSi [goodDg, badDg]).map (·.pairing) = [[(3, some 1)], [(5, none)]] := by
  decide +kernel
example : (scanM exEnv exSi [garbageDg, goodDg, badDg, garbageDg]).filter (fun c => isGoodAddr c.addr)
    = scanM exEnv exSi [goodDg] :=
  isolation_multicast exEnv exSi isBad isGoodAddr _ (by decide +kernel)

/-- unicast: hosts 1 and 2, one query each -/
example : SeparatedU exEnv 1 isBad isGoodAddr [1, 2] [goodDg, badDg, garbageDg] := by decide +kernel
example : (scanU exEnv exSi 1 [1, 2] [goodDg, badDg, garbageDg]).map (·.addr) = [1, 2] := by decide +kernel

/-- **Multicast, the assembly step**: `get_response` turns the collected records into `Response`s
    (`parse`, `_get_model`) after and outside all per-datagram handling; when that step raises for
    no source the scan returns and isolation holds for what it returns … -/
theorem isolation_multicast_assemble (e : Env) (si : SvcInfoFn) (bad goodAddr : Nat → Bool) (ws : List WDgram)
    (raises : Nat → Bool) (htotal : ∀ s ∈ mcastSources (ws.map decodeM), raises s = false)
    (hsep : SeparatedM e bad goodAddr ws) :
    ∃ r, scanMAssemble e si ws raises = some r ∧
      r.filter (fun c => goodAddr c.addr) = C05.scanM e si (ws.filter (fun w => !bad w.src)) := by
  refine ⟨C05.scanM e si ws, ?_, isolation_multicast e si bad goodAddr ws hsep⟩
  unfold scanMAssemble
  have : (mcastSources (ws.map decodeM)).any raises = false := by
    rw [List.any_eq_false]
    intro s hs
    simp [htotal s hs]
  simp [this]

/-- … and one source for which it raised would take every other source's devices with it. -/
theorem multicast_assemble_counterexample :
    ¬ (∀ (e : Env) (si : SvcInfoFn) (ws : List WDgram) (raises : Nat → Bool) (b : WDgram),
        (scanMAssemble e si ws raises).isSome → (scanMAssemble e si (ws ++ [b]) raises).isSome) := by
  intro h
  have := h exEnv exSi [goodDg] (fun s => s == 2) garbageDg (by decide +kernel)
  revert this
  decide +kernel

/-- … and that hypothesis cannot be dropped: there is no barrier on this path, one host on whose
    records `parse` raised would take every other host's result with it (the class of change
    `parse` must be guarded against; observed on the real `pyatv.scan(hosts=[…])` by the harness). -/
theorem unicast_gather_counterexample :
    ¬ (∀ (e : Env) (si : SvcInfoFn) (nq : Nat) (hosts : List Nat) (ws : List WDgram) (raises : Nat → Bool) (b : Nat),
        (scanUGather e si nq hosts ws raises).isSome → (scanUGather e si nq (hosts ++ [b]) ws raises).isSome) := by
  intro h
  have := h exEnv exSi 1 [1] [goodDg] (fun a => a == 2) 2 (by decide +kernel)
  revert this
  decide +kernel

/-- **D7, pinned**: "if the scan of the good hosts returns, so does the scan with one more
    announcement" is false of the pinned `discover()`. -/
theorem discover_pinned_counterexample :
    ¬ (∀ (e : Env) (si : SvcInfoFn) (good bad : List Hd),
        (resultsPinned e si good).isSome → (resultsPinned e si (good ++ bad)).isSome) := by
  intro h
  have := h exEnv exSi (handled exEnv (mcastResponses exEnv [decodeM goodDg]))
    (handled exEnv (mcastResponses exEnv [decodeM badDg])) (by decide +kernel)
  revert this
  decide +kernel

end PyatvModel.Props.C05Discover
