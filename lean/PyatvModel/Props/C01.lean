import PyatvModel.C01.History
import PyatvModel.C01.TableLemmas
/-
C01 — every API call is routed to the highest-priority implementing protocol.

Generic part (any protocol / interface types, any priority and override tables):
* `route_spec`       relay returns protocol `p` ⇔ `Best`: the property's own sentence —
                     `p` is registered and overrides the member, and it either holds the
                     takeover or (the holder does not serve the member and nobody earlier in
                     the priority list does);
* `route_unique`     at most one protocol satisfies `Best` (“and by no other protocol”);
* `route_none_iff`   NotSupportedError ⇔ no registered protocol overrides the member; relay
                     never fails in any other way (`route_error_is_notSupported`) and never
                     picks a protocol that merely inherits the default (`route_implements`);
* `takeover_atomic`  a failing FacadeAppleTV.takeover leaves every relayer as it was (any
                     interface list: repeats, unknown objects);
* `takeover_ok`      a successful one marks exactly the listed interfaces;
* `takeover_held_fails`  taking over an interface somebody already holds fails;
* `single_holder`    after ANY history of takeover/release calls (well-formed or not) every
                     relayer has at most one holder;
* `holder_spec`      after any well-formed history the holder of an interface is exactly the
                     protocol of the one not-yet-released takeover covering it;
* `history_routing`  … and calls are routed by `Best` with that holder.
Table part (regenerated `Gen` tables, `decide`):
* `default_prio_text`, `power_prio`, `relayer_prio`   the order written in the property;
* `registered_in_prio`, `impl_provides`, `setup_paths_agree` (tunnelled MRP, RAOP via AirPlay …
                     register the same tables as the native set-up);
* `routing`, `routing_not_supported`   the generic theorems instantiated for all 32 protocol
                     sets × all members × any holder;
* `call_eq_route`, `call_gate_closed`  the facade member itself (play_url's feature gate).
-/
namespace PyatvModel.Props.C01
open PyatvModel.C01 PyatvModel.Gen.C01

section Generic
variable {P I : Type}

/-- "connected protocol that actually implements that member" -/
def Implements (r : Relayer P) (impl : P → Bool) (p : P) : Prop :=
  r.reg p = true ∧ impl p = true

/-- The property's sentence: `p` implements the member and is the holder of the takeover, or
    no holder implements it and `p` is the first in the priority list that does. -/
def Best (r : Relayer P) (impl : P → Bool) (prio : List P) (p : P) : Prop :=
  Implements r impl p ∧
    (p ∈ r.takeover ∨
      ((∀ h ∈ r.takeover, ¬ Implements r impl h) ∧
        ∃ pre post, prio = pre ++ p :: post ∧ ∀ x ∈ pre, ¬ Implements r impl x))

theorem and_false_iff_not_implements (r : Relayer P) (impl : P → Bool) (x : P) :
    (r.reg x && impl x) = false ↔ ¬ Implements r impl x := by
  unfold Implements
  cases r.reg x <;> cases impl x <;> simp

theorem and_true_iff_implements (r : Relayer P) (impl : P → Bool) (x : P) :
    (r.reg x && impl x) = true ↔ Implements r impl x := by
  unfold Implements
  cases r.reg x <;> cases impl x <;> simp

theorem route_spec (r : Relayer P) (impl : P → Bool) (ov : List P) (p : P)
    (h1 : r.takeover.length ≤ 1) :
    r.relay impl ov = .ok p ↔ Best r impl (effPrio ov r.prio) p := by
  unfold Relayer.relay Best
  rw [findInstance_ok_iff]
  simp only [and_false_iff_not_implements, and_true_iff_implements]
  match hto : r.takeover, h1 with
  | [], _ =>
    simp only [List.nil_append, List.not_mem_nil, false_or, false_imp_iff, implies_true, true_and]
    constructor
    · rintro ⟨pre, post, e, hpre, hp⟩
      exact ⟨hp, pre, post, e, hpre⟩
    · rintro ⟨hp, pre, post, e, hpre⟩
      exact ⟨pre, post, e, hpre, hp⟩
  | [h], _ =>
    simp only [List.mem_singleton, forall_eq]
    constructor
    · rintro ⟨pre, post, e, hpre, hp⟩
      refine ⟨hp, ?_⟩
      cases pre with
      | nil =>
        simp at e
        exact Or.inl e.1.symm
      | cons b pre =>
        simp at e
        refine Or.inr ⟨?_, pre, post, e.2, fun x hx => hpre x (List.mem_cons_of_mem _ hx)⟩
        have := hpre b (by simp)
        rwa [← e.1] at this
    · rintro ⟨hp, hor⟩
      rcases hor with rfl | ⟨hh, pre, post, e, hpre⟩
      · exact ⟨[], _, rfl, by simp, hp⟩
      · refine ⟨h :: pre, post, by simp [e], ?_, hp⟩
        intro x hx
        rcases List.mem_cons.mp hx with rfl | hx
        · exact hh
        · exact hpre x hx
  | _ :: _ :: _, h1 => simp at h1

theorem route_unique (r : Relayer P) (impl : P → Bool) (ov : List P) (p q : P)
    (h1 : r.takeover.length ≤ 1)
    (hp : Best r impl (effPrio ov r.prio) p) (hq : Best r impl (effPrio ov r.prio) q) : p = q := by
  rw [← route_spec r impl ov p h1] at hp
  rw [← route_spec r impl ov q h1, hp] at hq
  cases hq; rfl

/-- relay never hands the call to a protocol that merely inherits the interface default -/
theorem route_implements (r : Relayer P) (impl : P → Bool) (ov : List P) (p : P)
    (h : r.relay impl ov = .ok p) : Implements r impl p := by
  unfold Relayer.relay at h
  obtain ⟨_, _, _, _, hp⟩ := (findInstance_ok_iff _ _ _ _).mp h
  exact (and_true_iff_implements r impl p).mp hp

theorem route_error_is_notSupported (r : Relayer P) (impl : P → Bool) (ov : List P) (e : Err)
    (h : r.relay impl ov = .error e) : e = .notSupported :=
  ((findInstance_error_iff _ _ _ _).mp h).1

/-- `hcover`: every registered protocol is in the priority list used (Relayer.register
    refuses others, relayer.py:79-82; for the real tables: `registered_in_prio`). -/
theorem route_none_iff (r : Relayer P) (impl : P → Bool) (ov : List P)
    (hcover : ∀ x, r.reg x = true → x ∈ effPrio ov r.prio) :
    r.relay impl ov = .error .notSupported ↔ ∀ x, ¬ Implements r impl x := by
  unfold Relayer.relay
  rw [findInstance_error_iff]
  simp only [and_false_iff_not_implements, true_and]
  constructor
  · intro h x hx
    exact h x (List.mem_append_right _ (hcover x hx.1)) hx
  · intro h x _
    exact h x

variable [DecidableEq I]

theorem takeover_atomic (f f' : Facade I P) (p : P) (is : List (Option I))
    (h : f.takeover p is = .error f') : ∀ i, f' i = f i :=
  takeover_error_fac f f' p is h

theorem takeover_ok (f f' : Facade I P) (p : P) (is : List (Option I)) (taken : List I)
    (h : f.takeover p is = .ok (f', taken)) :
    taken.Nodup ∧ (∀ j, j ∈ taken ↔ some j ∈ is) ∧ (∀ j ∈ taken, (f j).takeover = []) ∧
      (∀ j, f' j = if j ∈ taken then { f j with takeover := [p] } else f j) :=
  takeover_ok_fac f f' p is taken h

/-- an interface that is already held (by anybody) cannot be taken over: the call fails -/
theorem takeover_held_fails (f : Facade I P) (p : P) (is : List (Option I)) (i : I)
    (hi : some i ∈ is) (hheld : (f i).takeover ≠ []) : ∃ f', f.takeover p is = .error f' := by
  cases h : f.takeover p is with
  | error f' => exact ⟨f', rfl⟩
  | ok r =>
    obtain ⟨f', taken⟩ := r
    obtain ⟨_, h2, h3, _⟩ := takeover_ok_fac f f' p is taken h
    exact absurd (h3 i ((h2 i).mpr hi)) hheld

theorem single_holder (f : Facade I P) (h0 : ∀ i, (f i).takeover = []) (ops : List (Op I P)) (i : I) :
    ((run (HState.init f) ops).fac i).takeover.length ≤ 1 :=
  single_run ops (HState.init f) (fun i => by simp [HState.init, h0 i]) i

theorem holder_spec (f : Facade I P) (h0 : ∀ i, (f i).takeover = []) (ops : List (Op I P))
    (hwf : wellFormed (HState.init f) ops = true) (i : I) :
    ((run (HState.init f) ops).fac i).takeover = holders (run (HState.init f) ops) i ∧
      (holders (run (HState.init f) ops) i).length ≤ 1 := by
  have hinv := inv_run ops (HState.init f) (inv_init f h0) hwf
  exact ⟨hinv.coh i, hinv.coh i ▸ hinv.single i⟩

/-- after any well-formed history a call on interface `i` goes to `p` iff `p` is `Best`
    for a relayer that differs from the freshly connected one only by its holder, which is
    the protocol of the live takeover covering `i` -/
theorem history_routing (f : Facade I P) (h0 : ∀ i, (f i).takeover = []) (ops : List (Op I P))
    (hwf : wellFormed (HState.init f) ops = true) (i : I) (impl : P → Bool) (ov : List P) (p : P) :
    ((run (HState.init f) ops).fac i).relay impl ov = .ok p ↔
      Best { f i with takeover := holders (run (HState.init f) ops) i } impl (effPrio ov (f i).prio) p := by
  have hs := holder_spec f h0 ops hwf i
  have hf := frame_run ops (HState.init f) i
  have heq : (run (HState.init f) ops).fac i
      = { f i with takeover := holders (run (HState.init f) ops) i } := by
    cases hr : (run (HState.init f) ops).fac i with
    | mk prio reg tk =>
      rw [hr] at hs hf
      simp only [HState.init] at hf
      simp only at hs
      cases hfi : f i with
      | mk prio' reg' tk' =>
        rw [hfi] at hf
        simp only at hf
        simp only [Relayer.mk.injEq]
        exact ⟨hf.2, hf.1, hs.1⟩
  rw [heq]
  exact route_spec _ impl ov p hs.2

end Generic

/-! ### Non-vacuity of the generic theorems -/

/-- a history with a failing takeover (interface 1 is held), a repeated interface and a release -/
def exOps : List (Op Nat Nat) :=
  [.takeover 7 [some 1, none, some 2], .takeover 8 [some 3, some 1], .takeover 9 [some 4, some 4],
   .release 0, .takeover 8 [some 1]]

def exFacade : Facade Nat Nat := fun _ => ⟨[1, 2, 3], fun p => p != 2, []⟩

example : wellFormed (HState.init exFacade) exOps = true := by decide
example : (step (HState.init exFacade) (exOps.getD 0 (.release 0))).2 = .token 0 := by decide
example : (step (run (HState.init exFacade) (exOps.take 1)) (.takeover 8 [some 3, some 1])).2 = .invalidState := by decide
example : ((run (HState.init exFacade) (exOps.take 2)).fac 3).takeover = [] := by decide
/-- the third takeover lists interface 4 twice: it fails and interface 4 stays free -/
example : (step (run (HState.init exFacade) (exOps.take 2)) (.takeover 9 [some 4, some 4])).2 = .invalidState ∧
    ((run (HState.init exFacade) (exOps.take 3)).fac 4).takeover = [] := by decide
example : ((run (HState.init exFacade) exOps).fac 1).takeover = [8] := by decide
example : Best ⟨[1, 2, 3], fun p => p != 2, [3]⟩ (fun p => p != 3) [1, 2, 3] 1 :=
  ⟨⟨rfl, rfl⟩, Or.inr ⟨by simp [Implements], [], [2, 3], rfl, by simp⟩⟩
/-- without the well-formedness hypothesis `holder_spec` is false: calling closure 0 twice
    wipes the takeover that protocol 8 acquired in between -/
example : ((run (HState.init exFacade) (exOps ++ [.release 0])).fac 1).takeover = [] ∧
    holders (run (HState.init exFacade) (exOps ++ [.release 0])) 1 = [8] := by decide

/-! ### The regenerated tables -/

/-- "MRP, DMAP, Companion, AirPlay, RAOP" -/
theorem default_prio_text : defaultPriorities = [.mrp, .dmap, .companion, .airplay, .raop] := by
  decide

/-- every interface but power is constructed with, and called with, the default order -/
theorem relayer_prio (i : Iface) (h : i ≠ .power) :
    effPrio (callOverride i) (relayerPrio i) = defaultPriorities := by
  cases i <;> first | exact absurd rfl h | decide

/-- "Companion first for power", the others in the default order -/
theorem power_prio :
    (effPrio (callOverride .power) (relayerPrio .power)).head? = some .companion ∧
    (effPrio (callOverride .power) (relayerPrio .power)).filter (· != .companion)
      = defaultPriorities.filter (· != .companion) := by
  decide

theorem registered_in_prio (i : Iface) (p : Proto) : p ∈ effPrio (callOverride i) (relayerPrio i) := by
  cases i <;> cases p <;> decide

theorem impl_provides_table :
    (Proto.all.all fun p => Member.all.all fun m => !impl p m || (provides p).contains m.iface) = true := by
  decide +kernel

/-- a protocol that overrides a member has registered an instance of that interface -/
theorem impl_provides (p : Proto) (m : Member) (h : impl p m = true) :
    (provides p).contains m.iface = true := by
  have := impl_provides_table
  rw [List.all_eq_true] at this
  have := this p (Proto.mem_all p)
  rw [List.all_eq_true] at this
  have := this m (Member.mem_all m)
  simp only [h, Bool.not_true, Bool.false_or] at this
  exact this

/-- The tables are extracted from the instances each protocol's own `setup()` yields.  Every
    other way an instance gets registered (MRP over the AirPlay tunnel with/without a Companion
    service in the configuration, RAOP set up by AirPlay, single-service configurations; see
    tools/gen/c01.py PATH_SPECS) registers, for its protocol, the same interfaces overriding the
    same members — so `routing` below holds whichever path set the connected protocols up. -/
theorem setup_paths_agree :
    (PyatvModel.Gen.C13.setupPaths.all fun e =>
      e.provides == provides e.proto && e.implements == Member.all.filter (fun m => impl e.proto m)) = true := by
  decide +kernel

example : PyatvModel.Gen.C13.setupPaths.any (fun e => e.origin != e.proto) = true := by decide +kernel

/-- **C01 on the real tables.**  For every set `S` of connected protocols, every member and
    every takeover state with at most one holder: the call goes to `p` iff `p` is connected,
    overrides the member, and is the holder or the first such protocol in the priority order
    while the holder does not serve the member. -/
theorem routing (S : PSet) (t : List Proto) (m : Member) (p : Proto) (h1 : t.length ≤ 1) :
    route S t m = .ok p ↔
      Best (mkRelayer S m.iface t) (fun q => impl q m) (effPrio (callOverride m.iface) (relayerPrio m.iface)) p :=
  route_spec (mkRelayer S m.iface t) _ _ p h1

/-- **C01, not-supported.**  The call fails with NotSupportedError iff no connected protocol
    overrides the member; it cannot fail in any other way. -/
theorem routing_not_supported (S : PSet) (t : List Proto) (m : Member) :
    (route S t m = .error .notSupported ↔ ∀ p, ¬ (S.mem p = true ∧ impl p m = true)) ∧
      ∀ e, route S t m = .error e → e = .notSupported := by
  constructor
  · unfold route routeIn
    rw [route_none_iff _ _ _ (fun x _ => registered_in_prio m.iface x)]
    constructor
    · intro h p hp
      apply h p
      refine ⟨?_, hp.2⟩
      simp only [mkRelayer, Bool.and_eq_true]
      exact ⟨hp.1, impl_provides p m hp.2⟩
    · intro h p hp
      apply h p
      simp only [Implements, mkRelayer, Bool.and_eq_true] at hp
      exact ⟨hp.1.1, hp.2⟩
  · intro e h
    exact route_error_is_notSupported _ _ _ e h

/-- the facade member is the relay, except that play_url is refused while the PlayUrl
    feature is not Available (FacadeStream.play_url) -/
theorem call_eq_route (S : PSet) (t : List Proto) (env : C13.Env) (m : Member)
    (h : m ≠ .stream_play_url ∨ playUrlGate S env = true) : call S t env m = route S t m := by
  unfold call
  rcases h with h | h
  · have : (m == Member.stream_play_url) = false := by simpa using h
    simp [this]
  · simp [h]

theorem call_gate_closed (S : PSet) (t : List Proto) (env : C13.Env)
    (h : playUrlGate S env = false) : call S t env .stream_play_url = .error .notSupported := by
  simp [call, h]

theorem gate_fresh_table :
    (PSet.all.all fun S => playUrlGate S (C13.freshEnv true) == S.airplay
      && (S.airplay || (route S [] .stream_play_url == .error .notSupported))) = true := by
  decide +kernel

/-- freshly connected to a device whose AirPlay service advertises video, the gate is open
    exactly when AirPlay is connected, and when it is closed nothing implements play_url
    anyway: the facade member and the relay agree on every member -/
theorem call_fresh (S : PSet) (m : Member) : call S [] (C13.freshEnv true) m = route S [] m := by
  have := gate_fresh_table
  rw [List.all_eq_true] at this
  have := this S (PSet.mem_all S)
  simp only [Bool.and_eq_true, beq_iff_eq, Bool.or_eq_true] at this
  unfold call
  by_cases hm : m = .stream_play_url
  · subst hm
    cases ha : S.airplay
    · rw [ha] at this
      have h2 := this.2
      simp at h2
      simp [this.1, h2]
    · rw [ha] at this
      simp [this.1]
  · have : (m == Member.stream_play_url) = false := by simpa using hm
    simp [this]

/-! ### Non-vacuity on the real tables -/

example : route ⟨true, true, true, true, true⟩ [] .power_turn_on = .ok .companion := by decide
example : route ⟨true, true, true, true, true⟩ [] .remoteControl_channel_up = .ok .companion := by decide
example : route ⟨true, true, false, true, true⟩ [.raop] .audio_volume = .ok .raop := by decide
example : route ⟨true, true, false, true, true⟩ [.raop] .audio_output_devices = .ok .mrp := by decide
example : route ⟨false, true, false, true, false⟩ [] .audio_set_volume = .error .notSupported := by decide
example : playUrlGate ⟨true, false, false, true, false⟩ (C13.freshEnv false) = false := by decide

end PyatvModel.Props.C01
