import PyatvModel.C04.Creds.Lemmas
/-
C04 / credential strings (pyatv/auth/hap_pairing.py HapCredentials.__str__ /
parse_credentials).  Property theorems only.

* `hex_roundtrip`   `unhexlify(hexlify(b)) = b` for every byte string; the text is ASCII and
                    never contains ':';
* `parse_toStr`     for every constructible `HapCredentials` c (`Valid`: `_get_auth_type`
                    finds a type), `parse_credentials(str(c)) = c`, field for field;
* `toStr_fields`    `str(c).split(":")` is exactly the four hex fields (':' handling);
* `toStr_injective` `str` is injective — `HapCredentials.__eq__` (string comparison)
                    coincides with field-wise equality;
* `legacy_form`     the 2-field legacy form `client_id:ltsk` parses to the same value as the
                    4-field string of `HapCredentials(b"", ltsk, b"", client_id)`;
* `field_count`     any other number of ':'-separated fields is InvalidCredentialsError;
* `parse_none`      `None` gives the empty credentials.
-/
namespace PyatvModel.Props.C04Creds
open PyatvModel PyatvModel.C04.Creds

/-- the domain: credentials the constructor accepts -/
def Valid (c : Creds) : Prop := (authType c).isSome = true

instance (c : Creds) : Decidable (Valid c) := inferInstanceAs (Decidable (_ = true))

theorem hex_roundtrip (b : Bytes) :
    unhex (hex b) = .ok b ∧ ':' ∉ hex b ∧ (∀ c ∈ hex b, c.toNat < 128) ∧ (hex b).length = 2 * b.length := by
  refine ⟨unhex_hex b, hex_no_colon b, hex_ascii b, ?_⟩
  induction b with
  | nil => rfl
  | cons x xs ih => simp only [hex, List.flatMap_cons, hexOfByte, List.length_append] at ih ⊢; simp [ih]; omega

example : hex [0x00, 0x3a, 0xff] = ['0', '0', '3', 'a', 'f', 'f'] := by decide

theorem toStr_fields (c : Creds) :
    splitColon (toStr c) = [hex c.ltpk, hex c.ltsk, hex c.atvId, hex c.clientId] := by
  rw [toStr, splitColon_join _ _ (hex_no_colon _), splitColon_join _ _ (hex_no_colon _),
    splitColon_join _ _ (hex_no_colon _), splitColon_free _ (hex_no_colon _)]

/-- **C04 credentials round trip.** -/
theorem parse_toStr (c : Creds) (h : Valid c) : parseCreds (some (toStr c)) = .ok c := by
  simp only [parseCreds, toStr_fields, unhex_hex]
  show mkCreds c.ltpk c.ltsk c.atvId c.clientId = .ok c
  unfold Valid at h
  simp only [mkCreds]
  cases hc : authType { ltpk := c.ltpk, ltsk := c.ltsk, atvId := c.atvId, clientId := c.clientId } with
  | none => have : authType c = none := hc; rw [this] at h; simp at h
  | some _ => rfl

example : Valid ⟨[1, 2], [3], [4, 5, 6], [0x3a]⟩ ∧ Valid ⟨[], [], [], []⟩ ∧ Valid ⟨transientTag, [], [], []⟩
    ∧ Valid ⟨[], [9], [], [8]⟩ ∧ ¬ Valid ⟨[1], [], [], []⟩ := by decide

theorem toStr_injective (c₁ c₂ : Creds) (h : toStr c₁ = toStr c₂) : c₁ = c₂ := by
  have h1 := toStr_fields c₁
  rw [h, toStr_fields c₂] at h1
  simp only [List.cons.injEq, and_true] at h1
  obtain ⟨a, b, c, d⟩ := h1
  have inj : ∀ x y : Bytes, hex x = hex y → x = y := by
    intro x y e
    have := unhex_hex x
    rw [e, unhex_hex y] at this
    cases this; rfl
  cases c₁; cases c₂
  simp only [Creds.mk.injEq]
  exact ⟨(inj _ _ a).symm, (inj _ _ b).symm, (inj _ _ c).symm, (inj _ _ d).symm⟩

/-- the legacy 2-field form and the 4-field form of the same credentials parse alike
    (both to `HapCredentials(b"", ltsk, b"", client_id)`, or both fail in the constructor) -/
theorem legacy_form (clientId ltsk : Bytes) :
    parseCreds (some (hex clientId ++ ':' :: hex ltsk)) = mkCreds [] ltsk [] clientId
    ∧ parseCreds (some (toStr ⟨[], ltsk, [], clientId⟩)) = mkCreds [] ltsk [] clientId := by
  constructor
  · simp only [parseCreds, splitColon_join _ _ (hex_no_colon _), splitColon_free _ (hex_no_colon _), unhex_hex]
    rfl
  · simp only [parseCreds, toStr_fields, unhex_hex]
    rfl

example : parseCreds (some (hex [0xab] ++ ':' :: hex [0xcd, 0xef])) = .ok ⟨[], [0xcd, 0xef], [], [0xab]⟩ := by
  rfl

theorem field_count (s : List Char) (h2 : (splitColon s).length ≠ 2) (h4 : (splitColon s).length ≠ 4) :
    parseCreds (some s) = .error .invalidCredentials := by
  simp only [parseCreds]
  split
  · rename_i e; rw [e] at h2; simp at h2
  · rename_i e; rw [e] at h4; simp at h4
  · rfl

example : parseCreds (some ['a', 'b', ':', ':', 'c', 'd']) = .error .invalidCredentials
    ∧ parseCreds (some []) = .error .invalidCredentials
    ∧ parseCreds (some ['a', ':', 'b', 'c']) = .error .binascii
    ∧ parseCreds (some [':']) = .ok ⟨[], [], [], []⟩ := ⟨rfl, rfl, rfl, rfl⟩

theorem parse_none : parseCreds none = .ok ⟨[], [], [], []⟩ := rfl

end PyatvModel.Props.C04Creds
