import PyatvModel.C09.Model
namespace PyatvModel.Props.C09
end PyatvModel.Props.C09
