import PyatvModel.C09.Lemmas
/-
C09 — closing or losing a connection is final and is reported once.

Property theorems only (model: PyatvModel/C09/Model.lean, invariants: PyatvModel/C09/Lemmas.lean).
All of them quantify over EVERY event sequence (any length) over
  { protocol i reports lost(e) | closed, user close(), public API call m, push start/stop,
    protocol i posts a push update }
over ANY number of connected protocols, each of whose `close()` may re-entrantly emit any list
of reports and return any number of tasks (`cfg.protos` is an arbitrary list), and over ANY
behaviour of the user's handlers: every report and every push update carries a `Beh` — the
list of public-API calls and `close()` calls the handler makes from INSIDE the callback, and
whether it then raises.  `WF cfg` says: `max_calls = 1` (value generated from the source), the
shielded objects exist, and the listener the user registered has not been garbage-collected.

* `notify_is_first_report`  what all DeviceListener objects together have received so far is nothing
                            or exactly the first report made
* `notify_le_one`           … hence at most one notification, ever — also when the application assigns
                            `atv.listener` again (same object / new object / None) anywhere in the history
* `notify_never_changes`    the log is append-only: once delivered, nothing else follows
* `blocked_after`           after close()/any report — also one whose handler raises or re-enters —
                            every protected member raises BlockedStateError, whatever happens in
                            between and afterwards
* `blocked_after_device_dropped` … also through interface objects obtained earlier, after the user
                            dropped the device object itself (each object has its own flag)
* `callback_sees_blocked`   "after any report" includes the notification itself: every call made
                            from inside the DeviceListener callback already saw BlockedStateError,
                            and a close() from inside it got the cached set
* `facade_members_protected` every public member of the generated facade table is protected
                            (tie A: `decide +kernel` over the table read from the source)
* `blocked_after_facade`    the two combined, for the facade as generated
* `close_again`             close() on a closed/lost device returns the cached set — the same object, possibly grown
                            by the tasks of protocols that finished connecting after the close and are closed now
* `close_idem`              a second close() right after one that returned gives exactly the same and changes nothing
* `close_same_forever`      every later close(), after any further events, returns the same set, never with fewer tasks
* `close_never_raises`      close() raises nothing of its own (and the model never runs out of
                            fuel); at most it propagates the user's own handler's exception
* `close_returns`           … which cannot happen when no close-time handler raises
* `protocols_closed_once`   every protocol's close() runs at most once over any history (late closes included)
* `protocols_closed_exactly_once` … and exactly once, in order, for every protocol registered when a close()
                            returns (no close-time handler raising)
* `push_stopped`            after close()/any report no push update reaches the user and
                            push_updater.start() is blocked — also when an earlier start() failed half-way
* `blocked_after_connect_completes` a report / close() that arrives while connect() is still awaiting a
                            later protocol stays final when the remaining protocols finish connecting
-/
namespace PyatvModel.Props.C09
open PyatvModel.C09
open PyatvModel.Gen.C09 (Row Guard)

/-- state after the event sequence `evs`, from a freshly connected device -/
abbrev after (cfg : Cfg) (evs : List Ev) : St := run cfg (init cfg) evs

theorem inv_after (cfg : Cfg) (wf : WF cfg) (evs : List Ev) : Inv cfg (after cfg evs) :=
  inv_run wf evs _ (inv_init wf)

/-- a history that contains a closing event (user close or any report, whatever the user's
    handler does) ends closed -/
theorem closed_after (cfg : Cfg) (wf : WF cfg) (pre post : List Ev) (e : Ev)
    (he : e.isClosing = true) : Closed (after cfg (pre ++ e :: post)) := by
  unfold after
  rw [run_append]
  exact closed_run wf post _ (inv_step wf (inv_after cfg wf pre) e)
    (closed_of_closing wf (inv_after cfg wf pre) e he)

/-! ## reported once: the first one -/

/-- **C09, notification.**  At every point of every history — including histories in which the
    application assigns `atv.listener` again (the same object, a new object, None) at any
    position — the calls received by ALL DeviceListener objects together are: nothing, or
    exactly the first report that was made — by whichever protocol, re-entrantly from inside
    `close()` or not, whether or not the user also closes, and whatever the handler does. -/
theorem notify_is_first_report (cfg : Cfg) (wf : WF cfg) (evs : List Ev) :
    (after cfg evs).notified = [] ∨ (after cfg evs).notified = (after cfg evs).reports.take 1 := by
  obtain ⟨l, hl⟩ := (inv_after cfg wf evs).1.notif
  rw [hl]
  cases l <;> simp [firstOf]

/-- **C09, at most one notification** over the lifetime of the device object, counted over
    every listener object registered during that lifetime: `Ev.setListener` may occur anywhere
    in `evs`. -/
theorem notify_le_one (cfg : Cfg) (wf : WF cfg) (evs : List Ev) :
    (after cfg evs).notified.length ≤ 1 := by
  obtain ⟨l, hl⟩ := (inv_after cfg wf evs).1.notif
  rw [hl]
  exact firstOf_length_le _ _

/-- the case the suite never exercises, spelled out: a report is delivered, the application
    registers a listener again, more reports arrive — still one notification -/
theorem notify_le_one_after_reassign (cfg : Cfg) (wf : WF cfg) (pre mid post : List Ev) (b : Bool) :
    (after cfg (pre ++ (mid ++ .setListener b :: post))).notified.length ≤ 1 :=
  notify_le_one cfg wf _

/-- the budget belongs to the device object: assigning the listener leaves `calls_made` and
    everything else alone -/
theorem setListener_changes_nothing_else (cfg : Cfg) (s : St) (b : Bool) :
    (step cfg s (.setListener b)).1 = { s with listener := if b then .alive else .none } := rfl

/-- the two logs only ever grow (for every configuration, well-formed or not) -/
theorem logs_append_only (cfg : Cfg) (evs more : List Ev) :
    (after cfg evs).reports <+: (after cfg (evs ++ more)).reports ∧
      (after cfg evs).notified <+: (after cfg (evs ++ more)).notified := by
  unfold after
  rw [run_append]
  exact ⟨(run_grows cfg more _).1, (run_grows cfg more _).2.1⟩

/-- once a notification was delivered it stays the only one, whatever happens later -/
theorem notify_never_changes (cfg : Cfg) (wf : WF cfg) (evs more : List Ev) (r : Report)
    (h : (after cfg evs).notified = [r]) : (after cfg (evs ++ more)).notified = [r] := by
  have hp := (logs_append_only cfg evs more).2
  have hl := notify_le_one cfg wf (evs ++ more)
  rw [h] at hp
  obtain ⟨t, ht⟩ := hp
  rw [← ht] at hl ⊢
  cases t with
  | nil => rfl
  | cons a as => simp at hl

/-! ## final: every public member is blocked -/

/-- **C09, blocked.**  After the user's close() or after any report — with anything before,
    in between and after, and whatever the user's handler does when notified (return, call the
    API, call close(), raise) — every protected member raises BlockedStateError. -/
theorem blocked_after (cfg : Cfg) (wf : WF cfg) (pre post : List Ev) (e : Ev)
    (he : e.isClosing = true) (m : Row) (hm : rowProtected cfg.nObjs cfg.members m = true)
    (hx : m.guard ≠ .closeExempt) :
    apiBlocked cfg (after cfg (pre ++ e :: post)) m = true := by
  obtain ⟨x, hx'⟩ := closed_after cfg wf pre post e he
  exact apiBlocked_of_closed cfg _ m ((inv_after cfg wf (pre ++ e :: post)).1.closed x hx').1 hm hx

/-- the case the suite never exercises, spelled out: the handler raises -/
theorem blocked_after_raising_handler (cfg : Cfg) (wf : WF cfg) (pre post : List Ev) (i : Nat)
    (k : Kind) (inner : List InEv) (m : Row)
    (hm : rowProtected cfg.nObjs cfg.members m = true) (hx : m.guard ≠ .closeExempt) :
    apiBlocked cfg (after cfg (pre ++ .report i k ⟨inner, true⟩ :: post)) m = true :=
  blocked_after cfg wf pre post _ rfl m hm hx

/-- as the user sees it: the API event answers `blocked` (for a member of an object the user
    still holds: any interface object, or the device object unless it was dropped) -/
theorem blocked_after_step (cfg : Cfg) (wf : WF cfg) (pre post : List Ev) (e : Ev)
    (he : e.isClosing = true) (i : Nat) (m : Row) (hi : cfg.members[i]? = some m)
    (hm : rowProtected cfg.nObjs cfg.members m = true) (hx : m.guard ≠ .closeExempt)
    (hheld : (after cfg (pre ++ e :: post)).deviceHeld = true ∨ m.obj ≠ 0) :
    (step cfg (after cfg (pre ++ e :: post)) (.api i)).2 = .blocked := by
  have hgone : (!(after cfg (pre ++ e :: post)).deviceHeld && m.obj == 0) = false := by
    rcases hheld with h | h
    · simp [h]
    · simp [h]
  simp only [step, hi, hgone, Bool.false_eq_true, if_false, apiOut,
    blocked_after cfg wf pre post e he m hm hx, if_true]

/-- **C09, blocked for what the user still holds.**  The user took references to interface
    objects before (`rc = atv.remote_control`, …); the device is closed or reported lost; the
    user then drops the device object itself (it may be garbage-collected), at any point, with
    anything else happening before and after.  Every call through a retained interface object
    still raises BlockedStateError: each object answers from its own flag. -/
theorem blocked_after_device_dropped (cfg : Cfg) (wf : WF cfg) (pre mid post : List Ev) (e : Ev)
    (he : e.isClosing = true) (i : Nat) (m : Row) (hi : cfg.members[i]? = some m)
    (hm : rowProtected cfg.nObjs cfg.members m = true) (hx : m.guard ≠ .closeExempt)
    (hobj : m.obj ≠ 0) :
    (step cfg (after cfg (pre ++ e :: (mid ++ .dropDevice :: post))) (.api i)).2 = .blocked :=
  blocked_after_step cfg wf pre (mid ++ .dropDevice :: post) e he i m hi hm hx (Or.inr hobj)

/-- dropping the device object changes nothing but who holds what -/
theorem drop_changes_nothing (cfg : Cfg) (s : St) :
    (step cfg s .dropDevice).1 = { s with deviceHeld := false } := rfl

/-- **C09, blocked inside the notification.**  "After any protocol reports" includes the
    callback that delivers the report: in every history, every public-API call the user's
    DeviceListener handler made from inside its callback saw BlockedStateError (for every
    protected member), and every close() it made there returned the cached task set.  This
    holds for reports made by a protocol callback and for reports a protocol makes while the
    user's own close() is closing it. -/
theorem callback_sees_blocked (cfg : Cfg) (wf : WF cfg) (evs : List Ev) :
    ∀ e ∈ (after cfg evs).inner, e.1 = true →
      match e.2.1 with
      | .api m => ∀ row, cfg.members[m]? = some row →
          rowProtected cfg.nObjs cfg.members row = true → row.guard ≠ .closeExempt →
            e.2.2 = .blocked
      | .close => ∃ x n, e.2.2 = .set x n :=
  fun e he => (inv_after cfg wf evs).1.inner e he

/-- **Tie A.**  Every public member that the `pyatv.interface` classes declare is, on the
    facade classes of the source tree under test, wrapped by `shield.guard` (or is
    `AppleTV.close`, or an interface default that only goes through guarded members).  A
    member added or left without the guard makes this fail to elaborate. -/
theorem facade_members_protected :
    Gen.C09.members.all (rowProtected Gen.C09.objects.length Gen.C09.members) = true := by
  decide +kernel

/-- the generated facade is well-formed (`max_calls = 1`, push updater object exists) -/
theorem facade_wf (l : Listener) (hl : l ≠ .dead) (protos : List Proto) : WF (facadeCfg l protos) :=
  ⟨show Gen.C09.maxCalls = 1 by decide, show 0 < Gen.C09.objects.length by decide,
    show Gen.C09.pushObj < Gen.C09.objects.length by decide, hl⟩

/-- **C09, blocked, for the facade of the source tree**: every public member except
    `AppleTV.close`. -/
theorem blocked_after_facade (l : Listener) (hl : l ≠ .dead) (protos : List Proto)
    (pre post : List Ev) (e : Ev) (he : e.isClosing = true) (m : Row) (hm : m ∈ Gen.C09.members)
    (hx : m.guard ≠ .closeExempt) :
    apiBlocked (facadeCfg l protos) (after (facadeCfg l protos) (pre ++ e :: post)) m = true :=
  blocked_after (facadeCfg l protos) (facade_wf l hl protos) pre post e he m
    (List.all_eq_true.mp facade_members_protected m hm) hx

/-! ## close() again -/

/-- close() on a device that is already closed and on which no protocol is late: the cached set,
    nothing changes, no exception -/
theorem close_cached (cfg : Cfg) (s : St) (x : Nat) (h : Inv cfg s) (hp : s.pending = some x)
    (hnl : NoLate cfg s) : step cfg s .userClose = (s, .set x s.tasks) := by
  have hc : closeF cfg topFuel s = s := closeF_cached cfg 2 s x hp hnl
  simp [step, hc, h.2, closeOut, hp, h.1.raised]

/-- what close() on an already closed device does: it returns the SAME set (identity `x`), which
    may have grown by the tasks of protocols that finished connecting after the first close
    (those are closed now); it raises nothing of its own -/
theorem close_closed (cfg : Cfg) (wf : WF cfg) (s : St) (x : Nat) (h : Inv cfg s)
    (hp : s.pending = some x) :
    (step cfg s .userClose).1.pending = some x ∧ s.tasks ≤ (step cfg s .userClose).1.tasks ∧
      ((step cfg s .userClose).2 = .set x (step cfg s .userClose).1.tasks ∨
        (step cfg s .userClose).2 = .userRaised) := by
  obtain ⟨hpx, ht⟩ := step_closed_ext wf s x h hp .userClose
  refine ⟨hpx, ht, ?_⟩
  have hinv := inv_step wf h .userClose
  simp only [step] at hpx hinv ⊢
  split
  · right; rfl
  · rename_i hnf
    left
    simp only [hnf, Bool.false_eq_true, if_false] at hpx hinv
    simp [closeOut, hpx, hinv.1.raised]

/-- **C09, close() can be called again safely.**  After the user's close() or any report, and
    anything after that (also protocols finishing their connect()): close() returns the cached
    task set — the same object, possibly grown by the tasks of late protocols it closes now —
    and raises nothing of its own. -/
theorem close_again (cfg : Cfg) (wf : WF cfg) (pre post : List Ev) (e : Ev)
    (he : e.isClosing = true) :
    ∃ x, (after cfg (pre ++ e :: post)).pending = some x ∧
      (step cfg (after cfg (pre ++ e :: post)) .userClose).1.pending = some x ∧
      (after cfg (pre ++ e :: post)).tasks ≤ (step cfg (after cfg (pre ++ e :: post)) .userClose).1.tasks ∧
      ((step cfg (after cfg (pre ++ e :: post)) .userClose).2
          = .set x (step cfg (after cfg (pre ++ e :: post)) .userClose).1.tasks ∨
        (step cfg (after cfg (pre ++ e :: post)) .userClose).2 = .userRaised) := by
  obtain ⟨x, hx⟩ := closed_after cfg wf pre post e he
  exact ⟨x, hx, close_closed cfg wf _ x (inv_after cfg wf _) hx⟩

/-- **C09, close is idempotent.**  After any history, when close() returned normally, the next
    close() returns exactly that — same set, same tasks — and changes nothing: a close() that
    returns leaves no protocol late. -/
theorem close_idem (cfg : Cfg) (wf : WF cfg) (evs : List Ev) (x n : Nat)
    (h : (step cfg (after cfg evs) .userClose).2 = .set x n) :
    step cfg (step cfg (after cfg evs) .userClose).1 .userClose
      = ((step cfg (after cfg evs) .userClose).1, .set x n) := by
  have hinv := inv_after cfg wf evs
  have hinv' := inv_step wf hinv .userClose
  obtain ⟨h', ⟨y, hy⟩, _, hnl⟩ := inv_close wf hinv
  simp only [step] at h hinv' ⊢
  split at h
  · simp at h
  · rename_i hnf
    have hff : (closeF cfg topFuel (after cfg evs)).flying = false := by simpa using hnf
    simp only [hnf, Bool.false_eq_true, if_false] at hinv' ⊢
    simp only [closeOut, hy, h'.raised, Bool.false_eq_true, if_false, Out.set.injEq] at h
    have := close_cached cfg _ y hinv' hy (hnl hff)
    simp only [step] at this
    rw [this, h.1, h.2]

/-- **C09, same pending tasks forever.**  Once close() has returned set `x` with `n` tasks,
    every later close() — after any further reports, API calls, pushes, closes, handlers, and
    protocols finishing their connect() — returns the same set object, never with fewer tasks. -/
theorem close_same_forever (cfg : Cfg) (wf : WF cfg) (evs more : List Ev) (x n : Nat)
    (h : (step cfg (after cfg evs) .userClose).2 = .set x n) :
    ∃ n', n ≤ n' ∧ ((step cfg (after cfg (evs ++ .userClose :: more)) .userClose).2 = .set x n' ∨
      (step cfg (after cfg (evs ++ .userClose :: more)) .userClose).2 = .userRaised) := by
  have hinv := inv_after cfg wf evs
  have hinv1 := inv_step wf hinv .userClose
  have h1 := close_idem cfg wf evs x n h
  -- after the first close: pending = some x, tasks = n
  have hpx : (step cfg (after cfg evs) .userClose).1.pending = some x ∧
      (step cfg (after cfg evs) .userClose).1.tasks = n := by
    obtain ⟨y, hy⟩ := closed_of_closing wf hinv .userClose rfl
    obtain ⟨_, _, hor⟩ := close_closed cfg wf _ y hinv1 hy
    rw [h1] at hor
    rcases hor with hor | hor
    · simp only [Out.set.injEq] at hor
      exact ⟨by rw [hy, hor.1], hor.2.symm⟩
    · simp at hor
  have hrun : after cfg (evs ++ .userClose :: more)
      = run cfg (step cfg (after cfg evs) .userClose).1 more := by
    unfold after
    rw [run_append]
    rfl
  obtain ⟨hp2, ht2⟩ := run_closed_ext wf more _ x hinv1 hpx.1
  rw [← hrun] at hp2 ht2
  obtain ⟨_, ht3, hor⟩ := close_closed cfg wf _ x (inv_after cfg wf _) hp2
  refine ⟨(step cfg (after cfg (evs ++ .userClose :: more)) .userClose).1.tasks, ?_, hor⟩
  rw [hpx.2] at ht2
  exact Nat.le_trans ht2 ht3

/-- **C09, what becomes of the handed-out tasks is none of close()'s business.**  Whether the
    caller lets them complete, leaves them pending or cancels them (`Ev.tasksCancelled`, anywhere in
    the history): the state is untouched, so every later close() returns the same set with the same
    tasks plus only those of protocols it closes late (`close_again`, `close_same_forever` quantify
    over histories containing the event) — never a replacement for a task already handed out. -/
theorem tasksCancelled_changes_nothing (cfg : Cfg) (s : St) :
    step cfg s .tasksCancelled = (s, .none) := rfl

theorem close_same_after_cancel (cfg : Cfg) (wf : WF cfg) (evs more : List Ev) (x n : Nat)
    (h : (step cfg (after cfg evs) .userClose).2 = .set x n) :
    ∃ n', n ≤ n' ∧
      ((step cfg (after cfg (evs ++ .userClose :: (.tasksCancelled :: more))) .userClose).2 = .set x n' ∨
        (step cfg (after cfg (evs ++ .userClose :: (.tasksCancelled :: more))) .userClose).2 = .userRaised) :=
  close_same_forever cfg wf evs (.tasksCancelled :: more) x n h

/-- immediately after a close() that returned: cancel the tasks, close() again — exactly the same
    set and the same number of tasks -/
theorem close_cancel_close (cfg : Cfg) (wf : WF cfg) (evs : List Ev) (x n : Nat)
    (h : (step cfg (after cfg evs) .userClose).2 = .set x n) :
    (step cfg (step cfg (step cfg (after cfg evs) .userClose).1 .tasksCancelled).1 .userClose).2
      = .set x n := by
  have := close_idem cfg wf evs x n h
  rw [tasksCancelled_changes_nothing, this]

/-- **C09, close raises nothing of its own** — neither InvalidStateError from `shield.block`,
    nor BlockedStateError from its own `self.push_updater.stop()`, nor unbounded re-entrancy
    (the model's fuel never runs out).  The only exception that can come out of close() is the
    one the user's own DeviceListener handler raised when a protocol reported while being
    closed (`userRaised`); the device is closed and blocked all the same (`blocked_after`). -/
theorem close_never_raises (cfg : Cfg) (wf : WF cfg) (evs : List Ev) :
    (after cfg evs).raised = false ∧
      ((∃ x n, (step cfg (after cfg evs) .userClose).2 = .set x n) ∨
        (step cfg (after cfg evs) .userClose).2 = .userRaised) := by
  have hinv := inv_after cfg wf evs
  refine ⟨hinv.1.raised, ?_⟩
  obtain ⟨h', ⟨x, hx⟩, _⟩ := inv_close wf hinv
  simp only [step]
  split
  · right; rfl
  · left; exact ⟨x, (closeF cfg topFuel (after cfg evs)).tasks, by simp [closeOut, hx, h'.raised]⟩

/-- … and when no handler raises for a report made at close time, close() returns -/
theorem close_returns (cfg : Cfg) (wf : WF cfg) (hb : BenignProtos cfg) (evs : List Ev) :
    ∃ x n, (step cfg (after cfg evs) .userClose).2 = .set x n := by
  have hinv := inv_after cfg wf evs
  obtain ⟨h', ⟨x, hx⟩, hfl, _⟩ := inv_close wf hinv
  exact ⟨x, (closeF cfg topFuel (after cfg evs)).tasks, by simp [step, hfl hb, closeOut, hx, h'.raised]⟩

/-- the `raised` flag is sticky (for every configuration): so `close_never_raises` at the end of
    a history covers every close() — top-level or re-entrant — inside that history -/
theorem raised_sticky (cfg : Cfg) (evs more : List Ev) (h : (after cfg evs).raised = true) :
    (after cfg (evs ++ more)).raised = true := by
  unfold after at h ⊢
  rw [run_append]
  exact (run_grows cfg more _).2.2 h

/-- **C09, every protocol is closed at most once** over any history — first close, later closes
    that pick up protocols which finished connecting afterwards, reports, handlers that raise:
    the close log is strictly increasing (no protocol twice) and only contains protocols that were
    handed to a close(); nothing is closed while the device is open. -/
theorem protocols_closed_once (cfg : Cfg) (wf : WF cfg) (evs : List Ev) :
    ((after cfg evs).pending = none → (after cfg evs).closeLog = []) ∧
      (after cfg evs).closeLog.Pairwise (· < ·) ∧ (after cfg evs).closeLog.Nodup ∧
      (∀ j ∈ (after cfg evs).closeLog, j < (after cfg evs).closedUpTo) := by
  have h := (inv_after cfg wf evs).1
  refine ⟨fun hp => (h.opened hp).2.1, h.logOk.1, ?_, h.logOk.2⟩
  exact h.logOk.1.imp (fun hlt => Nat.ne_of_lt hlt)

/-- **C09, … and exactly once if a close() happens after it registered** (no user handler
    raising into the closing loops): after a close() that returned, every protocol that connect()
    has registered so far has been closed exactly once, in order. -/
theorem protocols_closed_exactly_once (cfg : Cfg) (wf : WF cfg) (hb : BenignProtos cfg)
    (evs : List Ev) :
    let s := (step cfg (after cfg evs) .userClose).1
    s.closeLog = List.range' 0 s.closedUpTo ∧ (cfg.protos.take s.handlers).length ≤ s.closedUpTo := by
  intro s
  have hinv := inv_after cfg wf evs
  have hinv' := inv_step wf hinv .userClose
  obtain ⟨_, _, hfl, hnl⟩ := inv_close wf hinv
  refine ⟨hinv'.1.logEq hb, ?_⟩
  have hff := hfl hb
  show (cfg.protos.take (step cfg (after cfg evs) .userClose).1.handlers).length
    ≤ (step cfg (after cfg evs) .userClose).1.closedUpTo
  simp only [step, hff, Bool.false_eq_true, if_false]
  exact hnl hff

/-! ## push updates stop -/

/-- **C09, push updates stop.**  After the user's close() or any report: the protocols' push
    updaters no longer forward to the facade, an update posted by any protocol reaches nobody
    (so no PushListener handler runs), and `push_updater.start()` is blocked. -/
theorem push_stopped (cfg : Cfg) (wf : WF cfg) (pre post : List Ev) (e : Ev)
    (he : e.isClosing = true) :
    let s := after cfg (pre ++ e :: post)
    s.pushOn = false ∧ (∀ i b, step cfg s (.push i b) = (s, .delivered false)) ∧
      step cfg s .pushStart = (s, .blocked) := by
  intro s
  obtain ⟨x, hx⟩ := closed_after cfg wf pre post e he
  obtain ⟨hsh, hpo⟩ := (inv_after cfg wf (pre ++ e :: post)).1.closed x hx
  refine ⟨hpo, ?_, ?_⟩
  · intro i b
    simp only [step, show s.pushOn = false from hpo, Bool.false_and, Bool.false_eq_true, if_false]
  · have := isBlocking_closed s cfg.nObjs cfg.pushObj hsh wf.push
    simp only [step, this, if_true]

/-- **C09, final also during connect().**  `FacadeAppleTV.connect()` awaits the protocols one
    after the other; a protocol that is already connected may report, or close() may be called,
    while a later one is still connecting (`Ev.connectNext` anywhere in `post`): when the
    remaining protocols have finished connecting, every protected member is still blocked —
    for any number `connected0` of protocols registered at the start. -/
theorem blocked_after_connect_completes (cfg : Cfg) (wf : WF cfg) (pre mid post : List Ev) (e : Ev)
    (he : e.isClosing = true) (m : Row) (hm : rowProtected cfg.nObjs cfg.members m = true)
    (hx : m.guard ≠ .closeExempt) :
    apiBlocked cfg (after cfg (pre ++ e :: (mid ++ .connectNext :: post))) m = true :=
  blocked_after cfg wf pre (mid ++ .connectNext :: post) e he m hm hx

/-- connect() registering a protocol touches neither the shield flags nor the cached set -/
theorem connectNext_changes_nothing_else (cfg : Cfg) (s : St) :
    (step cfg s .connectNext).1 = { s with handlers := s.handlers + 1 } := rfl

/-- **C09, push updates stop after a failed start().**  `push_updater.start()` raised half-way
    (a protocol's own updater failed) — the facade is already the listener of the main updater —
    then the device is closed or reported lost: no update reaches the user any more. -/
theorem push_stopped_after_failed_start (cfg : Cfg) (wf : WF cfg) (pre mid post : List Ev) (e : Ev)
    (he : e.isClosing = true) (i : Nat) (b : Beh) :
    (step cfg (after cfg (pre ++ .pushStartFault :: (mid ++ e :: post))) (.push i b)).2
      = .delivered false := by
  have := (push_stopped cfg wf (pre ++ .pushStartFault :: mid) post e he).2.1 i b
  simp only [List.append_assoc, List.cons_append] at this
  rw [this]

/-! ## Non-vacuity and sharpness -/



/-- a handler that just returns -/
abbrev ret : Beh := ⟨[], false⟩

/-- `WF` is met by the generated facade with a live listener and three protocols whose
    close() reports re-entrantly -/
example : WF (facadeCfg .alive [⟨[(.closed, ret)], 1⟩, ⟨[], 0⟩, ⟨[(.lost 2, ret), (.closed, ⟨[.api 10], true⟩)], 2⟩]) :=
  facade_wf _ (by decide) _

/-- a concrete history: protocol 1 loses the connection, closing protocol 0 and 2 provokes
    three more reports, the user closes twice, protocol 0 reports again — one notification,
    the first; same set both times; everything blocked -/
example :
    let cfg := facadeCfg .alive [⟨[(.closed, ret)], 1⟩, ⟨[], 0⟩, ⟨[(.lost 2, ret), (.closed, ret)], 2⟩]
    let evs := [Ev.pushStart, .push 0 ret, .report 1 (.lost 3) ret, .push 0 ret, .api 10, .userClose,
                .userClose, .report 0 .closed ret]
    outputs cfg (init cfg) evs
        = [.pass, .delivered true, .none, .delivered false, .blocked, .set 0 4, .set 0 4, .none] ∧
      (after cfg evs).notified = [⟨1, .lost 3⟩] ∧ (after cfg evs).reports.length = 5 ∧
      (after cfg evs).closeLog = [0, 1, 2] := by
  decide

/-- the handler uses the API and close() from inside the callback, then raises: the calls saw
    `blocked` / the cached set, the exception reaches the reporting protocol, the device is
    closed, and the user's later close() returns the same set -/
example :
    let cfg := facadeCfg .alive [⟨[], 1⟩, ⟨[(.closed, ret)], 0⟩]
    let evs := [Ev.report 0 (.lost 1) ⟨[.api 10, .api 28, .close], true⟩, .api 10, .userClose]
    outputs cfg (init cfg) evs = [.escaped, .blocked, .set 0 2] ∧
      (after cfg evs).inner = [(true, .api 10, .blocked), (true, .api 28, .blocked), (true, .close, .set 0 2)] ∧
      (after cfg evs).notified = [⟨0, .lost 1⟩] ∧ (after cfg evs).closeLog = [0, 1] := by
  decide

/-- the user closes; protocol 0 reports while being closed and the user's handler (which first
    probes the API) raises: close() propagates that exception, protocol 1 is not reached — but
    the device is blocked (the probe already saw it) and the next close() returns the set -/
example :
    let cfg := facadeCfg .alive [⟨[(.closed, ⟨[.api 10], true⟩)], 1⟩, ⟨[], 1⟩]
    let evs := [Ev.userClose, .api 28, .userClose]
    outputs cfg (init cfg) evs = [.userRaised, .blocked, .set 0 1] ∧
      (after cfg evs).inner = [(true, .api 10, .blocked)] ∧ (after cfg evs).closeLog = [0] := by
  decide

/-- a PushListener handler that closes the device from inside a push callback -/
example :
    let cfg := facadeCfg .alive [⟨[(.closed, ret)], 1⟩]
    let evs := [Ev.pushStart, .push 0 ⟨[.api 10, .close, .api 10], true⟩, .push 0 ret]
    outputs cfg (init cfg) evs = [.pass, .delivered true, .delivered false] ∧
      (after cfg evs).inner = [(false, .api 10, .pass), (false, .close, .set 0 2), (false, .api 10, .blocked)] := by
  decide

/-- the user closes first: the first report is the one protocol 0 makes while being closed -/
example :
    let cfg := facadeCfg .alive [⟨[(.closed, ret)], 1⟩, ⟨[(.lost 7, ret)], 0⟩]
    (after cfg [.userClose, .report 1 (.lost 3) ret]).notified = [⟨0, .closed⟩] := by
  decide

/-- references taken before, loss reported, device object dropped: the retained RemoteControl
    still answers `blocked`; a member of the dropped device object cannot be called at all -/
example :
    let cfg := facadeCfg .alive [⟨[], 1⟩]
    outputs cfg (init cfg) [.api 28, .report 0 (.lost 1) ret, .dropDevice, .api 28, .api 10]
      = [.pass, .none, .none, .blocked, .gone] := by
  decide

/-- protocol 0 loses the connection (delivered); the application registers a new listener; the
    report that the teardown provokes one tick later and a report by protocol 1 reach nobody -/
example :
    let cfg := facadeCfg .alive [⟨[], 1⟩, ⟨[], 0⟩]
    let evs := [Ev.report 0 (.lost 1) ret, .setListener true, .report 0 .closed ret, .setListener false,
                .setListener true, .report 1 .closed ret]
    (after cfg evs).notified = [⟨0, .lost 1⟩] ∧ (after cfg evs).callsMade = 3 := by
  decide

/-- no listener when the first report comes, one is registered afterwards: the budget is
    spent, nobody is notified -/
example :
    let cfg := facadeCfg .none [⟨[], 1⟩]
    (after cfg [.report 0 .closed ret, .setListener true, .report 0 (.lost 2) ret]).notified = [] := by
  decide

/-- `BenignProtos` is met by protocols whose close-time handlers do not raise -/
example : BenignProtos (facadeCfg .alive [⟨[(.closed, ⟨[.api 10, .close], false⟩)], 1⟩, ⟨[], 0⟩]) := by
  intro p hp rb hrb
  simp [facadeCfg, facadeCfgC] at hp
  rcases hp with rfl | rfl
  · simp at hrb; rw [hrb]
  · simp at hrb

/-- `rowProtected` is a real condition: an unguarded member is not protected, and a table
    containing one is rejected -/
example : rowProtected 12 [⟨2, "RemoteControl.menu", .unguarded⟩] ⟨2, "RemoteControl.menu", .unguarded⟩ = false := rfl

/-- sharpness of `max_calls = 1`: with `max_calls = 2` a loss followed by the report that closing
    provokes notifies the listener twice -/
example :
    let cfg : Cfg := { facadeCfg .alive [⟨[(.closed, ret)], 1⟩] with maxCalls := 2 }
    (after cfg [.report 0 (.lost 1) ret]).notified.length = 2 := by
  decide

/-- sharpness of `WF.live` (outside the property's quantifier, recorded as an observation by the
    harness): with a garbage-collected listener a report does not close the device -/
example :
    let cfg := facadeCfg .dead [⟨[], 1⟩]
    (step cfg (after cfg [.report 0 .closed ret]) (.api 10)).2 = .pass := by
  decide

/-- protocol 0 is connected, 1 and 2 are still connecting: protocol 0 loses its connection (only
    protocol 0 is closed), the others finish connecting — everything stays blocked — and the user's
    close() then closes them too, their tasks joining the same set; and a start()
    that failed half-way delivers until the close, not after -/
example :
    let cfg := facadeCfgC .alive [⟨[], 1⟩, ⟨[], 1⟩, ⟨[], 0⟩] 1
    let evs := [Ev.pushStartFault, .push 0 ⟨[], false⟩, .report 0 (.lost 1) ⟨[], false⟩, .connectNext, .connectNext,
                .api 10, .api 28, .push 0 ⟨[], false⟩, .userClose]
    outputs cfg (init cfg) evs
        = [.faulted, .delivered true, .none, .none, .none, .blocked, .blocked, .delivered false, .set 0 3] ∧
      (after cfg evs).closeLog = [0, 1, 2] ∧ (after cfg evs).closedUpTo = 3 := by
  decide

end PyatvModel.Props.C09
