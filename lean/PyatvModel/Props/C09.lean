import PyatvModel.C09.Lemmas
/-
C09 — closing or losing a connection is final and is reported once.

Property theorems only (model: PyatvModel/C09/Model.lean, invariants: PyatvModel/C09/Lemmas.lean).
All of them quantify over EVERY event sequence (any length) over
  { protocol i reports lost(e) | closed, user close(), public API call m, push start/stop,
    protocol i posts a push update }
and over ANY number of connected protocols, each of whose `close()` may re-entrantly emit any
list of reports and return any number of tasks (`cfg.protos` is an arbitrary list).
`WF cfg` says: `max_calls = 1` (value generated from the source), the shielded objects exist,
and the listener the user registered has not been garbage-collected.

* `notify_is_first_report`  what the DeviceListener has received so far is exactly the first
                            report made (nothing when no listener is set)
* `notify_le_one`           … hence at most one notification, ever
* `notify_never_changes`    the log is append-only: once delivered, nothing else follows
* `blocked_after`           after close()/any report, every protected member raises BlockedStateError,
                            whatever happens in between and afterwards
* `facade_members_protected` every public member of the generated facade table is protected
                            (tie A: `decide +kernel` over the table read from the source)
* `blocked_after_facade`    the two combined, for the facade as generated
* `close_idem`              a second close() returns the same set and changes nothing
* `close_same_forever`      … and so does every later close(), after any further events
* `close_never_raises`      close() never raises (and the model never runs out of fuel)
* `protocols_closed_once`   every protocol's close() runs exactly once, in order
* `push_stopped`            after close()/any report no push update reaches the user and
                            push_updater.start() is blocked
-/
namespace PyatvModel.Props.C09
open PyatvModel.C09
open PyatvModel.Gen.C09 (Row Guard)

/-- state after the event sequence `evs`, from a freshly connected device -/
abbrev after (cfg : Cfg) (evs : List Ev) : St := run cfg (init cfg) evs

/-- member `m` of table `tbl` is protected against use after close (`n` shielded objects) -/
def rowProtected (n : Nat) (tbl : List Row) (m : Row) : Bool :=
  match m.guard with
  | .guarded => decide (m.obj < n)
  | .closeExempt => true
  | .unguarded => false
  | .derived via => !via.isEmpty && via.all fun j =>
      match tbl[j]? with
      | some mj => mj.guard == .guarded && decide (mj.obj < n)
      | none => false

theorem inv_after (cfg : Cfg) (wf : WF cfg) (evs : List Ev) : Inv cfg (after cfg evs) :=
  inv_run wf evs _ (inv_init cfg)

/-- a history that contains a closing event (user close or any report) ends closed -/
theorem closed_after (cfg : Cfg) (wf : WF cfg) (pre post : List Ev) (e : Ev)
    (he : e.isClosing = true) : Closed (after cfg (pre ++ e :: post)) := by
  unfold after
  rw [run_append]
  exact closed_run cfg post _ (closed_of_closing wf (inv_after cfg wf pre) e he)

/-! ## reported once: the first one -/

/-- **C09, notification.**  At every point of every history the calls received by the user's
    DeviceListener are: nothing if no report was made yet (or no listener is set), otherwise
    exactly the first report that was made — by whichever protocol, re-entrantly from inside
    `close()` or not, and whether or not the user also closes. -/
theorem notify_is_first_report (cfg : Cfg) (wf : WF cfg) (evs : List Ev) :
    (after cfg evs).notified = firstOf cfg.listener (after cfg evs).reports :=
  (inv_after cfg wf evs).notif

theorem notify_alive (cfg : Cfg) (wf : WF cfg) (evs : List Ev) (hl : cfg.listener = .alive) :
    (after cfg evs).notified = (after cfg evs).reports.take 1 := by
  rw [notify_is_first_report cfg wf evs, hl]; rfl

/-- **C09, at most one notification** over the lifetime of the device object. -/
theorem notify_le_one (cfg : Cfg) (wf : WF cfg) (evs : List Ev) :
    (after cfg evs).notified.length ≤ 1 := by
  rw [notify_is_first_report cfg wf evs]
  exact firstOf_length_le _ _

/-- the two logs only ever grow (for every configuration, well-formed or not) -/
theorem logs_append_only (cfg : Cfg) (evs more : List Ev) :
    (after cfg evs).reports <+: (after cfg (evs ++ more)).reports ∧
      (after cfg evs).notified <+: (after cfg (evs ++ more)).notified := by
  unfold after
  rw [run_append]
  exact ⟨(run_grows cfg more _).1, (run_grows cfg more _).2.1⟩

/-- once a notification was delivered it stays the only one, whatever happens later -/
theorem notify_never_changes (cfg : Cfg) (wf : WF cfg) (evs more : List Ev) (r : Report)
    (h : (after cfg evs).notified = [r]) : (after cfg (evs ++ more)).notified = [r] := by
  have hp := (logs_append_only cfg evs more).2
  have hl := notify_le_one cfg wf (evs ++ more)
  rw [h] at hp
  obtain ⟨t, ht⟩ := hp
  rw [← ht] at hl ⊢
  cases t with
  | nil => rfl
  | cons a as => simp at hl

/-! ## final: every public member is blocked -/

/-- **C09, blocked.**  After the user's close() or after any report — with anything before,
    in between and after — every protected member raises BlockedStateError. -/
theorem blocked_after (cfg : Cfg) (wf : WF cfg) (pre post : List Ev) (e : Ev)
    (he : e.isClosing = true) (m : Row) (hm : rowProtected cfg.nObjs cfg.members m = true)
    (hx : m.guard ≠ .closeExempt) :
    apiBlocked cfg (after cfg (pre ++ e :: post)) m = true := by
  obtain ⟨x, hx'⟩ := closed_after cfg wf pre post e he
  have hsh := ((inv_after cfg wf (pre ++ e :: post)).closed x hx').1
  have hb : ∀ o, o < cfg.nObjs → isBlocking (after cfg (pre ++ e :: post)) o = true :=
    fun o ho => isBlocking_closed _ cfg.nObjs o hsh ho
  unfold rowProtected at hm
  unfold apiBlocked
  cases hg : m.guard with
  | guarded =>
    rw [hg] at hm
    exact hb _ (by simpa using hm)
  | closeExempt => exact absurd hg hx
  | unguarded => rw [hg] at hm; simp at hm
  | derived via =>
    rw [hg] at hm
    simp only [Bool.and_eq_true, Bool.not_eq_true', List.all_eq_true] at hm
    obtain ⟨hne, hall⟩ := hm
    cases via with
    | nil => simp at hne
    | cons j js =>
      simp only [List.any_cons, Bool.or_eq_true]
      left
      have hj := hall j (by simp)
      cases hrow : cfg.members[j]? with
      | none => rw [hrow] at hj; simp at hj
      | some mj =>
        rw [hrow] at hj
        simp only [Bool.and_eq_true, decide_eq_true_eq] at hj
        simp only [hj.1, Bool.true_and]
        exact hb _ hj.2

/-- as the user sees it: the API event answers `blocked` -/
theorem blocked_after_step (cfg : Cfg) (wf : WF cfg) (pre post : List Ev) (e : Ev)
    (he : e.isClosing = true) (i : Nat) (m : Row) (hi : cfg.members[i]? = some m)
    (hm : rowProtected cfg.nObjs cfg.members m = true) (hx : m.guard ≠ .closeExempt) :
    (step cfg (after cfg (pre ++ e :: post)) (.api i)).2 = .blocked := by
  simp only [step, hi, blocked_after cfg wf pre post e he m hm hx, if_true]

/-- **Tie A.**  Every public member that the `pyatv.interface` classes declare is, on the
    facade classes of the source tree under test, wrapped by `shield.guard` (or is
    `AppleTV.close`, or an interface default that only goes through guarded members).  A
    member added or left without the guard makes this fail to elaborate. -/
theorem facade_members_protected :
    Gen.C09.members.all (rowProtected Gen.C09.objects.length Gen.C09.members) = true := by
  decide +kernel

/-- the generated facade is well-formed (`max_calls = 1`, push updater object exists) -/
theorem facade_wf (l : Listener) (hl : l ≠ .dead) (protos : List Proto) : WF (facadeCfg l protos) :=
  ⟨show Gen.C09.maxCalls = 1 by decide, show 0 < Gen.C09.objects.length by decide,
    show Gen.C09.pushObj < Gen.C09.objects.length by decide, hl⟩

/-- **C09, blocked, for the facade of the source tree**: every public member except
    `AppleTV.close`. -/
theorem blocked_after_facade (l : Listener) (hl : l ≠ .dead) (protos : List Proto)
    (pre post : List Ev) (e : Ev) (he : e.isClosing = true) (m : Row) (hm : m ∈ Gen.C09.members)
    (hx : m.guard ≠ .closeExempt) :
    apiBlocked (facadeCfg l protos) (after (facadeCfg l protos) (pre ++ e :: post)) m = true :=
  blocked_after (facadeCfg l protos) (facade_wf l hl protos) pre post e he m
    (List.all_eq_true.mp facade_members_protected m hm) hx

/-! ## close() again -/

/-- what close() returns after any history: the cached set, never an exception -/
theorem userClose_spec (cfg : Cfg) (wf : WF cfg) (s : St) (h : Inv cfg s) :
    ∃ x, (closeF cfg topFuel s).pending = some x ∧
      step cfg s .userClose = (closeF cfg topFuel s, .set x (closeF cfg topFuel s).tasks) := by
  obtain ⟨x, hx⟩ := closed_of_closing wf h .userClose rfl
  have hinv := inv_step wf h .userClose
  have hx' : (closeF cfg topFuel s).pending = some x := by
    simp only [step] at hx
    split at hx <;> (try split at hx) <;> exact hx
  have hr : (closeF cfg topFuel s).raised = false := by
    have := hinv.raised
    simp only [step] at this
    split at this <;> (try split at this) <;> exact this
  exact ⟨x, hx', by simp [step, hx', hr]⟩

/-- **C09, close is idempotent.**  After any history, close() followed by close(): the second
    call returns exactly what the first returned and leaves the state untouched. -/
theorem close_idem (cfg : Cfg) (wf : WF cfg) (evs : List Ev) :
    step cfg (step cfg (after cfg evs) .userClose).1 .userClose
      = step cfg (after cfg evs) .userClose := by
  obtain ⟨x, hx, heq⟩ := userClose_spec cfg wf _ (inv_after cfg wf evs)
  have hinv' := inv_step wf (inv_after cfg wf evs) .userClose
  rw [heq] at hinv' ⊢
  obtain ⟨y, hy, heq'⟩ := userClose_spec cfg wf _ hinv'
  have hc : closeF cfg topFuel (closeF cfg topFuel (after cfg evs)) = closeF cfg topFuel (after cfg evs) :=
    closeF_cached cfg 1 _ x hx
  rw [heq']
  simp only [hc] at hy ⊢
  rw [hx] at hy
  cases hy
  rfl

/-- **C09, same pending tasks forever.**  Once close() has returned set `x` with `n` tasks,
    every later close() — after any further reports, API calls, pushes, closes — returns the
    same set with the same tasks. -/
theorem close_same_forever (cfg : Cfg) (wf : WF cfg) (evs more : List Ev) (x n : Nat)
    (h : (step cfg (after cfg evs) .userClose).2 = .set x n) :
    (step cfg (after cfg (evs ++ .userClose :: more)) .userClose).2 = .set x n := by
  obtain ⟨y, hy, heq⟩ := userClose_spec cfg wf _ (inv_after cfg wf evs)
  rw [heq] at h
  obtain ⟨hyx, htn⟩ : y = x ∧ (closeF cfg topFuel (after cfg evs)).tasks = n := by
    simpa using h
  subst hyx
  have hrun : after cfg (evs ++ .userClose :: more)
      = run cfg (closeF cfg topFuel (after cfg evs)) more := by
    unfold after
    rw [run_append]
    simp only [run, heq]
  obtain ⟨hp, ht, _⟩ := run_closed_frame cfg more _ y hy
  obtain ⟨z, hz, heq'⟩ := userClose_spec cfg wf _ (inv_after cfg wf (evs ++ .userClose :: more))
  rw [heq']
  have hc : closeF cfg topFuel (after cfg (evs ++ .userClose :: more))
      = after cfg (evs ++ .userClose :: more) :=
    closeF_cached cfg 1 _ y (by rw [hrun]; exact hp)
  rw [hc] at hz ⊢
  rw [hrun] at hz ⊢
  rw [hp] at hz
  cases hz
  rw [ht, htn]

/-- **C09, close never raises** — neither InvalidStateError from `shield.block`, nor
    BlockedStateError from its own `self.push_updater.stop()`, nor unbounded re-entrancy
    (the model's fuel never runs out): the `raised` flag is never set. -/
theorem close_never_raises (cfg : Cfg) (wf : WF cfg) (evs : List Ev) :
    (after cfg evs).raised = false ∧ ∃ x n, (step cfg (after cfg evs) .userClose).2 = .set x n := by
  refine ⟨(inv_after cfg wf evs).raised, ?_⟩
  obtain ⟨x, _, heq⟩ := userClose_spec cfg wf _ (inv_after cfg wf evs)
  exact ⟨x, _, by rw [heq]⟩

/-- the `raised` flag is sticky (for every configuration): so `close_never_raises` at the end of
    a history covers every close() — top-level or re-entrant — inside that history -/
theorem raised_sticky (cfg : Cfg) (evs more : List Ev) (h : (after cfg evs).raised = true) :
    (after cfg (evs ++ more)).raised = true := by
  unfold after at h ⊢
  rw [run_append]
  exact (run_grows cfg more _).2.2 h

/-- **C09, protocols are closed exactly once**, in registration order, however many times
    close() is called and however many reports arrive; not at all while the device is open. -/
theorem protocols_closed_once (cfg : Cfg) (wf : WF cfg) (evs : List Ev) :
    (after cfg evs).closeLog =
      if (after cfg evs).pending.isSome then List.range' 0 cfg.protos.length else [] := by
  have h := inv_after cfg wf evs
  cases hp : (after cfg evs).pending with
  | none => simpa using (h.opened hp).2.1
  | some x => simpa using (h.closed x hp).2.2

/-! ## push updates stop -/

/-- **C09, push updates stop.**  After the user's close() or any report: the protocols' push
    updaters no longer forward to the facade, an update posted by any protocol reaches nobody,
    and `push_updater.start()` is blocked (so it stays that way). -/
theorem push_stopped (cfg : Cfg) (wf : WF cfg) (pre post : List Ev) (e : Ev)
    (he : e.isClosing = true) :
    let s := after cfg (pre ++ e :: post)
    s.pushOn = false ∧ (∀ i, (step cfg s (.push i)).2 = .delivered false) ∧
      step cfg s .pushStart = (s, .blocked) := by
  intro s
  obtain ⟨x, hx⟩ := closed_after cfg wf pre post e he
  obtain ⟨hsh, hpo, _⟩ := (inv_after cfg wf (pre ++ e :: post)).closed x hx
  refine ⟨hpo, ?_, ?_⟩
  · intro i
    show Out.delivered (s.pushOn && i == 0) = .delivered false
    rw [show s.pushOn = false from hpo]; rfl
  · have := isBlocking_closed s cfg.nObjs cfg.pushObj hsh wf.push
    simp only [step, this, if_true]

/-! ## Non-vacuity and sharpness -/

/-- `WF` is met by the generated facade with a live listener and three protocols whose
    close() reports re-entrantly -/
example : WF (facadeCfg .alive [⟨[.closed], 1⟩, ⟨[], 0⟩, ⟨[.lost 2, .closed], 2⟩]) :=
  facade_wf _ (by decide) _

/-- a concrete history: protocol 1 loses the connection, closing protocol 0 and 2 provokes
    three more reports, the user closes twice, protocol 0 reports again — one notification,
    the first; same set both times; everything blocked -/
example :
    let cfg := facadeCfg .alive [⟨[.closed], 1⟩, ⟨[], 0⟩, ⟨[.lost 2, .closed], 2⟩]
    let evs := [Ev.pushStart, .push 0, .report 1 (.lost 3), .push 0, .api 10, .userClose, .userClose,
                .report 0 .closed]
    outputs cfg (init cfg) evs
        = [.pass, .delivered true, .none, .delivered false, .blocked, .set 0 4, .set 0 4, .none] ∧
      (after cfg evs).notified = [⟨1, .lost 3⟩] ∧ (after cfg evs).reports.length = 5 ∧
      (after cfg evs).closeLog = [0, 1, 2] := by
  decide

/-- the user closes first: the first report is the one protocol 0 makes while being closed -/
example :
    let cfg := facadeCfg .alive [⟨[.closed], 1⟩, ⟨[.lost 7], 0⟩]
    (after cfg [.userClose, .report 1 (.lost 3)]).notified = [⟨0, .closed⟩] := by
  decide

/-- `rowProtected` is a real condition: an unguarded member is not protected, and a table
    containing one is rejected -/
example : rowProtected 12 [⟨2, "RemoteControl.menu", .unguarded⟩] ⟨2, "RemoteControl.menu", .unguarded⟩ = false := rfl

/-- sharpness of `max_calls = 1`: with `max_calls = 2` a loss followed by the report that closing
    provokes notifies the listener twice -/
example :
    let cfg : Cfg := { facadeCfg .alive [⟨[.closed], 1⟩] with maxCalls := 2 }
    (after cfg [.report 0 (.lost 1)]).notified.length = 2 := by
  decide

/-- sharpness of `WF.live` (outside the property's quantifier, recorded as an observation by the
    harness): with a garbage-collected listener a report does not close the device -/
example :
    let cfg := facadeCfg .dead [⟨[], 1⟩]
    (step cfg (after cfg [.report 0 .closed]) (.api 10)).2 = .pass := by
  decide

end PyatvModel.Props.C09
