import PyatvModel.C19.Model
/-
C19 — a dead connection is detected and reported exactly once.
Property theorems only (helper lemmas are private to this file's `Lemmas` section
because they are short).  Statement in the property's words:

* `failure_iff`     failure is reported ⇔ before any cancellation the script contains
                    `retries+1` consecutive failed keep-alives;
* `failure_terminal` when reported, it is the last event and occurs once: no later send,
                    no `finish`;
* `finish_no_failure` a run that ends by cancellation reports no failure;
* `answered_no_failure` while keep-alives are answered (no window of retries+1 fails)
                    nothing is reported.
-/
namespace PyatvModel.Props.C19
open PyatvModel.C19

def NoCancel (l : List Outcome) : Prop := ∀ o ∈ l, o.isCancel = false

/-- the declarative trigger: a window of `r+1` consecutive failures preceded by no cancel -/
def HasWindow (r : Nat) (os : List Outcome) : Prop :=
  ∃ pre post, os = pre ++ List.replicate (r + 1) Outcome.fail ++ post ∧ NoCancel pre

section Lemmas

theorem failure_not_mem_pre (a : Nat) : Ev.failure ∉ pre a := by
  unfold pre; split <;> simp

theorem finish_not_mem_pre (a : Nat) : Ev.finish ∉ pre a := by
  unfold pre; split <;> simp

theorem noCancel_replicate (n : Nat) : NoCancel (List.replicate n Outcome.fail) := by
  intro o ho
  rw [List.mem_replicate] at ho
  rw [ho.2]; rfl

/-- Shape lemma: if `replicate a fail ++ x :: os` has a window and `x` is not `fail`
    and `a ≤ r`, then `x` is no cancel and the window lies inside `os`. -/
theorem window_skip (r a : Nat) (x : Outcome) (os : List Outcome) (ha : a ≤ r)
    (hx : x ≠ Outcome.fail)
    (h : HasWindow r (List.replicate a Outcome.fail ++ x :: os)) :
    x.isCancel = false ∧ HasWindow r os := by
  obtain ⟨p, q, heq, hp⟩ := h
  rw [List.append_assoc] at heq
  rcases List.append_eq_append_iff.mp heq with ⟨a', hpre, hrest⟩ | ⟨c', hrep, hrest⟩
  · -- p = replicate a fail ++ a'
    cases a' with
    | nil =>
      simp [List.replicate_succ] at hrest
      exact absurd hrest.1 hx
    | cons y ys =>
      simp only [List.cons_append, List.cons.injEq] at hrest
      obtain ⟨hy, hos⟩ := hrest
      subst hy
      refine ⟨hp x (by rw [hpre]; simp), ys, q, ?_, ?_⟩
      · rw [hos, List.append_assoc]
      · intro o ho; exact hp o (by rw [hpre]; simp [ho])
  · -- replicate a fail = p ++ c'; window ++ q = c' ++ x :: os
    have hlen : c'.length ≤ a := by
      have := congrArg List.length hrep
      simp at this; omega
    have h1 : (List.replicate (r + 1) Outcome.fail ++ q)[c'.length]? = some Outcome.fail := by
      rw [List.getElem?_append_left (by rw [List.length_replicate]; omega)]
      rw [List.getElem?_replicate]; simp; omega
    rw [hrest] at h1
    simp at h1
    exact absurd h1 hx

theorem window_of_tail (r : Nat) (x : Outcome) (os : List Outcome)
    (hx : x.isCancel = false) (h : HasWindow r os) : HasWindow r (x :: os) := by
  obtain ⟨p, q, heq, hp⟩ := h
  refine ⟨x :: p, q, by rw [heq]; simp, ?_⟩
  intro o ho
  rcases List.mem_cons.mp ho with rfl | ho
  · exact hx
  · exact hp o ho

theorem window_prepend (r a : Nat) (os : List Outcome) (h : HasWindow r os) :
    HasWindow r (List.replicate a Outcome.fail ++ os) := by
  obtain ⟨p, q, heq, hp⟩ := h
  refine ⟨List.replicate a Outcome.fail ++ p, q, by rw [heq]; simp, ?_⟩
  intro o ho
  rcases List.mem_append.mp ho with ho | ho
  · exact noCancel_replicate a o ho
  · exact hp o ho

/-- generalised over the attempts already accumulated: they behave like `a` failures
    already seen. -/
theorem failure_iff_gen (r : Nat) (os : List Outcome) :
    ∀ a, a ≤ r → (Ev.failure ∈ run r a os ↔
      HasWindow r (List.replicate a Outcome.fail ++ os)) := by
  induction os with
  | nil =>
    intro a ha
    simp only [run, List.not_mem_nil, List.append_nil, false_iff]
    rintro ⟨p, q, heq, _⟩
    have := congrArg List.length heq
    simp at this; omega
  | cons o os ih =>
    intro a ha
    cases o with
    | ok =>
      simp only [run, List.mem_append, failure_not_mem_pre, false_or]
      rw [ih 0 (Nat.zero_le _)]
      simp only [List.replicate_zero, List.nil_append]
      constructor
      · intro h; exact window_prepend r a _ (window_of_tail r _ _ rfl h)
      · intro h; exact (window_skip r a _ os ha (by decide) h).2
    | fail =>
      by_cases hlt : a + 1 > r
      · have hr : a = r := by omega
        subst hr
        simp only [run, hlt, if_true, List.mem_append, List.mem_singleton, or_true, true_iff]
        refine ⟨[], os, ?_, by intro o ho; cases ho⟩
        simp [List.replicate_succ']
      · simp only [run, hlt, if_false, List.mem_append, failure_not_mem_pre, false_or]
        rw [ih (a + 1) (by omega)]
        have : List.replicate (a + 1) Outcome.fail ++ os
            = List.replicate a Outcome.fail ++ Outcome.fail :: os := by
          simp [List.replicate_succ']
        rw [this]
    | cancelSleep =>
      have hno : Ev.failure ∉ run r a (Outcome.cancelSleep :: os) := by
        simp only [run]; split <;> simp
      simp only [hno, false_iff]
      intro h
      have := (window_skip r a _ os ha (by decide) h).1
      simp [Outcome.isCancel] at this
    | cancelSend =>
      have hno : Ev.failure ∉ run r a (Outcome.cancelSend :: os) := by
        simp only [run, List.mem_append, failure_not_mem_pre]; simp
      simp only [hno, false_iff]
      intro h
      have := (window_skip r a _ os ha (by decide) h).1
      simp [Outcome.isCancel] at this

theorem terminal_gen (r : Nat) (os : List Outcome) :
    ∀ a, Ev.failure ∈ run r a os →
      ∃ init, run r a os = init ++ [Ev.failure] ∧ Ev.failure ∉ init ∧ Ev.finish ∉ init := by
  induction os with
  | nil => intro a h; simp [run] at h
  | cons o os ih =>
    intro a h
    cases o with
    | ok =>
      simp only [run, List.mem_append, failure_not_mem_pre, false_or] at h
      obtain ⟨init, he, h1, h2⟩ := ih 0 h
      refine ⟨pre a ++ init, by simp [run, he], ?_, ?_⟩
      · simp [failure_not_mem_pre, h1]
      · simp [finish_not_mem_pre, h2]
    | fail =>
      by_cases hlt : a + 1 > r
      · exact ⟨pre a, by simp [run, hlt], failure_not_mem_pre a, finish_not_mem_pre a⟩
      · simp only [run, hlt, if_false, List.mem_append, failure_not_mem_pre, false_or] at h
        obtain ⟨init, he, h1, h2⟩ := ih (a + 1) h
        refine ⟨pre a ++ init, by simp [run, hlt, he], ?_, ?_⟩
        · simp [failure_not_mem_pre, h1]
        · simp [finish_not_mem_pre, h2]
    | cancelSleep =>
      exfalso; revert h; simp only [run]; split <;> simp
    | cancelSend =>
      exfalso; revert h
      simp only [run, List.mem_append, failure_not_mem_pre]; simp

end Lemmas

/-! ## Property theorems -/

/-- **C19, trigger.** Starting fresh (`attempts = 0`), a failure is reported iff, before
    any cancellation, `retries+1` consecutive keep-alives failed.  For every `retries`
    and every script of any length. -/
theorem failure_iff (r : Nat) (os : List Outcome) :
    Ev.failure ∈ run r 0 os ↔ HasWindow r os := by
  simpa using failure_iff_gen r os 0 (Nat.zero_le _)

/-- **C19, exactly once and final.**  When a failure is reported it is the last event:
    nothing is sent afterwards, `finish` is not called, and it is reported once. -/
theorem failure_terminal (r : Nat) (os : List Outcome) (h : Ev.failure ∈ run r 0 os) :
    ∃ init, run r 0 os = init ++ [Ev.failure] ∧ Ev.failure ∉ init ∧ Ev.finish ∉ init :=
  terminal_gen r os 0 h

theorem failure_count_le_one (r : Nat) (os : List Outcome) :
    (run r 0 os).count Ev.failure ≤ 1 := by
  by_cases h : Ev.failure ∈ run r 0 os
  · obtain ⟨init, he, h1, _⟩ := failure_terminal r os h
    rw [he, List.count_append, List.count_eq_zero_of_not_mem h1]; simp
  · rw [List.count_eq_zero_of_not_mem h]; omega

/-- **C19, cancellation never reports a failure.** -/
theorem finish_no_failure (r : Nat) (os : List Outcome) (h : Ev.finish ∈ run r 0 os) :
    Ev.failure ∉ run r 0 os := by
  intro hf
  obtain ⟨init, he, _, h2⟩ := failure_terminal r os hf
  rw [he] at h
  simp [h2] at h

/-- **C19, no false alarm.**  If no `retries+1` consecutive keep-alives fail, nothing is
    reported — in particular when every keep-alive is answered. -/
theorem answered_no_failure (r : Nat) (os : List Outcome) (h : ∀ o ∈ os, o = Outcome.ok) :
    Ev.failure ∉ run r 0 os := by
  rw [failure_iff]
  rintro ⟨p, q, heq, _⟩
  have : Outcome.fail ∈ os := by rw [heq]; simp [List.replicate_succ]
  exact absurd (h _ this) (by decide)

/-- a cancel that arrives first ends the loop with `finish` and without failure -/
theorem cancel_first (r : Nat) (c : Outcome) (os : List Outcome) (hc : c.isCancel = true) :
    Ev.finish ∈ run r 0 (c :: os) ∧ Ev.failure ∉ run r 0 (c :: os) := by
  cases c <;> simp [Outcome.isCancel] at hc <;> simp [run, pre]

/-- **C19, keep-alives stop.**  Once the failure has been reported nothing the device or
    the scheduler does afterwards matters: the run (events and iteration count) is the
    same whatever follows in the script. -/
theorem stops_after_failure (r : Nat) (os : List Outcome) :
    ∀ a, Ev.failure ∈ run r a os → ∀ post, run r a (os ++ post) = run r a os ∧
      iterations r a (os ++ post) = iterations r a os := by
  induction os with
  | nil => intro a h; simp [run] at h
  | cons o os ih =>
    intro a h post
    cases o with
    | ok =>
      simp only [run, List.mem_append, failure_not_mem_pre, false_or] at h
      simp [run, iterations, ih 0 h post]
    | fail =>
      by_cases hlt : a + 1 > r
      · simp [run, iterations, hlt]
      · simp only [run, hlt, if_false, List.mem_append, failure_not_mem_pre, false_or] at h
        simp [run, iterations, hlt, ih (a + 1) h post]
    | cancelSleep => simp [run, iterations]
    | cancelSend => simp [run, iterations]

/-- every iteration sends at most one keep-alive, and the loop never runs more iterations
    than outcomes were supplied -/
theorem sends_le_iterations (r : Nat) (os : List Outcome) :
    ∀ a, (run r a os).count Ev.send ≤ iterations r a os ∧ iterations r a os ≤ os.length := by
  induction os with
  | nil => intro a; simp [run, iterations]
  | cons o os ih =>
    intro a
    have hpre : (pre a).count Ev.send = 1 := by unfold pre; split <;> simp
    cases o with
    | ok =>
      have := ih 0
      simp only [run, iterations, List.count_append, hpre, List.length_cons]; omega
    | fail =>
      by_cases hlt : a + 1 > r
      · simp only [run, iterations, hlt, if_true, List.count_append, hpre, List.length_cons]; simp
      · have := ih (a + 1)
        simp only [run, iterations, hlt, if_false, List.count_append, hpre, List.length_cons]; omega
    | cancelSleep =>
      simp only [run, iterations, List.length_cons]; split <;> simp
    | cancelSend =>
      simp only [run, iterations, List.count_append, hpre, List.length_cons]; simp

/-! ## Non-vacuity -/

example : HasWindow 1 [.ok, .fail, .ok, .fail, .fail, .ok] :=
  ⟨[.ok, .fail, .ok], [.ok], by decide, by intro o ho; simp at ho; rcases ho with rfl | rfl | rfl <;> rfl⟩

example : run 1 0 [.ok, .fail, .ok, .fail, .fail, .ok]
    = [.sleep, .send, .sleep, .send, .send, .sleep, .send, .send, .failure] := by decide

example : ¬ HasWindow 1 [.fail, .cancelSend, .fail, .fail] := by
  rw [← failure_iff]; decide

end PyatvModel.Props.C19
