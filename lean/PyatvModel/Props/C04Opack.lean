import PyatvModel.C04.Opack.Lemmas
import PyatvModel.C04.Opack.RefLemmas
import PyatvModel.C04.Opack.Fuel
import PyatvModel.Gen.C04OpackConsts
/-
C04 (OPACK part) — wire codec faithful to its format.

Model: `PyatvModel/C04/Opack/Model.lean` (opack.py of the repaired tree), reference
codec from the format documentation: `PyatvModel/C04/Opack/Ref.lean`.

* `pack_total`        every value of the domain `Packable` is encoded (`pack` does not raise);
* `roundtrip`         `unpack (pack v) = (canon v, b"")` for EVERY `Packable v` — unbounded
                      nesting, sizes and numbers of repeated objects; `canon v` is `v` with
                      each int carrying the width it was written in (`_sized_int`);
* `roundtrip_rest`    the same with arbitrary trailing bytes, which are returned untouched;
* `roundtrip_equal`   `canon v` and `v` are the same value once the `int_<k>b` decoration
                      is forgotten (what Python's `==` on ints sees);
* `tables_in_step`    after encoding and decoding, the decoder's object list holds exactly
                      the encodings of the encoder's object list, in the same order
                      (the invariant `InStep` threaded through `Lemmas.rt_value/rt_list/rt_pairs`);
* `unpack_never_out_of_budget`  the decoder model's recursion budget is invisible: `unpack`
                      never answers the model-only error `fuel`, on ANY byte string;
* `roundtrip_needs_fresh_table`  the round trip fails for an encoder whose object list is not
                      empty at the start of a call (state surviving a call);
* `pack_eq_refPack_partial`  the bytes are those of the documented format, for all values
                      whose data (`bytes`) objects are shorter than 64 KiB;
* `pack_eq_refPack_counterexample`  … and NOT for a 64 KiB data object: documentation says
                      `0x93` + 3-byte length, opack.py (and its own tests) write `0x93` +
                      4-byte length (known finding `C04-opack-doc-data-length`).
  Full statement, kept visible:  ∀ v, Packable v → pack v = refPack v   (false, see above).
* boundary `example`s: 0x20/0x21, 0xFF/0x100, 0xFFFF/0x10000 (strings and data), 14/15
  elements, pointer index 0x20/0x21, 0xFF/0x100, 0xFFFF/0x10000, int widths, the D5
  witnesses of DESIGN.md §6 on the repaired model.
-/
namespace PyatvModel.Props.C04Opack
open PyatvModel PyatvModel.C04.Opack

/-- `pack` raises for no value of the domain -/
theorem pack_total (v : Value) (h : Packable v) : ∃ bs, pack v = some bs := by
  obtain ⟨r, hr⟩ := packAux_total v h []
  exact ⟨r.1, by simp [pack, hr]⟩

/-- **Round trip with trailing bytes**: `unpack(pack(v) + rest) == (v, rest)` -/
theorem roundtrip_rest (v : Value) (h : Packable v) (rest : Bytes) :
    ∃ bs, pack v = some bs ∧ unpack (bs ++ rest) = .ok (canon v, rest) := by
  obtain ⟨⟨bs, te⟩, hr⟩ := packAux_total v h []
  refine ⟨bs, by simp [pack, hr], ?_⟩
  obtain ⟨td', _, hdec⟩ := rt_value v h [] [] inStep_nil bs te hr ((bs ++ rest).length + 1)
    (by simp only [List.length_append]; omega)
  simp only [unpack, hdec rest]

/-- **Round trip**: `unpack(pack(v)) == (v, b"")` for every value of the domain -/
theorem roundtrip (v : Value) (h : Packable v) :
    ∃ bs, pack v = some bs ∧ unpack bs = .ok (canon v, []) := by
  obtain ⟨bs, h1, h2⟩ := roundtrip_rest v h []
  exact ⟨bs, h1, by simpa using h2⟩

/-- the decoded value is the encoded one up to the `int_<k>b` decoration of ints -/
theorem roundtrip_equal (v : Value) : erase (canon v) = erase v := erase_canon v

/-- **Pointer tables in step**: encoder and decoder end with the same object list -/
theorem tables_in_step (v : Value) (h : Packable v) :
    ∃ bs te td, packAux v [] = some (bs, te) ∧
      unpackAux (bs.length + 1) bs [] = .ok (canon v, [], td) ∧ td.map Prod.fst = te := by
  obtain ⟨⟨bs, te⟩, hr⟩ := packAux_total v h []
  obtain ⟨td', hs, hdec⟩ := rt_value v h [] [] inStep_nil bs te hr (bs.length + 1) (by omega)
  exact ⟨bs, te, td', hr, by simpa using hdec [], hs.1⟩

/-- the model's recursion budget (`length + 1`) always suffices: no stream makes the model of
    `unpack` differ from the code by running out of it -/
theorem unpack_never_out_of_budget (data : Bytes) : unpack data ≠ .error .fuel :=
  unpack_ne_fuel data

/-- **The object list must not outlive a call.**  `pack` starts every call with an empty
    object list (`_pack(data, [])`); the round trip is FALSE for an encoder that starts from
    a list left over by an earlier (e.g. failed) call: the stream then points at objects it
    does not contain.  (The harness checks on the real code that nothing survives a call:
    call histories with failing calls interleaved, each call compared with a fresh state.) -/
theorem roundtrip_needs_fresh_table :
    ¬ (∀ v te bs te', Packable v → packAux v te = some (bs, te') → unpack bs = .ok (canon v, [])) := by
  intro h
  have h1 := h (.list [.str [0x5F, 0x69]]) [[0x42, 0x5F, 0x69]] [0xD1, 0xA0] [[0x42, 0x5F, 0x69]]
    (by decide) rfl
  have e : unpack [0xD1, 0xA0] = .error .index := rfl
  rw [e] at h1
  cases h1

/-- **Documented format** (partial: data objects below 64 KiB) -/
theorem pack_eq_refPack_partial (v : Value) (h : Packable v) (hs : dataShort v = true) :
    pack v = refPack v := by
  simp only [pack, refPack, packAux_eq_ref v h hs []]

/-- code and documentation disagree on the length width of `0x93` -/
theorem pack_eq_refPack_counterexample : ¬ (∀ v, Packable v → pack v = refPack v) := by
  intro hall
  have key : ∀ b : Bytes, b.length = 65536 → False := by
    intro b hl
    have hp : Packable (.bytes b) := by simp [Packable, packable, scalarOk, hl]
    have h := hall _ hp
    have e1 : pack (.bytes b) = some (0x93 :: (leBytes 4 65536 ++ b)) := by
      simp [pack, packAux, packScalar, packData, intern, indexOf?, hl]
    have e2 : refPack (.bytes b) = some ((0x93 :: leBytes 3 65536) ++ b) := by
      simp [refPack, refPackAux, refScalar, refClass, refEmit, indexOf?, List.find?, hl]
    rw [e1, e2] at h
    have := congrArg (fun o => o.map List.length) h
    simp [length_leBytes] at this
  exact key (List.replicate 65536 0) List.length_replicate

/-! ### non-vacuity and boundaries -/

-- a nested value with repeated strings, cross-type equal numbers, a 15-element list
example : Packable (.dict [(.str [0x61], .list [.list [.int 1 0, .int 2 0], .list [.int 1 0, .int 2 0]]),
    (.int 1 0, .list [.float 0x406FE00000000000, .int 255 0, .str [0x61, 0x62, 0x63], .str [0x61, 0x62, 0x63]]),
    (.none, .list (List.replicate 15 (.bytes [1, 2])))]) := by decide
example : dataShort (.list [.bytes [1, 2], .dict [(.str [0x61], .bytes [])]]) = true := by decide

-- D5 witnesses of DESIGN.md §6, on the repaired model: a container before a repeated object
example : pack (.list [.list [.int 1 0, .int 2 0], .list [.int 1 0, .int 2 0]])
    = some [0xD2, 0xD2, 0x09, 0x0A, 0xD2, 0x09, 0x0A] := by decide
example : pack (.list [.list [.str [0x61, 0x61]], .str [0x62, 0x62], .str [0x62, 0x62]])
    = some [0xD3, 0xD1, 0x42, 0x61, 0x61, 0x42, 0x62, 0x62, 0xA1] := by decide
example : unpack [0xD3, 0xD1, 0x42, 0x61, 0x61, 0x42, 0x62, 0x62, 0xA1]
    = .ok (.list [.list [.str [0x61, 0x61]], .str [0x62, 0x62], .str [0x62, 0x62]], []) := rfl
-- … and two scalars that are `==` across types (255.0, 255) before a repeated object
example : unpack [0xD4, 0x36, 0, 0, 0, 0, 0, 0xE0, 0x6F, 0x40, 0x30, 0xFF, 0x43, 0x61, 0x62, 0x63, 0xA2]
    = .ok (.list [.float 0x406FE00000000000, .int 255 1, .str [0x61, 0x62, 0x63], .str [0x61, 0x62, 0x63]], []) := rfl
-- an empty string is one byte and takes no table slot
example : unpack [0xD3, 0x40, 0x43, 0x61, 0x62, 0x63, 0xA0]
    = .ok (.list [.str [], .str [0x61, 0x62, 0x63], .str [0x61, 0x62, 0x63]], []) := rfl

-- string length classes 0x20/0x21, 0xFF/0x100, 0xFFFF/0x10000, 0xFFFFFF/0x1000000
example (s : Bytes) (h : s.length = 0x20) : packStr s = some (0x60 :: s) := by simp [packStr, h]
example (s : Bytes) (h : s.length = 0x21) : packStr s = some (0x61 :: 0x21 :: s) := by
  simp [packStr, h, leBytes]
example (s : Bytes) (h : s.length = 0xFF) : packStr s = some (0x61 :: 0xFF :: s) := by
  simp [packStr, h, leBytes]
example (s : Bytes) (h : s.length = 0x100) : packStr s = some (0x62 :: 0x00 :: 0x01 :: s) := by
  simp [packStr, h, leBytes]
example (s : Bytes) (h : s.length = 0xFFFF) : packStr s = some (0x62 :: 0xFF :: 0xFF :: s) := by
  simp [packStr, h, leBytes]
example (s : Bytes) (h : s.length = 0x10000) : packStr s = some (0x63 :: 0x00 :: 0x00 :: 0x01 :: s) := by
  simp [packStr, h, leBytes]
example (s : Bytes) (h : s.length = 0x1000000) :
    packStr s = some (0x64 :: 0x00 :: 0x00 :: 0x00 :: 0x01 :: s) := by
  simp [packStr, h, leBytes]
-- data length classes
example (s : Bytes) (h : s.length = 0x20) : packData s = some (0x90 :: s) := by simp [packData, h]
example (s : Bytes) (h : s.length = 0x21) : packData s = some (0x91 :: 0x21 :: s) := by
  simp [packData, h, leBytes]
example (s : Bytes) (h : s.length = 0x100) : packData s = some (0x92 :: 0x00 :: 0x01 :: s) := by
  simp [packData, h, leBytes]
example (s : Bytes) (h : s.length = 0xFFFF) : packData s = some (0x92 :: 0xFF :: 0xFF :: s) := by
  simp [packData, h, leBytes]
example (s : Bytes) (h : s.length = 0x10000) :
    packData s = some (0x93 :: 0x00 :: 0x00 :: 0x01 :: 0x00 :: s) := by
  simp [packData, h, leBytes]
-- containers: 14 elements counted, 15 elements endless with terminator
example : pack (.list (List.replicate 14 (.bool true))) = some (0xDE :: List.replicate 14 1) := by decide
example : pack (.list (List.replicate 15 (.bool true))) = some (0xDF :: (List.replicate 15 1 ++ [0x03])) := by decide
example : pack (.dict ((List.range 15).map fun i => (.int (i : Nat) 0, .none)))
    = some (0xEF :: (((List.range 15).flatMap fun i => [UInt8.ofNat (8 + i), 0x04]) ++ [0x03])) := by decide
example : unpack (0xDF :: (List.replicate 16 1 ++ [0x03])) = .ok (.list (List.replicate 16 (.bool true)), []) := rfl
-- pointer index classes
example : ptrBytes 0x20 = some [0xC0] ∧ ptrBytes 0x21 = some [0xC1, 0x21] ∧ ptrBytes 0xFF = some [0xC1, 0xFF]
    ∧ ptrBytes 0x100 = some [0xC2, 0x00, 0x01] ∧ ptrBytes 0xFFFF = some [0xC2, 0xFF, 0xFF]
    ∧ ptrBytes 0x10000 = some [0xC3, 0x00, 0x00, 0x01] ∧ ptrBytes 0x1000000 = some [0xC4, 0, 0, 0, 1] := by decide
-- integer widths
example : packInt 0x27 0 = some [0x2F] ∧ packInt 0x28 0 = some [0x30, 0x28] ∧ packInt 0xFF 0 = some [0x30, 0xFF]
    ∧ packInt 0x100 0 = some [0x31, 0x00, 0x01] ∧ packInt 0x10000 0 = some [0x32, 0, 0, 1, 0]
    ∧ packInt 0x100000000 0 = some [0x33, 0, 0, 0, 0, 1, 0, 0, 0] ∧ packInt (-1) 0 = some [0x07]
    ∧ packInt 5 2 = some [0x31, 5, 0] := by decide
-- the documentation's pointer example: {"a": False, "b": "test", "c": "test"}
example : refPack (.dict [(.str [0x61], .bool false), (.str [0x62], .str [0x74, 0x65, 0x73, 0x74]),
    (.str [0x63], .str [0x74, 0x65, 0x73, 0x74])])
    = some [0xE3, 0x41, 0x61, 0x02, 0x41, 0x62, 0x44, 0x74, 0x65, 0x73, 0x74, 0x41, 0x63, 0xA2] := by decide

/-! ### tie A: the literal constants of `opack._pack` / `opack._unpack` (re-extracted from the
source tree on every run, `tools/gen/c04_opack.py`) are the ones transcribed into the model -/
example : Gen.C04Opack.packInts = [1, 2, 3, 4, 8, 15, 32, 33, 40, 48, 49, 50, 51, 64, 97, 98, 99, 100, 112,
    145, 146, 147, 148, 160, 193, 194, 195, 196, 208, 224, 255, 65535, 16777215, 4294967295,
    18446744073709551615] := by decide
example : Gen.C04Opack.packBytes = [3, 4, 5, 54] := by decide
example : Gen.C04Opack.unpackInts = [0, 1, 2, 3, 4, 5, 6, 7, 8, 9, 15, 17, 47, 48, 53, 54, 64, 96, 100, 112,
    144, 145, 148, 160, 192, 193, 196, 208, 224, 240] := by decide
example : Gen.C04Opack.unpackBytes = [] := by decide

end PyatvModel.Props.C04Opack
