import PyatvModel.C05.Lemmas
import PyatvModel.C05.DnsLemmas
/-
C05 (a), DNS — pyatv/support/dns.py as repaired (`fix: parse_domain_name rejects compression
pointers that do not point strictly backwards`).  `n` is the length of the datagram.

* `name_pinned_counterexample`  D2: on the pinned loop, a name that is a pointer to itself exhausts
                                every fuel — `parse_domain_name` never returns
* `parseName_steps`             repaired name loop: at most `(n+1)²` iterations (quadratic: a
                                jump may re-read labels, but every jump lowers `segment_start`)
* `parseName_never_hangs`       … and the model loop, given `(n+1)²` fuel, always leaves through
                                one of its own exits (value or ordinary exception)
* `parseName_progress`          a name that parses leaves the stream after where it began
* `txt_steps`                   `parse_txt_dict`: at most `n + 2` iterations
* `dnsMessage_steps`            `DnsMessage.unpack`: all loop iterations together (records, names,
                                TXT strings) are at most `4·(n+2)·(2(n+1)² + n + 3)` — cubic;
                                the header counts (up to 4 × 65535) do not enter: a record that
                                parses consumes input, a record at end of input fails
* `unpack_never_hangs`          the C04 model of `DnsMessage.unpack` never answers the model-only
                                error `hang`, on ANY byte string
-/
namespace PyatvModel.Props.C05Dns
open PyatvModel PyatvModel.C04.Dns PyatvModel.C05

/-- **D2, pinned**: "for every message and offset some fuel lets the name loop leave" is false. -/
theorem name_pinned_counterexample :
    ¬ (∀ (msg : Bytes) (pos : Nat), ∃ f, (parseNamePinnedF msg f pos [] none).err ≠ some .hang) := by
  intro h
  obtain ⟨f, hf⟩ := h selfPointer 12
  exact hf (parseNamePinned_selfPointer f none)

/-- the repaired loop on the same message: two reads, `ValueError` -/
example : (parseName selfPointer 12).err = some .value ∧ nameStepsAt selfPointer 12 = 1 := by
  decide +kernel
/-- a label followed by a pointer back to it (the other shape of D2) -/
example : (parseName [0, 0, 0, 0, 0, 1, 0, 0, 0, 0, 0, 0, 1, 0x61, 0xC0, 0x0C] 12).err = some .value := by
  decide +kernel

/-- **Step bound, name loop**: `parse_domain_name` makes at most `(n + 1)²` iterations. -/
theorem parseName_steps (msg : Bytes) (pos : Nat) : nameStepsAt msg pos ≤ (msg.length + 1) * (msg.length + 1) :=
  nameStepsAt_le msg pos

/-- the ranking function itself: from any state of the loop at most
    `segment_start·(n+1) + (n − pos) + 1` iterations remain, whatever the fuel -/
theorem parseName_measure (msg : Bytes) (fuel pos seg : Nat) (hp : pos ≤ msg.length) (hs : seg ≤ msg.length) :
    nameSteps msg fuel pos seg ≤ seg * (msg.length + 1) + (msg.length - pos) + 1 :=
  nameSteps_le msg fuel pos seg hp hs

/-- **Fuel sufficient**: with the fuel the model grants (`(n+1)²`) the loop leaves by itself. -/
theorem parseName_never_hangs (msg : Bytes) (pos : Nat) : (parseName msg pos).err ≠ some .hang :=
  parseName_no_hang msg pos

theorem parseName_progress (msg : Bytes) (pos : Nat) (h : (parseName msg pos).err = none) :
    pos < (parseName msg pos).next :=
  parseName_next_gt h

/-- a well-formed compressed name: "b" + pointer to "a.local" at offset 12: 5 iterations -/
example : nameStepsAt (List.replicate 12 0 ++ encName [[97], [108, 111, 99, 97, 108]] ++ [1, 98] ++ encPtr 12) 21 = 5 := by
  decide +kernel

/-- **Step bound, TXT loop** -/
theorem txt_steps (msg : Bytes) (stop fuel pos : Nat) (d : List (Bytes × Bytes)) :
    txtSteps msg stop fuel pos d ≤ msg.length + 2 := by
  have := txtSteps_le msg stop fuel pos d
  omega

/-- **Step bound, whole message**: every loop iteration of `DnsMessage.unpack`. -/
theorem dnsMessage_steps (msg : Bytes) :
    unpackCost msg ≤ 4 * ((msg.length + 2) * (2 * ((msg.length + 1) * (msg.length + 1)) + msg.length + 3)) :=
  unpackCost_le msg

/-- header claims 65535 questions, the datagram holds one: 2 calls, not 65535 -/
example : unpackCost [0, 0, 0, 0, 0xFF, 0xFF, 0, 0, 0, 0, 0, 0, 1, 0x61, 0, 0, 1, 0, 1] = 5 := by
  decide +kernel

/-- **Fuel sufficient, whole message**: value or ordinary exception, never the model's `hang`. -/
theorem unpack_never_hangs (msg : Bytes) : unpack msg ≠ .err .hang := unpack_no_hang msg

end PyatvModel.Props.C05Dns
