import PyatvModel.C05.RegexLemmas
import PyatvModel.Gen.C05Regex
/-
C05 (a), regular expressions on network strings — tie A.  `Gen/C05Regex.lean` is re-extracted on
every check from the modules that interpret TXT values, HTTP lines and model strings
(`tools/gen/c05.py`: every `re.<fn>(pattern, …)` call, pattern resolved from the imported module).

* `extracted_flat`        every extracted pattern is *flat*: nothing that is repeated more than
                          once contains a repeat or an alternation (no `(x+)+`, `(x|y)*`), the
                          shape on which a backtracking matcher is exponential.  Re-elaborated against
                          the patterns the code has NOW: a reshaped pattern breaks this obligation.
* `extracted_degree`      every class-repeat sequence an extracted pattern stands for has at most 4
                          unbounded repeats
* `regex_cost`            the exhaustive backtracking search for a sequence of class repeats takes
                          at most `bndI n p` steps — a polynomial in the subject length `n` whose
                          degree is the number of unbounded repeats of `p` (`regex_cost_uniform`:
                          at most `bnd n k` for `k` items)
* `flat_cost`             … hence for every sequence of a flat pattern.
What the theorems do not cover (runtime, observed by the harness under a wall-clock budget in a
child process): that CPython's `re` does no more work than the exhaustive search, the choice
between the finitely many sequences of a pattern (a constant factor), `re.search` start positions
(a factor `n + 1`).
-/
namespace PyatvModel.Props.C05Regex
open PyatvModel PyatvModel.C05 PyatvModel.Gen.C05

/-- **Shape of the patterns in the tree under test.** -/
theorem extracted_flat : (regexSites.all fun site => site.2.2.flat) = true := by decide

/-- at most 4 unbounded repeats in any sequence of any extracted pattern: degree ≤ 4 -/
theorem extracted_degree :
    (regexSites.all fun site => (Re.expand (fun _ => true) site.2.2).all fun p => decide (unbounded p ≤ 4)) = true := by
  decide +kernel

/-- the extraction found the patterns applied during discovery (non-vacuity) -/
example : (regexSites.map (·.1)).contains "^Mac\x5cd+,\x5cd+$" = true := by decide +kernel
example : regexSites.length ≥ 10 := by decide

/-- the shape the criterion rejects: `^Mac[A-Za-z]*(?:\d+,?)+$` -/
example : (Re.seq [.cls, .cls, .cls, .rep 0 none .cls, .rep 1 none (.seq [.rep 1 none .cls, .rep 0 (some 1) .cls])]).flat = false := by
  decide
/-- … and an alternation under a star, `(a|ab)*` -/
example : (Re.rep 0 none (.alt [.cls, .seq [.cls, .cls]])).flat = false := by decide

/-- **Step bound for a sequence of class repeats** (any classes, any subject). -/
theorem regex_cost (p : List Item) (s : Bytes) : cost p s ≤ bndI s.length p := cost_le_bndI p s

theorem regex_cost_uniform (p : List Item) (s : Bytes) : cost p s ≤ bnd s.length p.length := cost_le p s

/-- … for every sequence a flat pattern stands for -/
theorem flat_cost (r : Re) (cls : UInt8 → Bool) (s : Bytes) :
    ∀ p ∈ Re.expand cls r, cost p s ≤ bndI s.length p := fun p _ => cost_le_bndI p s

/-- `Mac\d+,\d+` on "Mac" + 20 digits + "x": the search fails within 120 steps (not 2^20) -/
example : cost [⟨(· == 77), 1, some 1⟩, ⟨(· == 97), 1, some 1⟩, ⟨(· == 99), 1, some 1⟩,
    ⟨fun c => 48 ≤ c && c ≤ 57, 1, none⟩, ⟨(· == 44), 1, some 1⟩, ⟨fun c => 48 ≤ c && c ≤ 57, 1, none⟩]
    ([77, 97, 99] ++ List.replicate 20 49 ++ [120]) ≤ 120 := by decide +kernel

end PyatvModel.Props.C05Regex
