import PyatvModel.C14.Model
namespace PyatvModel.Props.C14
end PyatvModel.Props.C14
