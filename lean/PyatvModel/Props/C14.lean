import PyatvModel.C14.Lemmas
/-
C14 — stored settings belong to exactly one device and survive save/load.

Lookup (`get_settings`)
* `lookup_sound`       what `get` hands out is either a stored entry that shares an identifier
                       with the configuration, or a fresh entry made from the configuration
                       itself after no stored entry shared one (its identifiers ⊆ the cfg's);
* `never_disjoint`     hence it never hands out the object of a device with disjoint identifiers;
* `lookup_complete`    if a stored entry shares an identifier, nothing is created and the
                       EARLIEST such entry is returned;
* `same_object`        every configuration that shares an identifier with a device and with no
                       other stored device gets that device's object, storage untouched;
* `same_object_of_disjoint`  with pairwise disjoint stored identifier sets (`DisjointIds`)
                       that holds for every configuration made of identifiers of the device;
* `inv_step` / `inv_history` / `same_object_history`  `DisjointIds` (and handle uniqueness)
                       is preserved by get (any cfg, also bridging), update with non-bridging
                       cfgs, remove, non-identifier mutation, save, failing save and load —
                       so over ALL admissible histories any two such cfgs get the same object.
Save / load
* `dump_injective`     the exclude-defaults dump determines the content;
* `roundtrip`          a fresh FileStorage that loads what `save` wrote holds every device, in
                       order, with every declared field identical (arbitrary strings, none);
* `roundtrip_history`  the same after `save()` in every reachable state, also when save() does
                       not write because nothing changed.
Changed indicator
* `changed_iff`        over all histories: `changed` ⇔ the dumped content differs from the
                       content at the last save/load (hash injectivity is the only law used).
-/
namespace PyatvModel.Props.C14
open PyatvModel.C14

/-- pairwise disjoint identifier sets of the stored devices -/
def DisjointIds (items : List (Nat × Settings)) : Prop :=
  ∀ x ∈ items, ∀ y ∈ items, x.1 ≠ y.1 → ∀ i ∈ ids x.2, i ∉ ids y.2

/-- object handles are unique and below the allocation counter -/
def Wf {H : Type} (st : Store H) : Prop :=
  (st.items.map (·.1)).Nodup ∧ ∀ x ∈ st.items, x.1 < st.next

def Disj (a b : Settings) : Prop := ∀ i ∈ ids a, i ∉ ids b

/-- the devices in the settings file have pairwise disjoint identifiers -/
def FileDisjoint {H : Type} (st : Store H) : Prop :=
  ∀ f, st.file = some f → (f.map loadEntry).Pairwise Disj

def Inv {H : Type} (st : Store H) : Prop := Wf st ∧ DisjointIds st.items ∧ FileDisjoint st

/-! ## Lookup -/

/-- **C14, lookup soundness.** -/
theorem lookup_sound {H : Type} (st st' : Store H) (c : Cfg) (e : Nat × Settings)
    (h : getSettings st c = some (st', e)) :
    e ∈ st'.items ∧
    ((e ∈ st.items ∧ Shares e.2 (cfgIds c) ∧ st' = st) ∨
     (e = (st.next, applyCfg c dflt) ∧ st'.items = st.items ++ [e] ∧ st'.next = st.next + 1 ∧
      (∀ x ∈ st.items, ¬ Shares x.2 (cfgIds c)) ∧ (∀ i ∈ ids e.2, i ∈ cfgIds c))) := by
  unfold getSettings at h
  split at h
  · cases h
  · split at h
    next e' hf =>
      simp only [Option.some.injEq, Prod.mk.injEq] at h
      obtain ⟨rfl, rfl⟩ := h
      obtain ⟨pre, post, he, hs, _⟩ := find_some _ _ _ hf
      have hmem : e' ∈ st.items := by rw [he]; simp
      exact ⟨hmem, Or.inl ⟨hmem, (shares_iff _ _).mp hs, rfl⟩⟩
    next hf =>
      simp only [Option.some.injEq, Prod.mk.injEq] at h
      obtain ⟨rfl, rfl⟩ := h
      refine ⟨by simp, Or.inr ⟨rfl, rfl, rfl, ?_, ?_⟩⟩
      · intro x hx
        exact (shares_false_iff _ _).mp ((find_none_iff _ _).mp hf x hx)
      · intro i hi
        rcases ids_applyCfg c dflt i hi with h | h
        · rw [ids_dflt] at h; cases h
        · exact h

/-- **C14, never another device's settings.**  A stored device whose identifiers are all
    foreign to the configuration is never the one handed out. -/
theorem never_disjoint {H : Type} (st st' : Store H) (hw : Wf st) (c : Cfg) (e x : Nat × Settings)
    (h : getSettings st c = some (st', e)) (hx : x ∈ st.items)
    (hd : ∀ i ∈ ids x.2, i ∉ cfgIds c) : e.1 ≠ x.1 := by
  intro heq
  rcases (lookup_sound st st' c e h).2 with ⟨hmem, ⟨i, hi, hc⟩, _⟩ | ⟨he, _⟩
  · -- same handle, both stored: same entry
    have : e = x := eq_of_fst_eq st.items hw.1 e x hmem hx heq
    subst this
    exact hd i hi hc
  · have := hw.2 x hx
    rw [he] at heq
    simp at heq
    omega

/-- **C14, lookup completeness.** -/
theorem lookup_complete {H : Type} (st : Store H) (c : Cfg)
    (hex : ∃ x ∈ st.items, Shares x.2 (cfgIds c)) :
    ∃ pre e post, st.items = pre ++ e :: post ∧ Shares e.2 (cfgIds c) ∧
      (∀ x ∈ pre, ¬ Shares x.2 (cfgIds c)) ∧ getSettings st c = some (st, e) := by
  obtain ⟨x, hx, i, hi, hc⟩ := hex
  have hne : cfgIds c ≠ [] := by intro h; rw [h] at hc; cases hc
  cases hf : find (cfgIds c) st.items with
  | none =>
    have := (find_none_iff _ _).mp hf x hx
    exact absurd ⟨i, hi, hc⟩ ((shares_false_iff _ _).mp this)
  | some e =>
    obtain ⟨pre, post, he, hs, hp⟩ := find_some _ _ _ hf
    refine ⟨pre, e, post, he, (shares_iff _ _).mp hs, fun y hy => (shares_false_iff _ _).mp (hp y hy), ?_⟩
    simp [getSettings, hne, hf]

/-- **C14, one object per device.**  A configuration that shares an identifier with the stored
    device `e` and with no other stored device is answered with `e`, nothing is created. -/
theorem same_object {H : Type} (st : Store H) (c : Cfg) (e : Nat × Settings) (he : e ∈ st.items)
    (hs : Shares e.2 (cfgIds c)) (hnb : ∀ x ∈ st.items, x ≠ e → ¬ Shares x.2 (cfgIds c)) :
    getSettings st c = some (st, e) := by
  obtain ⟨pre, e', post, hl, hs', hp, hg⟩ := lookup_complete st c ⟨e, he, hs⟩
  have : e' = e := by
    by_cases hne : e' = e
    · exact hne
    · exact absurd hs' (hnb e' (by rw [hl]; simp) hne)
  rw [hg, this]

/-- with pairwise disjoint stored identifiers, every configuration consisting of identifiers
    of the device gets the device's object -/
theorem same_object_of_disjoint {H : Type} (st : Store H) (hw : Wf st) (hd : DisjointIds st.items)
    (c : Cfg) (e : Nat × Settings) (he : e ∈ st.items)
    (hne : cfgIds c ≠ []) (hsub : ∀ i ∈ cfgIds c, i ∈ ids e.2) :
    getSettings st c = some (st, e) := by
  apply same_object st c e he
  · cases hc : cfgIds c with
    | nil => exact absurd hc hne
    | cons i r => exact ⟨i, hsub i (by rw [hc]; simp), by simp⟩
  · rintro x hx hxe ⟨i, hi, hic⟩
    have h1 : x.1 ≠ e.1 := by
      intro heq
      exact hxe (eq_of_fst_eq st.items hw.1 x e hx he heq)
    exact hd x hx e he h1 i hi (hsub i hic)

/-- two such configurations (full / partial overlap with the device) get the SAME object -/
theorem same_object_pair {H : Type} (st : Store H) (hw : Wf st) (hd : DisjointIds st.items)
    (c₁ c₂ : Cfg) (e : Nat × Settings) (he : e ∈ st.items)
    (h₁ : cfgIds c₁ ≠ []) (h₂ : cfgIds c₂ ≠ [])
    (s₁ : ∀ i ∈ cfgIds c₁, i ∈ ids e.2) (s₂ : ∀ i ∈ cfgIds c₂, i ∈ ids e.2) :
    getSettings st c₁ = some (st, e) ∧ getSettings st c₂ = some (st, e) :=
  ⟨same_object_of_disjoint st hw hd c₁ e he h₁ s₁, same_object_of_disjoint st hw hd c₂ e he h₂ s₂⟩

/-! ## The callers: look up, then apply (`pyatv.scan`, `pyatv.connect`) -/

/-- what `BaseConfig.apply` puts on a configuration: every service keeps its own credentials /
    password unless the settings object carries a (non-empty) value for that protocol -/
theorem apply_source (s : Settings) (c : Cfg) (ps : Proto × Svc) (h : ps ∈ applyTo s c) :
    ∃ ps0 ∈ c, ps.1 = ps0.1 ∧ ps.2.ident = ps0.2.ident ∧
      (ps.2.cred = ps0.2.cred ∨ ∃ v, s (.cred ps.1) = .str v ∧ ps.2.cred = some v) ∧
      (ps.2.pw = ps0.2.pw ∨ ∃ v, s (.pw ps.1) = .str v ∧ ps.2.pw = some v) := by
  simp only [applyTo, List.mem_map] at h
  obtain ⟨ps0, hmem, rfl⟩ := h
  refine ⟨ps0, hmem, rfl, rfl, ?_, ?_⟩
  · cases hv : s (.cred ps0.1) with
    | none => left; simp [strOf, hv]
    | int n => left; simp [strOf, hv]
    | str v =>
      by_cases he : v = ""
      · left; simp [strOf, hv, he]
      · right; exact ⟨v, rfl, by simp [strOf, hv, he]⟩
  · cases hv : s (.pw ps0.1) with
    | none => left; simp [strOf, hv]
    | int n => left; simp [strOf, hv]
    | str v =>
      by_cases he : v = ""
      · left; simp [strOf, hv, he]
      · right; exact ⟨v, rfl, by simp [strOf, hv, he]⟩

/-- one step of `scan()` / the start of `connect()`: look the configuration up, apply what
    the storage returned -/
def lookupApply {H : Type} (st : Store H) (c : Cfg) : Option (Store H × Cfg) :=
  (getSettings st c).map fun r => (r.1, applyTo r.2.2 c)

/-- **C14, credentials saved for one device are never applied to another.**  Whatever
    look-up-then-apply puts on a configuration beyond what it already carried is a value held by
    ONE entry `e` of the storage, and `e` either was stored before and shares an identifier with
    the configuration, or was created just now from this very configuration. -/
theorem applied_credentials_sound {H : Type} (st st' : Store H) (c c' : Cfg)
    (h : lookupApply st c = some (st', c')) :
    ∃ e ∈ st'.items,
      ((e ∈ st.items ∧ Shares e.2 (cfgIds c)) ∨ (e.2 = applyCfg c dflt ∧ ∀ x ∈ st.items, ¬ Shares x.2 (cfgIds c))) ∧
      ∀ ps ∈ c', ∃ ps0 ∈ c, ps.1 = ps0.1 ∧
        (ps.2.cred = ps0.2.cred ∨ ∃ v, e.2 (.cred ps.1) = .str v ∧ ps.2.cred = some v) ∧
        (ps.2.pw = ps0.2.pw ∨ ∃ v, e.2 (.pw ps.1) = .str v ∧ ps.2.pw = some v) := by
  simp only [lookupApply, Option.map_eq_some_iff] at h
  obtain ⟨⟨st1, e⟩, hg, heq⟩ := h
  simp only [Prod.mk.injEq] at heq
  obtain ⟨rfl, rfl⟩ := heq
  obtain ⟨hmem, hcase⟩ := lookup_sound st st1 c e hg
  refine ⟨e, hmem, ?_, ?_⟩
  · rcases hcase with ⟨h1, h2, _⟩ | ⟨h1, _, _, h4, _⟩
    · exact Or.inl ⟨h1, h2⟩
    · exact Or.inr ⟨by rw [h1], h4⟩
  · intro ps hps
    obtain ⟨ps0, hm, h1, _, h3, h4⟩ := apply_source e.2 c ps hps
    exact ⟨ps0, hm, h1, h3, h4⟩

/-- the look-ups of a whole scan (kept configurations in discovery order) -/
def scanAll {H : Type} : Store H → List Cfg → Store H × List Cfg
  | st, [] => (st, [])
  | st, c :: cs =>
    match lookupApply st c with
    | none => let r := scanAll st cs; (r.1, c :: r.2)
    | some (st', c') => let r := scanAll st' cs; (r.1, c' :: r.2)

/-- a scan returns one configuration per kept device, in order, each with its own services -/
theorem scanAll_shape {H : Type} (cs : List Cfg) : ∀ st : Store H,
    (scanAll st cs).2.map (fun c => c.map (fun ps => (ps.1, ps.2.ident))) =
      cs.map (fun c => c.map (fun ps => (ps.1, ps.2.ident))) := by
  induction cs with
  | nil => intro st; rfl
  | cons c cs ih =>
    intro st
    simp only [scanAll]
    cases hl : lookupApply st c with
    | none => simp [ih]
    | some r =>
      obtain ⟨st', c'⟩ := r
      simp only [List.map_cons, ih, List.cons.injEq, and_true]
      simp only [lookupApply, Option.map_eq_some_iff] at hl
      obtain ⟨⟨st1, e⟩, _, heq⟩ := hl
      simp only [Prod.mk.injEq] at heq
      rw [← heq.2]
      simp [applyTo, List.map_map, Function.comp]

/-! ## The invariant over histories -/

section Histories
variable {H : Type} [DecidableEq H] (hash : List Dump → H)

/-- side conditions under which one-object-per-device is maintained: updates with
    non-bridging configurations, attribute assignments that leave identifiers alone -/
def Admissible (st : Store H) : Op → Prop
  | .update c => ∀ st' e, getSettings st c = some (st', e) →
      ∀ x ∈ st'.items, x.1 ≠ e.1 → ¬ Shares x.2 (cfgIds c)
  | .mutate _ k _ => ∀ p, k ≠ .ident p
  | _ => True

def AdmissibleRun : Store H → List Op → Prop
  | _, [] => True
  | st, op :: ops => Admissible st op ∧ AdmissibleRun (step hash st op).1 ops

omit [DecidableEq H] in
theorem wf_get (st st' : Store H) (c : Cfg) (e : Nat × Settings) (hw : Wf st)
    (h : getSettings st c = some (st', e)) : Wf st' := by
  rcases (lookup_sound st st' c e h).2 with ⟨_, _, rfl⟩ | ⟨he, hi, hn, _⟩
  · exact hw
  · constructor
    · rw [hi, List.map_append, List.nodup_append]
      refine ⟨hw.1, by simp, ?_⟩
      intro a ha b hb
      simp only [List.map_cons, List.map_nil, List.mem_singleton] at hb
      obtain ⟨x, hx, rfl⟩ := List.mem_map.mp ha
      have := hw.2 x hx
      rw [hb, he]; simp; omega
    · intro x hx
      rw [hi] at hx
      rcases List.mem_append.mp hx with hx | hx
      · have := hw.2 x hx; omega
      · simp only [List.mem_singleton] at hx
        rw [hx, he, hn]; simp

omit [DecidableEq H] in
theorem disjoint_get (st st' : Store H) (c : Cfg) (e : Nat × Settings)
    (hd : DisjointIds st.items) (h : getSettings st c = some (st', e)) : DisjointIds st'.items := by
  rcases (lookup_sound st st' c e h).2 with ⟨_, _, rfl⟩ | ⟨_, hi, _, hno, hsub⟩
  · exact hd
  · intro x hx y hy hxy i hix hiy
    rw [hi] at hx hy
    rcases List.mem_append.mp hx with hx1 | hx1 <;> rcases List.mem_append.mp hy with hy1 | hy1
    · exact hd x hx1 y hy1 hxy i hix hiy
    · simp only [List.mem_singleton] at hy1; rw [hy1] at hiy
      exact hno x hx1 ⟨i, hix, hsub i hiy⟩
    · simp only [List.mem_singleton] at hx1; rw [hx1] at hix
      exact hno y hy1 ⟨i, hiy, hsub i hix⟩
    · simp only [List.mem_singleton] at hx1 hy1
      exact hxy (by rw [hx1, hy1])

theorem pairwise_of_disjoint (items : List (Nat × Settings))
    (hn : (items.map (·.1)).Nodup) (hd : DisjointIds items) :
    (items.map (·.2)).Pairwise Disj := by
  induction items with
  | nil => simp
  | cons a r ih =>
    simp only [List.map_cons, List.nodup_cons, List.mem_map, not_exists, not_and] at hn
    simp only [List.map_cons, List.pairwise_cons, List.mem_map]
    refine ⟨?_, ih hn.2 (fun x hx y hy => hd x (by simp [hx]) y (by simp [hy]))⟩
    rintro s ⟨y, hy, rfl⟩
    exact hd a (by simp) y (by simp [hy]) (fun h => hn.1 y hy h.symm)

theorem disjoint_number (l : List Settings) (hp : l.Pairwise Disj) :
    ∀ n, DisjointIds (number n l) := by
  induction l with
  | nil => intro n x hx; simp [number] at hx
  | cons s r ih =>
    intro n x hx y hy hxy i hix hiy
    rw [List.pairwise_cons] at hp
    simp only [number, List.mem_cons] at hx hy
    rcases hx with rfl | hx <;> rcases hy with rfl | hy
    · exact hxy rfl
    · exact hp.1 y.2 (mem_number r (n + 1) y hy).2.2 i hix hiy
    · exact hp.1 x.2 (mem_number r (n + 1) x hx).2.2 i hiy hix
    · exact ih hp.2 (n + 1) x hx y hy hxy i hix hiy

/-- **C14, the invariant is preserved by every admissible operation** (get with ANY
    configuration — also a bridging one —, non-bridging update, remove, non-identifier
    mutation, save, failing save, load). -/
theorem inv_step (st : Store H) (op : Op) (hinv : Inv st) (ha : Admissible st op) :
    Inv (step hash st op).1 := by
  obtain ⟨hw, hd, hf⟩ := hinv
  cases op with
  | get c =>
    simp only [step]
    cases hg : getSettings st c with
    | none => exact ⟨hw, hd, hf⟩
    | some r =>
      obtain ⟨st', e⟩ := r
      refine ⟨wf_get st st' c e hw hg, disjoint_get st st' c e hd hg, ?_⟩
      rcases (lookup_sound st st' c e hg).2 with ⟨_, _, rfl⟩ | ⟨_, _, _, _, _⟩
      · exact hf
      · unfold getSettings at hg
        intro f hfile
        apply hf f
        split at hg
        · cases hg
        · split at hg <;> (simp only [Option.some.injEq, Prod.mk.injEq] at hg; rw [← hg.1] at hfile; exact hfile)
  | update c =>
    simp only [step]
    cases hg : getSettings st c with
    | none => exact ⟨hw, hd, hf⟩
    | some r =>
      obtain ⟨st', e⟩ := r
      have hw' := wf_get st st' c e hw hg
      have hd' := disjoint_get st st' c e hd hg
      have hnb := ha st' e hg
      refine ⟨⟨?_, ?_⟩, ?_, ?_⟩
      · simp only [mapAt_fst]; exact hw'.1
      · intro y hy
        obtain ⟨x, hx, hxy, _⟩ := mem_mapAt _ _ _ y hy
        have := hw'.2 x hx
        simp only at this ⊢; omega
      · intro x hx y hy hxy i hix hiy
        obtain ⟨x0, hx0, hx1, hxc⟩ := mem_mapAt _ _ _ x hx
        obtain ⟨y0, hy0, hy1, hyc⟩ := mem_mapAt _ _ _ y hy
        have hne : x0.1 ≠ y0.1 := by rw [← hx1, ← hy1]; exact hxy
        rcases hxc with ⟨_, rfl⟩ | ⟨hxe, hxv⟩ <;> rcases hyc with ⟨_, rfl⟩ | ⟨hye, hyv⟩
        · exact hd' x hx0 y hy0 hne i hix hiy
        · -- y is the updated entry
          rw [hyv] at hiy
          rcases ids_applyCfg c y0.2 i hiy with h | h
          · exact hd' x hx0 y0 hy0 hne i hix h
          · exact hnb x hx0 (by rw [← hye]; exact hne) ⟨i, hix, h⟩
        · rw [hxv] at hix
          rcases ids_applyCfg c x0.2 i hix with h | h
          · exact hd' x0 hx0 y hy0 hne i h hiy
          · exact hnb y hy0 (by rw [← hxe]; exact hne.symm) ⟨i, hiy, h⟩
        · exact hne (by rw [hxe, hye])
      · intro f hfile
        apply hf f
        rcases (lookup_sound st st' c e hg).2 with ⟨_, _, rfl⟩ | _
        · exact hfile
        · unfold getSettings at hg
          split at hg
          · cases hg
          · split at hg <;> (simp only [Option.some.injEq, Prod.mk.injEq] at hg; rw [← hg.1] at hfile; exact hfile)
  | remove s =>
    simp only [step]
    split
    · have hsub := eraseEq_sublist s st.items
      refine ⟨⟨hw.1.sublist (hsub.map _), fun x hx => hw.2 x (hsub.subset hx)⟩, ?_, hf⟩
      intro x hx y hy
      exact hd x (hsub.subset hx) y (hsub.subset hy)
    · exact ⟨hw, hd, hf⟩
  | mutate h k v =>
    simp only [step]
    refine ⟨⟨?_, ?_⟩, ?_, hf⟩
    · simp only [mapAt_fst]; exact hw.1
    · intro y hy
      have hy' : y ∈ mapAt h (fun s => set s k v) st.items := hy
      obtain ⟨x, hx, hxy, _⟩ := mem_mapAt _ _ _ y hy'
      have := hw.2 x hx
      simp only at this ⊢; omega
    · have hk : ∀ p, k ≠ .ident p := ha
      intro x hx y hy hxy i hix hiy
      have hx' : x ∈ mapAt h (fun s => set s k v) st.items := hx
      have hy' : y ∈ mapAt h (fun s => set s k v) st.items := hy
      obtain ⟨x0, hx0, hx1, hxc⟩ := mem_mapAt _ _ _ x hx'
      obtain ⟨y0, hy0, hy1, hyc⟩ := mem_mapAt _ _ _ y hy'
      have hne : x0.1 ≠ y0.1 := by rw [← hx1, ← hy1]; exact hxy
      have hx2 : ids x.2 = ids x0.2 := by
        rcases hxc with ⟨_, rfl⟩ | ⟨_, hv⟩
        · rfl
        · rw [hv, ids_set_nonident _ _ _ hk]
      have hy2 : ids y.2 = ids y0.2 := by
        rcases hyc with ⟨_, rfl⟩ | ⟨_, hv⟩
        · rfl
        · rw [hv, ids_set_nonident _ _ _ hk]
      rw [hx2] at hix; rw [hy2] at hiy
      exact hd x0 hx0 y0 hy0 hne i hix hiy
  | save =>
    simp only [step]
    have hfile : (((dumpAll st.items).map loadEntry)).Pairwise Disj := by
      have := pairwise_of_disjoint st.items hw.1 hd
      simp only [dumpAll, List.map_map]
      rw [List.pairwise_map] at this ⊢
      refine this.imp ?_
      intro a b hab i hia hib
      simp only [Function.comp, loadEntry_dump, ids_restrict] at hia hib
      exact hab i hia hib
    cases st.kind with
    | memory => exact ⟨hw, hd, hf⟩
    | file =>
      simp only
      split
      · refine ⟨hw, hd, ?_⟩
        intro f hf'
        simp only [mark, Option.some.injEq] at hf'
        rw [← hf']; exact hfile
      · exact ⟨hw, hd, hf⟩
  | saveFail => exact ⟨hw, hd, hf⟩
  | loadFail => exact ⟨hw, hd, hf⟩
  | load =>
    simp only [step]
    split
    next f hk hfile =>
      refine ⟨⟨?_, ?_⟩, ?_, ?_⟩
      · exact number_nodup _ _
      · intro x hx
        have := (mem_number _ _ x hx).2.1
        simp only [mark, List.length_map] at this ⊢
        exact this
      · exact disjoint_number _ (hf f hfile) _
      · intro f' hf'
        simp only [mark] at hf'
        exact hf f' hf'
    next => exact ⟨hw, hd, hf⟩

/-- **C14, all histories.**  From a state satisfying the invariant (e.g. a new storage without
    file) every admissible history of any length ends in a state satisfying it. -/
theorem inv_history (ops : List Op) : ∀ (st : Store H), Inv st → AdmissibleRun hash st ops →
    Inv (runOps hash st ops) := by
  induction ops with
  | nil => intro st h _; exact h
  | cons op ops ih =>
    intro st h ha
    simp only [runOps, List.foldl_cons]
    exact ih _ (inv_step hash st op h ha.1) ha.2

omit [DecidableEq H] in
theorem inv_init (k : Kind) : Inv (Store.init hash k none) := by
  refine ⟨⟨by simp [Store.init], by simp [Store.init]⟩, ?_, ?_⟩
  · intro x hx; simp [Store.init] at hx
  · intro f hf; simp [Store.init] at hf

/-- **C14, same object over all histories.**  After any admissible history on a new storage,
    any two configurations made of identifiers of a stored device get that device's object. -/
theorem same_object_history (k : Kind) (ops : List Op)
    (ha : AdmissibleRun hash (Store.init hash k none) ops)
    (c₁ c₂ : Cfg) (e : Nat × Settings)
    (he : e ∈ (runOps hash (Store.init hash k none) ops).items)
    (h₁ : cfgIds c₁ ≠ []) (h₂ : cfgIds c₂ ≠ [])
    (s₁ : ∀ i ∈ cfgIds c₁, i ∈ ids e.2) (s₂ : ∀ i ∈ cfgIds c₂, i ∈ ids e.2) :
    getSettings (runOps hash (Store.init hash k none) ops) c₁ = some (runOps hash (Store.init hash k none) ops, e) ∧
    getSettings (runOps hash (Store.init hash k none) ops) c₂ = some (runOps hash (Store.init hash k none) ops, e) := by
  obtain ⟨hw, hd, _⟩ := inv_history hash ops _ (inv_init hash k) ha
  exact same_object_pair _ hw hd c₁ c₂ e he h₁ h₂ s₁ s₂

end Histories

/-! ## Save / load -/

/-- **C14, the dump determines the content** (so a content hash is a hash of the content). -/
theorem dump_injective (s t : Settings) (h : dump s = dump t) : s = t := by
  rw [← undump_dump s, ← undump_dump t, h]

theorem dumpAll_injective (a b : List (Nat × Settings)) (h : dumpAll a = dumpAll b) :
    a.map (·.2) = b.map (·.2) := by
  induction a generalizing b with
  | nil => cases b with
    | nil => rfl
    | cons y r => simp [dumpAll] at h
  | cons x r ih =>
    cases b with
    | nil => simp [dumpAll] at h
    | cons y r' =>
      simp only [dumpAll, List.map_cons, List.cons.injEq] at h ⊢
      exact ⟨dump_injective _ _ h.1, ih r' h.2⟩

section SaveLoad
variable {H : Type} [DecidableEq H] (hash : List Dump → H)

/-- **C14, round trip.**  When `save()` writes (content changed), a fresh FileStorage that
    `load()`s the file holds one device per stored device, in order, whose declared fields —
    arbitrary strings, empty, unicode, None — are identical (`restrict` only resets the
    undeclared extras). -/
theorem roundtrip (st : Store H) (hk : st.kind = .file) (hc : changed hash st = true) :
    (freshLoad hash (step hash st .save).1).items.map (·.2) = st.items.map (restrict ·.2) ∧
    ∀ s ∈ st.items.map (·.2), ∀ k, declared k = true → restrict s k = s k := by
  refine ⟨?_, fun s _ k hd => by simp [restrict, hd]⟩
  simp only [step, hk, hc, if_true, freshLoad, mark, Store.init, number_snd, dumpAll, List.map_map]
  apply List.map_congr_left
  intro x _
  simp [Function.comp, loadEntry_dump]

/-- the settings file is what the saved hash stands for -/
def FileSync (st : Store H) : Prop :=
  ∃ ds : List Dump, st.savedHash = hash ds ∧
    match st.file with
    | some f => f.map loadEntry = ds.map loadEntry
    | none => ds = []

theorem fileSync_step (st : Store H) (op : Op) (hk : st.kind = .file) (h : FileSync hash st) :
    FileSync hash (step hash st op).1 ∧ (step hash st op).1.kind = .file := by
  cases op with
  | get c =>
    simp only [step]
    cases hg : getSettings st c with
    | none => exact ⟨h, hk⟩
    | some r =>
      unfold getSettings at hg
      split at hg
      · cases hg
      · split at hg <;> (simp only [Option.some.injEq] at hg; subst hg; exact ⟨h, hk⟩)
  | update c =>
    simp only [step]
    cases hg : getSettings st c with
    | none => exact ⟨h, hk⟩
    | some r =>
      unfold getSettings at hg
      split at hg
      · cases hg
      · split at hg <;> (simp only [Option.some.injEq] at hg; subst hg; exact ⟨h, hk⟩)
  | remove s => simp only [step]; split <;> exact ⟨h, hk⟩
  | mutate hd k v => exact ⟨h, hk⟩
  | save =>
    simp only [step, hk]
    split
    · exact ⟨⟨dumpAll st.items, rfl, rfl⟩, rfl⟩
    · exact ⟨h, hk⟩
  | saveFail => exact ⟨h, hk⟩
  | loadFail => exact ⟨h, hk⟩
  | load =>
    simp only [step, hk]
    cases hf : st.file with
    | none => simp only; exact ⟨h, hk⟩
    | some f =>
      simp only
      refine ⟨⟨f.map (fun d => dump (loadEntry d)), ?_, ?_⟩, rfl⟩
      · show hash (dumpAll (number _ _)) = _
        rw [dumpAll_number, List.map_map]; rfl
      · simp only [mark, List.map_map]
        apply List.map_congr_left
        intro d _
        simp [Function.comp, loadEntry_dump_loadEntry]

theorem fileSync_history (ops : List Op) : ∀ st : Store H, st.kind = .file → FileSync hash st →
    FileSync hash (runOps hash st ops) ∧ (runOps hash st ops).kind = .file := by
  induction ops with
  | nil => intro st hk h; exact ⟨h, hk⟩
  | cons op ops ih =>
    intro st hk h
    simp only [runOps, List.foldl_cons]
    have := fileSync_step hash st op hk h
    exact ih _ this.2 this.1

/-- **C14, round trip over all histories.**  In every state reachable on a new FileStorage
    (any operations, any values), after `save()` a fresh storage that loads the file holds
    exactly the stored devices, in order, with every declared field identical — also when
    `save()` skips the write because `changed` is false. -/
theorem roundtrip_history (hinj : ∀ a b, hash a = hash b → a = b) (ops : List Op) :
    let st := runOps hash (Store.init hash .file none) ops
    (freshLoad hash (step hash st .save).1).items.map (·.2) = st.items.map (restrict ·.2) := by
  intro st
  have hs := fileSync_history hash ops (Store.init hash .file none) rfl ⟨[], rfl, rfl⟩
  have hk : st.kind = .file := hs.2
  by_cases hc : changed hash st = true
  · exact (roundtrip hash st hk hc).1
  · obtain ⟨ds, hds, hfile⟩ := hs.1
    have hsaved : st.savedHash = hash (dumpAll st.items) := by
      simpa [changed] using hc
    have hdd : ds = dumpAll st.items := hinj _ _ (hds.symm.trans hsaved)
    have hrl : (dumpAll st.items).map loadEntry = st.items.map (restrict ·.2) := by
      simp only [dumpAll, List.map_map]
      apply List.map_congr_left
      intro x _
      simp [Function.comp, loadEntry_dump]
    simp only [step, hk, hc, Bool.false_eq_true, if_false, freshLoad, Store.init]
    change (match st.file with | some f => _ | none => _) at hfile
    cases hf : st.file with
    | none =>
      rw [hf] at hfile
      have : dumpAll st.items = [] := by rw [← hdd]; exact hfile
      have : st.items = [] := by simpa [dumpAll] using this
      simp [this]
    | some f =>
      rw [hf] at hfile
      simp only [mark, number_snd]
      rw [hfile, hdd, hrl]

/-! ## Changed indicator -/

/-- the content "last saved or loaded" (ghost): set by every save() and by a load() that finds
    a file -/
def marks (st : Store H) : Op → Bool
  | .save => true
  | .load => st.kind == .file && st.file.isSome
  | _ => false

def gstep (sg : Store H × List Dump) (op : Op) : Store H × List Dump :=
  let st' := (step hash sg.1 op).1
  (st', if marks sg.1 op then dumpAll st'.items else sg.2)

def grun (sg : Store H × List Dump) (ops : List Op) : Store H × List Dump :=
  ops.foldl (gstep hash) sg

theorem grun_fst (ops : List Op) : ∀ sg : Store H × List Dump,
    (grun hash sg ops).1 = runOps hash sg.1 ops := by
  induction ops with
  | nil => intro sg; rfl
  | cons op ops ih => intro sg; simp only [grun, runOps, List.foldl_cons] at ih ⊢; rw [ih]; rfl

theorem saved_step (sg : Store H × List Dump) (op : Op) (h : sg.1.savedHash = hash sg.2) :
    (gstep hash sg op).1.savedHash = hash (gstep hash sg op).2 := by
  obtain ⟨st, g⟩ := sg
  simp only at h
  cases op with
  | get c =>
    simp only [gstep, marks, step, Bool.false_eq_true, if_false]
    cases hg : getSettings st c with
    | none => exact h
    | some r =>
      unfold getSettings at hg
      split at hg
      · cases hg
      · split at hg <;> (simp only [Option.some.injEq] at hg; subst hg; exact h)
  | update c =>
    simp only [gstep, marks, step, Bool.false_eq_true, if_false]
    cases hg : getSettings st c with
    | none => exact h
    | some r =>
      unfold getSettings at hg
      split at hg
      · cases hg
      · split at hg <;> (simp only [Option.some.injEq] at hg; subst hg; exact h)
  | remove s => simp only [gstep, marks, step, Bool.false_eq_true, if_false]; split <;> exact h
  | mutate hd k v => exact h
  | save =>
    simp only [gstep, marks, step, if_true]
    cases st.kind with
    | memory => rfl
    | file =>
      simp only
      by_cases hc : changed hash st = true
      · simp [hc, mark]
      · simp only [hc, Bool.false_eq_true, if_false]
        simpa [changed] using hc
  | saveFail => exact h
  | loadFail => exact h
  | load =>
    cases hk : st.kind with
    | memory => simpa [gstep, marks, step, hk] using h
    | file =>
      cases hf : st.file with
      | none => simpa [gstep, marks, step, hk, hf] using h
      | some f => simp [gstep, marks, step, hk, hf, mark]

/-- **C14, changed indicator, all histories.**  On a new storage (file or memory), after any
    history, `changed` is true exactly when the dumped content of the stored devices differs
    from the dumped content at the last save/load (initially: no device).  By `dump_injective`
    the dumped content differs iff the content differs. -/
theorem changed_iff (hinj : ∀ a b, hash a = hash b → a = b) (k : Kind) (ops : List Op) :
    let sg := grun hash (Store.init hash k none, []) ops
    changed hash sg.1 = true ↔ dumpAll sg.1.items ≠ sg.2 := by
  intro sg
  have hinvar : ∀ (ops : List Op) (s : Store H × List Dump), s.1.savedHash = hash s.2 →
      (grun hash s ops).1.savedHash = hash (grun hash s ops).2 := by
    intro ops
    induction ops with
    | nil => intro s h; exact h
    | cons op ops ih =>
      intro s h
      simp only [grun, List.foldl_cons]
      exact ih _ (saved_step hash s op h)
  have hs : sg.1.savedHash = hash sg.2 := hinvar ops _ rfl
  simp only [changed, hs, bne_iff_ne, ne_eq]
  constructor
  · intro h heq; exact h (by rw [heq])
  · intro h heq; exact h (hinj _ _ heq).symm

/-- a load that the storage rejects (file not JSON, not a storage model, unsupported version)
    leaves the stored objects, their identity, the saved mark and the file exactly as they were:
    every theorem above about `run`/`grun` histories therefore holds for histories containing
    rejected loads at any position (they are `Op`s of those histories). -/
theorem rejected_load_inert (st : Store H) : step hash st .loadFail = (st, .unit) := rfl

/-- … in particular `changed` and a later reload are the ones of the history without it. -/
theorem rejected_load_transparent (st : Store H) (ops : List Op) :
    (Op.loadFail :: ops).foldl (fun s o => (step hash s o).1) st = ops.foldl (fun s o => (step hash s o).1) st := by
  simp only [List.foldl_cons, rejected_load_inert]

end SaveLoad

/-! ## Tie A and non-vacuity -/

/-- the model's key table is exactly the leaf-field table of the real `Settings` class
    (paths and defaults regenerated from pyatv/settings.py on every run) -/
theorem keys_match_source :
    (allKeys.filter declared).map (fun k => (k.path, dflt k)) =
      Gen.C14.fields.map (fun f => (f.1, Val.ofGen f.2)) := by decide

/-- the only undeclared keys are the `password` extras of companion / dmap / mrp -/
theorem undeclared_keys :
    allKeys.filter (fun k => !declared k) = [.pw .companion, .pw .dmap, .pw .mrp] := by decide

def cfgA : Cfg := [(.mrp, ⟨some "a0", some "cred", none⟩), (.airplay, ⟨some "a1", none, some "pw"⟩)]
def cfgA' : Cfg := [(.companion, ⟨some "a1", none, none⟩)]
def cfgB : Cfg := [(.mrp, ⟨some "b0", some "🍏", none⟩)]
def cfgBridge : Cfg := [(.mrp, ⟨some "b0", none, none⟩), (.raop, ⟨some "a0", none, none⟩)]

def stAB : Store Nat :=
  { kind := .file, items := [(0, applyCfg cfgA dflt), (1, applyCfg cfgB dflt)], next := 2,
    savedHash := 0, file := none }

example : ids (applyCfg cfgA dflt) = ["a1", "a0"] := by decide
example : cfgIds cfgA' ≠ [] ∧ ∀ i ∈ cfgIds cfgA', i ∈ ids (applyCfg cfgA dflt) := by decide

/-- hypotheses of `lookup_complete` / `same_object` are met by a different-protocol
    configuration of the first device … -/
example : ∃ x ∈ stAB.items, Shares x.2 (cfgIds cfgA') :=
  ⟨_, List.mem_cons_self, "a1", by decide, by decide⟩

/-- … and `same_object_of_disjoint` applies to the two-device store -/
example : Wf stAB ∧ DisjointIds stAB.items := by
  refine ⟨⟨by decide, by decide⟩, ?_⟩
  intro x hx y hy hxy i hix hiy
  simp only [stAB, List.mem_cons, List.not_mem_nil, or_false] at hx hy
  have e0 : ids (applyCfg cfgA dflt) = ["a1", "a0"] := by decide
  have e1 : ids (applyCfg cfgB dflt) = ["b0"] := by decide
  rcases hx with rfl | rfl <;> rcases hy with rfl | rfl
  · exact hxy rfl
  · simp only [e0, e1] at hix hiy; revert hix hiy; simp; intro h; rcases h with rfl | rfl <;> decide
  · simp only [e0, e1] at hix hiy; revert hix hiy; simp; intro h; subst h; decide
  · exact hxy rfl

/-- hypothesis of `lookup_sound` / `never_disjoint`: such a lookup has an answer -/
example : ∃ e, getSettings stAB cfgA' = some (stAB, e) := by
  obtain ⟨_, e, _, _, _, _, h⟩ := lookup_complete stAB cfgA' ⟨_, List.mem_cons_self, "a1", by decide, by decide⟩
  exact ⟨e, h⟩

/-- hypotheses of `roundtrip`: a FileStorage whose content changed; of `changed_iff` /
    `roundtrip_history`: an injective hash exists (the driver's identity) -/
example : changed (fun d => d)
    ({ kind := .file, items := [(0, applyCfg cfgB dflt)], next := 1, savedHash := [], file := none } :
      Store (List Dump)) = true := by decide

example : ∀ a b : List Dump, (fun d => d) a = (fun d => d) b → a = b := fun _ _ h => h

/-- hypothesis of `applied_credentials_sound`: a look-up-then-apply that has an answer and
    really applies a stored credential -/
example : ∃ st' c', lookupApply stAB cfgA' = some (st', c') := by
  obtain ⟨_, e, _, _, _, _, h⟩ := lookup_complete stAB cfgA' ⟨_, List.mem_cons_self, "a1", by decide, by decide⟩
  exact ⟨stAB, applyTo e.2 cfgA', by simp [lookupApply, h]⟩

example : applyTo (applyCfg cfgA dflt) [(.mrp, ⟨some "a0", none, none⟩), (.airplay, ⟨some "zz", some "own", none⟩)]
    = [(.mrp, ⟨some "a0", some "cred", none⟩), (.airplay, ⟨some "zz", some "own", some "pw"⟩)] := by decide

/-- a bridging configuration shares identifiers with both devices: only
    `lookup_sound` / `lookup_complete` speak about it -/
example : Shares (applyCfg cfgA dflt) (cfgIds cfgBridge) ∧ Shares (applyCfg cfgB dflt) (cfgIds cfgBridge) :=
  ⟨⟨"a0", by decide, by decide⟩, ⟨"b0", by decide, by decide⟩⟩

/-- an admissible history exists (get, non-bridging update, mutation, save, load) -/
example : AdmissibleRun (fun d => d) (Store.init (fun d => d) .file none)
    [.get cfgA, .mutate 0 (.info .name) (.str ""), .save, .load, .get cfgA'] := by
  simp [AdmissibleRun, Admissible]

/-- dump omits defaults and keeps empty / unicode strings; loading resets undeclared extras -/
example : dump (applyCfg [(.companion, ⟨some "", some "🍏é", some "pw"⟩)] dflt)
    = [(.ident .companion, .str ""), (.cred .companion, .str "🍏é"), (.pw .companion, .str "pw")] := by
  decide

example : dump (loadEntry (dump (applyCfg [(.companion, ⟨some "", some "🍏é", some "pw"⟩)] dflt)))
    = [(.ident .companion, .str ""), (.cred .companion, .str "🍏é")] := by
  decide

end PyatvModel.Props.C14
