import PyatvModel.C12.Model
namespace PyatvModel.Props.C12
open PyatvModel.C12 PyatvModel.Agg

/-- a device without any (truthy) identifier is not returned -/
theorem no_id_not_returned (e : Env) (hs : List Hd) : ∀ c ∈ scanResult e hs, ready c = true := by
  intro c hc
  exact (List.mem_filter.mp hc).2

end PyatvModel.Props.C12
