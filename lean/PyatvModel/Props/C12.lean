import PyatvModel.C12.Lemmas
/-
C12 — discovery result does not depend on packet order or duplication.

Property theorems only (helper lemmas: `PyatvModel/C12/Lemmas.lean`, generic fold theory:
`PyatvModel/Base/Agg.lean`).  All statements are about `scanM` / `scanU` of
`PyatvModel/C12/Model.lean` (the two scanners up to the list returned by `pyatv.scan`), for
every parameter `e : Env` and ALL datagram lists.

Multicast scanner
* `set_invariant`          self-consistent devices: the snapshot depends only on the *set* of
                           datagrams received — this is order- and duplication-independence at once;
* `perm_invariant`         … every arrival order gives the same snapshot;
* `dup_invariant`          … delivering a datagram again, anywhere, changes nothing;
* `unrequested_ignored`    a datagram carrying a service of an unrequested type leaves no trace in
                           any per-source response (no hypothesis);
  `unrequested_ignored_snapshot`  and does not change the snapshot.
Unicast scanner (repaired: byte-identical repeats are not counted)
* `unicast_set_invariant_partial` / `unicast_perm_invariant_partial` / `unicast_dup_invariant`
                           the same, for hosts that send at most one distinct datagram per query.
  FULL STATEMENT (false, see `unicast_excess_counterexample`): the same without `OnePerQuery`.
  What is missing: the protocol object stops after `len(queries)` distinct datagrams, so a host
  sending more is reported order-dependently (known finding C12-unicast-excess-responses).
* `unicast_dup_legacy_counterexample`  the pinned code (every datagram counted) loses a later
                           response when an earlier one is duplicated (repaired by the `fix:` commit).
Both scanners
* `one_config_per_address`, `only_registered_handled`, `no_id_not_returned`.
-/
namespace PyatvModel.Props.C12
open PyatvModel.C12 PyatvModel.Agg


/-! ### concrete instances (non-vacuity, counterexample witnesses) -/

/-- types: 0 `_device-info`, 1 `_sleep-proxy`, 2 and 3 two service types of protocol 7 (they are
    merged into one service), 4 a type of protocol 8, 5 not requested -/
def demoEnv : Env where
  req := [0, 1, 2, 3, 4]
  devInfoT := 0
  sleepT := 1
  handler := fun t i _ => if t = 2 ∨ t = 3 then .res ⟨7, some 5, i⟩ else if t = 4 then .res ⟨8, some 8, 10 + i⟩ else .nores
  props := fun x => if x = 1 then [(1, 1), (3, 3)] else if x = 2 then [(2, 2), (3, 3)] else []
  devModel := fun t _ => if t = 4 then some 4 else none
  infoModel := fun x => if x = 9 then some 6 else none

/-- a complete answer for service instance `i` of type `t` of the device at address `a` -/
def demoDgram (a tag i t port txt : Nat) : Dgram :=
  ⟨a, tag, [⟨.typ t, 120, .ptr (.svc i t)⟩, ⟨.svc i t, 120, .srv port (.host a)⟩, ⟨.host a, 120, .addr 99 true⟩,
    ⟨.host a, 120, .addr a false⟩, ⟨.svc i t, 120, .txt txt⟩, ⟨.svc 1 0, 4500, .txt 9⟩]⟩

/-- two devices; the first answers with three datagrams (two of them for the same protocol) -/
def demoScan : List Dgram :=
  [demoDgram 1 0 1 2 7000 1, demoDgram 2 1 1 4 7100 0, demoDgram 1 2 2 3 7000 2, demoDgram 1 3 1 4 7001 0]

/-! ### multicast -/

/-- For self-consistent devices the normalised scan result depends only on the set of response
    datagrams: not on their order, not on how often each was delivered. -/
theorem set_invariant (e : Env) {l₁ l₂ : List Dgram} (hc : SelfConsistentM e l₁) (h : SameSet l₁ l₂) :
    snapshot (scanM e l₁) = snapshot (scanM e l₂) :=
  snapshot_eq_of_perm e (mH_perm e hc (h.filter _)) hc.2.2

/-- non-vacuity: a two-device, four-datagram scan meets the hypothesis and returns both devices,
    the first with two merged service types; the services of the first device yield three different
    device names (1, 2 and 11: renamed instances) - names are not part of the hypothesis -/
example : SelfConsistentM demoEnv demoScan ∧ (scanM demoEnv demoScan).map (fun c => (c.addr, c.svcs.length)) = [(1, 2), (2, 1)] := by
  decide +kernel

theorem perm_invariant (e : Env) {l₁ l₂ : List Dgram} (hc : SelfConsistentM e l₁) (h : l₁.Perm l₂) :
    snapshot (scanM e l₁) = snapshot (scanM e l₂) :=
  set_invariant e hc (SameSet.of_perm h)

/-- a datagram that was already delivered (somewhere) is delivered again at any position -/
theorem dup_invariant (e : Env) (l₁ l₂ : List Dgram) (x : Dgram) (hx : x ∈ l₁ ++ l₂)
    (hc : SelfConsistentM e (l₁ ++ l₂)) :
    snapshot (scanM e (l₁ ++ x :: l₂)) = snapshot (scanM e (l₁ ++ l₂)) := by
  symm
  apply set_invariant e hc
  intro a
  simp only [List.mem_append, List.mem_cons]
  constructor
  · rintro (h | h); exact Or.inl h; exact Or.inr (Or.inr h)
  · rintro (h | rfl | h)
    · exact Or.inl h
    · exact List.mem_append.mp hx
    · exact Or.inr h

example : demoDgram 1 0 1 2 7000 1 ∈ demoScan.take 2 ++ demoScan.drop 2 ∧ SelfConsistentM demoEnv (demoScan.take 2 ++ demoScan.drop 2) := by
  decide +kernel

/-- the textbook form: an adjacent repeat -/
theorem dup_invariant_adjacent (e : Env) (x : Dgram) (l : List Dgram) (hc : SelfConsistentM e (x :: l)) :
    snapshot (scanM e (x :: x :: l)) = snapshot (scanM e (x :: l)) :=
  (set_invariant e hc (SameSet.dup x l).symm).symm

/-- A datagram with a service of a type that was not requested is ignored as a whole: every
    per-source response is what it would be had the datagram never arrived. -/
theorem unrequested_ignored (e : Env) (l₁ l₂ : List Dgram) (d : Dgram)
    (hd : ∃ s ∈ parse d.recs, e.requested s.type = false) (s : Nat) :
    mcastResp e (l₁ ++ d :: l₂) s = mcastResp e (l₁ ++ l₂) s := by
  have hacc : accepted e d = false := by
    obtain ⟨x, hx, hr⟩ := hd
    unfold accepted
    rw [Bool.and_eq_false_iff]
    right
    rw [Bool.eq_false_iff]
    intro hall
    rw [List.all_eq_true] at hall
    rw [hall x hx] at hr
    exact absurd hr (by simp)
  unfold mcastResp
  simp [List.filter_append, hacc]

/-- non-vacuity: a datagram that also announces type 5 (not requested) is such a datagram -/
example : ∃ s ∈ parse (demoDgram 1 9 1 5 8009 0).recs, demoEnv.requested s.type = false := by
  decide +kernel

theorem unrequested_ignored_snapshot (e : Env) (l₁ l₂ : List Dgram) (d : Dgram)
    (hd : ∃ s ∈ parse d.recs, e.requested s.type = false) (hc : SelfConsistentM e (l₁ ++ d :: l₂)) :
    snapshot (scanM e (l₁ ++ d :: l₂)) = snapshot (scanM e (l₁ ++ l₂)) := by
  have hacc : accepted e d = false := by
    obtain ⟨x, hx, hr⟩ := hd
    unfold accepted
    rw [Bool.and_eq_false_iff]
    right
    rw [Bool.eq_false_iff]
    intro hall
    rw [List.all_eq_true] at hall
    rw [hall x hx] at hr
    exact absurd hr (by simp)
  apply snapshot_eq_of_perm e (mH_perm e hc _) hc.2.2
  have : acc e (l₁ ++ d :: l₂) = acc e (l₁ ++ l₂) := by
    simp [acc, List.filter_append, hacc]
  rw [this]
  exact SameSet.refl _

example : SelfConsistentM demoEnv (demoScan.take 1 ++ demoDgram 1 9 1 5 8009 0 :: demoScan.drop 1) := by
  decide +kernel

/-! ### unicast -/

/-- FULL STATEMENT (false): `SelfConsistentU e nq hosts l₁ → SameSet l₁ l₂ → snapshot … = snapshot …`.
    Proved for hosts that send at most one distinct datagram per query. -/
theorem unicast_set_invariant_partial (e : Env) (nq : Nat) (hosts : List Nat) {l₁ l₂ : List Dgram}
    (hc : SelfConsistentU e nq hosts l₁) (ho : OnePerQuery nq hosts l₁) (h : SameSet l₁ l₂) :
    snapshot (scanU e nq hosts l₁) = snapshot (scanU e nq hosts l₂) :=
  snapshot_eq_of_perm e (uH_perm e nq hosts hc ho h) hc.2.2

/-- non-vacuity: host 1 answers 3 queries with 3 distinct datagrams, host 2 answers only one
    (and is therefore not reported), host 3 never answers -/
example : SelfConsistentU demoEnv 3 [1, 2, 3] demoScan ∧ OnePerQuery 3 [1, 2, 3] demoScan ∧
    (scanU demoEnv 3 [1, 2, 3] demoScan).map (·.addr) = [1] := by
  decide +kernel

theorem unicast_perm_invariant_partial (e : Env) (nq : Nat) (hosts : List Nat) {l₁ l₂ : List Dgram}
    (hc : SelfConsistentU e nq hosts l₁) (ho : OnePerQuery nq hosts l₁) (h : l₁.Perm l₂) :
    snapshot (scanU e nq hosts l₁) = snapshot (scanU e nq hosts l₂) :=
  unicast_set_invariant_partial e nq hosts hc ho (SameSet.of_perm h)

/-- repaired code: a repeated datagram, delivered anywhere, changes nothing -/
theorem unicast_dup_invariant (e : Env) (nq : Nat) (hosts : List Nat) (l₁ l₂ : List Dgram) (x : Dgram)
    (hx : x ∈ l₁ ++ l₂) (hc : SelfConsistentU e nq hosts (l₁ ++ l₂)) (ho : OnePerQuery nq hosts (l₁ ++ l₂)) :
    snapshot (scanU e nq hosts (l₁ ++ x :: l₂)) = snapshot (scanU e nq hosts (l₁ ++ l₂)) := by
  symm
  apply unicast_set_invariant_partial e nq hosts hc ho
  intro a
  simp only [List.mem_append, List.mem_cons]
  constructor
  · rintro (h | h); exact Or.inl h; exact Or.inr (Or.inr h)
  · rintro (h | rfl | h)
    · exact Or.inl h
    · exact List.mem_append.mp hx
    · exact Or.inr h

/-- The hypothesis `OnePerQuery` cannot be dropped: one query, two distinct datagrams (an empty
    answer and a complete one).  Whichever arrives first is the only one processed. -/
theorem unicast_excess_counterexample :
    ¬ (∀ (e : Env) (nq : Nat) (hosts : List Nat) (l₁ l₂ : List Dgram), SelfConsistentU e nq hosts l₁ → l₁.Perm l₂ →
        snapshot (scanU e nq hosts l₁) = snapshot (scanU e nq hosts l₂)) := by
  intro h
  have hc : SelfConsistentU demoEnv 1 [1] [⟨1, 0, []⟩, demoDgram 1 1 1 2 7000 1] := by decide +kernel
  have := congrArg List.length
    (h demoEnv 1 [1] [⟨1, 0, []⟩, demoDgram 1 1 1 2 7000 1] [demoDgram 1 1 1 2 7000 1, ⟨1, 0, []⟩] hc (List.Perm.swap _ _ _))
  simp only [snapshot, sortOn, List.length_mergeSort, List.length_map] at this
  revert this
  decide +kernel

/-- The pinned code (every datagram counts towards `len(queries)`): with two queries, a repeated
    first answer ends the scan before the second answer is processed. -/
theorem unicast_dup_legacy_counterexample :
    ¬ (∀ (e : Env) (nq : Nat) (hosts : List Nat) (x : Dgram) (l : List Dgram), SelfConsistentU e nq hosts (x :: l) →
        OnePerQuery nq hosts (x :: l) →
        snapshot (scanULegacy e nq hosts (x :: x :: l)) = snapshot (scanULegacy e nq hosts (x :: l))) := by
  intro h
  have hc : SelfConsistentU demoEnv 2 [1] [⟨1, 0, []⟩, demoDgram 1 1 1 2 7000 1] := by decide +kernel
  have ho : OnePerQuery 2 [1] [⟨1, 0, []⟩, demoDgram 1 1 1 2 7000 1] := by decide +kernel
  have := congrArg List.length (h demoEnv 2 [1] ⟨1, 0, []⟩ [demoDgram 1 1 1 2 7000 1] hc ho)
  simp only [snapshot, sortOn, List.length_mergeSort, List.length_map] at this
  revert this
  decide +kernel

/-! ### both scanners -/

/-- each address yields at most one configuration -/
theorem one_config_per_address (e : Env) (hs : List Hd) : ((scanResult e hs).map (·.addr)).Nodup := by
  have haddr : ∀ a c, rawCfg e hs a = some c → c.addr = a := by
    intro a c hc
    unfold rawCfg at hc
    obtain ⟨f, _, rfl⟩ := Option.map_eq_some_iff.mp hc
    rfl
  have hsub : ((scanResult e hs).map (·.addr)).Sublist (foundAddrs e hs) := by
    unfold scanResult discover
    refine ((List.filter_sublist (l := (foundAddrs e hs).filterMap (rawCfg e hs))).map _).trans ?_
    generalize foundAddrs e hs = as
    induction as with
    | nil => exact List.Sublist.refl _
    | cons a as ih =>
      cases hr : rawCfg e hs a with
      | none => simpa [List.filterMap_cons, hr] using ih.cons a
      | some c =>
        simp only [List.filterMap_cons, hr, List.map_cons, haddr a c hr]
        exact ih.cons_cons a
  exact hsub.nodup (nodup_firsts _)

/-- services of types that are not registered never reach `_service_discovered` -/
theorem only_registered_handled (e : Env) (rs : List Resp) : ∀ h ∈ handled e rs, e.registered h.type = true := by
  intro h hh
  unfold handled at hh
  obtain ⟨r, _, hr⟩ := List.mem_flatMap.mp hh
  unfold hdOf at hr
  obtain ⟨s, _, hs⟩ := List.mem_filterMap.mp hr
  unfold hdOfSvc at hs
  split at hs
  · rename_i hreg
    split at hs
    · split at hs
      · exact absurd hs (by simp)
      · simp only [Option.some.injEq] at hs; rw [← hs]; exact hreg
    · exact absurd hs (by simp)
  · exact absurd hs (by simp)

/-- a device without any (truthy) identifier is not returned -/
theorem no_id_not_returned (e : Env) (hs : List Hd) : ∀ c ∈ scanResult e hs, ready c = true := by
  intro c hc
  exact (List.mem_filter.mp hc).2

end PyatvModel.Props.C12
