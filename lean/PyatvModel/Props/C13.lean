import PyatvModel.C13.Model
import PyatvModel.C01.TableLemmas
/-
C13 — a feature reported as supported is backed by an implementation.

* `reported_is_backed`  for every non-empty set of connected protocols, EVERY dynamic state
                        `env` of the five Features instances and every feature name: if
                        FacadeFeatures.get_feature answers anything but Unsupported, some member
                        the feature stands for is routed to an implementing protocol
                        (never NotSupportedError) — whoever holds a takeover;
* `all_features_reported_is_backed`, `all_features_entries`, `in_state_reported_is_backed`
                        the same for the other public ways of reading the features interface
                        (Features.all_features with / without include_unsupported, Features.in_state);
* `fresh_reported_is_backed`  the same in the freshly set-up state (the state the tables
                        were extracted in), either AirPlay video flag;
* `table`               the 31 × 66 rows, `decide +kernel` on the regenerated tables;
* `claims_sound`, `mayReport_sound`  the lift from "some state" to the finite table:
                        whether a protocol can answer non-Unsupported for a feature is decided
                        by two Boolean conditions at most;
* `setup_paths_agree`   the per-protocol tables do not depend on the set-up path (tunnel, unified
                        RAOP, Companion service present but not set up, …);
* `protoFeature_fresh`  the hand-modelled shape of the five get_feature implementations
                        reproduces the regenerated fresh-state answers of the real objects.
-/
namespace PyatvModel.Props.C13
open PyatvModel.C01 PyatvModel.C13 PyatvModel.Gen.C01 PyatvModel.Gen.C13

theorem protoFeature_fresh_table :
    (Proto.all.all fun p => Feature.all.all fun f =>
      protoFeature p (freshEnv true false p f).1 (freshEnv true false p f).2 f == state0 p f) = true := by
  decide +kernel

/-- the modelled get_feature of every protocol answers, in the fresh state, what the real
    object answered when the tables were regenerated -/
theorem protoFeature_fresh (p : Proto) (f : Feature) :
    protoFeature p (freshEnv true false p f).1 (freshEnv true false p f).2 f = state0 p f := by
  have := protoFeature_fresh_table
  rw [List.all_eq_true] at this
  have := this p (Proto.mem_all p)
  rw [List.all_eq_true] at this
  simpa using this f (Feature.mem_all f)

theorem claims_sound (p : Proto) (c0 c1 : Bool) (f : Feature)
    (h : protoFeature p c0 c1 f ≠ .unsupported) : claims p f = true := by
  unfold claims bools
  cases c0 <;> cases c1 <;> simp [h]

theorem mayReport_sound (S : PSet) (env : Env) (f : Feature)
    (h : facadeFeature S env f ≠ .unsupported) : mayReport S f = true := by
  unfold facadeFeature at h
  unfold mayReport
  split at h
  · rename_i hc
    simp only [hc, Bool.true_or]
  · cases hm : featureMap S f with
    | none => rw [hm] at h; exact absurd rfl h
    | some p =>
      rw [hm] at h
      simp only [claims_sound p _ _ f h, Bool.or_true]

theorem table :
    (PSet.all.all fun S => !S.nonempty || Feature.all.all fun f => rowOk S f) = true := by
  decide +kernel

/-- every extracted set-up path (MRP over the AirPlay tunnel with/without a Companion service,
    RAOP set up by AirPlay, single-service configurations) hands the facade, for its protocol,
    the same interfaces, overridden members and feature set as the protocol's native `setup()`:
    `table` and `reported_is_backed` speak about every such path -/
theorem setup_paths_agree :
    (setupPaths.all fun e =>
      e.provides == provides e.proto && e.implements == Member.all.filter (fun m => impl e.proto m)
        && e.features == featureSet e.proto) = true := by
  decide +kernel

theorem backed_any_takeover (S : PSet) (f : Feature) (t : Iface → List Proto)
    (h : backed S (fun _ => []) f = true) : backed S t f = true := by
  unfold backed at h ⊢
  rw [List.any_eq_true] at h ⊢
  obtain ⟨m, hm, hr⟩ := h
  refine ⟨m, hm, ?_⟩
  cases h0 : route S [] m with
  | error e => rw [h0] at hr; cases hr
  | ok p =>
    unfold route routeIn Relayer.relay at h0 ⊢
    simp only [mkRelayer, List.nil_append] at h0 ⊢
    obtain ⟨q, hq⟩ := findInstance_ok_of_suffix _ _ (t m.iface) _ p h0
    rw [hq]

/-- **C13.**  For every combination of connected protocols, every state and every feature
    name: reported in any state other than Unsupported ⇒ some member the feature stands for is
    implemented by a connected protocol and the call is routed to it. -/
theorem reported_is_backed (S : PSet) (hS : S.nonempty = true) (env : Env) (t : Iface → List Proto)
    (f : Feature) (h : facadeFeature S env f ≠ .unsupported) :
    ∃ m ∈ featureMembers f, ∃ p, route S (t m.iface) m = .ok p ∧ S.mem p = true ∧ impl p m = true := by
  have hrow : rowOk S f = true := by
    have := table
    rw [List.all_eq_true] at this
    have := this S (PSet.mem_all S)
    simp only [hS, Bool.not_true, Bool.false_or, List.all_eq_true] at this
    exact this f (Feature.mem_all f)
  unfold rowOk at hrow
  rw [mayReport_sound S env f h] at hrow
  simp only [Bool.not_true, Bool.false_or] at hrow
  have hb := backed_any_takeover S f t hrow
  unfold backed at hb
  rw [List.any_eq_true] at hb
  obtain ⟨m, hm, hr⟩ := hb
  refine ⟨m, hm, ?_⟩
  cases h0 : route S (t m.iface) m with
  | error e => rw [h0] at hr; cases hr
  | ok p =>
    refine ⟨p, rfl, ?_⟩
    unfold route routeIn Relayer.relay at h0
    obtain ⟨_, _, _, _, hp⟩ := (findInstance_ok_iff _ _ _ _).mp h0
    simp only [mkRelayer, Bool.and_eq_true] at hp
    exact ⟨hp.1.1, hp.2⟩

/-- **C13 for `all_features()`**: whatever `FacadeFeatures.all_features` lists in a state other
    than Unsupported (with or without `include_unsupported`) is backed -/
theorem all_features_reported_is_backed (S : PSet) (hS : S.nonempty = true) (env : Env)
    (t : Iface → List Proto) (includeUnsupported : Bool) (f : Feature) (st : FState)
    (hmem : (f, st) ∈ allFeatures S env includeUnsupported) (hst : st ≠ .unsupported) :
    ∃ m ∈ featureMembers f, ∃ p, route S (t m.iface) m = .ok p ∧ S.mem p = true ∧ impl p m = true := by
  unfold allFeatures at hmem
  obtain ⟨hm, _⟩ := List.mem_filter.mp hmem
  obtain ⟨g, _, hg⟩ := List.mem_map.mp hm
  cases hg
  exact reported_is_backed S hS env t f hst

/-- `all_features(include_unsupported=True)` has exactly one entry per feature name, and the
    default call exactly the ones get_feature reports in another state than Unsupported -/
theorem all_features_entries (S : PSet) (env : Env) (b : Bool) (f : Feature) (st : FState) :
    (f, st) ∈ allFeatures S env b ↔ st = facadeFeature S env f ∧ (st ≠ .unsupported ∨ b = true) := by
  unfold allFeatures
  simp only [List.mem_filter, List.mem_map, Prod.mk.injEq, Bool.or_eq_true, bne_iff_ne, ne_eq]
  constructor
  · rintro ⟨⟨g, _, rfl, rfl⟩, h⟩
    exact ⟨rfl, h⟩
  · rintro ⟨rfl, h⟩
    exact ⟨⟨f, Feature.mem_all f, rfl, rfl⟩, h⟩

/-- **C13 for `in_state`**: when `in_state(states, names…)` answers True for states that do not
    include Unsupported, every one of the named features is backed -/
theorem in_state_reported_is_backed (S : PSet) (hS : S.nonempty = true) (env : Env)
    (t : Iface → List Proto) (states : List FState) (names : List Feature)
    (h : inState S env states names = true) (hu : FState.unsupported ∉ states) (f : Feature) (hf : f ∈ names) :
    ∃ m ∈ featureMembers f, ∃ p, route S (t m.iface) m = .ok p ∧ S.mem p = true ∧ impl p m = true := by
  unfold inState at h
  rw [List.all_eq_true] at h
  have hc := h f hf
  have hmem : facadeFeature S env f ∈ states := by simpa using hc
  refine reported_is_backed S hS env t f ?_
  intro he
  exact hu (he ▸ hmem)

theorem fresh_reported_is_backed (S : PSet) (hS : S.nonempty = true) (video : Bool) (f : Feature)
    (h : facadeFeature S (freshEnv video) f ≠ .unsupported) :
    ∃ m ∈ featureMembers f, ∃ p, route S [] m = .ok p ∧ S.mem p = true ∧ impl p m = true :=
  reported_is_backed S hS (freshEnv video) (fun _ => []) f h

/-! ### Non-vacuity -/

/-- the hypothesis is met: Companion alone reports PowerState once its power state is known … -/
example : facadeFeature ⟨false, false, true, false, false⟩ (fun _ _ => (true, false)) .f_PowerState = .available := by
  decide
/-- … and not before -/
example : facadeFeature ⟨false, false, true, false, false⟩ (freshEnv true) .f_PowerState = .unsupported := by
  decide
/-- answering and serving protocol differ: MRP answers for PowerState, Companion serves it -/
example : featureMap ⟨true, false, true, false, false⟩ .f_PowerState = some .mrp ∧
    route ⟨true, false, true, false, false⟩ [] .power_power_state = .ok .companion := by decide
/-- a row that is reported and backed by a protocol other than the answering one's interface:
    RAOP lists PushUpdates; the push updater is what backs it -/
example : facadeFeature ⟨false, false, false, false, true⟩ (freshEnv true) .f_PushUpdates = .available ∧
    backed ⟨false, false, false, false, true⟩ (fun _ => []) .f_PushUpdates = true := by decide
/-- not everything is reported: AirPlay alone does not report Volume -/
example : facadeFeature ⟨false, false, false, true, false⟩ (freshEnv true) .f_Volume = .unsupported := by decide
example : (.f_Volume, .unsupported) ∉ allFeatures ⟨false, false, false, true, false⟩ (freshEnv true) false ∧
    (.f_Volume, .unsupported) ∈ allFeatures ⟨false, false, false, true, false⟩ (freshEnv true) true ∧
    (.f_Stop, .available) ∈ allFeatures ⟨false, false, false, true, false⟩ (freshEnv true) false := by decide +kernel
example : inState ⟨false, false, false, true, false⟩ (freshEnv true) [.available] [.f_PlayUrl, .f_Stop] = true ∧
    inState ⟨false, false, false, true, false⟩ (freshEnv true) [.available, .unavailable, .unknown] [.f_Volume] = false := by
  decide +kernel
example : failingRows = [] := by decide +kernel

end PyatvModel.Props.C13
