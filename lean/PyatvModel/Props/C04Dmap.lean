import PyatvModel.C04.Dmap.Lemmas
/-
C04 / DMAP tags (pyatv/protocols/dmap/parser.py `parse`, tags.py writers).  Property
theorems only.  The tag lookup `lk` and UTF-8 validity `utf8` are parameters.

* `parse_enc`        for every typed tree in the domain `Tree.ok` (uint 1/2/4/8 in range, bool,
                     string = valid UTF-8 bytes, raw, containers nested to any depth; 4-byte
                     names the lookup maps to the node's kind) and any sufficient recursion
                     budget, `parse(enc t) = t` (repaired `string_tag`: D6 fixed);
* `enc_layout`       each tag is key (4 bytes) ++ 4-byte big-endian length OF THE PAYLOAD BYTES ++
                     payload — the layout docs/documentation/protocols.md describes; a container's
                     payload is the concatenation of its children;
* `doc_example`      the worked decoding example of protocols.md;
* `pinned_string_counterexample`  D6: with the length counted in code points, "é" does not
                     round-trip (UnicodeDecodeError).
-/
namespace PyatvModel.Props.C04Dmap
open PyatvModel PyatvModel.C04.Dmap
open PyatvModel.C04.Headers (beEnc)

/-- **C04 DMAP round trip** (repaired `string_tag`), all trees of the domain, any nesting. -/
theorem parse_enc (lk : Bytes → Kind) (utf8 : Bytes → Bool) (t : Tree) (fuel : Nat)
    (hok : t.ok lk utf8 = true) (hf : t.size ≤ fuel) :
    parseTop lk utf8 fuel (enc t) = .ok t.view := by
  have := parse_enc_gen lk utf8 t [] fuel hok hf
  rw [List.append_nil] at this
  exact this

/-- names used by the examples: "cmst" container, "mstt"/"cmsr" uint, "cann" string,
    "canp" raw, "cavc" bool, anything else ignored -/
def exLookup (n : Bytes) : Kind :=
  if n = [0x63, 0x6d, 0x73, 0x74] then .container
  else if n = [0x6d, 0x73, 0x74, 0x74] ∨ n = [0x63, 0x6d, 0x73, 0x72] then .uint
  else if n = [0x63, 0x61, 0x6e, 0x6e] then .str
  else if n = [0x63, 0x61, 0x6e, 0x70] then .raw
  else if n = [0x63, 0x61, 0x76, 0x63] then .bool
  else .ignore

/-- non-vacuity: a nested tree with every kind, a non-ASCII string ("é" = C3 A9), an empty
    string, an empty container and boundary integers is in the domain -/
example : (Tree.cont [0x63, 0x6d, 0x73, 0x74]
      (.leaf [0x6d, 0x73, 0x74, 0x74] (.uint 4 200)
        (.leaf [0x63, 0x61, 0x6e, 0x6e] (.str [0xC3, 0xA9])
          (.cont [0x63, 0x6d, 0x73, 0x74] .nil
            (.leaf [0x63, 0x61, 0x76, 0x63] (.bool true) .nil))))
      (.leaf [0x63, 0x61, 0x6e, 0x70] (.raw [0, 1, 2])
        (.leaf [0x63, 0x6d, 0x73, 0x72] (.uint 8 (2 ^ 64 - 1))
          (.leaf [0x63, 0x61, 0x6e, 0x6e] (.str []) .nil)))).ok exLookup utf8Valid = true := by
  decide

example : (Tree.leaf [0x6d, 0x73, 0x74, 0x74] (.uint 1 256) .nil).ok exLookup utf8Valid = false := by decide

theorem enc_layout (name : Bytes) (v : Leaf) (ch rest : Tree) :
    enc (.leaf name v rest) = name ++ beEnc 4 v.payload.length ++ v.payload ++ enc rest
    ∧ enc (.cont name ch rest) = name ++ beEnc 4 (enc ch).length ++ enc ch ++ enc rest := by
  simp [enc, tag]

/-- the length field of a string tag counts UTF-8 bytes -/
example : enc (.leaf [0x63, 0x61, 0x6e, 0x6e] (.str [0xC3, 0xA9]) .nil)
    = [0x63, 0x61, 0x6e, 0x6e, 0, 0, 0, 2, 0xC3, 0xA9] := by decide

/-- protocols.md, "Decoding Example":
    636d7374 00000018 6d737474 00000004 000000c8 636d7372 00000004 00000019
    = cmst: [mstt: 200, cmsr: 25] -/
theorem doc_example :
    parseTop exLookup utf8Valid 8
      [0x63, 0x6d, 0x73, 0x74, 0x00, 0x00, 0x00, 0x18, 0x6d, 0x73, 0x74, 0x74, 0x00, 0x00, 0x00, 0x04,
       0x00, 0x00, 0x00, 0xc8, 0x63, 0x6d, 0x73, 0x72, 0x00, 0x00, 0x00, 0x04, 0x00, 0x00, 0x00, 0x19]
    = .ok (.cont [0x63, 0x6d, 0x73, 0x74]
        (.leaf [0x6d, 0x73, 0x74, 0x74] (.uint 200) (.leaf [0x63, 0x6d, 0x73, 0x72] (.uint 25) .nil)) .nil)
    ∧ enc (.cont [0x63, 0x6d, 0x73, 0x74]
        (.leaf [0x6d, 0x73, 0x74, 0x74] (.uint 4 200) (.leaf [0x63, 0x6d, 0x73, 0x72] (.uint 4 25) .nil)) .nil)
      = [0x63, 0x6d, 0x73, 0x74, 0x00, 0x00, 0x00, 0x18, 0x6d, 0x73, 0x74, 0x74, 0x00, 0x00, 0x00, 0x04,
         0x00, 0x00, 0x00, 0xc8, 0x63, 0x6d, 0x73, 0x72, 0x00, 0x00, 0x00, 0x04, 0x00, 0x00, 0x00, 0x19] := by
  constructor
  · rfl
  · decide

/-- **D6 (pinned tree)**: `string_tag("cann", "é")` wrote length 1 (code points) for the two
    bytes C3 A9; parsing reads the single byte C3 as a string: UnicodeDecodeError.  Kept as
    the record of the defect the `fix:` commit repairs. -/
theorem pinned_string_counterexample :
    parseTop exLookup utf8Valid 8 (stringTagPinned [0x63, 0x61, 0x6e, 0x6e] 1 [0xC3, 0xA9]) = .error .unicode
    ∧ parseTop exLookup utf8Valid 8 (enc (.leaf [0x63, 0x61, 0x6e, 0x6e] (.str [0xC3, 0xA9]) .nil))
        = .ok (.leaf [0x63, 0x61, 0x6e, 0x6e] (.str [0xC3, 0xA9]) .nil) := by
  constructor <;> rfl

/-- for ASCII-only strings (code points = bytes) the pinned writer agrees with the repaired one -/
theorem pinned_agrees_when_lengths_agree (name s : Bytes) :
    stringTagPinned name s.length s = enc (.leaf name (.str s) .nil) := by
  simp [stringTagPinned, enc, tag, Leaf.payload]

/-- a truncated stream does not raise in `_parse` itself: short slices are read as they are
    (`mstt` with a 4-byte length field announcing 4 bytes, only 2 present) -/
example : parseTop exLookup utf8Valid 8 [0x6d, 0x73, 0x74, 0x74, 0, 0, 0, 4, 0x01, 0x02]
    = .ok (.leaf [0x6d, 0x73, 0x74, 0x74] (.uint 258) .nil) := by rfl

end PyatvModel.Props.C04Dmap
