import PyatvModel.C17.Lemmas
import PyatvModel.Gen.C17Consts
/-
C17 — buffered audio input is read without loss or duplication.

Property theorems only (helper lemmas: PyatvModel/C17/Lemmas.lean).  All are about the
executable model in PyatvModel/C17/Model.lean (the tree *after* the `fix:` commit listed in
findings/C17.json) and hold for EVERY history, every source, every short-read pattern,
every buffer size and every headroom ≥ 1.

Buffer (`SemiSeekableBuffer`):
* `buffer_refines`        on any history the buffer is the projection of the abstract byte
                          stream (all accepted bytes, cursor, low-water mark) run on the same
                          history, and gives the same answers: `add` returns exactly the
                          number of bytes accepted, `get n` returns `accepted[cur .. cur+n]`;
* `stream_invariant`      the cursor never points below the low-water mark (no byte that can
                          still be asked for was discarded), stored data ≤ buffer size;
* `buffer_exact`          the reference byte-stream checker (operations and answers only)
                          accepts every history;
* `gets_concat_accepted`  without seeks, the concatenation of all `get` results is exactly
                          the accepted bytes, in order, up to the final position;
* `seek_true_repositions` a seek that reports success makes the next read start exactly at
                          that offset of the accepted stream;
* `seek_false_unchanged`  a seek that reports failure leaves the buffer untouched.
Wrappers (`BufferedIOBaseWrapper`, `StreamReaderWrapper`, `StreamableSourceWrapper` over
either `StreamReaderWrapper` or `PatchedIceCastClient`):
* `wrapper_exact`         every read returns exactly the source bytes at the reference cursor
                          (advanced by reads, moved only by seeks that report success);
* `wrapper_reads_concat`  without seeks the concatenation of all reads is a prefix of the
                          source: nothing skipped, nothing duplicated;
* `wrapper_pending_exact` at every point, unread buffer ++ untouched source = source from the
                          position on (no byte taken from the source is ever dropped);
* `wrapper_progress`      unprotected, a read of ≥ 1 byte is empty only at the end of the source;
* `icecast_exact`         the same exactness for the HTTP stacking against the AUDIO bytes of the
                          response body (`audioOf`: the body itself, or — with `icy-metaint` —
                          the body minus length bytes and metadata blocks), with the download
                          thread's fetch / store steps interleaved arbitrarily with the consumer;
* `icecast_stop_complete` the download side flags end of stream only when every audio byte
                          is in the buffer (any body, any short-read pattern).
-/
namespace PyatvModel.Props.C17
open PyatvModel.C17

/-! ## SemiSeekableBuffer -/

theorem buffer_refines (size H : Nat) (prot : Bool) (hH : 1 ≤ H) (ops : List Op) :
    (Buf.init size H prot).run ops
      = (((Stream.init size H prot).run ops).1.toBuf, ((Stream.init size H prot).run ops).2) :=
  Stream.run_refines (Stream.init size H prot) (Stream.init_inv size H prot hH) ops

/-- non-vacuity: a history that fills the buffer, reads past the headroom (discard),
    and seeks both successfully and unsuccessfully; answers shown literally. -/
example :
    ((Buf.init 10 5 false).run
        [.add (pat 0 0 12), .get 3, .seek 1, .get 3, .seek 7, .get 4, .seek 0, .add (pat 0 10 4), .get 9]).2
      = [.count 10, .data (pat 0 0 3), .flag true, .data (pat 0 1 3), .flag false, .data (pat 0 4 4),
         .flag false, .count 4, .data (pat 0 8 6)] := by decide

theorem stream_invariant (size H : Nat) (prot : Bool) (hH : 1 ≤ H) (ops : List Op) :
    ((Stream.init size H prot).run ops).1.Inv :=
  Stream.run_inv _ (Stream.init_inv size H prot hH) ops

/-- stored data never exceeds the buffer size (consequence of the invariant, on the buffer) -/
theorem buffer_capacity (size H : Nat) (prot : Bool) (hH : 1 ≤ H) (ops : List Op) :
    ((Buf.init size H prot).run ops).1.buf.length ≤ size := by
  rw [buffer_refines size H prot hH ops]
  have h := stream_invariant size H prot hH ops
  have hsize : ((Stream.init size H prot).run ops).1.size = size := Stream.run_size _ ops
  have := h.cap
  show (((Stream.init size H prot).run ops).1.toBuf).buf.length ≤ size
  simp only [Stream.toBuf, List.length_drop]
  omega

theorem buffer_exact (size H : Nat) (prot : Bool) (hH : 1 ≤ H) (ops : List Op) :
    Ref.ok [] 0 (ops.zip ((Buf.init size H prot).run ops).2) := by
  rw [buffer_refines size H prot hH ops]
  exact Stream.ref_ok (Stream.init size H prot) (Stream.init_inv size H prot hH) ops

/-- the checker is discriminating: it rejects a skipped byte, a duplicated byte and an
    `add` count larger than the data. -/
example : ¬ Ref.ok [] 0 [(.add [1, 2, 3], .count 3), (.get 2, .data [1, 3])] := by decide
example : ¬ Ref.ok [] 0 [(.add [1, 2, 3], .count 3), (.get 1, .data [1]), (.get 1, .data [1])] := by decide
example : ¬ Ref.ok [] 0 [(.add [1, 2, 3], .count 4)] := by decide

theorem gets_concat_accepted (size H : Nat) (prot : Bool) (hH : 1 ≤ H) (ops : List Op)
    (hns : ∀ op ∈ ops, op.isSeek = false) :
    ((Buf.init size H prot).run ops).2.flatMap Res.bytes
      = ((Stream.init size H prot).run ops).1.acc.take ((Buf.init size H prot).run ops).1.pos := by
  have h := Stream.concat_noSeek (Stream.init size H prot) (Stream.init_inv size H prot hH) ops hns
  rw [buffer_refines size H prot hH ops]
  simpa [Stream.init, Stream.toBuf] using h

example : ∀ op ∈ [Op.add [1, 2, 3], Op.get 2, Op.protect true, Op.get 5], op.isSeek = false := by decide

theorem seek_true_repositions (size H : Nat) (prot : Bool) (hH : 1 ≤ H) (ops : List Op) (p n : Nat)
    (hok : (((Buf.init size H prot).run ops).1.seek p).2 = true) :
    ((((Buf.init size H prot).run ops).1.seek p).1.get n).2
      = (((Stream.init size H prot).run ops).1.acc.drop p).take n := by
  have hinv := stream_invariant size H prot hH ops
  rw [buffer_refines size H prot hH ops] at hok ⊢
  simp only [] at hok ⊢
  rw [Stream.seek_refines _ hinv p] at hok ⊢
  simp only [] at hok ⊢
  rw [Stream.get_refines _ (Stream.seek_inv _ hinv p) n]
  have hc := (Stream.seek_cur ((Stream.init size H prot).run ops).1 p).1 hok
  have hacc : (((Stream.init size H prot).run ops).1.seek p).1.acc = ((Stream.init size H prot).run ops).1.acc := by
    unfold Stream.seek
    split
    · rfl
    · split <;> rfl
  simp only [Stream.get, hc, hacc]

/-- non-vacuity: a successful seek back into retained headroom after 4 bytes were read -/
example : (((Buf.init 10 5 false).run [.add (pat 0 0 8), .get 4]).1.seek 2).2 = true := by decide

theorem seek_false_unchanged (s : Buf) (p : Nat) (hfail : (s.seek p).2 = false) : (s.seek p).1 = s := by
  unfold Buf.seek at hfail ⊢
  split
  · rename_i h; simp [h] at hfail
  · split
    · rfl
    · split
      · rfl
      · split
        · rfl
        · rename_i h1 h2 h3 h4; simp [h1, h2, h3, h4] at hfail

example : (((Buf.init 10 5 false).run [.add (pat 0 0 8), .get 6]).1.seek 2).2 = false := by decide

/-! ## The wrappers -/

theorem wrapper_exact (k : Kind) (size H : Nat) (prot : Bool) (hH : 1 ≤ H) (S : Bytes) (ks : List Nat)
    (ops : List WOp) :
    WRef.ok S 0 (ops.zip ((World.init size H prot S ks).run k ops).2) :=
  ((Rel.init size H prot hH S ks).run k ops).1

/-- non-vacuity + the D12 witness on the repaired model: buffer 10 / headroom 5 /
    unprotected, reads 3,9,9,9,9 over 30 bytes now deliver all 30 bytes. -/
example :
    ((World.init 10 5 false (pat 0 0 30) []).run .bio
        [.read (some 3), .read (some 9), .read (some 9), .read (some 9), .read (some 9)]).2.flatMap WRes.bytes
      = pat 0 0 30 := by decide

/-- the checker is discriminating: it rejects what the pre-fix code answered on that
    history (bytes 10 and 11 missing from the third read). -/
example :
    ¬ WRef.ok (pat 0 0 30) 0
        [(.read (some 3), .data (pat 0 0 3)), (.read (some 9), .data (pat 0 3 7)),
         (.read (some 9), .data (pat 0 12 9))] := by decide

/-- … and a "successful" seek that does not reposition (stale position, pre-fix
    StreamReaderWrapper): read 6, read 3, seek 6 → true, read 3 gave bytes 9.. -/
example :
    ¬ WRef.ok (pat 0 0 30) 0
        [(.read (some 6), .data (pat 0 0 6)), (.read (some 3), .data (pat 0 6 3)),
         (.seek 6, .flag true), (.read (some 3), .data (pat 0 9 3))] := by decide

theorem wrapper_reads_concat (k : Kind) (size H : Nat) (prot : Bool) (hH : 1 ≤ H) (S : Bytes)
    (ks : List Nat) (ops : List WOp) (hns : ∀ op ∈ ops, op.isSeek = false) :
    ((World.init size H prot S ks).run k ops).2.flatMap WRes.bytes
      = S.take (((World.init size H prot S ks).run k ops).2.flatMap WRes.bytes).length := by
  have hlen : ∀ (w : World) (ops : List WOp), (w.run k ops).2.length = ops.length := by
    intro w ops
    induction ops generalizing w with
    | nil => rfl
    | cons op ops ih => simp [World.run, ih]
  have h := WRef.concat_noSeek S 0 ops _ (hlen _ ops) (wrapper_exact k size H prot hH S ks ops) hns
  simpa using h

example : ∀ op ∈ [WOp.read (some 3), WOp.protect false, WOp.read none], op.isSeek = false := by decide

theorem wrapper_pending_exact (k : Kind) (size H : Nat) (prot : Bool) (hH : 1 ≤ H) (S : Bytes)
    (ks : List Nat) (ops : List WOp) :
    ((World.init size H prot S ks).run k ops).1.b.pending
        ++ ((World.init size H prot S ks).run k ops).1.src.rest
      = S.drop ((World.init size H prot S ks).run k ops).1.b.pos := by
  obtain ⟨a', r'⟩ := ((Rel.init size H prot hH S ks).run k ops).2
  exact r'.pending

/-- unprotected (the streaming phase) and with the headroom inside the buffer, a read of at
    least one byte returns at least one byte as long as the source has bytes beyond the
    position: the stream is never cut short. -/
theorem wrapper_progress (k : Kind) (size H : Nat) (prot : Bool) (hH : 1 ≤ H) (hHB : H ≤ size) (S : Bytes)
    (ks : List Nat) (ops : List WOp) (n : Nat) (hn : 1 ≤ n)
    (hunprot : ((World.init size H prot S ks).run k ops).1.b.prot = false)
    (hmore : ((World.init size H prot S ks).run k ops).1.b.pos < S.length) :
    (((World.init size H prot S ks).run k ops).1.read (some n)).2 ≠ [] := by
  obtain ⟨a', r'⟩ := ((Rel.init size H prot hH S ks).run k ops).2
  have hp := World.run_params k (World.init size H prot S ks) ops
  have hsz : a'.headroom ≤ a'.size := by
    have h1 : ((World.init size H prot S ks).run k ops).1.b.size = a'.size := by rw [r'.buf]; rfl
    have h2 : ((World.init size H prot S ks).run k ops).1.b.headroom = a'.headroom := by rw [r'.buf]; rfl
    rw [← h1, ← h2, hp.1, hp.2]
    exact hHB
  have hprot : a'.prot = false := by
    have : ((World.init size H prot S ks).run k ops).1.b.prot = a'.prot := by rw [r'.buf]; rfl
    rw [← this]; exact hunprot
  exact r'.read_progress n hn hprot hsz (by rw [← r'.pos]; exact hmore)

/-- non-vacuity: after the probing phase (protected, seek back, unprotect) of a 10/5 buffer
    over 30 bytes the hypotheses hold, … -/
example :
    let w := ((World.init 10 5 true (pat 0 0 30) [0, 1]).run .ssw
      [.read (some 4), .read (some 4), .seek 0, .protect false, .read (some 9)]).1
    w.b.prot = false ∧ w.b.pos < (pat 0 0 30).length := by decide

/-- … while a protected buffer that is full and fully read does stall (by design: it must
    keep everything to honour `seek 0`), which is why the hypothesis is there. -/
example :
    (((World.init 4 2 true (pat 0 0 30) []).run .bio [.read (some 4)]).1.read (some 3)).2 = [] := by decide

theorem icecast_exact (size H : Nat) (prot : Bool) (hH : 1 ≤ H) (M : Nat) (W : Bytes) (ks : List Nat)
    (ops : List IOp) (hblk : ∀ op ∈ ops, op.blockOk = true) :
    IRef.ok (audioOf M W) 0 (ops.zip ((IWorld.init size H prot M W ks).run ops).2) :=
  ((IRel.init size H prot hH M W ks).run ops hblk).1

/-- non-vacuity (plain HTTP): blocks of 4 into a 10/5 buffer (third block has to wait), a
    consumer read between fetch and store, read past the headroom, failed seek, then the
    stream continues without a gap. -/
example :
    ((IWorld.init 10 5 true 0 (pat 0 0 30) []).run
        [.feed 4, .fetch 4, .read 3, .store, .feed 4, .read 3, .seek 0, .protect false, .read 7, .feed 4,
         .seek 0, .read 9]).2
      = [.flag true, .flag true, .data (pat 0 0 3), .flag true, .flag false, .data (pat 0 3 3), .pos 0,
         .flag true, .data (pat 0 0 7), .flag true, .pos 7, .data (pat 0 7 5)] := by decide

/-- non-vacuity (ICY): `icy-metaint` 4 above the block size 3, metadata blocks of length 1
    and 0, short reads inside `_readall` (oracle 1,0,5,…): the consumer gets exactly the 10
    audio bytes although the body has 28 bytes; the end is flagged by the last `store`. -/
example :
    audioOf 4 (wire 0 4 [1, 0] 10 100) = pat 0 0 10 ∧ (wire 0 4 [1, 0] 10 100).length = 28 ∧
    ((IWorld.init 16 8 false 4 (wire 0 4 [1, 0] 10 100) [1, 0, 5]).run
        [.feed 3, .feed 3, .feed 3, .read 9, .feed 3, .fetch 3, .read 9, .store, .read 9]).2
      = [.flag true, .flag true, .flag true, .data (pat 0 0 7), .flag true, .flag true, .data (pat 0 7 1),
         .flag true, .data (pat 0 8 2)] ∧
    (∀ op ∈ [IOp.feed 3, .fetch 3, .store, .read 9], op.blockOk = true) := by decide

/-- The download side decides (`ended`) and flags (`stopped`) the end of the stream only
    when no audio is left in the response — for every body (with or without ICY framing,
    cut anywhere), every short-read pattern and every interleaving of consumer operations
    between `fetch` and `store`: once `stopped`, nothing is waiting to be stored and the
    unread part of the buffer is the whole rest of the audio, so a consumer that reads
    until the flagged end receives the audio completely. -/
theorem icecast_stop_complete (size H : Nat) (prot : Bool) (hH : 1 ≤ H) (M : Nat) (W : Bytes) (ks : List Nat)
    (ops : List IOp) (hblk : ∀ op ∈ ops, op.blockOk = true)
    (hstop : ((IWorld.init size H prot M W ks).run ops).1.stopped = true) :
    ((IWorld.init size H prot M W ks).run ops).1.chunk.getD [] = [] ∧
    ((IWorld.init size H prot M W ks).run ops).1.view = [] ∧
    ((IWorld.init size H prot M W ks).run ops).1.w.b.pending
      = (audioOf M W).drop ((IWorld.init size H prot M W ks).run ops).1.w.b.pos := by
  have h0 : (IWorld.init size H prot M W ks).StopOk :=
    ⟨fun h => by simp [IWorld.init] at h, fun h => by simp [IWorld.init] at h⟩
  have hs := (IWorld.run_stopOk (IWorld.init size H prot M W ks) h0 ops hblk).stop hstop
  obtain ⟨a', r'⟩ := ((IRel.init size H prot hH M W ks).run ops hblk).2
  have hp := r'.rel.pending
  simp only [IWorld.virt, hs.1, hs.2, List.append_nil] at hp
  exact ⟨hs.1, hs.2, hp⟩

/-- non-vacuity: 9 bytes through blocks of 4 with a short read in the middle (oracle 1 ⇒ 2
    bytes) — the stream is NOT flagged after the short read, only after the empty one. -/
example :
    let iw := ((IWorld.init 10 5 false 0 (pat 0 0 9) [9, 1]).run
      [.feed 4, .fetch 4, .store, .read 5, .feed 4, .feed 4, .feed 4]).1
    (∀ op ∈ [IOp.feed 4, .fetch 4, .store, .read 5, .feed 4, .feed 4, .feed 4], op.blockOk = true) ∧
    iw.stopped = true ∧ iw.w.b.pending = pat 0 5 4 := by decide

example :
    (((IWorld.init 10 5 false 0 (pat 0 0 9) [9, 1]).run [.feed 4, .fetch 4, .store]).1.stopped) = false := by decide

/-! ## The sizes the library really uses (regenerated from the source on every run) -/

theorem production_sizes_in_domain :
    1 ≤ PyatvModel.Gen.C17.headroomSize ∧ PyatvModel.Gen.C17.headroomSize ≤ PyatvModel.Gen.C17.bufferSize ∧
    1 ≤ PyatvModel.Gen.C17.defaultHeadroomSize ∧
    PyatvModel.Gen.C17.defaultHeadroomSize ≤ PyatvModel.Gen.C17.defaultBufferSize ∧
    PyatvModel.Gen.C17.iceBlockSize ≤ PyatvModel.Gen.C17.bufferSize := by decide

end PyatvModel.Props.C17
