import PyatvModel.C04.Http.Lemmas
/-
C04 (HTTP/RTSP part) — "every value the library can encode with ... HTTP/RTSP messages ... decodes
back to an equal value".

Model: PyatvModel/C04/Http/Model.lean (transcription of format_request / format_response /
_format_message / _parse_http_message / parse_request / parse_response of pyatv/support/http.py,
with requests' CaseInsensitiveDict as far as used).  Text is modelled by its UTF-8 bytes.

Domain (explicit, decidable — `ReqOk` / `RespOk` in Lemmas.lean): header names and values free of
CR/LF, names free of ": ", names pairwise different ignoring (ASCII) case, no Content-Length of the
caller's own; start-line fields inside the character classes of the two regular expressions
(method `[A-Z_]+`, path without blank, protocol without "/", version `[0-9.]+`, reason phrase
without CR/LF); the body is ANY byte string, the bytes after the message are ANY byte string.

  * `request_roundtrip`    parseReq (fmtReq r ++ rest) = (r with the headers the encoder adds, rest)
  * `response_roundtrip`   parseResp (fmtResp r ++ rest) = (r with the headers the encoder adds, rest)
  * `request_headers_seen` / `response_headers_seen`   what "the headers the encoder adds" are:
                           User-Agent / Server unless the caller gave one (any spelling), and
                           Content-Length = body length iff the body is not empty; the caller's headers
                           come back unchanged, in order
  * `header_lookup_case_insensitive`   a header written under one spelling is found under any other
  * `request_incomplete`   a message cut anywhere inside its body is reported incomplete and nothing
                           is consumed

Partial (parameters, validated by the correspondence run only): UTF-8 decoding of the header block
and of the body (`str` vs `bytes` presentation of the body, decided by Content-Type and UTF-8
validity), Unicode case folding of non-ASCII header names, plistlib for `dict` bodies, `int()`
beyond plain digits, and the equivalence of `re.match` with the longest-match scan of the model
(argued in Model.lean, exercised by the harness on every case).
-/
namespace PyatvModel.Props.C04Http
open PyatvModel PyatvModel.C04.Http

/-- the headers `parse_request` reports for `format_request r` -/
def reqHeadersSeen (r : Req) : Hdrs := autoReq Gen.C04Http.userAgent none r.headers r.body ++ r.headers

/-- the headers `parse_response` reports for `format_response r` -/
def respHeadersSeen (r : Resp) : Hdrs := autoRespFront r.headers ++ r.headers ++ autoRespBack r.body

section Helpers

theorem flatMap_hdr (hs : Hdrs) :
    (hs.map hdrLine).flatMap (fun l => crlf ++ l) = hs.flatMap (fun kv => crlf ++ hdrLine kv) := by
  induction hs with
  | nil => rfl
  | cons kv hs ih => simp [ih]

theorem flatMap_hdr_back (hs : Hdrs) :
    crlf ++ hs.flatMap (fun kv => hdrLine kv ++ crlf) = hs.flatMap (fun kv => crlf ++ hdrLine kv) ++ crlf := by
  induction hs with
  | nil => simp
  | cons kv hs ih =>
    simp only [List.flatMap_cons, List.append_assoc]
    rw [ih]

theorem upper_noCR (s : Bytes) (h : ∀ b ∈ s, isUpperUs b = true) : ∀ b ∈ s, b ≠ 13 := by
  intro b hb e; subst e; exact absurd (h _ hb) (by decide)

theorem digitDot_noCR (s : Bytes) (h : ∀ b ∈ s, isDigitDot b = true) : ∀ b ∈ s, b ≠ 13 := by
  intro b hb e; subst e; exact absurd (h _ hb) (by decide)

theorem digit_noCR (s : Bytes) (h : s.all isDigit = true) : ∀ b ∈ s, b ≠ 13 := by
  intro b hb e; subst e
  rw [List.all_eq_true] at h
  exact absurd (h _ hb) (by decide)

theorem mem_append3 {b : UInt8} {x y : Bytes} {c : UInt8} (h : b ∈ x ++ c :: y) : b ∈ x ∨ b = c ∨ b ∈ y := by
  simpa using h

end Helpers

/-! ## requests -/

theorem request_headers_ok (r : Req) (h : HdrsOk r.headers) :
    (∀ kv ∈ reqHeadersSeen r, HdrOk kv) ∧ (lkeys (reqHeadersSeen r)).Nodup ∧
      contentLength (reqHeadersSeen r) = IntRes.ok r.body.length := by
  obtain ⟨hok, hnd, hcl⟩ := h
  unfold reqHeadersSeen autoReq
  by_cases hua : ciHas kUserAgent r.headers = true <;> by_cases hb : r.body = []
  all_goals simp only [hua, hb, if_true, if_false, ne_eq, not_true_eq_false, not_false_eq_true,
    List.nil_append, List.append_nil, List.length_nil, Bool.false_eq_true]
  · exact ⟨hok, hnd, by simp [contentLength, ciGet_none _ _ hcl]⟩
  · refine ⟨?_, ?_, ?_⟩
    · intro kv hkv
      rcases List.mem_cons.mp hkv with rfl | hkv
      · exact clOk _
      · exact hok kv hkv
    · simpa [lkeys] using ⟨by simpa [lkeys] using hcl, by simpa [lkeys] using hnd⟩
    · simp [contentLength, ciGet, pyInt_natToDec]
  · have hua' : lower kUserAgent ∉ lkeys r.headers := fun hm => hua ((ciHas_iff _ _).mpr hm)
    refine ⟨?_, ?_, ?_⟩
    · intro kv hkv
      rcases List.mem_cons.mp hkv with rfl | hkv
      · exact uaOk
      · exact hok kv hkv
    · simpa [lkeys] using ⟨by simpa [lkeys] using hua', by simpa [lkeys] using hnd⟩
    · simp [contentLength, ciGet, lower_ua_ne_cl, ciGet_none _ _ hcl]
  · have hua' : lower kUserAgent ∉ lkeys r.headers := fun hm => hua ((ciHas_iff _ _).mpr hm)
    refine ⟨?_, ?_, ?_⟩
    · intro kv hkv
      simp only [List.cons_append, List.nil_append, List.mem_cons] at hkv
      rcases hkv with rfl | rfl | hkv
      · exact uaOk
      · exact clOk _
      · exact hok kv hkv
    · simp only [lkeys, List.cons_append, List.nil_append, List.map_cons, List.nodup_cons, List.mem_cons, not_or]
      exact ⟨⟨lower_ua_ne_cl, by simpa [lkeys] using hua'⟩, by simpa [lkeys] using hcl, by simpa [lkeys] using hnd⟩
    · simp [contentLength, ciGet, lower_ua_ne_cl, pyInt_natToDec]

theorem matchReqLine_start (r : Req) (h : ReqOk r) :
    matchReqLine (r.method ++ [32] ++ r.path ++ [32] ++ (r.proto ++ [47] ++ r.version))
      = some (r.method, r.path, r.proto, r.version) := by
  obtain ⟨hm0, hm, hp0, hp, _, hq0, hq, _, hv0, hv, _⟩ := h
  have e : r.method ++ [32] ++ r.path ++ [32] ++ (r.proto ++ [47] ++ r.version)
      = r.method ++ 32 :: (r.path ++ 32 :: (r.proto ++ 47 :: r.version)) := by simp
  have s1 := span_append (p := isUpperUs) r.method 32 (r.path ++ 32 :: (r.proto ++ 47 :: r.version)) hm (by decide)
  have s2 := span_append (p := fun b => decide (b ≠ 32)) r.path 32 (r.proto ++ 47 :: r.version)
    (fun x hx => by simpa using hp x hx) (by decide)
  have s3 := span_append (p := fun b => decide (b ≠ 47)) r.proto 47 r.version
    (fun x hx => by simpa using hq x hx) (by decide)
  have s4 := takeWhile_all (p := isDigitDot) r.version hv
  rw [e]
  simp only [matchReqLine, s1.1, s1.2, s2.1, s2.2, s3.1, s3.2, s4, hm0, hp0, hq0, hv0, if_false,
    ne_eq, not_true_eq_false]

/-- **HTTP/RTSP request round trip.**  For every request of the domain, any body bytes, any bytes
    following the message. -/
theorem request_roundtrip (r : Req) (rest : Bytes) (h : ReqOk r) :
    parseReq (fmtReq r ++ rest) = .ok { r with headers := reqHeadersSeen r } rest := by
  have hH : HdrsOk r.headers := h.2.2.2.2.2.2.2.2.2.2
  obtain ⟨hok, hnd, hcl⟩ := request_headers_ok r hH
  obtain ⟨hm0, hm, hp0, hp, hpc, hq0, hq, hqc, hv0, hv, _⟩ := h
  have hd : ciOfList r.headers = r.headers := ciOfList_id _ hH.2.1
  let start := r.method ++ [32] ++ r.path ++ [32] ++ (r.proto ++ [47] ++ r.version)
  have hshape : fmtReq r ++ rest
      = block start ((reqHeadersSeen r).map hdrLine) ++ (crlf ++ crlf ++ (r.body ++ rest)) := by
    simp only [fmtReq, fmtMessage, hd, block, flatMap_hdr, reqHeadersSeen, start, List.append_assoc]
  have hstart : ∀ b ∈ start, b ≠ 13 := by
    intro b hb
    simp only [start, List.mem_append, List.mem_singleton] at hb
    rcases hb with (((hb | hb) | hb) | hb) | ((hb | hb) | hb)
    · exact upper_noCR _ hm b hb
    · subst hb; decide
    · exact (hpc b hb).1
    · subst hb; decide
    · exact (hqc b hb).1
    · subst hb; decide
    · exact digitDot_noCR _ hv b hb
  have hne : start ≠ [] := by
    cases hmm : r.method with
    | nil => exact absurd hmm hm0
    | cons c t => simp [start, hmm]
  have hparse := parse_block start (reqHeadersSeen r) (r.body ++ rest) r.body.length hstart hok hnd hcl (by simp)
  have hline : matchReqLine start = some (r.method, r.path, r.proto, r.version) :=
    matchReqLine_start r ⟨hm0, hm, hp0, hp, hpc, hq0, hq, hqc, hv0, hv, hH⟩
  rw [hshape]
  simp only [parseReq, hparse, hne, if_false, hline, (take_drop_body r.body rest).1, (take_drop_body r.body rest).2]

/-- what the encoder adds, spelled out -/
theorem request_headers_seen (r : Req) :
    reqHeadersSeen r =
      (if ciHas kUserAgent r.headers then [] else [(kUserAgent, Gen.C04Http.userAgent)])
        ++ (if r.body ≠ [] then [(kContentLength, natToDec r.body.length)] else []) ++ r.headers := by
  simp [reqHeadersSeen, autoReq]

/-- a message cut anywhere inside its body is incomplete: `(None, message)`, nothing consumed -/
theorem request_incomplete (r : Req) (h : ReqOk r) :
    ∃ head, fmtReq r = head ++ r.body ∧
      ∀ k, k < r.body.length → parseReq (head ++ r.body.take k) = .none (head ++ r.body.take k) := by
  have hH : HdrsOk r.headers := h.2.2.2.2.2.2.2.2.2.2
  obtain ⟨hok, hnd, hcl⟩ := request_headers_ok r hH
  obtain ⟨hm0, hm, hp0, hp, hpc, hq0, hq, hqc, hv0, hv, _⟩ := h
  have hd : ciOfList r.headers = r.headers := ciOfList_id _ hH.2.1
  let start := r.method ++ [32] ++ r.path ++ [32] ++ (r.proto ++ [47] ++ r.version)
  refine ⟨block start ((reqHeadersSeen r).map hdrLine) ++ crlf ++ crlf, ?_, ?_⟩
  · simp only [fmtReq, fmtMessage, hd, block, flatMap_hdr, reqHeadersSeen, start, List.append_assoc]
  intro k hk
  have hstart : ∀ b ∈ start, b ≠ 13 := by
    intro b hb
    simp only [start, List.mem_append, List.mem_singleton] at hb
    rcases hb with (((hb | hb) | hb) | hb) | ((hb | hb) | hb)
    · exact upper_noCR _ hm b hb
    · subst hb; decide
    · exact (hpc b hb).1
    · subst hb; decide
    · exact (hqc b hb).1
    · subst hb; decide
    · exact digitDot_noCR _ hv b hb
  have h1 := splitOnce_block start ((reqHeadersSeen r).map hdrLine) (r.body.take k) hstart (by
    intro l hl
    obtain ⟨kv, hkv, rfl⟩ := List.mem_map.mp hl
    exact ⟨hdrLine_ne_nil kv, hdrLine_noCR kv (hok kv hkv)⟩)
  have h2 := splitCRLF_block start ((reqHeadersSeen r).map hdrLine) hstart (by
    intro l hl
    obtain ⟨kv, hkv, rfl⟩ := List.mem_map.mp hl
    exact hdrLine_noCR kv (hok kv hkv))
  have h3 := mapM_hdrLines (reqHeadersSeen r) (fun kv hkv => (hok kv hkv).2.2)
  have h4 := ciOfList_id (reqHeadersSeen r) hnd
  have hlt : (r.body.take k).length < r.body.length := by simp; omega
  simp only [List.append_assoc] at h1 ⊢
  simp only [parseReq, parseHttpMessage, h1, h2, h3, h4, hcl, hlt, if_true]

/-! ## responses -/

theorem response_headers_ok (r : Resp) (h : HdrsOk r.headers) :
    (∀ kv ∈ respHeadersSeen r, HdrOk kv) ∧ (lkeys (respHeadersSeen r)).Nodup ∧
      contentLength (respHeadersSeen r) = IntRes.ok r.body.length := by
  obtain ⟨hok, hnd, hcl⟩ := h
  have hfront : lower kContentLength ∉ lkeys (autoRespFront r.headers) := by
    unfold autoRespFront
    split
    · simp [lkeys]
    · simpa [lkeys] using Ne.symm lower_server_ne_cl
  refine ⟨?_, ?_, contentLength_of _ _ _ hfront hcl⟩
  · intro kv hkv
    simp only [respHeadersSeen, List.mem_append] at hkv
    rcases hkv with (hkv | hkv) | hkv
    · unfold autoRespFront at hkv
      split at hkv
      · simp at hkv
      · simp at hkv; subst hkv; exact serverOk
    · exact hok kv hkv
    · unfold autoRespBack at hkv
      split at hkv
      · simp at hkv; subst hkv; exact clOk _
      · simp at hkv
  · unfold respHeadersSeen autoRespFront autoRespBack
    by_cases hs : ciHas kServer r.headers = true <;> by_cases hb : r.body = []
    all_goals simp only [hs, hb, if_true, if_false, ne_eq, not_true_eq_false, not_false_eq_true,
      List.nil_append, List.append_nil, Bool.false_eq_true]
    · exact hnd
    · simp only [lkeys, List.map_append, List.map_cons, List.map_nil]
      rw [List.nodup_append]
      refine ⟨by simpa [lkeys] using hnd, by simp, ?_⟩
      intro a ha b hb' e
      simp at hb'; subst hb'; subst e
      exact hcl (by simpa [lkeys] using ha)
    · have hs' : lower kServer ∉ lkeys r.headers := fun hm => hs ((ciHas_iff _ _).mpr hm)
      simpa [lkeys] using ⟨by simpa [lkeys] using hs', by simpa [lkeys] using hnd⟩
    · have hs' : lower kServer ∉ lkeys r.headers := fun hm => hs ((ciHas_iff _ _).mpr hm)
      simp only [lkeys, List.cons_append, List.nil_append, List.map_cons, List.map_append, List.map_nil,
        List.nodup_cons, List.mem_append, List.mem_singleton, not_or]
      refine ⟨⟨by simpa [lkeys] using hs', lower_server_ne_cl⟩, ?_⟩
      rw [List.nodup_append]
      refine ⟨by simpa [lkeys] using hnd, by simp, ?_⟩
      intro a ha b hb' e
      simp at hb'; subst hb'; subst e
      exact hcl (by simpa [lkeys] using ha)

theorem matchRespLine_start (r : Resp) (h : RespOk r) :
    matchRespLine (r.proto ++ [47] ++ r.version ++ [32] ++ natToDec r.code ++ [32] ++ r.message)
      = some (r.proto, r.version, natToDec r.code, r.message) := by
  obtain ⟨hq0, hq, _, hv0, hv, hmsg, _⟩ := h
  obtain ⟨hc0, hcd, _⟩ := natToDec_spec r.code
  have e : r.proto ++ [47] ++ r.version ++ [32] ++ natToDec r.code ++ [32] ++ r.message
      = r.proto ++ 47 :: (r.version ++ 32 :: (natToDec r.code ++ 32 :: r.message)) := by simp
  have s1 := span_append (p := fun b => decide (b ≠ 47)) r.proto 47 (r.version ++ 32 :: (natToDec r.code ++ 32 :: r.message))
    (fun x hx => by simpa using hq x hx) (by decide)
  have s2 := span_append (p := isDigitDot) r.version 32 (natToDec r.code ++ 32 :: r.message) hv (by decide)
  have s3 := span_append (p := isDigit) (natToDec r.code) 32 r.message
    (fun x hx => by rw [List.all_eq_true] at hcd; exact hcd x hx) (by decide)
  have s4 := takeWhile_all (p := fun b => decide (b ≠ 10)) r.message (fun x hx => by simpa using (hmsg x hx).2)
  rw [e]
  simp only [matchRespLine, s1.1, s1.2, s2.1, s2.2, s3.1, s3.2, s4, hq0, hv0, hc0, if_false,
    ne_eq, not_true_eq_false]

/-- **HTTP/RTSP response round trip.** -/
theorem response_roundtrip (r : Resp) (rest : Bytes) (h : RespOk r) :
    parseResp (fmtResp r ++ rest) = .ok { r with headers := respHeadersSeen r } rest := by
  have hH : HdrsOk r.headers := h.2.2.2.2.2.2
  obtain ⟨hok, hnd, hcl⟩ := response_headers_ok r hH
  let start := r.proto ++ [47] ++ r.version ++ [32] ++ natToDec r.code ++ [32] ++ r.message
  have hline : matchRespLine start = some (r.proto, r.version, natToDec r.code, r.message) :=
    matchRespLine_start r h
  obtain ⟨hq0, hq, hqc, hv0, hv, hmsg, _⟩ := h
  have hd : ciOfList r.headers = r.headers := ciOfList_id _ hH.2.1
  have hshape : fmtResp r ++ rest
      = block start ((respHeadersSeen r).map hdrLine) ++ (crlf ++ crlf ++ (r.body ++ rest)) := by
    simp only [fmtResp, hd, block, flatMap_hdr, respHeadersSeen, start]
    have := flatMap_hdr_back (autoRespFront r.headers ++ r.headers ++ autoRespBack r.body)
    have this' : ∀ T, crlf ++ ((autoRespFront r.headers ++ r.headers ++ autoRespBack r.body).flatMap
        (fun kv => hdrLine kv ++ crlf) ++ T)
        = (autoRespFront r.headers ++ r.headers ++ autoRespBack r.body).flatMap (fun kv => crlf ++ hdrLine kv)
          ++ (crlf ++ T) := by
      intro T; rw [← List.append_assoc, this, List.append_assoc]
    simp only [List.append_assoc] at this' ⊢
    rw [this']
  have hstart : ∀ b ∈ start, b ≠ 13 := by
    intro b hb
    simp only [start, List.mem_append, List.mem_singleton] at hb
    rcases hb with (((((hb | hb) | hb) | hb) | hb) | hb) | hb
    · exact (hqc b hb).1
    · subst hb; decide
    · exact digitDot_noCR _ hv b hb
    · subst hb; decide
    · exact digit_noCR _ (natToDec_spec r.code).2.1 b hb
    · subst hb; decide
    · exact (hmsg b hb).1
  have hparse := parse_block start (respHeadersSeen r) (r.body ++ rest) r.body.length hstart hok hnd hcl (by simp)
  have hcode : decVal (natToDec r.code) = r.code := by
    simpa [decVal] using (natToDec_spec r.code).2.2 0
  rw [hshape]
  simp only [parseResp, hparse, hline, hcode, (take_drop_body r.body rest).1, (take_drop_body r.body rest).2]

theorem response_headers_seen (r : Resp) :
    respHeadersSeen r =
      (if ciHas kServer r.headers then [] else [(kServer, Gen.C04Http.serverName)]) ++ r.headers
        ++ (if r.body ≠ [] then [(kContentLength, natToDec r.body.length)] else []) := by
  simp [respHeadersSeen, autoRespFront, autoRespBack]

/-! ## header names are case-insensitive, as the code implements it -/

/-- a header stored under the spelling `k` is found under every spelling `k'` with the same
    lower-case form — and under no other -/
theorem header_lookup_case_insensitive (k k' v : Bytes) (d : Hdrs) :
    ciGet k' (ciSet k v d) = if lower k = lower k' then some v else ciGet k' d := by
  induction d with
  | nil => simp [ciSet, ciGet]
  | cons e d ih =>
    obtain ⟨k0, v0⟩ := e
    by_cases h0 : lower k0 = lower k
    · by_cases h1 : lower k = lower k'
      · simp [ciSet, ciGet, h0, h1]
      · simp [ciSet, ciGet, h0, h1]
    · by_cases h2 : lower k0 = lower k'
      · have : ¬ lower k = lower k' := fun e => h0 (h2.trans e.symm)
        have this' : ¬ lower k' = lower k := fun e => this e.symm
        simp [ciSet, ciGet, h2, this, this']
      · simp [ciSet, ciGet, h0, h2, ih]

/-! ## non-vacuity and boundaries -/

def sampleReq : Req :=
  { method := [71, 69, 84], path := [47, 105, 110, 102, 111, 63, 97, 61, 49], proto := [82, 84, 83, 80],
    version := [49, 46, 48],
    headers := [([67, 83, 101, 113], [49, 50]),                         -- CSeq: 12
                ([88, 45, 65], [97, 58, 32, 98, 58, 99]),               -- X-A: "a: b:c"  (value with ':' and ": ")
                ([117, 115, 101, 114, 45, 97, 103, 101, 110, 116], [120])],  -- user-agent: x
    body := [0, 13, 10, 13, 10, 255] }                                  -- body containing CRLFCRLF and non-UTF-8

example : ReqOk sampleReq := by decide
example : parseReq (fmtReq sampleReq ++ [1, 2, 3])
    = .ok { sampleReq with headers := ([67, 111, 110, 116, 101, 110, 116, 45, 76, 101, 110, 103, 116, 104], [54]) :: sampleReq.headers } [1, 2, 3] := by
  have := request_roundtrip sampleReq [1, 2, 3] (by decide)
  rw [this]; decide +kernel

/-- empty body: no Content-Length is written, the decoder assumes 0, everything after the blank
    line is left in the stream -/
def emptyBodyReq : Req := { sampleReq with body := [], headers := [] }
example : ReqOk emptyBodyReq := by decide
example : parseReq (fmtReq emptyBodyReq ++ [65, 66])
    = .ok { emptyBodyReq with headers := [(kUserAgent, Gen.C04Http.userAgent)] } [65, 66] := by
  have := request_roundtrip emptyBodyReq [65, 66] (by decide)
  rw [this]; decide +kernel

/-- outside the domain: a header name containing ": " is split at the wrong place -/
example : ¬ HdrOk ([97, 58, 32, 98], [99]) := by decide
example : splitOnce colonSp (hdrLine ([97, 58, 32, 98], [99])) = some ([97], [98, 58, 32, 99]) := by decide

/-- outside the domain: a header value with CRLF injects a header line -/
example : ¬ HdrOk ([97], [98, 13, 10, 99]) := by decide

def sampleResp : Resp :=
  { proto := [82, 84, 83, 80], version := [49, 46, 48], code := 200, message := [79, 75],
    headers := [([67, 83, 101, 113], [49, 50]), ([115, 69, 82, 86, 69, 82], [122])],   -- "sERVER: z"
    body := [104, 105] }

example : RespOk sampleResp := by decide
example : parseResp (fmtResp sampleResp) = .ok { sampleResp with headers := sampleResp.headers ++ [(kContentLength, [50])] } [] := by
  have := response_roundtrip sampleResp [] (by decide)
  simp only [List.append_nil] at this
  rw [this]; decide +kernel

/-- status codes keep their value through decimal text, including 0 and multi-digit ones -/
example : decVal (natToDec 0) = 0 ∧ decVal (natToDec 404) = 404 ∧ natToDec 1000 = [49, 48, 48, 48] := by decide +kernel

end PyatvModel.Props.C04Http
