import PyatvModel.C06.Lemmas
import PyatvModel.C06.Sym
/-
C06 — a device is trusted only if it proves the paired identity.

Property theorems only (helpers: PyatvModel/C06/Lemmas.lean).  `C : Crypto` is ARBITRARY in
every theorem: X25519, HKDF, ChaCha20-Poly1305 and Ed25519 may be any functions — the claims
are about the decision logic of `SRPAuthHandler.verify1` and its three call sites, for EVERY
reply (every TLV lookup is an `Option`; missing, duplicated, truncated fields included).

* `keys_only_if_verified`   keys are installed ONLY IF the reply, opened under the session key
                            derived from this session's X25519 exchange, carries exactly the
                            stored identifier and a signature that verifies under the stored
                            long-term key over  session_pub ‖ identifier ‖ own_session_pub;
                            and the keys are the ones derived from that same exchange.
* `keys_iff_connected`      encryption is on ⇔ the connect call returned.
* `reject_maps_to_auth`     MRP / Companion: any other reply ⇒ AuthenticationError, no keys.
* `reject_airplay`          AirPlay (`verify_connection`, no error mapping): any other reply ⇒
                            an exception of one of six listed classes, no keys.
* `bad_ack_rejected`        MRP / Companion (repaired tree): an M4 reply that is malformed,
                            carries an Error item or a SeqNo other than 4 ⇒ AuthenticationError,
                            no keys — even after a proving M2.
* `accept_installs_keys`    converse (non-vacuity of the above): a proving reply that is
                            acknowledged is accepted.
* `enable_only_after_verify` in the sequence of actions `enable_encryption` happens at most
                            once, last, after M3 was sent, with the keys of `keys_only_if_verified`.
* `trusted_only_if_signed`, `unsigned_reply_rejected`  the property's wording under an explicit
                            unforgeability (Dolev-Yao) hypothesis for the stored key.
* `readTlv_fuel_irrelevant` the fuel used to define `read_tlv`'s recursion never runs out.
-/
namespace PyatvModel.Props.C06
open PyatvModel.C06 PyatvModel.Gen.C06

section
variable (C : Crypto) (t : Transport) (cr : Creds) (cl : Client) (r : Reply)

/-- **C06, soundness.**  Whatever the reply and whatever the crypto functions: if encryption
    keys were installed then the reply's pairing data parsed (`outer`), carried a session key
    `pub` and ciphertext `enc`; `enc` opened under HKDF(X25519(own_priv, pub)) with nonce
    "PV-Msg02" to a TLV whose Identifier is exactly the stored `atv_id` and whose Signature
    verifies under the stored `ltpk` over `pub ‖ atv_id ‖ own_pub`; the installed keys are
    the transport's HKDF outputs over that same shared secret; M2 carried no Error item; and the
    exchange of M3 returned an M4 reply which — on MRP and Companion — parsed, carried no Error
    item and SeqNo = 4 (AirPlay's `verify_credentials` does not look at M4). -/
theorem keys_only_if_verified (k : Bytes × Bytes) (h : (connect C t cr cl r).keys = some k) :
    ∃ outer pub enc shared plain tlv sig,
      getPairingData t r.pd = .ok outer ∧
      outer.lookup tagPublicKey = some pub ∧
      outer.lookup tagEncryptedData = some enc ∧
      C.x25519 cl.ownPriv pub = some shared ∧
      C.aeadOpen (C.hkdf pvSalt pvInfo shared) msg02 enc = some plain ∧
      readTlv plain = some tlv ∧
      tlv.lookup tagIdentifier = some cr.atvId ∧
      tlv.lookup tagSignature = some sig ∧
      C.edVerify cr.ltpk (pub ++ cr.atvId ++ cl.ownPub) sig = true ∧
      k = transportKeys C t shared ∧
      outer.lookup tagError = none ∧
      ∃ pd4, r.m4 = .reply pd4 ∧
        (t ≠ .airplay → ∃ tlv4, getPairingData t pd4 = .ok tlv4 ∧
          tlv4.lookup tagError = none ∧ tlv4.lookup tagSeqNo = some [4]) := by
  unfold connect at h
  split at h
  · simp at h
  · rename_i tr shared hv
    have hv2 : (verifyCredentials C t cr cl r).2 = .ok shared := by rw [hv]
    obtain ⟨hack, pub, enc, ⟨outer, h1, h2, h3⟩, hx, plain, tlv, sig, h4, h5, h6, h7, _, h9⟩ :=
      verifyCredentials_ok hv2
    simp only [Option.some.injEq] at h
    exact ⟨outer, pub, enc, shared, plain, tlv, sig, h1, h2, h3, hx, h4, h5, h6, h7, h9, h.symm,
      getPairingData_ok_no_error h1, hack⟩

/-- **C06, callers that never derive keys** (`AirPlayV1.setup`, `AirPlayV1.play_url`, any user of
    `PairVerifyProcedure.verify_credentials()` that takes its return as the verdict): pair-verify
    itself succeeds only if the reply proves the paired identity — the signature is checked
    before `verify_credentials` returns, not when keys are derived. -/
theorem verify_succeeds_only_if_verified (shared : Bytes)
    (h : (verifyCredentials C t cr cl r).2 = .ok shared) :
    ∃ outer pub enc plain tlv sig,
      getPairingData t r.pd = .ok outer ∧
      outer.lookup tagPublicKey = some pub ∧
      outer.lookup tagEncryptedData = some enc ∧
      C.x25519 cl.ownPriv pub = some shared ∧
      C.aeadOpen (C.hkdf pvSalt pvInfo shared) msg02 enc = some plain ∧
      readTlv plain = some tlv ∧
      tlv.lookup tagIdentifier = some cr.atvId ∧
      tlv.lookup tagSignature = some sig ∧
      C.edVerify cr.ltpk (pub ++ cr.atvId ++ cl.ownPub) sig = true := by
  obtain ⟨_, pub, enc, ⟨outer, h1, h2, h3⟩, hx, plain, tlv, sig, h4, h5, h6, h7, _, h9⟩ :=
    verifyCredentials_ok h
  exact ⟨outer, pub, enc, plain, tlv, sig, h1, h2, h3, hx, h4, h5, h6, h7, h9⟩

/-- … and any other reply makes `verify_credentials()` itself raise (a check failure; the
    exchange of M3 is not even attempted: no `sendM3` in the sequence of actions). -/
theorem verify_rejects_other_replies (h : ¬ Accepted C t cr cl r) :
    ∃ e, (verifyCredentials C t cr cl r).2 = .error e ∧ e.isCheckFailure = true ∧
      ∀ ev ∈ (verifyCredentials C t cr cl r).1, ev.isSendM3 = false := by
  cases hv : (verifyCredentials C t cr cl r).2 with
  | ok shared =>
    obtain ⟨_, pub, enc, hc, hp⟩ := verifyCredentials_ok hv
    exact absurd ⟨pub, enc, shared, hc, hp⟩ h
  | error e =>
    rcases verifyCredentials_err hv with ⟨h1, _, _⟩ | ⟨_, hacc⟩
    · exact ⟨e, rfl, h1, no_m3_unless_accepted h⟩
    · exact absurd hacc h

/-- the same, through the declarative predicate used by the other theorems -/
theorem keys_only_if_accepted (k : Bytes × Bytes) (h : (connect C t cr cl r).keys = some k) :
    Accepted C t cr cl r ∧ AckOk t r := by
  unfold connect at h
  split at h
  · simp at h
  · rename_i tr shared hv
    have hv2 : (verifyCredentials C t cr cl r).2 = .ok shared := by rw [hv]
    obtain ⟨hack, pub, enc, hc, hp⟩ := verifyCredentials_ok hv2
    exact ⟨⟨pub, enc, shared, hc, hp⟩, hack⟩

/-- **C06, "succeeds — and encryption is switched on".**  Keys are installed iff the connect
    call returned; a failed connect leaves the connection without keys. -/
theorem keys_iff_connected :
    (connect C t cr cl r).keys.isSome = true ↔ (connect C t cr cl r).result = .ok () := by
  unfold connect
  split <;> simp

/-- **C06, rejection (MRP, Companion).**  Any reply that does not prove the paired identity
    makes the connect call raise `AuthenticationError` and installs no keys. -/
theorem reject_maps_to_auth (ht : t ≠ .airplay) (h : ¬ Accepted C t cr cl r) :
    (connect C t cr cl r).result = .error .AuthenticationError ∧
      (connect C t cr cl r).keys = none := by
  unfold connect
  split
  · rename_i tr e hv
    have hv2 : (verifyCredentials C t cr cl r).2 = .error e := by rw [hv]
    rcases verifyCredentials_err hv2 with ⟨_, _, h3⟩ | ⟨_, hacc⟩
    · refine ⟨?_, rfl⟩
      have := h3 ht
      cases t <;> simp_all [mapErr]
    · exact absurd hacc h
  · rename_i tr shared hv
    have hv2 : (verifyCredentials C t cr cl r).2 = .ok shared := by rw [hv]
    obtain ⟨_, pub, enc, hc, hp⟩ := verifyCredentials_ok hv2
    exact absurd ⟨pub, enc, shared, hc, hp⟩ h

/-- **C06, rejection (AirPlay `verify_connection`).**  No error mapping exists there: the call
    raises one of these six classes (AuthenticationError only for a wrong identifier or
    signature) — and installs no keys. -/
theorem reject_airplay (h : ¬ Accepted C .airplay cr cl r) :
    (∃ c ∈ [ExcClass.AuthenticationError, .KeyError, .IndexError, .ValueError, .InvalidTag,
        .InvalidResponseError], (connect C .airplay cr cl r).result = .error c) ∧
      (connect C .airplay cr cl r).keys = none := by
  unfold connect
  split
  · rename_i tr e hv
    have hv2 : (verifyCredentials C .airplay cr cl r).2 = .error e := by rw [hv]
    rcases verifyCredentials_err hv2 with ⟨_, h2, _⟩ | ⟨_, hacc⟩
    · exact ⟨⟨e.cls, h2 rfl, rfl⟩, rfl⟩
    · exact absurd hacc h
  · rename_i tr shared hv
    have hv2 : (verifyCredentials C .airplay cr cl r).2 = .ok shared := by rw [hv]
    obtain ⟨_, pub, enc, hc, hp⟩ := verifyCredentials_ok hv2
    exact absurd ⟨pub, enc, shared, hc, hp⟩ h

/-- **C06, M4 acknowledgement (MRP, Companion; repaired tree).**  Even after an M2 that proves
    the paired identity: if the M4 reply does not parse, carries an Error item or has a SeqNo
    other than 4, the connect call raises `AuthenticationError` and installs no keys. -/
theorem bad_ack_rejected (ht : t ≠ .airplay) (pd4 : Pd) (hm : r.m4 = .reply pd4)
    (hbad : ¬ ∃ tlv4, getPairingData t pd4 = .ok tlv4 ∧
      tlv4.lookup tagError = none ∧ tlv4.lookup tagSeqNo = some [4]) :
    (connect C t cr cl r).result = .error .AuthenticationError ∧
      (connect C t cr cl r).keys = none := by
  unfold connect
  split
  · rename_i tr e hv
    have hv2 : (verifyCredentials C t cr cl r).2 = .error e := by rw [hv]
    rcases verifyCredentials_err hv2 with ⟨_, _, h3⟩ | ⟨hr, _⟩
    · refine ⟨?_, rfl⟩
      have := h3 ht
      cases t <;> simp_all [mapErr]
    · rw [hm] at hr; cases hr
  · rename_i tr shared hv
    have hv2 : (verifyCredentials C t cr cl r).2 = .ok shared := by rw [hv]
    obtain ⟨⟨pd4', hm', hck⟩, _⟩ := verifyCredentials_ok hv2
    rw [hm] at hm'
    cases hm'
    exact absurd (hck ht) hbad

/-- **C06, converse.**  A reply that proves the paired identity and is acknowledged (M4) is
    accepted (given that the client can sign M3): connect returns and installs the keys
    derived from the session's shared secret. -/
theorem accept_installs_keys (pub enc shared dsig : Bytes)
    (hc : Carries t r.pd pub enc) (hp : Proves C cr cl pub enc shared)
    (hs : C.edSign cr.ltsk (cl.ownPub ++ cr.clientId ++ pub) = some dsig) (hm : AckOk t r) :
    (connect C t cr cl r).result = .ok () ∧
      (connect C t cr cl r).keys = some (transportKeys C t shared) := by
  obtain ⟨outer, h1, h2, h3⟩ := hc
  have hv := verify1_complete hp hs
  have : (verifyCredentials C t cr cl r).2 = .ok shared := by
    unfold verifyCredentials
    rw [h1]; dsimp only; rw [h2]; dsimp only; rw [h3]; dsimp only
    split
    · rename_i hv'; rw [hv'] at hv; simp at hv
    · rename_i tr sh m3 hv'
      rw [hv'] at hv
      simp only [Except.ok.injEq, Prod.mk.injEq] at hv
      obtain ⟨pd4, hm4, hck⟩ := hm
      rw [hm4]; dsimp only; rw [checkM4_complete hck]; simp [hv.1]
  unfold connect
  split
  · rename_i hv'; rw [hv'] at this; simp at this
  · rename_i tr sh hv'
    rw [hv'] at this
    simp only [Except.ok.injEq] at this
    subst this
    exact ⟨rfl, rfl⟩

/-- **C06, ordering.**  If `enable_encryption` / `HAPSession.enable` occurs in the sequence of
    actions at all, it is the last action, occurs once, comes after M3 was sent (i.e. after
    every check of `verify1` passed), the connect call returns, and its arguments are the keys
    of `keys_only_if_verified`. -/
theorem enable_only_after_verify (o i : Bytes)
    (h : Ev.enable o i ∈ (connect C t cr cl r).trace) :
    (connect C t cr cl r).keys = some (o, i) ∧ (connect C t cr cl r).result = .ok () ∧
      ∃ pre, (connect C t cr cl r).trace = pre ++ [Ev.enable o i] ∧
        (∀ ev ∈ pre, ev.isEnable = false) ∧ ∃ m3, Ev.sendM3 m3 ∈ pre := by
  have hno := verifyCredentials_trace_no_enable C t cr cl r
  unfold connect at h ⊢
  split at h
  · rename_i tr e hv
    rw [hv] at hno
    have := hno _ h
    simp [Ev.isEnable] at this
  · rename_i tr shared hv
    rw [hv] at hno
    have hv2 : (verifyCredentials C t cr cl r).2 = .ok shared := by rw [hv]
    obtain ⟨m3, hm3⟩ := verifyCredentials_ok_sent_m3 hv2
    rw [hv] at hm3
    simp only [List.mem_append, List.mem_cons, List.not_mem_nil, or_false] at h
    rcases h with h | h | h | h
    · have := hno _ h
      simp [Ev.isEnable] at this
    · cases h
    · cases h
    · simp only [Ev.enable.injEq] at h
      obtain ⟨rfl, rfl⟩ := h
      refine ⟨rfl, rfl, tr ++ [.hkdf (kdfParams t).1 (kdfParams t).2.1 shared,
        .hkdf (kdfParams t).1 (kdfParams t).2.2 shared], by simp, ?_, m3, ?_⟩
      · intro ev hev
        simp only [List.mem_append, List.mem_cons, List.not_mem_nil, or_false] at hev
        rcases hev with hev | hev | hev
        · exact hno _ hev
        · subst hev; rfl
        · subst hev; rfl
      · exact List.mem_append_left _ hm3

/-! ### The property's wording, under an explicit unforgeability hypothesis

`signedBy pk msg` is read "the holder of the private key belonging to `pk` produced a
signature on `msg`".  The law `hUF` (existential unforgeability, idealised à la Dolev-Yao) is a
HYPOTHESIS about Ed25519, not an axiom; nothing is assumed about X25519 / HKDF / the AEAD. -/

/-- **C06 as worded.**  Transport encryption is switched on only if the accessory's reply is
    signed by the long-term key stored in the credentials over both session public keys and
    carries the stored accessory identifier. -/
theorem trusted_only_if_signed (signedBy : Bytes → Bytes → Prop)
    (hUF : ∀ msg sig, C.edVerify cr.ltpk msg sig = true → signedBy cr.ltpk msg)
    (k : Bytes × Bytes) (h : (connect C t cr cl r).keys = some k) :
    ∃ outer pub enc shared plain tlv,
      getPairingData t r.pd = .ok outer ∧ outer.lookup tagPublicKey = some pub ∧
      outer.lookup tagEncryptedData = some enc ∧
      C.x25519 cl.ownPriv pub = some shared ∧
      C.aeadOpen (C.hkdf pvSalt pvInfo shared) msg02 enc = some plain ∧
      readTlv plain = some tlv ∧
      tlv.lookup tagIdentifier = some cr.atvId ∧
      signedBy cr.ltpk (pub ++ cr.atvId ++ cl.ownPub) := by
  obtain ⟨outer, pub, enc, shared, plain, tlv, sig, h1, h2, h3, h4, h5, h6, h7, _, h9, _, _, _⟩ :=
    keys_only_if_verified C t cr cl r k h
  exact ⟨outer, pub, enc, shared, plain, tlv, h1, h2, h3, h4, h5, h6, h7, hUF _ _ h9⟩

/-- **C06, forged / replayed replies.**  If the holder of the stored key never signed
    `pub ‖ atv_id ‖ own_pub` for the session key `pub` the reply carries (a signature by another
    accessory's key, a signature over another session's keys, an altered signature …), no keys
    are installed, and MRP / Companion raise AuthenticationError. -/
theorem unsigned_reply_rejected (signedBy : Bytes → Bytes → Prop)
    (hUF : ∀ msg sig, C.edVerify cr.ltpk msg sig = true → signedBy cr.ltpk msg)
    (hforged : ∀ outer pub, getPairingData t r.pd = .ok outer →
      outer.lookup tagPublicKey = some pub → ¬ signedBy cr.ltpk (pub ++ cr.atvId ++ cl.ownPub)) :
    (connect C t cr cl r).keys = none ∧
      (t ≠ .airplay → (connect C t cr cl r).result = .error .AuthenticationError) := by
  have hna : ¬ Accepted C t cr cl r := by
    rintro ⟨pub, enc, shared, ⟨outer, h1, h2, _⟩, _, plain, tlv, sig, _, _, _, _, _, hver⟩
    exact hforged outer pub h1 h2 (hUF _ _ hver)
  constructor
  · cases hk : (connect C t cr cl r).keys with
    | none => rfl
    | some k => exact absurd (keys_only_if_accepted C t cr cl r k hk).1 hna
  · intro ht
    exact (reject_maps_to_auth C t cr cl r ht hna).1

end

/-- **C06, credential selection.**  Stored HAP credentials are what AirPlay verifies with, whatever
    the peer advertises; HAP credentials are never selected unless they are the stored ones. -/
theorem stored_hap_credentials_always_selected (cr : Creds) (adv : Bool) :
    extractCredentials (.hap cr) adv = .hap cr := rfl

theorem selected_hap_only_if_stored (s : Stored) (adv : Bool) (cr : Creds)
    (h : extractCredentials s adv = .hap cr) : s = .hap cr := by
  cases s <;> simp [extractCredentials] at h
  · split at h <;> cases h
  · rw [h]

/-- … so with HAP credentials stored, keys on the AirPlay connection still imply that the reply
    proved the paired identity, for every advertised feature set. -/
theorem stored_hap_keys_only_if_accepted (C : Crypto) (cr : Creds) (adv : Bool) (cl : Client) (r : Reply)
    (k : Bytes × Bytes)
    (h : (match extractCredentials (.hap cr) adv with
          | .hap c => (connect C .airplay c cl r).keys
          | _ => none) = some k) :
    Accepted C .airplay cr cl r ∧ AckOk .airplay r :=
  keys_only_if_accepted C .airplay cr cl r k h

/-- the recursion fuel of `readTlv` is never exhausted -/
theorem readTlv_fuel_irrelevant (b : Bytes) (acc : Tlv) (f : Nat) (h : b.length ≤ f) :
    readTlvAux f b acc = readTlvAux b.length b acc :=
  readTlvAux_fuel f b.length b acc h (Nat.le_refl _)

/-! ## Non-vacuity (symbolic crypto instance, concrete bytes) -/

def exCreds : Creds :=
  { ltpk := symPub (List.replicate 32 7), ltsk := List.replicate 32 9,
    atvId := [0x41, 0x42, 0x43, 0x44], clientId := [0x63, 0x6c, 0x69] }

def exClient : Client := { ownPriv := List.replicate 32 1, ownPub := List.replicate 32 2 }

def exPub : Bytes := List.replicate 32 3

/-- M2 of an accessory holding the key `replicate 32 k` that announces identifier `ident` -/
def exReply (k : UInt8) (ident : Bytes) : Reply :=
  let shared := (symCrypto.x25519 exClient.ownPriv exPub).getD []
  let sig := symSig (symPub (List.replicate 32 k)) (exPub ++ ident ++ exClient.ownPub)
  let enc := symCrypto.aeadSeal (symCrypto.hkdf pvSalt pvInfo shared) msg02
    (writeTlv [(tagIdentifier, ident), (tagSignature, sig)])
  { pd := .bytes (writeTlv [(tagSeqNo, [2]), (tagPublicKey, exPub), (tagEncryptedData, enc)]),
    m4 := .reply (.bytes (writeTlv [(tagSeqNo, [4])])) }

/-- the honest reply (right key, right identifier) installs keys on every transport … -/
example : ∀ t, ((connect symCrypto t exCreds exClient (exReply 7 exCreds.atvId)).keys.isSome
    && (connect symCrypto t exCreds exClient (exReply 7 exCreds.atvId)).trace.length == 13) = true := by
  intro t; cases t <;> decide +kernel

/-- … so `Accepted` (hypothesis of `accept_installs_keys`, negated in the reject theorems) is
    satisfiable by a multi-fragment reply (the ciphertext spans two TLV fragments) … -/
example : Accepted symCrypto .mrp exCreds exClient (exReply 7 exCreds.atvId) ∧
    AckOk .mrp (exReply 7 exCreds.atvId) :=
  keys_only_if_accepted _ _ _ _ _ _
    (Option.get_mem (by decide +kernel :
      (connect symCrypto .mrp exCreds exClient (exReply 7 exCreds.atvId)).keys.isSome = true))

/-- … the hypothesis of `bad_ack_rejected` is met by the honest M2 followed by an M4 carrying
    an Error item, or SeqNo 5: no keys on MRP and Companion, while AirPlay (which ignores M4)
    still accepts. -/
example :
    let bad (pd4 : Bytes) : Reply := { (exReply 7 exCreds.atvId) with m4 := .reply (.bytes pd4) }
    (connect symCrypto .mrp exCreds exClient (bad (writeTlv [(tagSeqNo, [4]), (tagError, [2])]))).keys = none ∧
    (connect symCrypto .companion exCreds exClient (bad (writeTlv [(tagSeqNo, [5])]))).keys = none ∧
    (connect symCrypto .airplay exCreds exClient (bad (writeTlv [(tagSeqNo, [5])]))).keys.isSome = true := by
  decide +kernel

/-- … a valid signature by a different key, and the right key over another identifier, are
    not accepted (hypothesis of `reject_maps_to_auth` / `reject_airplay` is met non-trivially:
    these replies pass every check up to the identifier / signature). -/
example : ∀ t, (connect symCrypto t exCreds exClient (exReply 8 exCreds.atvId)).keys = none ∧
    (connect symCrypto t exCreds exClient (exReply 7 [0x41, 0x42, 0x43])).keys = none := by
  intro t; cases t <;> decide +kernel

example : ¬ Accepted symCrypto .companion exCreds exClient (exReply 8 exCreds.atvId) := by
  intro h
  obtain ⟨pub, enc, shared, hc, hp⟩ := h
  have hs : symCrypto.edSign exCreds.ltsk (exClient.ownPub ++ exCreds.clientId ++ pub)
      = some (symSig (symPub exCreds.ltsk) (exClient.ownPub ++ exCreds.clientId ++ pub)) := by
    simp [symCrypto, exCreds]
  have hack : AckOk .companion (exReply 8 exCreds.atvId) :=
    ⟨_, rfl, fun _ => ⟨[(tagSeqNo, [4])], by rfl, by decide +kernel, by decide +kernel⟩⟩
  have hk := (accept_installs_keys symCrypto .companion exCreds exClient _ pub enc shared _ hc hp hs hack).2
  have hn : (connect symCrypto .companion exCreds exClient (exReply 8 exCreds.atvId)).keys = none := by
    decide +kernel
  rw [hn] at hk
  cases hk

/-- the unforgeability law is satisfiable: for the symbolic instance, "signed" = the signature
    token was built from that key and message -/
example : ∀ msg sig, symCrypto.edVerify exCreds.ltpk msg sig = true →
    (fun pk m => ∃ s, s = symSig pk m) exCreds.ltpk msg :=
  fun _ _ _ => ⟨_, rfl⟩

end PyatvModel.Props.C06
