import PyatvModel.C06.Model
namespace PyatvModel.Props.C06
open PyatvModel.C06

theorem placeholder : True := trivial

end PyatvModel.Props.C06
