import PyatvModel.C07.Lemmas
import PyatvModel.C07.Driver
/-
C07 — encrypted channels deliver exactly what was sent, or fail.

The AEAD (ChaCha20-Poly1305) is a parameter `A : Aead`.  Laws are explicit hypotheses:
* `Laws A` — correctness (`open (seal p) = p`) and the 16-byte tag length;
* `Auth …`  — authenticity in Dolev-Yao form: under the session key only what the sender
  sealed opens (used only by the tamper theorems).
No law is needed for the nonce/frame-size facts.
-/
namespace PyatvModel.Props.C07
open PyatvModel PyatvModel.C07

structure Laws (A : Aead) : Prop where
  open_seal : ∀ k n a p, A.aopen k n a (A.aseal k n a p) = some p
  seal_len : ∀ k n a p, (A.aseal k n a p).length = p.length + AUTH_TAG_LENGTH

/-! ## Nonces: one counter value, one nonce; every default-nonce call moves the counter -/

/-- **no nonce reuse**: two counter values that both yield a nonce yield different ones
    (counters that no longer fit raise instead of wrapping: `nonce? = none`). -/
theorem nonce_injective (k : NonceKind) (c c' : Nat) (n : Bytes)
    (h : nonce? k c = some n) (h' : nonce? k c' = some n) : c = c' :=
  nonce_inj k c c' n h h'

/-- every successful `encrypt` seals under the nonce of the current counter and leaves
    the counter strictly larger -/
theorem encrypt_uses_counter (A : Aead) (key : Bytes) (k : NonceKind) (c : Nat) (aad pt ct : Bytes)
    (c' : Nat) (h : encrypt A key k c aad pt = .ok (ct, c')) :
    ∃ n, nonce? k c = some n ∧ ct = A.aseal key n aad pt ∧ c' = c + 1 := by
  unfold encrypt at h
  split at h
  · contradiction
  · rename_i n hn
    injection h with h; injection h with h1 h2
    exact ⟨n, hn, h1.symm, h2.symm⟩

/-- the receive counter moves on every attempted open, successful or not -/
theorem decrypt_advances (A : Aead) (key : Bytes) (k : NonceKind) (c : Nat) (aad ct n : Bytes)
    (hn : nonce? k c = some n) : (decrypt A key k c aad ct).2 = c + 1 := by
  unfold decrypt; rw [hn]; dsimp only; split <;> rfl

/-! ## HAP framing: frame size, count, round trip -/

/-- frames never exceed the 1024-byte maximum (and are never empty) -/
theorem hap_frame_bound (data f : Bytes) (hf : f ∈ frames FRAME_LENGTH data) :
    0 < f.length ∧ f.length ≤ 1024 :=
  frames_mem_length FRAME_LENGTH (by decide) data f hf

theorem hap_frame_count (data : Bytes) :
    (frames FRAME_LENGTH data).length = (data.length + 1023) / 1024 := by
  have := frames_length FRAME_LENGTH (by decide) data
  simpa [FRAME_LENGTH] using this

theorem hap_frames_join (data : Bytes) : (frames FRAME_LENGTH data).flatten = data :=
  frames_flatten FRAME_LENGTH (by decide) data

/-- encrypting `fs` from counter `c` consumes exactly `fs.length` counter values -/
theorem hapEncryptFrames_counter (A : Aead) (key : Bytes) (fs : List Bytes) :
    ∀ c w c', hapEncryptFrames A key c fs = .ok (w, c') → c' = c + fs.length := by
  induction fs with
  | nil => intro c w c' h; simp [hapEncryptFrames] at h; simp [h.2]
  | cons f fs ih =>
    intro c w c' h
    simp only [hapEncryptFrames] at h
    split at h
    · contradiction
    · rename_i ct c1 he
      obtain ⟨n, _, _, hc1⟩ := encrypt_uses_counter A key .n8 c _ _ ct c1 he
      split at h
      · contradiction
      · rename_i rest c2 hr
        injection h with h; injection h with _ h2
        have := ih c1 rest c2 hr
        simp only [List.length_cons]; omega

/-- general round trip: whatever follows the sender's bytes and whatever was decoded
    before, the receiver (same counter) decodes exactly the sender's frames. -/
theorem hap_roundtrip_gen (A : Aead) (hA : Laws A) (key : Bytes) (fs : List Bytes)
    (hfs : ∀ f ∈ fs, f.length < 65536) :
    ∀ c w c' rest acc, hapEncryptFrames A key c fs = .ok (w, c') →
      hapDecryptLoop A key c (w ++ rest) acc = hapDecryptLoop A key c' rest (acc ++ fs) := by
  induction fs with
  | nil =>
    intro c w c' rest acc h
    simp [hapEncryptFrames] at h
    obtain ⟨rfl, rfl⟩ := h
    simp
  | cons f fs ih =>
    intro c w c' rest acc h
    simp only [hapEncryptFrames] at h
    split at h
    · contradiction
    · rename_i ct c1 he
      obtain ⟨n, hn, hct, hc1⟩ := encrypt_uses_counter A key .n8 c _ _ ct c1 he
      split at h
      · contradiction
      · rename_i w' c2 hr
        injection h with h; injection h with h1 h2
        subst h1; subst h2
        have hflen : f.length < 65536 := hfs f (by simp)
        have hlen : (leBytes 2 f.length).length = 2 := leBytes_length 2 _
        have hval : leVal (leBytes 2 f.length) = f.length := leVal_leBytes 2 _ (by simpa using hflen)
        have hblock : ct.length = leVal (leBytes 2 f.length) + AUTH_TAG_LENGTH := by
          rw [hct, hA.seal_len, hval]
        have hdec : decrypt A key .n8 c (leBytes 2 f.length) ct = (.ok f, c1) := by
          unfold decrypt; rw [hn]; dsimp only; rw [hct, hA.open_seal, hc1]
        have hassoc : leBytes 2 f.length ++ ct ++ w' ++ rest = leBytes 2 f.length ++ ct ++ (w' ++ rest) := by
          simp [List.append_assoc]
        rw [hassoc, hapLoop_step A key c _ ct (w' ++ rest) acc hlen hblock, hdec]
        dsimp only
        rw [ih (fun g hg => hfs g (by simp [hg])) c1 w' c2 rest (acc ++ [f]) hr]
        simp [List.append_assoc]

/-- **HAP round trip.**  For every message and counter, the receiver holding the matching
    key and counter recovers exactly the plaintext, frame by frame, and is left with an
    empty buffer and the sender's counter. -/
theorem hap_roundtrip (A : Aead) (hA : Laws A) (key : Bytes) (c : Nat) (data w : Bytes) (c' : Nat)
    (h : hapEncrypt A key c data = .ok (w, c')) :
    hapDecryptLoop A key c w [] = ⟨frames FRAME_LENGTH data, [], c', none⟩ ∧
      (frames FRAME_LENGTH data).flatten = data ∧ c' = c + (data.length + 1023) / 1024 := by
  unfold hapEncrypt at h
  have hfs : ∀ f ∈ frames FRAME_LENGTH data, f.length < 65536 := by
    intro f hf; have := (hap_frame_bound data f hf).2; omega
  have := hap_roundtrip_gen A hA key _ hfs c w c' [] [] h
  simp only [List.append_nil, List.nil_append] at this
  refine ⟨?_, hap_frames_join data, ?_⟩
  · rw [this, hapDecryptLoop]; simp
  · rw [hapEncryptFrames_counter A key _ c w c' h, hap_frame_count]

/-! ## HAP: a whole session (any number of messages under one running counter) -/

/-- `HAPSession.encrypt` called once per message, the outputs written to the transport in
    the order of the calls (what `HttpConnection.send_and_receive` does: seal and write in
    one step, with no suspension point between the two). -/
def hapEncryptMany (A : Aead) (key : Bytes) : Nat → List Bytes → Except Err (Bytes × Nat)
  | c, [] => .ok ([], c)
  | c, m :: ms =>
    match hapEncrypt A key c m with
    | .error e => .error e
    | .ok (w, c') =>
      match hapEncryptMany A key c' ms with
      | .error e => .error e
      | .ok (rest, c'') => .ok (w ++ rest, c'')

theorem hap_session_gen (A : Aead) (hA : Laws A) (key : Bytes) (ms : List Bytes) :
    ∀ c w c' rest acc, hapEncryptMany A key c ms = .ok (w, c') →
      hapDecryptLoop A key c (w ++ rest) acc =
        hapDecryptLoop A key c' rest (acc ++ (ms.map (frames FRAME_LENGTH)).flatten) := by
  induction ms with
  | nil =>
    intro c w c' rest acc h
    simp [hapEncryptMany] at h
    obtain ⟨rfl, rfl⟩ := h
    simp
  | cons m ms ih =>
    intro c w c' rest acc h
    simp only [hapEncryptMany] at h
    split at h
    · contradiction
    · rename_i w1 c1 he
      split at h
      · contradiction
      · rename_i w2 c2 hr
        injection h with h; injection h with h1 h2
        subst h1; subst h2
        have hfs : ∀ f ∈ frames FRAME_LENGTH m, f.length < 65536 := by
          intro f hf; have := (hap_frame_bound m f hf).2; omega
        unfold hapEncrypt at he
        rw [List.append_assoc, hap_roundtrip_gen A hA key _ hfs c w1 c1 (w2 ++ rest) acc he,
          ih c1 w2 c2 rest _ hr]
        simp [List.append_assoc]

theorem frames_map_flatten (ms : List Bytes) :
    ((ms.map (frames FRAME_LENGTH)).flatten).flatten = ms.flatten := by
  induction ms with
  | nil => simp
  | cons m ms ih =>
    simp only [List.map_cons, List.flatten_cons, List.flatten_append, hap_frames_join, ih]

/-- **HAP session round trip (long message sequences).**  Whatever number of messages of
    whatever sizes the sender seals one after the other from counter `c`, the receiver with
    the matching key and counter, reading the concatenated stream, recovers exactly the
    messages' bytes in order, with nothing left over, no error, and the sender's counter. -/
theorem hap_session_roundtrip (A : Aead) (hA : Laws A) (key : Bytes) (c : Nat) (ms : List Bytes)
    (w : Bytes) (c' : Nat) (h : hapEncryptMany A key c ms = .ok (w, c')) :
    ∃ out, hapDecryptLoop A key c w [] = ⟨out, [], c', none⟩ ∧ out.flatten = ms.flatten := by
  refine ⟨(ms.map (frames FRAME_LENGTH)).flatten, ?_, ?_⟩
  · have := hap_session_gen A hA key ms c w c' [] [] h
    simp only [List.append_nil, List.nil_append] at this
    rw [this, hapDecryptLoop]; simp
  · exact frames_map_flatten ms

/-- the session theorem's premise is met by a concrete two-message session (toy AEAD) -/
example : (match hapEncryptMany toyAead [7] 5 [[1, 2, 3], [], [9]] with
    | .ok (_, c') => c' == 7
    | .error _ => false) = true := by decide +kernel

/-! ## HAP: any segmentation of the byte stream -/

/-- continuation: if the loop on `b` stops without error, the loop on `b ++ x` is the loop
    on what was left, with what was decoded so far. -/
theorem hapLoop_append (A : Aead) (key : Bytes) (c : Nat) (b : Bytes) (acc : List Bytes) (x : Bytes) :
    (hapDecryptLoop A key c b acc).err = none →
    hapDecryptLoop A key c (b ++ x) acc =
      hapDecryptLoop A key (hapDecryptLoop A key c b acc).ctr
        ((hapDecryptLoop A key c b acc).buf ++ x) (hapDecryptLoop A key c b acc).out := by
  fun_induction hapDecryptLoop A key c b acc with
  | case1 c acc => intro _; rfl
  | case2 c b acc hb length blockLen hshort => intro _; rfl
  | case3 c b acc hb length blockLen hlong block e c' hd => intro h; simp at h
  | case4 c b acc hb length blockLen hlong block p c' hd ih =>
    intro herr
    have ih := ih herr
    have hlen2 : 2 ≤ b.length := by simp only [blockLen, AUTH_TAG_LENGTH] at hlong; omega
    have hsplit : b ++ x = b.take 2 ++ (b.drop 2).take blockLen ++ (b.drop (2 + blockLen) ++ x) := by
      have e1 : b = b.take 2 ++ (b.drop 2).take blockLen ++ b.drop (2 + blockLen) := by
        rw [List.append_assoc, ← List.drop_drop, List.take_append_drop, List.take_append_drop]
      conv => lhs; rw [e1]
      simp [List.append_assoc]
    have hl : (b.take 2).length = 2 := by simp [List.length_take]; omega
    have hbl : ((b.drop 2).take blockLen).length = leVal (b.take 2) + AUTH_TAG_LENGTH := by
      simp only [List.length_take, List.length_drop]
      simp only [blockLen, length, AUTH_TAG_LENGTH] at hlong ⊢
      omega
    rw [hsplit, hapLoop_step A key c _ _ _ acc hl hbl]
    have hd' : decrypt A key .n8 c (b.take 2) ((b.drop 2).take blockLen) = (.ok p, c') := hd
    rw [hd']
    dsimp only
    exact ih

/-- an error on a prefix of the stream is the same error on the whole stream -/
theorem hapLoop_append_err (A : Aead) (key : Bytes) (c : Nat) (b : Bytes) (acc : List Bytes) (x : Bytes)
    (e : Err) : (hapDecryptLoop A key c b acc).err = some e →
      (hapDecryptLoop A key c (b ++ x) acc).err = some e := by
  fun_induction hapDecryptLoop A key c b acc with
  | case1 c acc => intro h; simp at h
  | case2 c b acc hb length blockLen hshort => intro h; simp at h
  | case3 c b acc hb length blockLen hlong block e' c' hd =>
    intro h
    have hlen2 : 2 ≤ b.length := by simp only [blockLen, AUTH_TAG_LENGTH] at hlong; omega
    have hsplit : b ++ x = b.take 2 ++ (b.drop 2).take blockLen ++ (b.drop (2 + blockLen) ++ x) := by
      have e1 : b = b.take 2 ++ (b.drop 2).take blockLen ++ b.drop (2 + blockLen) := by
        rw [List.append_assoc, ← List.drop_drop, List.take_append_drop, List.take_append_drop]
      conv => lhs; rw [e1]
      simp [List.append_assoc]
    have hl : (b.take 2).length = 2 := by simp [List.length_take]; omega
    have hbl : ((b.drop 2).take blockLen).length = leVal (b.take 2) + AUTH_TAG_LENGTH := by
      simp only [List.length_take, List.length_drop]
      simp only [blockLen, length, AUTH_TAG_LENGTH] at hlong ⊢
      omega
    rw [hsplit, hapLoop_step A key c _ _ _ acc hl hbl]
    have hd' : decrypt A key .n8 c (b.take 2) ((b.drop 2).take blockLen) = (.error e', c') := hd
    rw [hd']
    simpa using h
  | case4 c b acc hb length blockLen hlong block p c' hd ih =>
    intro h
    have ih := ih h
    have hlen2 : 2 ≤ b.length := by simp only [blockLen, AUTH_TAG_LENGTH] at hlong; omega
    have hsplit : b ++ x = b.take 2 ++ (b.drop 2).take blockLen ++ (b.drop (2 + blockLen) ++ x) := by
      have e1 : b = b.take 2 ++ (b.drop 2).take blockLen ++ b.drop (2 + blockLen) := by
        rw [List.append_assoc, ← List.drop_drop, List.take_append_drop, List.take_append_drop]
      conv => lhs; rw [e1]
      simp [List.append_assoc]
    have hl : (b.take 2).length = 2 := by simp [List.length_take]; omega
    have hbl : ((b.drop 2).take blockLen).length = leVal (b.take 2) + AUTH_TAG_LENGTH := by
      simp only [List.length_take, List.length_drop]
      simp only [blockLen, length, AUTH_TAG_LENGTH] at hlong ⊢
      omega
    rw [hsplit, hapLoop_step A key c _ _ _ acc hl hbl]
    have hd' : decrypt A key .n8 c (b.take 2) ((b.drop 2).take blockLen) = (.ok p, c') := hd
    rw [hd']
    exact ih

/-- state of a receiving session after a list of chunks, with everything decoded so far -/
def feedAll (A : Aead) (key : Bytes) : HapRes → List Bytes → HapRes
  | r, [] => r
  | r, x :: xs =>
    match r.err with
    | some _ => r
    | none => feedAll A key (hapDecryptLoop A key r.ctr (r.buf ++ x) r.out) xs

/-- **HAP segmentation independence.**  Delivering a byte stream in any chunks gives the
    frames, residual buffer and counter of delivering it at once (when the unsplit run
    raises no error). -/
theorem hap_segmentation (A : Aead) (key : Bytes) (chunks : List Bytes) :
    ∀ (c : Nat) (buf : Bytes) (acc : List Bytes),
      (hapDecryptLoop A key c (buf ++ chunks.flatten) acc).err = none →
      feedAll A key (hapDecryptLoop A key c buf acc) chunks
        = hapDecryptLoop A key c (buf ++ chunks.flatten) acc := by
  induction chunks with
  | nil => intro c buf acc _; simp [feedAll]
  | cons x xs ih =>
    intro c buf acc hne
    have hpre : (hapDecryptLoop A key c buf acc).err = none := by
      cases hcon : (hapDecryptLoop A key c buf acc).err with
      | none => rfl
      | some e =>
        have := hapLoop_append_err A key c buf acc (x :: xs).flatten e hcon
        rw [this] at hne; contradiction
    have hstep := hapLoop_append A key c buf acc x hpre
    simp only [feedAll, hpre]
    rw [← hstep]
    have hflat : buf ++ (x :: xs).flatten = (buf ++ x) ++ xs.flatten := by simp [List.append_assoc]
    rw [hflat] at hne ⊢
    exact ih c (buf ++ x) acc hne

/-! ## HAP: tampering never yields altered plaintext -/

/-- Authenticity (Dolev-Yao form) for a HAP direction: under the session key the only
    (nonce, plaintext) pairs that open are the ones the sender sealed, i.e. frame `i`
    under the nonce of counter `c0 + i`. -/
def HapAuth (A : Aead) (key : Bytes) (c0 : Nat) (sent : List Bytes) : Prop :=
  ∀ n a ct p, A.aopen key n a ct = some p →
    ∃ i, ∃ h : i < sent.length, nonce? .n8 (c0 + i) = some n ∧ p = sent[i]

theorem hap_tamper_gen (A : Aead) (key : Bytes) (c0 : Nat) (sent : List Bytes)
    (hAuth : HapAuth A key c0 sent) (c : Nat) (wire : Bytes) (acc : List Bytes) :
    ∀ j, c = c0 + j → ∃ m, (hapDecryptLoop A key c wire acc).out = acc ++ (sent.drop j).take m := by
  fun_induction hapDecryptLoop A key c wire acc with
  | case1 c acc => intro j _; exact ⟨0, by simp⟩
  | case2 c b acc hb length blockLen hshort => intro j _; exact ⟨0, by simp⟩
  | case3 c b acc hb length blockLen hlong block e c' hd => intro j _; exact ⟨0, by simp⟩
  | case4 c b acc hb length blockLen hlong block p c' hd ih =>
    intro j hj
    unfold decrypt at hd
    split at hd
    · simp at hd
    · rename_i n hn
      split at hd
      · rename_i p' hp'
        simp only [Prod.mk.injEq, Except.ok.injEq] at hd
        obtain ⟨rfl, rfl⟩ := hd
        obtain ⟨i, hi, hni, hpi⟩ := hAuth n _ _ _ hp'
        have hij : c = c0 + i := nonce_inj .n8 c (c0 + i) n hn hni
        have : i = j := by omega
        subst this
        obtain ⟨m, hm⟩ := ih (i + 1) (by omega)
        refine ⟨m + 1, ?_⟩
        rw [hm, List.append_assoc, List.drop_eq_getElem_cons hi, List.take_succ_cons, hpi]
        rfl
      · simp at hd

/-- **HAP tamper resistance.**  Whatever bytes reach the receiver (modified ciphertext,
    tag, length prefix, reordered, truncated or injected data), the frames it decodes are
    a prefix of the frames that were sent: altered plaintext is never produced. -/
theorem hap_tamper_prefix (A : Aead) (key : Bytes) (c0 : Nat) (sent : List Bytes)
    (hAuth : HapAuth A key c0 sent) (wire : Bytes) :
    (hapDecryptLoop A key c0 wire []).out <+: sent := by
  obtain ⟨m, hm⟩ := hap_tamper_gen A key c0 sent hAuth c0 wire [] 0 rfl
  rw [hm]; simp [List.take_prefix]

/-! ## Companion frames -/

theorem beVal_beBytes (w n : Nat) (h : n < 256 ^ w) : beVal (beBytes w n) = n := by
  simp [beVal, beBytes, leVal_leBytes w n h]

theorem compLoop_step (A : Aead) (key : Bytes) (enc : Bool) (c : Nat) (t : UInt8)
    (len3 payload rest : Bytes) (acc : List Delivery)
    (hl : len3.length = 3) (hp : payload.length = beVal len3) :
    companionLoop A key enc c (t :: len3 ++ payload ++ rest) acc =
      if enc && decide (payload.length > 0) then
        match decrypt A key .n12 c (t :: len3) payload with
        | (.error e, c') => companionLoop A key enc c' rest (acc ++ [.dropped e])
        | (.ok p, c') => companionLoop A key enc c' rest (acc ++ [.frame t p])
      else companionLoop A key enc c rest (acc ++ [.frame t payload]) := by
  rw [companionLoop]
  have h1 : ¬ (t :: len3 ++ payload ++ rest).length < HEADER_LENGTH := by
    simp [HEADER_LENGTH]; omega
  have h2 : ((t :: len3 ++ payload ++ rest).drop 1).take 3 = len3 := by
    simp only [List.cons_append, List.drop_succ_cons, List.drop_zero, List.append_assoc]
    rw [← hl, List.take_left]
  have h3 : ¬ (t :: len3 ++ payload ++ rest).length < HEADER_LENGTH + beVal len3 := by
    simp [HEADER_LENGTH]; omega
  have h4 : (t :: len3 ++ payload ++ rest).take HEADER_LENGTH = t :: len3 := by
    have : HEADER_LENGTH = (t :: len3).length := by simp [HEADER_LENGTH, hl]
    rw [this, List.append_assoc, List.take_left]
  have h5 : ((t :: len3 ++ payload ++ rest).drop HEADER_LENGTH).take (HEADER_LENGTH + beVal len3 - HEADER_LENGTH) = payload := by
    have : HEADER_LENGTH = (t :: len3).length := by simp [HEADER_LENGTH, hl]
    rw [Nat.add_sub_cancel_left, List.append_assoc]
    conv => lhs; arg 2; rw [this, List.drop_left]
    rw [← hp, List.take_left]
  have h6 : (t :: len3 ++ payload ++ rest).drop (HEADER_LENGTH + beVal len3) = rest := by
    have : HEADER_LENGTH + beVal len3 = (t :: len3 ++ payload).length := by
      simp [HEADER_LENGTH, hl, hp]; omega
    rw [this, List.drop_left]
  have h7 : (t :: len3 ++ payload ++ rest).headD 0 = t := by simp
  simp only [h1, ↓reduceDIte, h2, h3, h4, h5, h6, h7]
  split <;> rfl

theorem beBytes3_length (n : Nat) : (beBytes 3 n).length = 3 := by simp [beBytes, leBytes_length]

/-- the payload length written in the header counts the tag iff the frame is sealed -/
theorem companion_len (A : Aead) (hA : Laws A) (key : Bytes) (enc : Bool) (c : Nat) (t : UInt8)
    (data w : Bytes) (c' : Nat) (h : companionSend A key enc c t data = .ok (w, c')) :
    w.length = HEADER_LENGTH + data.length + (if enc && decide (data.length > 0) then AUTH_TAG_LENGTH else 0) ∧
    beVal ((w.drop 1).take 3) = w.length - HEADER_LENGTH ∧ w.head? = some t := by
  by_cases hs : (enc && decide (data.length > 0)) = true
  · simp only [companionSend, hs, ↓reduceIte] at h ⊢
    split at h
    · rename_i hlt
      split at h
      · contradiction
      · rename_i ct c1 he
        obtain ⟨n, _, hct, _⟩ := encrypt_uses_counter A key .n12 c _ _ ct c1 he
        injection h with h; injection h with h1 _
        subst h1
        have hb := beBytes3_length (data.length + AUTH_TAG_LENGTH)
        have hctl : ct.length = data.length + AUTH_TAG_LENGTH := by rw [hct, hA.seal_len]
        refine ⟨?_, ?_, by simp⟩
        · simp only [List.cons_append, List.length_cons, List.length_append, hb, hctl, HEADER_LENGTH]; omega
        · simp only [List.cons_append, List.drop_succ_cons, List.drop_zero]
          rw [List.take_left' hb, beVal_beBytes 3 _ (by simpa using hlt)]
          simp only [List.length_cons, List.length_append, hb, hctl, HEADER_LENGTH]; omega
    · contradiction
  · simp only [companionSend, hs, Bool.false_eq_true, ↓reduceIte] at h ⊢
    split at h
    · rename_i hlt
      injection h with h; injection h with h1 _
      subst h1
      have hb := beBytes3_length data.length
      refine ⟨?_, ?_, by simp⟩
      · simp only [List.cons_append, List.length_cons, List.length_append, hb, HEADER_LENGTH]; omega
      · simp only [List.cons_append, List.drop_succ_cons, List.drop_zero]
        rw [List.take_left' hb, beVal_beBytes 3 _ (by simpa using hlt)]
        simp only [List.length_cons, List.length_append, hb, HEADER_LENGTH]; omega
    · contradiction

/-- **Companion round trip**: the receiver with the matching key and counter delivers
    exactly the frame type and payload that were sent, whatever follows on the wire. -/
theorem companion_roundtrip (A : Aead) (hA : Laws A) (key : Bytes) (enc : Bool) (c : Nat) (t : UInt8)
    (data w : Bytes) (c' : Nat) (rest : Bytes) (acc : List Delivery)
    (h : companionSend A key enc c t data = .ok (w, c')) :
    companionLoop A key enc c (w ++ rest) acc = companionLoop A key enc c' rest (acc ++ [.frame t data]) := by
  by_cases hs : (enc && decide (data.length > 0)) = true
  · simp only [companionSend, hs, ↓reduceIte] at h
    split at h
    · rename_i hlt
      split at h
      · contradiction
      · rename_i ct c1 he
        obtain ⟨n, hn, hct, hc1⟩ := encrypt_uses_counter A key .n12 c _ _ ct c1 he
        injection h with h; injection h with h1 h2
        subst h1; subst h2
        have hs' : enc = true ∧ data.length > 0 := by simpa using hs
        have hb := beBytes3_length (data.length + AUTH_TAG_LENGTH)
        have hv : beVal (beBytes 3 (data.length + AUTH_TAG_LENGTH)) = data.length + AUTH_TAG_LENGTH :=
          beVal_beBytes 3 _ (by simpa using hlt)
        have hctl : ct.length = data.length + AUTH_TAG_LENGTH := by rw [hct, hA.seal_len]
        have hp : ct.length = beVal (beBytes 3 (data.length + AUTH_TAG_LENGTH)) := by rw [hv, hctl]
        have hpos : (enc && decide (ct.length > 0)) = true := by
          simp [hs'.1, hctl, AUTH_TAG_LENGTH]
        have hdec : decrypt A key .n12 c (t :: beBytes 3 (data.length + AUTH_TAG_LENGTH)) ct = (.ok data, c1) := by
          unfold decrypt; rw [hn]; dsimp only; rw [hct, hA.open_seal, hc1]
        have := compLoop_step A key enc c t _ ct rest acc hb hp
        rw [this, if_pos hpos, hdec]
    · contradiction
  · simp only [companionSend, hs, Bool.false_eq_true, ↓reduceIte] at h
    split at h
    · rename_i hlt
      injection h with h; injection h with h1 h2
      subst h1; subst h2
      have hb := beBytes3_length data.length
      have hv : beVal (beBytes 3 data.length) = data.length := beVal_beBytes 3 _ (by simpa using hlt)
      have := compLoop_step A key enc c t _ data rest acc hb hv.symm
      rw [this, if_neg hs]
    · contradiction

/-! ## Companion: tampering -/

/-- Authenticity for a Companion direction: only what the sender sealed opens — frame `i`
    (type = first header byte, payload) under the nonce of counter `c0 + i`, with the
    header as authenticated data. -/
def CompAuth (A : Aead) (key : Bytes) (c0 : Nat) (sent : List (UInt8 × Bytes)) : Prop :=
  ∀ n a ct p, A.aopen key n a ct = some p →
    ∃ i, ∃ h : i < sent.length, nonce? .n12 (c0 + i) = some n ∧ a.headD 0 = sent[i].1 ∧ p = sent[i].2

/-- the deliveries that carry plaintext (non-empty payload).  Empty frames are not
    encrypted by the wire format and carry no plaintext. -/
def authentic : List Delivery → List (UInt8 × Bytes)
  | [] => []
  | .frame t p :: ds => if p = [] then authentic ds else (t, p) :: authentic ds
  | .dropped _ :: ds => authentic ds

theorem authentic_append (l₁ l₂ : List Delivery) : authentic (l₁ ++ l₂) = authentic l₁ ++ authentic l₂ := by
  induction l₁ with
  | nil => rfl
  | cons d ds ih =>
    cases d with
    | frame t p => by_cases hp : p = [] <;> simp [authentic, hp, ih]
    | dropped e => simp [authentic, ih]

theorem drop_succ_sublist {α : Type} (l : List α) (j : Nat) : (l.drop (j + 1)).Sublist (l.drop j) := by
  rw [← List.drop_drop]; exact List.drop_sublist 1 _

theorem comp_tamper_gen (A : Aead) (key : Bytes) (c0 : Nat) (sent : List (UInt8 × Bytes))
    (hAuth : CompAuth A key c0 sent) (c : Nat) (wire : Bytes) (acc : List Delivery) :
    ∀ j, c = c0 + j → ∃ l, l.Sublist (sent.drop j) ∧
      authentic (companionLoop A key true c wire acc).out = authentic acc ++ l := by
  fun_induction companionLoop A key true c wire acc with
  | case1 c buf acc h => intro j _; exact ⟨[], by simp, by simp⟩
  | case2 c buf acc h total h2 => intro j _; exact ⟨[], by simp, by simp⟩
  | case3 c buf acc h total h2 header payload rest hcond e c' hd ih =>
    intro j hj
    have hc' : c' = c ∨ c' = c + 1 := by
      unfold decrypt at hd
      split at hd
      · simp at hd; exact Or.inl hd.2.symm
      · split at hd <;> simp at hd <;> exact Or.inr hd.2.symm
    rcases hc' with rfl | rfl
    · obtain ⟨l, hl, he⟩ := ih j hj
      exact ⟨l, hl, by rw [he, authentic_append]; simp [authentic]⟩
    · obtain ⟨l, hl, he⟩ := ih (j + 1) (by omega)
      exact ⟨l, hl.trans (drop_succ_sublist sent j), by rw [he, authentic_append]; simp [authentic]⟩
  | case4 c buf acc h total h2 header payload rest hcond p c' hd ih =>
    intro j hj
    unfold decrypt at hd
    split at hd
    · simp at hd
    · rename_i n hn
      split at hd
      · rename_i p' hp'
        simp only [Prod.mk.injEq, Except.ok.injEq] at hd
        obtain ⟨rfl, rfl⟩ := hd
        obtain ⟨i, hi, hni, hti, hpi⟩ := hAuth n _ _ _ hp'
        have hij : c = c0 + i := nonce_inj .n12 c (c0 + i) n hn hni
        have : i = j := by omega
        subst this
        obtain ⟨l, hl, he⟩ := ih (i + 1) (by omega)
        have hhead : buf.headD 0 = sent[i].1 := by
          rw [← hti]
          cases buf with
          | nil => simp [HEADER_LENGTH] at h
          | cons x xs => simp [header, HEADER_LENGTH]
        by_cases hp0 : p' = []
        · refine ⟨l, hl.trans (drop_succ_sublist sent i), ?_⟩
          rw [he, authentic_append]; simp [authentic, hp0]
        · refine ⟨sent[i] :: l, ?_, ?_⟩
          · rw [List.drop_eq_getElem_cons hi]; exact hl.cons_cons _
          · rw [he, authentic_append]
            have hp1 : ¬ sent[i].2 = [] := by rw [← hpi]; exact hp0
            have hh2 : (List.head? buf).getD 0 = sent[i].1 := by
              rw [← hhead]; cases buf <;> rfl
            subst hpi
            simp [authentic, hp1, hh2]
      · simp at hd
  | case5 c buf acc h total h2 payload rest hcond ih =>
    intro j hj
    obtain ⟨l, hl, he⟩ := ih j hj
    have hpe : payload = [] := by
      have : ¬ payload.length > 0 := by simpa using hcond
      exact List.eq_nil_of_length_eq_zero (by omega)
    exact ⟨l, hl, by rw [he, authentic_append]; simp [authentic, hpe]⟩

/-- **Companion tamper resistance.**  Whatever bytes reach the receiver, the frames it
    delivers with a non-empty payload are, in order, a subsequence of the frames that were
    sent, each with its own frame type: a modified frame is dropped, never altered. -/
theorem companion_tamper (A : Aead) (key : Bytes) (c0 : Nat) (sent : List (UInt8 × Bytes))
    (hAuth : CompAuth A key c0 sent) (wire : Bytes) :
    (authentic (companionLoop A key true c0 wire []).out).Sublist sent := by
  obtain ⟨l, hl, he⟩ := comp_tamper_gen A key c0 sent hAuth c0 wire [] 0 rfl
  rw [he]; simpa [authentic] using hl

/-- **A rejected Companion frame costs that frame only.**  A frame whose header is intact but
    whose ciphertext/tag does not authenticate is dropped and the receive counter moves on by
    exactly one — as the sender's did when it sealed the original — so the receiver stays in
    step with the sender (`Chacha20Cipher.decrypt` advances the counter before the tag is
    checked). -/
theorem companion_rejected_frame_keeps_step (A : Aead) (key : Bytes) (c : Nat) (t : UInt8)
    (len3 payload rest : Bytes) (acc : List Delivery) (n : Bytes)
    (hl : len3.length = 3) (hp : payload.length = beVal len3) (hpos : 0 < payload.length)
    (hn : nonce? .n12 c = some n) (hbad : A.aopen key n (t :: len3) payload = none) :
    companionLoop A key true c (t :: len3 ++ payload ++ rest) acc =
      companionLoop A key true (c + 1) rest (acc ++ [.dropped .invalidTag]) := by
  rw [compLoop_step A key true c t len3 payload rest acc hl hp]
  simp [hpos, decrypt, hn, hbad]

/-- … hence every genuine frame sent after it (sealed with the sender's next counter) is
    still recovered exactly. -/
theorem companion_valid_after_rejected (A : Aead) (hA : Laws A) (key : Bytes) (c : Nat) (t t2 : UInt8)
    (len3 payload rest data w : Bytes) (c' : Nat) (acc : List Delivery) (n : Bytes)
    (hl : len3.length = 3) (hp : payload.length = beVal len3) (hpos : 0 < payload.length)
    (hn : nonce? .n12 c = some n) (hbad : A.aopen key n (t :: len3) payload = none)
    (h : companionSend A key true (c + 1) t2 data = .ok (w, c')) :
    companionLoop A key true c (t :: len3 ++ payload ++ (w ++ rest)) acc =
      companionLoop A key true c' rest (acc ++ [.dropped .invalidTag, .frame t2 data]) := by
  rw [companion_rejected_frame_keeps_step A key c t len3 payload (w ++ rest) acc n hl hp hpos hn hbad,
    companion_roundtrip A hA key true (c + 1) t2 data w c' rest _ h]
  simp

example : ([0, 0, 17] : Bytes).length = 3 ∧ (List.replicate 17 (0 : UInt8)).length = beVal [0, 0, 17] ∧
    nonce? .n12 0 = some (List.replicate 12 0) ∧
    toyAead.aopen [1] (List.replicate 12 0) (8 :: [0, 0, 17]) (List.replicate 17 0) = none := by decide +kernel

/-! ## MRP messages -/

/-- **MRP round trip** of one message (framing by varint is property C02/C04's). -/
theorem mrp_roundtrip (A : Aead) (hA : Laws A) (key : Bytes) (enc : Bool) (c : Nat) (data w : Bytes)
    (c' : Nat) (h : mrpSend A key enc c data = .ok (w, c')) :
    ∃ ct, w = writeVarint ct.length ++ ct ∧ mrpHandle A key enc c ct = (.ok data, c') := by
  unfold mrpSend at h
  cases enc with
  | false =>
    simp only [Bool.false_eq_true, ↓reduceIte, Except.ok.injEq, Prod.mk.injEq] at h
    exact ⟨data, h.1.symm, by simp [mrpHandle, h.2]⟩
  | true =>
    simp only [↓reduceIte] at h
    split at h
    · contradiction
    · rename_i ct c1 he
      obtain ⟨n, hn, hct, hc1⟩ := encrypt_uses_counter A key .n8 c _ _ ct c1 he
      injection h with h; injection h with h1 h2
      refine ⟨ct, h1.symm, ?_⟩
      simp only [mrpHandle, ↓reduceIte]
      unfold decrypt; rw [hn]; dsimp only; rw [hct, hA.open_seal, ← h2, hc1]

/-- **MRP tamper resistance**: a message that decrypts at receive counter `c0 + j` is the
    `j`-th message sent. -/
theorem mrp_tamper (A : Aead) (key : Bytes) (c0 : Nat) (sent : List Bytes)
    (hAuth : HapAuth A key c0 sent) (j : Nat) (msg p : Bytes) (c' : Nat)
    (h : mrpHandle A key true (c0 + j) msg = (.ok p, c')) :
    ∃ hj : j < sent.length, p = sent[j] := by
  simp only [mrpHandle, ↓reduceIte] at h
  unfold decrypt at h
  split at h
  · simp at h
  · rename_i n hn
    split at h
    · rename_i p' hp'
      simp only [Prod.mk.injEq, Except.ok.injEq] at h
      obtain ⟨rfl, _⟩ := h
      obtain ⟨i, hi, hni, hpi⟩ := hAuth n _ _ _ hp'
      have : c0 + j = c0 + i := nonce_inj .n8 _ _ n hn hni
      have : i = j := by omega
      subst this
      exact ⟨hi, hpi⟩
    · simp at h

/-! ## AirPlay 2 audio packets -/

/-- **the nonce appended to an audio packet is the nonce its payload was sealed under**,
    and the counter moves: a receiver that rebuilds the nonce from the packet trailer and
    uses header[4:12] as authenticated data recovers the audio. -/
theorem audio_nonce_matches (A : Aead) (hA : Laws A) (key : Bytes) (c : Nat) (header audio pkt : Bytes)
    (c' : Nat) (hh : header.length = 12) (h : audioPacket A key c header audio = .ok (pkt, c')) :
    audioOpen A key pkt = some audio ∧ c' = c + 1 ∧ pkt.length = 12 + audio.length + 16 + 8 := by
  unfold audioPacket at h
  split at h
  · contradiction
  · rename_i nonce hn
    split at h
    · contradiction
    · rename_i ct c1 he
      obtain ⟨n, hn', hct, hc1⟩ := encrypt_uses_counter A key .n8 c _ _ ct c1 he
      rw [hn] at hn'
      injection hn' with hn'
      subst hn'
      injection h with h; injection h with h1 h2
      subst h1; subst h2
      have hnonce : nonce = List.replicate 4 0 ++ leBytes 8 c := by
        simp only [nonce?] at hn
        split at hn
        · exact (Option.some.inj hn).symm
        · contradiction
      have hnl : nonce.length = 12 := nonce_length .n8 c nonce hn
      have htail : nonce.drop (nonce.length - 8) = leBytes 8 c := by
        rw [hnl, hnonce]
        exact List.drop_left' (by simp)
      have hctl : ct.length = audio.length + AUTH_TAG_LENGTH := by rw [hct, hA.seal_len]
      have h8 : (leBytes 8 c).length = 8 := leBytes_length 8 c
      refine ⟨?_, hc1, ?_⟩
      · unfold audioOpen
        rw [htail]
        have e1 : (header ++ ct ++ leBytes 8 c).take 12 = header := by
          rw [List.append_assoc, List.take_left' hh]
        have e2 : (header ++ ct ++ leBytes 8 c).drop 12 = ct ++ leBytes 8 c := by
          rw [List.append_assoc, List.drop_left' hh]
        simp only [e1, e2]
        have e3 : (ct ++ leBytes 8 c).length - 8 = ct.length := by simp [h8]
        rw [e3, List.take_left' rfl, List.drop_left' rfl, ← hnonce, hct, hA.open_seal]
      · simp [htail, hh, hctl, h8, AUTH_TAG_LENGTH]; omega

/-! ## Non-vacuity -/

/-- the toy AEAD the correspondence driver runs with satisfies the correctness laws -/
theorem toyAead_laws : Laws toyAead := by
  have hm : ∀ k n a p, (toyMac k n a p).length = 16 := by
    intro k n a p; simp [toyMac, leBytes_length]
  constructor
  · intro k n a p
    simp only [toyAead]
    have hl : (p ++ toyMac k n a p).length - 16 = p.length := by simp [hm]
    have h1 : ¬ (p ++ toyMac k n a p).length < 16 := by simp [hm]
    simp only [h1, ↓reduceIte, hl, List.take_left' rfl, List.drop_left' rfl]
  · intro k n a p; simp [toyAead, hm, AUTH_TAG_LENGTH]

/-- an AEAD meeting the authenticity hypothesis for a two-frame history in which frames
    really open (so `hap_tamper_prefix` is not vacuous) -/
def tableAead : Aead where
  aseal _ _ _ p := p
  aopen _ n _ ct :=
    if n = List.replicate 4 0 ++ leBytes 8 0 ∧ ct = [1] then some [1]
    else if n = List.replicate 4 0 ++ leBytes 8 1 ∧ ct = [2] then some [2]
    else none

example : HapAuth tableAead [] 0 [[1], [2]] ∧
    tableAead.aopen [] (List.replicate 4 0 ++ leBytes 8 1) [] [2] = some [2] := by
  refine ⟨?_, by decide⟩
  intro n a ct p h
  simp only [tableAead] at h
  split at h
  · rename_i h0
    exact ⟨0, by decide, by simp [nonce?, h0.1], by simpa using (Option.some.inj h).symm⟩
  · split at h
    · rename_i h1
      exact ⟨1, by decide, by simp [nonce?, h1.1], by simpa using (Option.some.inj h).symm⟩
    · contradiction

example : nonce? .n8 (2 ^ 64 - 1) ≠ none ∧ nonce? .n8 (2 ^ 64) = none ∧
    nonce? .n12 (2 ^ 96) = none := by decide

/-- **A rejected MRP message costs that message only**: the receive counter has moved on by one
    when the tag check fails, so the next genuine message (sealed with the sender's next counter)
    is recovered exactly. -/
theorem mrp_rejected_message_keeps_step (A : Aead) (hA : Laws A) (key : Bytes) (c : Nat) (bad data w : Bytes)
    (c' : Nat) (n : Bytes) (hn : nonce? .n8 c = some n) (hbad : A.aopen key n [] bad = none)
    (h : mrpSend A key true (c + 1) data = .ok (w, c')) :
    mrpHandle A key true c bad = (.error .invalidTag, c + 1) ∧
    ∃ ct, w = writeVarint ct.length ++ ct ∧ mrpHandle A key true (c + 1) ct = (.ok data, c') := by
  refine ⟨?_, mrp_roundtrip A hA key true (c + 1) data w c' h⟩
  simp [mrpHandle, decrypt, hn, hbad]

example : nonce? .n8 0 = some (List.replicate 12 0) ∧
    toyAead.aopen [1] (List.replicate 12 0) [] (List.replicate 17 0) = none := by decide +kernel

end PyatvModel.Props.C07
