import PyatvModel.C04.Dns.Lemmas
import PyatvModel.Gen.C04DnsConsts
/-
C04 (DNS part) — "every value the library can encode with ... DNS messages and names ... decodes
back to an equal value; the bytes produced and accepted agree with the documented wire format".

Model: PyatvModel/C04/Dns/Model.lean (transcription of pyatv/support/dns.py).  Labels are byte
strings; NFC, UTF-8 and the IDNA decoding of "xn--" labels are parameters (applied by the harness
with the code's own functions).  Domains are the explicit decidable predicates `LabelOk` (1..63
bytes), `QuestionOk`, `ResourceOk`, `AnswerOk`, `TxtOk`, `MsgOk` of Lemmas.lean.

Names
  * `name_roundtrip`        parseName (pre ++ encName ls ++ r) |pre| = (ls, |pre| + |encName ls|)
  * `name_wellformed`       every RFC 1035 §4.1.4 well-formed name (labels ended by the root label
                            or by a pointer to a prior well-formed name) is decoded to its labels,
                            the stream is left just after the name's own bytes, and the loop fuel
                            `msg.length + 1` is never exhausted
  * `name_compressed`       the concrete two-name instance: second name = labels + pointer to the first
  * `name_eq_ref`           encoder bytes = reference layout (length-prefixed labels, root label)
Messages
  * `message_eq_ref`        DnsMessage.pack bytes = independent RFC 1035 reference layout
  * `message_roundtrip`     unpack (pack m ++ trailing) = m for every message of `MsgOk`
  * `header_counts`         the four header counts the encoder writes are the section lengths

The pinned `parse_domain_name` had no jump limit (defect D2, repaired under property C05: a
pointer that does not point before the start of the part being read is a `ValueError` — see the
`example` at the end); the theorems above are stated for well-formed names, whose pointers lead
to strictly earlier, already complete names, which the repaired decoder still accepts.
-/
namespace PyatvModel.Props.C04Dns
open PyatvModel PyatvModel.C04.Dns

/-! ## names -/

/-- **DNS names, encoder → decoder.**  For all labels of 1..63 bytes, any bytes before and after. -/
theorem name_roundtrip (pre r : Bytes) (ls : List Bytes) (h : LabelsOk ls) :
    parseName (pre ++ encName ls ++ r) pre.length = ⟨none, ls, pre.length + (encName ls).length⟩ :=
  parseName_encName (Y := r) h (by simp)

/-- **Compression pointers are followed correctly to earlier offsets.** -/
theorem name_wellformed (msg : Bytes) (s e : Nat) (ls : List Bytes) (h : WfName msg s ls e) :
    parseName msg s = ⟨none, ls, e⟩ := by
  have := parseNameF_wf h (nameFuel msg) s [] none
    (by have := h.end_le; have := le_nameFuel msg; omega) (Nat.le_refl _)
  simpa [parseName] using this

/-- the usual shape: a first name, anything in between, a second name that ends in a pointer to
    the first one. -/
theorem name_compressed (pre mid r : Bytes) (ls1 ls2 : List Bytes) (h1 : LabelsOk ls1)
    (h2 : LabelsOk ls2) (hoff : pre.length < 16384) :
    parseName (pre ++ encName ls2 ++ mid ++ encLabels ls1 ++ encPtr pre.length ++ r)
        (pre.length + (encName ls2).length + mid.length)
      = ⟨none, ls1 ++ ls2, pre.length + (encName ls2).length + mid.length + (encLabels ls1).length + 2⟩ := by
  apply name_wellformed
  have e2 := encName_eq ls2 h2
  refine WfName.ptr _ ls1 pre.length ls2 (pre.length + (encLabels ls2).length + 1) r h1 ?_ hoff
    (WfName.plain _ ls2 (mid ++ encLabels ls1 ++ encPtr pre.length ++ r) h2 ?_) ?_
  · have : (pre ++ encName ls2 ++ mid).length = pre.length + (encName ls2).length + mid.length := by
      simp [Nat.add_assoc]
    rw [← this]; simp
  · rw [e2]; simp
  · rw [e2]; simp; omega

/-- encoder bytes = reference layout for every name of the domain -/
theorem name_eq_ref (ls : List Bytes) (h : LabelsOk ls) : encName ls = Ref.name ls :=
  (refName_eq ls h).symm

/-- a name longer than 63 bytes per label is outside the domain: the encoder truncates -/
theorem name_label_bound (l : Bytes) (ls : List Bytes) (h : LabelsOk (l :: ls)) :
    (encName (l :: ls)).head? = some (UInt8.ofNat l.length) ∧ l.length ≤ 63 := by
  have hl := h l (by simp)
  rw [encName_eq _ h]
  exact ⟨by simp [encLabels], hl.2.1⟩

/-! ## messages -/

/-- **DNS message, bytes = documented layout.**  For every message of the domain, what
    `DnsMessage.pack` produces is the RFC 1035 layout written independently in `Ref`. -/
theorem message_eq_ref (m : Msg) (h : MsgOk m) : pack (toPackIn m) = Ref.message m := by
  obtain ⟨hid, hfl, hqd, han, hns, har, hq, ha, hn, hr⟩ := h
  simp only [pack, toPackIn, packHeader, Ref.message, List.length_map, List.flatMap_map,
    refBe2 _ hid, refBe2 _ hfl, refBe2 _ hqd, refBe2 _ han, refBe2 _ hns, refBe2 _ har]
  rw [flatMap_congr' (fun q hq' => packQuestion_eq_ref q (hq q hq')),
    flatMap_congr' (g := Ref.rr) (fun r hr' => packAnswer_eq_ref r (ha r hr')),
    flatMap_congr' (l := m.ns) (g := Ref.rr) (fun r hr' => packRaw_eq_ref r (hn r hr')),
    flatMap_congr' (l := m.ar) (g := Ref.rr) (fun r hr' => packRaw_eq_ref r (hr r hr'))]

/-- **DNS message round trip.**  For every message of the domain (questions; PTR-style answers;
    authority/additional records with A, PTR, SRV, TXT or opaque RDATA), decoding what the encoder
    emits — followed by any trailing bytes — gives the message back, header counts included. -/
theorem message_roundtrip (m : Msg) (Y : Bytes) (h : MsgOk m) :
    unpack (pack (toPackIn m) ++ Y) = .ok m (pack (toPackIn m)).length := by
  rw [message_eq_ref m h]
  obtain ⟨hid, hfl, hqd, han, hns, har, hq, ha, hn, hr⟩ := h
  generalize hmsg : Ref.message m ++ Y = msg
  have hd0 : msg.drop 0 = u16 m.id ++ (u16 m.flags ++ (u16 m.qd.length ++ (u16 m.an.length ++
      (u16 m.ns.length ++ (u16 m.ar.length ++ (m.qd.flatMap Ref.question ++ (m.an.flatMap Ref.rr ++
      (m.ns.flatMap Ref.rr ++ (m.ar.flatMap Ref.rr ++ Y))))))))) := by
    rw [← hmsg]
    simp [Ref.message, refBe2 _ hid, refBe2 _ hfl, refBe2 _ hqd, refBe2 _ han, refBe2 _ hns, refBe2 _ har]
  have hd2 := drop_add_of_drop hd0
  have hd4 := drop_add_of_drop hd2
  have hd6 := drop_add_of_drop hd4
  have hd8 := drop_add_of_drop hd6
  have hd10 := drop_add_of_drop hd8
  have hd12 := drop_add_of_drop hd10
  simp only [length_u16, Nat.zero_add, Nat.reduceAdd] at hd2 hd4 hd6 hd8 hd10 hd12
  have hQ := unpackMany_flatMap unpackQuestion Ref.question QuestionOk msg
    (fun x pos Y hx hd => by
      rw [← packQuestion_eq_ref x hx] at hd ⊢; exact unpackQuestion_pack hx hd) m.qd 12 _ hq hd12
  have hdA := drop_add_of_drop hd12
  have hA := unpackMany_flatMap unpackResource Ref.rr ResourceOk msg
    (fun x pos Y hx hd => unpackResource_ref hx hd) m.an _ _ (fun r hr => (ha r hr).1) hdA
  have hdN := drop_add_of_drop hdA
  have hN := unpackMany_flatMap unpackResource Ref.rr ResourceOk msg
    (fun x pos Y hx hd => unpackResource_ref hx hd) m.ns _ _ hn hdN
  have hdR := drop_add_of_drop hdN
  have hR := unpackMany_flatMap unpackResource Ref.rr ResourceOk msg
    (fun x pos Y hx hd => unpackResource_ref hx hd) m.ar _ _ hr hdR
  simp only [unpack, readU16_of_drop hid hd0, readU16_of_drop hfl hd2, readU16_of_drop hqd hd4,
    readU16_of_drop han hd6, readU16_of_drop hns hd8, readU16_of_drop har hd10, hQ, hA, hN, hR]
  congr 1
  simp [Ref.message, Ref.be]
  omega

/-- the header counts written by the encoder are the section lengths (bytes 4..11) -/
theorem header_counts (m : PackIn) :
    ((pack m).drop 4).take 8 = u16 m.qd.length ++ u16 m.an.length ++ u16 m.ns.length ++ u16 m.ar.length := by
  simp [pack, packHeader, u16]

/-! ## tie A: the numbers the model dispatches on are the ones the code uses now
     (Gen/C04DnsConsts.lean is regenerated from pyatv.support.dns on every check) -/

example : Gen.C04Dns.qtA = 1 ∧ Gen.C04Dns.qtPTR = 12 ∧ Gen.C04Dns.qtTXT = 16 ∧ Gen.C04Dns.qtSRV = 33 ∧
    Gen.C04Dns.qtMembers = [1, 12, 16, 33, 255] ∧ Gen.C04Dns.maxLabel = 63 ∧ Gen.C04Dns.pointerMask = 63 := by
  decide

/-! ## non-vacuity and boundaries -/

/-- 63-byte label: inside the domain, round trip -/
example : LabelsOk [List.replicate 63 97, [0xc3, 0xa9]] := by decide
example : parseName ([1, 2, 3] ++ encName [List.replicate 63 97, [0xc3, 0xa9]] ++ [9]) 3
    = ⟨none, [List.replicate 63 97, [0xc3, 0xa9]], 3 + 68⟩ :=
  name_roundtrip [1, 2, 3] [9] _ (by decide)

/-- 64-byte label: outside the domain; the encoder truncates to 63 bytes (here at a code point
    boundary: the 2-byte `é` that would straddle byte 63/64 is dropped whole, leaving 62) … -/
example : ¬ LabelOk (List.replicate 64 97) := by decide
example : encName [List.replicate 64 97] = 63 :: List.replicate 63 97 ++ [0] := by decide +kernel
example : encName [List.replicate 62 97 ++ [0xc3, 0xa9]] = 62 :: List.replicate 62 97 ++ [0] := by decide +kernel
/-- … and the decoder rejects a length byte of 64 (reserved flag bits `01`) -/
example : (parseName (64 :: List.replicate 64 97 ++ [0]) 0).err = some .assert := by decide +kernel

/-- a compressed name as devices send it: "b" + pointer to offset 12 where "a.local" lives -/
example : parseName (List.replicate 12 0 ++ encName [[97], [108, 111, 99, 97, 108]] ++ [1, 98] ++ encPtr 12) 21
    = ⟨none, [[98], [97], [108, 111, 99, 97, 108]], 25⟩ := by decide +kernel

/-- wrong pointer mask would read offset 0xC00C instead of 0x000C: the model masks with 0x3F -/
example : encPtr 12 = [0xC0, 0x0C] := by decide

/-- D2 (C05), repaired: a pointer to itself does not point strictly backwards — `ValueError`
    (the pinned loop never ended: `Props.C05.name_pinned_counterexample`) -/
example : (parseName (List.replicate 12 0 ++ [0xC0, 0x0C]) 12).err = some .value := by decide +kernel

/-- a message of the domain with every record form; the theorem applies to it -/
def sample : Msg :=
  { id := 0x35FF, flags := 0x8400,
    qd := [⟨[[95, 97], [108]], 12, 0x8001⟩],
    an := [⟨[[95, 97], [108]], 12, 1, 10, 6, .name [[120], [95, 97]]⟩],
    ns := [],
    ar := [⟨[[120]], 33, 1, 120, 9, .srv 0 0 7000 [[104]]⟩,
           ⟨[[104]], 1, 1, 120, 4, .a [10, 0, 0, 1]⟩,
           ⟨[[120]], 16, 1, 4500, 8, .txt [([97], [49]), ([98, 99], [])]⟩,
           ⟨[[120]], 47, 1, 1, 3, .raw [1, 2, 3]⟩] }

example : MsgOk sample := by decide
example : unpack (pack (toPackIn sample)) = .ok sample (pack (toPackIn sample)).length := by
  have := message_roundtrip sample [] (by decide)
  simpa using this

/-- 255-byte TXT string (key `k`, 253-byte value): inside the domain; 256 is not -/
example : TxtOk [([107], List.replicate 253 0)] := by decide +kernel
example : ¬ TxtOk [([107], List.replicate 254 0)] := by decide +kernel

end PyatvModel.Props.C04Dns
