import PyatvModel.C18.Lemmas
/-
C18 — failed operations release everything they acquired.

Property theorems (model: PyatvModel/C18/Model.lean; soundness of the static discipline:
PyatvModel/C18/Lemmas.lean `absRun_sound`, one induction over scripts).

* `leak_free`                 for EVERY script that satisfies the decidable predicate `Bracketed`,
                              every environment, every fault point and every fault kind in scope:
                              if the call does not return normally it holds nothing afterwards and
                              the ledger (everything held by anybody) is exactly the ledger before;
* `released_on_return`        scripts with `ReleasesOnReturn` (the two streams) also hold nothing
                              after a normal return;
* `connect_bracketed`, `streamFile_bracketed`, `playUrl_bracketed`
                              the concrete scripts of the (repaired) code satisfy the predicate (connect: for every
                              list of protocols, by induction);
* `connect_leak_free`, `stream_file_leak_free`, `play_url_leak_free`
                              the property for the three operations, in its own words;
* `refused_does_not_disturb`, `stream_refused_while_active`, `play_refused_while_taken_over`
                              a refused call leaves the active one untouched;
* `stream_accepted_when_idle`, `second_stream_ok`
                              after any failed / cancelled / refused stream a new stream_file is accepted;
* `orig_*_counterexample`     the scripts of the pinned tree BEFORE the eight `fix:` commits violate
                              the property (D13 a–h) — kept as documentation of the defects.
-/
namespace PyatvModel.Props.C18
open PyatvModel.C18

/-- Fault kinds in scope: `c = false` excludes cancellation (connect(): the property only
    speaks of a failing protocol). -/
def InScope (c : Bool) (fault : Fault) : Prop := ∀ k, fault = some (k, .cancel) → c = true

theorem inScope_true (fault : Fault) : InScope true fault := fun _ _ => rfl

theorem sound_start (env : List Res) : Sound Abs.empty (start env) :=
  ⟨fun r hr => by simp [start] at hr, fun r hr => by simp [Abs.empty] at hr⟩

/-- **leak_free.**  Every `Bracketed` script, every environment, every fault point, every
    fault kind in scope: a call that does not return normally holds nothing, has not touched
    anybody else's resources, and the ledger is the ledger before. -/
theorem leak_free (c : Bool) (p : Prog) (hb : Bracketed c p = true) (env : List Res)
    (fault : Fault) (hc : InScope c fault)
    (hfail : (run fault p (start env)).2 ≠ .ok) :
    (run fault p (start env)).1.own = [] ∧
    (run fault p (start env)).1.env = env ∧
    (run fault p (start env)).1.ledger = env := by
  simp only [Bracketed, Bool.and_eq_true] at hb
  have h := absRun_sound c fault hc p Abs.empty (start env) (sound_start env) hb.1
  unfold Post at h
  have hown : (run fault p (start env)).1.own = [] := by
    cases ho : (run fault p (start env)).2 with
    | ok => exact absurd ho hfail
    | exc k =>
      obtain ⟨x, hx, hsx⟩ := h.2.2 k ho
      rw [hx] at hb
      have hmay : x.may = [] := by simpa [excClean] using hb.2
      apply List.eq_nil_iff_forall_not_mem.mpr
      intro r hr
      have := hsx.1 r hr
      rw [hmay] at this
      cases this
  refine ⟨hown, h.1, ?_⟩
  rw [St.ledger, hown, h.1]
  simp [start]

example : Bracketed true (streamFile false false true) = true ∧
    (run (some (3, .cancel)) (streamFile false false true) (start [.takeover 7])).2 ≠ .ok := by decide

/-- A normal return of a `ReleasesOnReturn` script holds nothing either. -/
theorem released_on_return (c : Bool) (p : Prog) (hb : Bracketed c p = true)
    (hr : ReleasesOnReturn c p = true) (env : List Res) (fault : Fault) (hc : InScope c fault)
    (hok : (run fault p (start env)).2 = .ok) :
    (run fault p (start env)).1.own = [] ∧ (run fault p (start env)).1.ledger = env := by
  simp only [Bracketed, Bool.and_eq_true] at hb
  have h := absRun_sound c fault hc p Abs.empty (start env) (sound_start env) hb.1
  unfold Post at h
  have hs := h.2.1 hok
  have hmay : (absRun c p Abs.empty).norm.may = [] := by simpa [ReleasesOnReturn] using hr
  have hown : (run fault p (start env)).1.own = [] := by
    apply List.eq_nil_iff_forall_not_mem.mpr
    intro r hr'
    have := hs.1 r hr'
    rw [hmay] at this
    cases this
  refine ⟨hown, ?_⟩
  rw [St.ledger, hown, h.1]
  simp [start]

example : ReleasesOnReturn true (playUrl true true) = true ∧
    (run none (playUrl true true) (start [])).2 = .ok := by decide

/-! ### the concrete scripts satisfy the discipline -/

/-- indices of `PROTOCOLS` (regenerated from the source tree) -/
def allProtocols : List Nat := List.range PyatvModel.Gen.C18.protocols.length

/-- pyatv.connect satisfies the discipline for EVERY list of enabled protocols (any number,
    any order) — by induction over the list (`connectScript_bracketed`), not enumeration. -/
theorem connect_bracketed (ps : List Nat) : Bracketed false (connectScript ps) = true :=
  connectScript_bracketed ps

theorem streamFile_bracketed : ∀ v m p, Bracketed true (streamFile v m p) = true ∧
    ReleasesOnReturn true (streamFile v m p) = true := by decide +kernel

theorem playUrl_bracketed : ∀ l p, Bracketed true (playUrl l p) = true ∧
    ReleasesOnReturn true (playUrl l p) = true := by decide +kernel

/-! ### the property, per operation -/

/-- connect(): whichever protocol subset is enabled and whichever protocol's connect()
    fails, every connection established before it is closed, no task is left, the session
    is closed. -/
theorem connect_leak_free (ps : List Nat) (k : Nat)
    (hfail : (run (some (k, .fail)) (connectScript ps) (start [])).2 ≠ .ok) :
    (run (some (k, .fail)) (connectScript ps) (start [])).1.ledger = [] :=
  (leak_free false _ (connect_bracketed ps) [] _ (fun _ h => by cases h) hfail).2.2

example : (run (some (1, .fail)) (connectScript [0, 2, 4]) (start [])).2 ≠ .ok ∧
    (run (some (4, .fail)) (connectScript allProtocols) (start [])).2 ≠ .ok := by decide

/-- The failure may strike in ANY of the four per-protocol steps (connect(), registration of
    the interfaces, feature mapping, device_info()) of the protocol at ANY position `pos`:
    fault point `4 * pos + step`.  In particular a protocol whose connect() has returned
    (connection + task established) and whose bookkeeping then raises is closed too. -/
theorem connect_leak_free_any_step (ps : List Nat) (pos step : Nat)
    (hfail : (run (some (4 * pos + step, .fail)) (connectScript ps) (start [])).2 ≠ .ok) :
    (run (some (4 * pos + step, .fail)) (connectScript ps) (start [])).1.ledger = [] :=
  connect_leak_free ps (4 * pos + step) hfail

/-- non-vacuity: device_info() of the second of three protocols raises — the call fails while
    that protocol's connection and task exist (they are what the handler has to release) -/
example : (run (some (4 * 1 + 3, .fail)) (connectScript [0, 2, 4]) (start [])).2 = .exc .fail ∧
    (parkAt (4 * 1 + 3) (connectScript [0, 2, 4]) (start [])).1.own
      = [.task 2, .conn 2, .task 0, .conn 0, .httpSession] := by decide

/-- stream_file: failure or cancellation at ANY collaborator call, or a refusal, in ANY
    environment (other streams active, takeovers held by other protocols): the ledger is
    what it was before the call. -/
theorem stream_file_leak_free (v m p : Bool) (env : List Res) (fault : Fault)
    (hfail : (run fault (streamFile v m p) (start env)).2 ≠ .ok) :
    (run fault (streamFile v m p) (start env)).1.ledger = env :=
  (leak_free true _ (streamFile_bracketed v m p).1 env fault (inScope_true _) hfail).2.2

/-- play_url: same statement. -/
theorem play_url_leak_free (l p : Bool) (env : List Res) (fault : Fault)
    (hfail : (run fault (playUrl l p) (start env)).2 ≠ .ok) :
    (run fault (playUrl l p) (start env)).1.ledger = env :=
  (leak_free true _ (playUrl_bracketed l p).1 env fault (inScope_true _) hfail).2.2

example : (run (some (0, .cancel)) (playUrl true true) (start [.acquired])).2 ≠ .ok := by decide

/-- A failure that comes from the call's own ARGUMENTS (play_url parses `position` with int():
    "1:30", None, … raise) is a fault point like any other as long as it is evaluated inside
    the try: everything is released.  Evaluated between takeover() and the try it is not
    (the static discipline rejects that placement, and the takeover stays held). -/
theorem play_url_argument_failure_leak_free :
    (∀ l p, Bracketed true (playUrlArgs false l p) = true) ∧
    (∀ l p, Bracketed true (playUrlArgs true l p) = false) ∧
    (run (some (0, .fail)) (playUrlArgs true false false) (start [])).1.ledger = [.takeover 3] := by
  decide +kernel

/-! ### refusal -/

/-- A call refused (InvalidStateError from acquire()/takeover()) leaves everything that is
    held by others — in particular the active stream — untouched, and holds nothing. -/
theorem refused_does_not_disturb (p : Prog) (hb : Bracketed true p = true) (env : List Res)
    (fault : Fault) (href : (run fault p (start env)).2 = .exc .refused) :
    (run fault p (start env)).1.env = env ∧ (run fault p (start env)).1.own = [] := by
  have h := leak_free true p hb env fault (inScope_true _) (by rw [href]; simp)
  exact ⟨h.2.1, h.1⟩

/-- stream_file while a stream_file is active is refused at once, nothing changes. -/
theorem stream_refused_while_active (v m p : Bool) (env : List Res) (fault : Fault)
    (h : Res.acquired ∈ env) :
    run fault (streamFile v m p) (start env) = (start env, .exc .refused) := by
  have : held (start env) Res.acquired = true := by simp [held, start, h]
  simp [streamFile, streamFileWith, run, this]

example : Res.acquired ∈ [Res.acquired, Res.rconn, Res.takeover 0] := by decide

/-- play_url while RemoteControl is taken over (an active play_url or stream_file, or another
    protocol) is refused and — by `play_url_leak_free` — leaves the ledger as it was. -/
theorem play_refused_while_taken_over (l p : Bool) (env : List Res)
    (h : ∃ r ∈ airplayTakeover, r ∈ env) :
    (run none (playUrl l p) (start env)).2 = .exc .refused ∧
    (run none (playUrl l p) (start env)).1.ledger = env := by
  have hout : (run none (playUrl l p) (start env)).2 = .exc .refused := by
    obtain ⟨r, hr, henv⟩ := h
    have hr3 : r = Res.takeover 3 := by
      simpa [airplayTakeover, PyatvModel.Gen.C18.airplayTakeoverIdx] using hr
    subst hr3
    cases l <;> cases p <;>
      simp [playUrl, playUrlWith, run, Prog.ofList, airplayTakeover, PyatvModel.Gen.C18.airplayTakeoverIdx,
        held, start, henv]
  exact ⟨hout, play_url_leak_free l p env none (by rw [hout]; simp)⟩

example : ∃ r ∈ airplayTakeover, r ∈ [Res.takeover 3, Res.playConn] := by decide

/-! ### a later stream starts normally -/

/-- With no stream active and none of its interfaces taken over, stream_file runs to a
    normal return and leaves the ledger as it was. -/
theorem stream_accepted_when_idle (v m p : Bool) (env : List Res)
    (h1 : Res.acquired ∉ env) (h2 : ∀ r ∈ raopTakeover, r ∉ env) :
    (run none (streamFile v m p) (start env)).2 = .ok ∧
    (run none (streamFile v m p) (start env)).1.ledger = env := by
  have hout : (run none (streamFile v m p) (start env)).2 = .ok := by
    have t0 := h2 (.takeover 0) (by decide)
    have t1 := h2 (.takeover 1) (by decide)
    have t2 := h2 (.takeover 2) (by decide)
    have t3 := h2 (.takeover 3) (by decide)
    cases v <;> cases m <;> cases p <;>
      simp [streamFile, streamFileWith, sendAudio, protoSetup, startFeedback, clientClose,
        run, Prog.ofList, raopTakeover, PyatvModel.Gen.C18.raopTakeoverIdx,
        held, start, h1, t0, t1, t2, t3, remove]
  exact ⟨hout, (released_on_return true _ (streamFile_bracketed v m p).1 (streamFile_bracketed v m p).2
    env none (inScope_true _) hout).2⟩

example : Res.acquired ∉ [Res.conn 0, Res.httpSession] ∧
    ∀ r ∈ raopTakeover, r ∉ [Res.conn 0, Res.httpSession] := by decide

/-- **second_stream_ok.**  After ANY failed, cancelled or refused call of a `Bracketed`
    operation (stream_file, play_url) — at any fault point, of any kind — a new stream_file
    behaves exactly as it would have before that call; in particular it is accepted when no
    other stream is active. -/
theorem second_stream_ok (first : Prog) (hb : Bracketed true first = true) (env : List Res)
    (fault : Fault) (hfail : (run fault first (start env)).2 ≠ .ok) (v m p : Bool) :
    run none (streamFile v m p) (start (run fault first (start env)).1.ledger)
      = run none (streamFile v m p) (start env) ∧
    (Res.acquired ∉ env → (∀ r ∈ raopTakeover, r ∉ env) →
      (run none (streamFile v m p) (start (run fault first (start env)).1.ledger)).2 = .ok) := by
  have h := (leak_free true first hb env fault (inScope_true _) hfail).2.2
  rw [h]
  exact ⟨rfl, fun h1 h2 => (stream_accepted_when_idle v m p env h1 h2).1⟩

example : Bracketed true (playUrl true true) = true ∧
    (run (some (1, .fail)) (playUrl true true) (start [])).2 ≠ .ok := by decide

/-! ### the pinned tree before the repair (D13 a–h): the property is false of it -/

/-- D13a: second protocol fails ⇒ the first stays connected (and its task runs on). -/
theorem orig_connect_counterexample :
    ¬ (∀ ps k, (run (some (k, .fail)) (Orig.connectScript ps) (start [])).2 ≠ .ok →
        (run (some (k, .fail)) (Orig.connectScript ps) (start [])).1.ledger = []) := by
  intro h
  exact absurd (h [0, 4] 1 (by decide)) (by decide)

/-- D13b: takeover refused (RemoteControl held by another protocol) ⇒ `acquired` stays set
    and every later stream_file is refused. -/
theorem orig_stream_refused_counterexample :
    ¬ (∀ env, (run none (Orig.streamFile true true) (start env)).2 ≠ .ok →
        (run none (Orig.streamFile true true) (start env)).1.ledger = env) ∧
    (run none (Orig.streamFile true true)
      (start ((run none (Orig.streamFile true true) (start [.takeover 3])).1.ledger.filter
        (· ≠ .takeover 3)))).2 = .exc .refused := by
  refine ⟨fun h => absurd (h [.takeover 3] (by decide)) (by decide), by decide⟩

/-- D13d: cancellation while the audio source is being closed ⇒ teardown skipped. -/
theorem orig_stream_cleanup_counterexample :
    ¬ (∀ fault, (run fault (Orig.streamFile true true) (start [])).2 ≠ .ok →
        (run fault (Orig.streamFile true true) (start [])).1.ledger = []) := by
  intro h
  exact absurd (h (some (7, .cancel)) (by decide)) (by decide)

/-- D13e: the timing endpoint cannot be created ⇒ the control endpoint stays open. -/
theorem orig_stream_endpoint_counterexample :
    (run (some (2, .fail)) (Orig.streamFile true true) (start [])).2 = .exc .fail ∧
    (run (some (2, .fail)) (Orig.streamFile true true) (start [])).1.ledger = [.ctrl] := by decide

/-- D13f: the TEARDOWN request in send_audio's finally fails (connection already gone) ⇒ the
    audio UDP endpoint is never closed; the static discipline rejects that script. -/
theorem orig_send_audio_counterexample :
    (run (some (14, .fail)) (Orig.streamFileF true true true) (start [])).2 = .exc .fail ∧
    (run (some (14, .fail)) (Orig.streamFileF true true true) (start [])).1.ledger = [.audiosock] ∧
    Bracketed true (Orig.streamFileF true true true) = false := by decide

/-- D13g: play_url fails after the player opened its timing server ⇒ that UDP endpoint stays
    open.  D13h: AirPlay 2 play_url never tore the protocol down ⇒ event channel and feedback
    task survive even a normal return. -/
theorem orig_player_counterexample :
    (run (some (3, .fail)) (Orig.playUrlG false false) (start [])).1.ledger = [.ptiming] ∧
    (run none (Orig.playUrlH false true) (start [])).2 = .ok ∧
    (run none (Orig.playUrlH false true) (start [])).1.ledger = [.fbtask, .eventch] ∧
    Bracketed true (Orig.playUrlG false false) = false ∧
    Bracketed true (Orig.playUrlH false true) = false := by decide

/-- D13c: local file, takeover refused ⇒ the web server keeps running. -/
theorem orig_play_counterexample :
    ¬ (∀ env, (run none (Orig.playUrl true) (start env)).2 ≠ .ok →
        (run none (Orig.playUrl true) (start env)).1.ledger = env) := by
  intro h
  exact absurd (h [.takeover 3] (by decide)) (by decide)

/-- …and accordingly the pre-repair scripts are rejected by the static discipline. -/
theorem orig_not_bracketed :
    Bracketed false (Orig.connectScript [0, 4]) = false ∧
    Bracketed true (Orig.streamFile true true) = false ∧
    Bracketed true (Orig.playUrl true) = false := by decide

end PyatvModel.Props.C18
