import PyatvModel.C04.Varint.Lemmas
/-
C04 / protobuf varints (pyatv/support/variant.py).  Property theorems only.

* `read_write`        every natural number round-trips, whatever follows it in the buffer;
* `write_groups`      the encoding is a run of bytes with the continuation bit followed by
                      one byte without it, and its 7-bit groups (least significant first)
                      are the base-128 digits of the number;
* `write_minimal`     no accepted encoding of `n` is shorter than `writeVar n`, and the
                      encoder never emits a zero padding group;
* `write_length`      `writeVar n` has exactly `k+1` bytes for `128^k ≤ n < 128^(k+1)`;
* `read_spec`         the decoder agrees with the reference reading (base-128,
                      little-endian groups, msb = "more follows") on *every* well-formed
                      input, including non-minimal ones the encoder never emits;
* `read_incomplete`   `read_variant` fails (ValueError) exactly when no byte without the
                      continuation bit is present.
-/
namespace PyatvModel.Props.C04Varint
open PyatvModel PyatvModel.C04.Varint

/-- **C04 varint round trip**, all `n`, all trailing bytes `r`. -/
theorem read_write (n : Nat) (r : Bytes) : readVar (writeVar n ++ r) = some (n, r) := by
  obtain ⟨pre, l, he, hp, hl, hv, _⟩ := writeVar_shape n
  rw [he, List.append_assoc, List.singleton_append, readVar,
    readLoop_spec pre l r hl 0 0 hp (by simp), hv]
  simp

/-- 7-bit groups: continuation bytes, then a final byte; the groups are the number. -/
theorem write_groups (n : Nat) :
    ∃ pre l, writeVar n = pre ++ [l] ∧ (∀ b ∈ pre, Cont b) ∧ ¬ Cont l ∧ refVal (writeVar n) = n := by
  obtain ⟨pre, l, he, hp, hl, hv, _⟩ := writeVar_shape n
  exact ⟨pre, l, he, hp, hl, by rw [he, hv]⟩

/-- the decoder on any well-formed varint (minimal or not) followed by anything -/
theorem read_spec (pre : Bytes) (l : UInt8) (r : Bytes) (hp : ∀ b ∈ pre, Cont b) (hl : ¬ Cont l) :
    readVar (pre ++ l :: r) = some (refVal (pre ++ [l]), r) := by
  rw [readVar, readLoop_spec pre l r hl 0 0 hp (by simp)]; simp

example : readVar ([0x80, 0x80, 0x00] ++ [0x07]) = some (0, [0x07]) := by decide

theorem write_length (n k : Nat) (hlo : k = 0 ∨ 128 ^ k ≤ n) (hhi : n < 128 ^ (k + 1)) :
    (writeVar n).length = k + 1 := by
  induction k generalizing n with
  | zero => rw [writeVar, if_pos (by simpa using hhi)]; rfl
  | succ k ih =>
    have hlo : 128 ^ (k + 1) ≤ n := by rcases hlo with h | h; exact absurd h (by omega); exact h
    have h128 : ¬ n < 128 := by
      have : 128 ^ 1 ≤ 128 ^ (k + 1) := Nat.pow_le_pow_right (by decide) (by omega)
      omega
    rw [writeVar, if_neg h128, List.length_cons, ih (n >>> 7)]
    · right; rw [Nat.shiftRight_eq_div_pow]
      rw [Nat.pow_succ] at hlo
      exact (Nat.le_div_iff_mul_le (by decide)).mpr hlo
    · rw [Nat.shiftRight_eq_div_pow]
      rw [Nat.pow_succ] at hhi
      exact Nat.div_lt_of_lt_mul (by rw [Nat.mul_comm]; exact hhi)

example : (writeVar 16383).length = 2 ∧ (writeVar 16384).length = 3 := by simp [writeVar]

/-- length is monotone in the bound: `n < 128^k` (k ≥ 1) fits in `k` bytes -/
theorem write_length_le (n k : Nat) (h : n < 128 ^ (k + 1)) : (writeVar n).length ≤ k + 1 := by
  induction k generalizing n with
  | zero => rw [writeVar, if_pos (by simpa using h)]; simp
  | succ k ih =>
    rw [writeVar]
    split
    · simp
    · rw [List.length_cons]
      have := ih (n >>> 7) (by
        rw [Nat.shiftRight_eq_div_pow]; rw [Nat.pow_succ] at h
        exact Nat.div_lt_of_lt_mul (by rw [Nat.mul_comm]; exact h))
      omega

/-- **minimal**: whatever bytes `read_variant` accepts as `n`, it consumed at least as many
    as `write_variant n` produces; and the encoder's final group is non-zero for n ≥ 128. -/
theorem write_minimal (bs r : Bytes) (n : Nat) (h : readVar bs = some (n, r)) :
    ∃ used, bs = used ++ r ∧ (writeVar n).length ≤ used.length := by
  -- split bs at the first byte without the continuation bit
  have key : ∀ (bs : Bytes) acc cnt, acc < 2 ^ (7 * cnt) → readLoop bs acc cnt = some (n, r) →
      ∃ pre l, bs = pre ++ l :: r ∧ (∀ b ∈ pre, Cont b) ∧ ¬ Cont l := by
    intro bs
    induction bs with
    | nil => intro _ _ _ h; simp [readLoop] at h
    | cons b bs ih =>
      intro acc cnt hacc h
      simp only [readLoop] at h
      by_cases hb : b.toNat &&& 0x80 = 0
      · rw [if_pos hb] at h
        refine ⟨[], b, by simp at h; simp [h.2], by simp, ?_⟩
        intro hc; exact and80_ge _ (toNat_lt b) hc hb
      · rw [if_neg hb] at h
        have hacc' : acc ||| (b.toNat &&& 0x7F) <<< (7 * cnt) < 2 ^ (7 * (cnt + 1)) := by
          rw [or_shift _ _ _ hacc, and7f, pow7]
          have : b.toNat % 128 * 2 ^ (7 * cnt) ≤ 127 * 2 ^ (7 * cnt) :=
            Nat.mul_le_mul_right _ (by have := Nat.mod_lt b.toNat (by decide : 128 > 0); omega)
          omega
        obtain ⟨pre, l, he, hp, hl⟩ := ih _ _ hacc' h
        refine ⟨b :: pre, l, by simp [he], ?_, hl⟩
        intro x hx
        rcases List.mem_cons.mp hx with rfl | hx
        · simp only [Cont]
          rcases Nat.lt_or_ge x.toNat 128 with hlt | hge
          · exact absurd (and80_lt _ hlt) hb
          · exact hge
        · exact hp x hx
  obtain ⟨pre, l, he, hp, hl⟩ := key bs 0 0 (by simp) h
  have hs := read_spec pre l r hp hl
  rw [← he, h] at hs
  have hn : n = refVal (pre ++ [l]) := by simpa using congrArg (fun o => o.map Prod.fst) hs
  refine ⟨pre ++ [l], by simp [he], ?_⟩
  have hlt := refVal_lt (pre ++ [l])
  rw [hn]
  have : (pre ++ [l]).length = pre.length + 1 := by simp
  rw [this] at hlt ⊢
  exact write_length_le _ _ hlt

theorem write_no_padding (n : Nat) (h : 128 ≤ n) : (writeVar n).getLast? ≠ some 0 := by
  obtain ⟨pre, l, he, _, _, _, hz⟩ := writeVar_shape n
  rw [he]; simp; exact hz h

/-- **incomplete input**: `read_variant` raises exactly when every byte (possibly none)
    carries the continuation bit. -/
theorem read_incomplete (bs : Bytes) : readVar bs = none ↔ ∀ b ∈ bs, Cont b := by
  have key : ∀ (bs : Bytes) acc cnt, readLoop bs acc cnt = none ↔ ∀ b ∈ bs, Cont b := by
    intro bs
    induction bs with
    | nil => intro _ _; simp [readLoop]
    | cons b bs ih =>
      intro acc cnt
      simp only [readLoop]
      by_cases hb : b.toNat &&& 0x80 = 0
      · rw [if_pos hb]
        simp only [reduceCtorEq, List.mem_cons, forall_eq_or_imp, false_iff, not_and]
        intro hc; exact absurd hb (and80_ge _ (toNat_lt b) hc)
      · rw [if_neg hb, ih]
        simp only [List.mem_cons, forall_eq_or_imp, iff_and_self]
        intro _
        rcases Nat.lt_or_ge b.toNat 128 with hlt | hge
        · exact absurd (and80_lt _ hlt) hb
        · exact hge
  exact key bs 0 0

/-! ## boundary examples (0/1, 127/128, 16383/16384) -/
example : writeVar 0 = [0x00] ∧ writeVar 1 = [0x01] := by simp [writeVar]
example : writeVar 127 = [0x7F] ∧ writeVar 128 = [0x80, 0x01] := by simp [writeVar]
example : writeVar 16383 = [0xFF, 0x7F] ∧ writeVar 16384 = [0x80, 0x80, 0x01] := by simp [writeVar]
example : readVar [0x80] = none ∧ readVar [] = none ∧ readVar [0xFF, 0xFF] = none := by decide
example : readVar ([0xAC, 0x02] ++ [0x99]) = some (300, [0x99]) := by decide

end PyatvModel.Props.C04Varint
