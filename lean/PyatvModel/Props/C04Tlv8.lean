import PyatvModel.C04.Tlv8.Lemmas
/-
C04 / TLV8 (pyatv/auth/hap_tlv8.py read_tlv / write_tlv).  Property theorems only.

* `read_write`          for every dict with distinct tags and values of ANY length (0, 255,
                        256, 510, …) `read_tlv(write_tlv(d)) = d`, in insertion order
                        (repaired code: D4 fixed);
* `read_write_trailing` the same when further TLV data follows (what is read next is
                        merged by the decoder's rule);
* `read_merges`         without the distinctness hypothesis: the decoder concatenates the
                        values of equal tags in order (`upd`);
* `read_fragment`       the decoder takes one fragment of any size ≤ 255 (also sizes the
                        encoder never emits) as one update: concatenation of equal tags;
* `write_fragments`     the encoder writes ⌈len/255⌉ fragments (one for the empty value),
                        each value byte once: total length = len + 2·fragments;
* `pinned_empty_value_counterexample`  D4: on the loop as pinned, `{1: b""}` is lost.
-/
namespace PyatvModel.Props.C04Tlv8
open PyatvModel PyatvModel.C04.Tlv8

/-- the stated domain: distinct tags (a Python dict); tags are bytes by type -/
def Distinct (d : Dict) : Prop := (d.map Prod.fst).Nodup

instance (d : Dict) : Decidable (Distinct d) := inferInstanceAs (Decidable (List.Nodup _))

theorem read_merges (d : Dict) :
    readTlv (writeTlv d) = .ok (d.foldl (fun r kv => upd r kv.1 kv.2) []) := by
  have := parse_writeTlv d [] []
  rw [List.append_nil] at this
  rw [readTlv, this, parse]

/-- **C04 TLV8 round trip** (repaired `write_tlv`). -/
theorem read_write (d : Dict) (h : Distinct d) : readTlv (writeTlv d) = .ok d := by
  rw [read_merges, foldl_upd_fresh d [] (by simpa [Distinct] using h)]; simp

example : Distinct [(1, []), (6, [1]), (3, List.replicate 510 7)] := by decide

theorem read_write_trailing (d : Dict) (h : Distinct d) (rest : Bytes) :
    readTlv (writeTlv d ++ rest) = parse rest d := by
  rw [readTlv, parse_writeTlv, foldl_upd_fresh d [] (by simpa [Distinct] using h)]; simp

/-- any fragment size up to 255 is accepted and appended to / inserted for its tag -/
theorem read_fragment (t : UInt8) (v rest : Bytes) (res : Dict) (h : v.length ≤ 255) :
    parse (t :: UInt8.ofNat v.length :: (v ++ rest)) res = parse rest (upd res t v) :=
  parse_frag t v rest res h

example : readTlv [1, 2, 10, 11, 1, 0, 1, 1, 12, 2, 0] = .ok [(1, [10, 11, 12]), (2, [])] := by
  simp [readTlv, parse, upd]

theorem write_fragments (t : UInt8) (v : Bytes) :
    (writeFrags t v).length = v.length + 2 * nfrags v.length :=
  writeFrags_length t v

/-! boundary lengths 0, 1, 254, 255, 256, 510, 511 -/
example : nfrags 0 = 1 ∧ nfrags 1 = 1 ∧ nfrags 254 = 1 ∧ nfrags 255 = 1 ∧ nfrags 256 = 2
    ∧ nfrags 510 = 2 ∧ nfrags 511 = 3 := by decide

example : writeFrags 6 [] = [6, 0] := by simp [writeFrags]

example (v : Bytes) (h : v.length = 255) : writeFrags 3 v = 3 :: 255 :: v := by
  rw [writeFrags, if_pos (by omega), h]; rfl

example (v : Bytes) (h : v.length = 256) :
    writeFrags 3 v = 3 :: 255 :: (v.take 255 ++ 3 :: 1 :: v.drop 255) := by
  rw [writeFrags, if_neg (by omega), writeFrags, if_pos (by simp; omega)]
  simp [h]

/-- a truncated stream: tag without length raises IndexError; a short value is taken as is -/
example : readTlv [1] = .error .indexError ∧ readTlv [1, 1, 5, 2] = .error .indexError
    ∧ readTlv [1, 5, 9] = .ok [(1, [9])] := by
  simp [readTlv, parse, upd]

/-- **D4 (pinned tree)**: with `while pos < len(value)` the round trip is false — the
    item `{1: b""}` vanishes.  Kept as the record of the defect the `fix:` commit repairs. -/
theorem pinned_empty_value_counterexample :
    ¬ (∀ d : Dict, Distinct d → readTlv (writeTlvPinned d) = .ok d) := by
  intro h
  have := h [(1, [])] (by decide)
  simp [writeTlvPinned, writeFragsPinned, readTlv, parse] at this

/-- on non-empty values the pinned loop and the repaired loop write the same bytes -/
theorem pinned_agrees_nonempty (d : Dict) (h : ∀ kv ∈ d, kv.2 ≠ []) :
    writeTlvPinned d = writeTlv d := by
  induction d with
  | nil => rfl
  | cons kv d ih =>
    have h1 : kv.2 ≠ [] := h kv (by simp)
    have h2 := ih (fun x hx => h x (by simp [hx]))
    simp only [writeTlvPinned, writeTlv, List.flatMap_cons] at h2 ⊢
    rw [h2]
    simp [writeFragsPinned, h1]

example : ∀ kv ∈ ([(1, [5]), (2, [6, 7])] : Dict), kv.2 ≠ [] := by decide

end PyatvModel.Props.C04Tlv8
