import PyatvModel.C10.Lemmas
/-
C10 — listeners are notified only on change, in order, from the active protocol.

All theorems quantify over EVERY registered set and EVERY event list (any length, any
interleaving of post / start / stop / takeover / release / dispatch / drain), from the
facade's initial state `init regP regK`.  History-level vocabulary (defined in PyatvModel/C10/Spec.lean, no model state):

  `lastPost p h`     the state updater `p` posted last in history `h`
  `startedAfter h`   the last of start()/stop() in `h` was start()
  `effPosts reg [] evs`  the posts of `evs` made while started, by a registered updater,
                     that differ from that updater's previous post
  `drained evs`      `evs` with the loop draining after every event (the property's
                     granularity)

* `delivered_sublist_effective`  play notifications ⊑ effective posts (sublist: order kept,
                                nothing invented, nothing delivered twice) — implies
                                `delivered_sublist_posted`;
* `no_dup`                      a post equal to that updater's previous post changes nothing:
                                the history without it delivers exactly the same;
* `only_main`                   a play notification from `p` is delivered only while `p` is
                                the PushUpdater relayer's main protocol (`mainOf`: takeover
                                holder if it has an updater, else highest priority);
* `silent_after_stop`           loop drained, then stop(): no play notification until the
                                next start(), whatever else happens (drains anywhere);
  `silent_after_stop_drained`   the same at the property's granularity;
  `stop_undrained_delivers`     the hypothesis is needed: a post still in the ready queue
                                when stop() is called IS delivered (finer granularity than
                                the property's histories; replayed on the real code);
* `active_spec`, `selfact_irrelevant`  the updaters' own `active` flag: what it is after a
                                history, and that no delivery decision depends on it;
* `userop_irrelevant`           user-initiated operations (set_volume …) touch no listener state:
                                notifications follow the device's reports only;
* `devices_independent`         several device objects in one process: each device's listeners
                                receive exactly what that device's own events produce;
* `chg_chain`                   volume / output-device / focus notifications (old,new) form a
                                chain from the initial value to the facade's current value,
                                every link a real change (`chain_spec` spells it out);
* `drained_post_exact`, `drained_change_exact`  at the property's granularity, exactly when
                                (and with what) a listener IS called;
* `chg_new_sublist`             the `new` values are, in order, values that were dispatched
                                (and, for focus, dispatched by the Keyboard main protocol:
                                `focus_only_main`).
-/
namespace PyatvModel.Props.C10
open PyatvModel.C10


/-! ## Property theorems -/

/-- **C10, only on change / only while started / in order.**  The play notifications the
    user receives are a sublist of the *effective* posts: posts made while started, by a
    registered updater, differing from that updater's previous post.  Sublist = same
    relative order, nothing invented, no post delivered twice.  Every history, drains
    anywhere. -/
theorem delivered_sublist_effective (regP regK : List Proto) (evs : List Ev) :
    (plays (run (init regP regK) evs).2).Sublist (effPosts regP [] evs) := by
  simpa [init, playsQ] using delivered_sublist_gen evs (init regP regK) [] (agrees_init regP regK)

/-- **C10, order.**  delivered ⊑ posted: notifications arrive in the order the states were
    produced. -/
theorem delivered_sublist_posted (regP regK : List Proto) (evs : List Ev) :
    (plays (run (init regP regK) evs).2).Sublist (posts evs) :=
  (delivered_sublist_effective regP regK evs).trans (effPosts_sublist_posts regP evs [])

/-- **C10, no duplicate.**  A post equal to the state that updater posted last changes
    nothing at all: the history without it leaves the same state and delivers exactly the
    same notifications. -/
theorem no_dup (regP regK : List Proto) (pre rest : List Ev) (p : Proto) (s : Val)
    (h : lastPost p pre = some s) :
    run (init regP regK) (pre ++ .post p s :: rest) = run (init regP regK) (pre ++ rest) := by
  have ha := agrees_run (init regP regK) [] pre (agrees_init regP regK)
  simp only [List.nil_append] at ha
  have hprev : (run (init regP regK) pre).1.prev p = some s := by rw [ha.1 p, h]
  have hstep : step (run (init regP regK) pre).1 (.post p s) = ((run (init regP regK) pre).1, []) := by
    generalize (run (init regP regK) pre).1 = st at hprev
    have hf : setFn st.prev p (some s) = st.prev := by
      funext x; simp only [setFn]; split
      · next hx => rw [hx, hprev]
      · rfl
    simp [step, St.postsThrough, hprev, hf]
  rw [run_append, run_append]
  simp only [run, hstep, List.nil_append]

/-- **C10, only from the serving protocol.**  Whenever the user's listener receives a play
    status of updater `p` (during event `x.2.1`, state before it `x.1`), `p` is the
    PushUpdater relayer's main protocol at that moment. -/
theorem only_main (regP regK : List Proto) (evs : List Ev) :
    ∀ x ∈ trace (init regP regK) evs, ∀ p s, Out.play p s ∈ x.2.2 → mainOf regP x.1.tkP = some p := by
  suffices H : ∀ (es : List Ev) (st : St), ∀ x ∈ trace st es, ∀ p s, Out.play p s ∈ x.2.2 →
      mainOf st.regP x.1.tkP = some p from H evs (init regP regK)
  intro es
  induction es with
  | nil => intro st x hx; simp [trace] at hx
  | cons e es ih =>
    intro st x hx p s hmem
    simp only [trace, List.mem_cons] at hx
    rcases hx with rfl | hx
    · by_cases he : e = .drain
      · subst he
        have := drainQ_play_main { st with queue := [] } st.queue p s (by simpa [step] using hmem)
        simpa [St.mainP] using this
      · rw [step_out_nil st e he] at hmem; cases hmem
    · have := ih (step st e).1 x hx p s hmem
      rwa [(step_reg st e).1] at this

/-- what "main protocol" means: the takeover holder when it registered an instance … -/
theorem mainOf_takeover (reg : List Proto) (p : Proto) (h : p ∈ reg) : mainOf reg (some p) = some p := by
  simp [mainOf, h]

/-- … otherwise the takeover is transparent … -/
theorem mainOf_takeover_absent (reg : List Proto) (p : Proto) (h : p ∉ reg) :
    mainOf reg (some p) = mainOf reg none := by
  simp [mainOf, h]

/-- … and without takeover the registered protocol of highest priority (smallest index). -/
theorem mainOf_none_highest (reg : List Proto) (p : Proto) (h : mainOf reg none = some p) :
    p ∈ reg ∧ ∀ q ∈ reg, q ∈ priorities → p ≤ q := by
  simp only [mainOf, Option.toList, List.nil_append] at h
  have hp := List.find?_some h
  refine ⟨by simpa using hp, ?_⟩
  intro q hq hqp
  obtain ⟨_, as, bs, heq, hbefore⟩ := List.find?_eq_some_iff_append.mp h
  have hsorted : priorities.Pairwise (· ≤ ·) := by decide
  rw [heq] at hsorted hqp
  rcases List.mem_append.mp hqp with hqa | hqb
  · have := hbefore q hqa; simp [hq] at this
  · rcases List.mem_cons.mp hqb with rfl | hqb
    · exact Nat.le_refl _
    · have := (List.pairwise_append.mp hsorted).2.1
      exact (List.pairwise_cons.mp this).1 q hqb

/-- **C10, nothing after stop().**  Once the loop has drained and stop() is called, no play
    status reaches the user until the next start() — whatever is posted, taken over,
    released or drained in between. -/
theorem silent_after_stop (regP regK : List Proto) (pre rest : List Ev) (hs : Ev.start ∉ rest) :
    plays (run (run (init regP regK) (pre ++ [.drain])).1 (.stop :: rest)).2 = [] := by
  have hq : (run (init regP regK) (pre ++ [.drain])).1.queue = [] := by
    rw [run_append]; simp only [run]; exact step_drain_queue _
  generalize (run (init regP regK) (pre ++ [.drain])).1 = st at hq
  have := silent_gen rest (step st .stop).1 (by simp [step]) (by simp [step, hq, playsQ]) hs
  simp [run, step] at this ⊢
  exact this

/-- the same at the property's granularity (every event followed by a drain) -/
theorem silent_after_stop_drained (regP regK : List Proto) (pre rest : List Ev) (hs : Ev.start ∉ rest) :
    plays (run (run (init regP regK) (drained pre)).1 (drained (.stop :: rest))).2 = [] := by
  have hq := drained_queue_nil pre (init regP regK) rfl
  generalize (run (init regP regK) (drained pre)).1 = st at hq
  have hd : drained (.stop :: rest) = .stop :: .drain :: drained rest := by simp [drained]
  rw [hd]
  have hs' : Ev.start ∉ (.drain :: drained rest) := by
    intro h
    rcases List.mem_cons.mp h with h | h
    · cases h
    · exact start_not_mem_drained rest hs h
  have := silent_gen (.drain :: drained rest) (step st .stop).1 (by simp [step]) (by simp [step, hq, playsQ]) hs'
  simp only [run, plays_append] at this ⊢
  simpa [step, plays] using this

/-- The drain before stop() is needed: a play status already queued with call_soon when
    stop() is called IS delivered afterwards (start, post, stop, drain).  This is finer
    than the property's histories; the harness replays it on the real code every run. -/
theorem stop_undrained_delivers :
    plays (run (init [0] []) [.start, .post 0 1, .stop, .drain]).2 = [(0, 1)] := by
  decide

/-- **C10, volume / output devices / keyboard focus: correct old and new, only on change.**
    For each kind the `(old,new)` pairs the listener received link the initial value to the
    facade's current value, every link a change. -/
theorem chg_chain (regP regK : List Proto) (evs : List Ev) (k : Kind) :
    Chain 0 (chgs k (run (init regP regK) evs).2) ((run (init regP regK) evs).1.cur k) :=
  run_chain k evs (init regP regK)

/-- what a chain says, in the property's words: every call has `old ≠ new`; the first `old`
    is the initial value and each further `old` is the previous `new`; the last `new` is
    the current value. -/
theorem chain_spec {a c : Val} {l : List (Val × Val)} (h : Chain a l c) :
    (∀ x ∈ l, x.1 ≠ x.2) ∧ l.map Prod.fst = (a :: l.map Prod.snd).dropLast ∧
    (a :: l.map Prod.snd).getLast (by simp) = c := by
  induction h with
  | nil a => simp
  | cons hne _ ih =>
    obtain ⟨h1, h2, h3⟩ := ih
    refine ⟨?_, ?_, ?_⟩
    · intro x hx
      rcases List.mem_cons.mp hx with rfl | hx
      · exact hne
      · exact h1 x hx
    · simp only [List.map_cons, List.dropLast_cons_cons, List.cons.injEq, true_and]
      exact h2
    · simpa [List.getLast_cons] using h3

/-- **C10, correct new value.**  The `new` values received are, in order, values that were
    dispatched and accepted by the listener's filter … -/
theorem chg_new_sublist_accepted (regP regK : List Proto) (evs : List Ev) (k : Kind) :
    ((chgs k (run (init regP regK) evs).2).map Prod.snd).Sublist
      (accepted k (trace (init regP regK) evs)) := by
  simpa [init, chgsQ] using news_sublist_gen k evs (init regP regK)

/-- … hence values that were dispatched, in dispatch order. -/
theorem chg_new_sublist (regP regK : List Proto) (evs : List Ev) (k : Kind) :
    ((chgs k (run (init regP regK) evs).2).map Prod.snd).Sublist (dispatched k evs) :=
  (chg_new_sublist_accepted regP regK evs k).trans (accepted_sublist_dispatched k evs _)

/-- Keyboard focus is only taken from the Keyboard relayer's main protocol (what the code
    does; the property text does not demand it, so the direct oracle does not either). -/
theorem focus_only_main (st : St) (p : Proto) : st.accepts .foc p = true ↔ mainOf st.regK st.tkK = some p := by
  simp only [St.accepts, St.mainK]
  exact ⟨of_decide_eq_true, decide_eq_true⟩

/-! ## The property's granularity, exactly

At the granularity of the property (every event followed by a drain) the model also says
when a notification IS delivered — stronger than the property's "only when"; the
correspondence run compares exactly this with the real code. -/

/-- After any drained history, producing state `s` on updater `p` notifies the user — once,
    with exactly `(p, s)` — iff started, `s` differs from `p`'s previous post, `p` registered
    an updater and `p` is the serving protocol; otherwise nothing is delivered. -/
theorem drained_post_exact (regP regK : List Proto) (pre : List Ev) (p : Proto) (s : Val) :
    (run (run (init regP regK) (drained pre)).1 [.post p s, .drain]).2 =
      if startedAfter (drained pre) = true ∧ lastPost p (drained pre) ≠ some s ∧ p ∈ regP ∧
          mainOf regP (run (init regP regK) (drained pre)).1.tkP = some p
      then [.play p s] else [] := by
  have ha := agrees_run (init regP regK) [] (drained pre) (agrees_init regP regK)
  simp only [List.nil_append] at ha
  have hq := drained_queue_nil pre (init regP regK) rfl
  have hr := (run_reg (init regP regK) (drained pre)).1
  generalize (run (init regP regK) (drained pre)).1 = st at ha hq hr
  have hr' : st.regP = regP := hr
  rw [← ha.2, ← ha.1 p, ← hr']
  by_cases hc : st.postsThrough p s = true
  · have hc' : st.lst = true ∧ st.prev p ≠ some s ∧ p ∈ st.regP := by
      simp only [St.postsThrough, Bool.and_eq_true, decide_eq_true_eq] at hc
      exact ⟨hc.1.2, hc.1.1, hc.2⟩
    by_cases hm : mainOf st.regP st.tkP = some p
    · simp [run, step, hc, hq, drainQ, runCb, St.mainP, hm, hc']
    · simp [run, step, hc, hq, drainQ, runCb, St.mainP, hm]
  · have hc' : ¬ (st.lst = true ∧ st.prev p ≠ some s ∧ p ∈ st.regP ∧ mainOf st.regP st.tkP = some p) := by
      intro ⟨a, b, c, _⟩
      apply hc
      simp [St.postsThrough, a, b, c]
    rw [if_neg hc']
    simp [run, step, hc, hq, drainQ]

/-- After any drained history, dispatching value `v` calls the listener — once, with
    `(current, v)` — iff the filter accepts the sender and `v` differs from the current
    value; otherwise not at all. -/
theorem drained_change_exact (regP regK : List Proto) (pre : List Ev) (k : Kind) (p : Proto) (v : Val) :
    (run (run (init regP regK) (drained pre)).1 [.change k p v, .drain]).2 =
      if (run (init regP regK) (drained pre)).1.accepts k p = true ∧
          v ≠ (run (init regP regK) (drained pre)).1.cur k
      then [.chg k ((run (init regP regK) (drained pre)).1.cur k) v] else [] := by
  have hq := drained_queue_nil pre (init regP regK) rfl
  generalize (run (init regP regK) (drained pre)).1 = st at hq
  by_cases ha : st.accepts k p = true
  · by_cases hv : v = st.cur k
    · simp [run, step, ha, hq, drainQ, runCb, hv]
    · simp [run, step, ha, hq, drainQ, runCb, hv]
  · simp [run, step, ha, hq, drainQ]

/-! ## The protocol updaters' own `active` state

`active` belongs to the protocol's updater: start()/stop() set it, and it may change by
itself (`selfact`: poller died after an error, task cancelled, protocol restarted it).
All theorems above quantify over such events anywhere in the history.  Two more say what
the flag is and that the facade's delivery decisions never look at it. -/

/-- `active` of updater `p` after any history: the last of start() (registered updaters: on),
    stop() (registered: off) and the updater's own changes. -/
theorem active_spec (regP regK : List Proto) (evs : List Ev) (p : Proto) :
    (run (init regP regK) evs).1.act p = evs.foldl (actStep regP p) false :=
  run_act evs (init regP regK) p

/-- **C10, independent of the updaters' own activity.**  Removing every "updater turns
    (in)active by itself" event from a history changes nothing the user's listeners receive
    (and nothing of the state except the flags themselves): in particular an updater that
    went inactive on its own is un-wired by stop() like any other. -/
theorem selfact_irrelevant (regP regK : List Proto) (evs : List Ev) :
    (run (init regP regK) evs).2 = (run (init regP regK) (dropSelfact evs)).2 ∧
    (run (init regP regK) evs).1.forget = (run (init regP regK) (dropSelfact evs)).1.forget :=
  run_dropSelfact evs (init regP regK)

/-! ## User-initiated operations -/

/-- **C10, the listeners follow the device's reports, not the user's requests.**  A
    user-initiated operation relayed by the facade (set_volume, volume_up/down, set/add/
    remove_output_devices, text_*) anywhere in a history changes neither the state nor what
    any listener receives: notifications, and their old/new values, are determined by the
    reported values alone — whether or not the device applied what was requested. -/
theorem userop_irrelevant (regP regK : List Proto) (pre rest : List Ev) :
    run (init regP regK) (pre ++ .userop :: rest) = run (init regP regK) (pre ++ rest) := by
  rw [run_append, run_append]
  simp [run, step]

/-! ## Several device objects alive in one process -/

/-- **C10, devices are independent.**  With any number of device objects in one process and
    any interleaving of their events, what the listeners of device `d` receive (and `d`'s
    state) is exactly what the single-device machine gives on `d`'s own events: no listener
    is called for a change that happened on another device.  (The model is a product by
    construction — every device has its own listener table; the harness checks the real code
    against this projection with 2–3 devices alive.) -/
theorem devices_independent (sts : Nat → St) (evs : List (Nat × Ev)) (d : Nat) :
    runTagged sts evs d = run (sts d) ((evs.filter (fun x => x.1 == d)).map (·.2)) :=
  runTagged_proj evs sts d

/-! ## Non-vacuity -/

-- a history that exercises duplicate suppression, takeover filtering, stop and restart
def demo : List Ev :=
  [.start, .post 0 1, .drain, .post 0 1, .drain, .takeover 4 true false, .post 0 2, .post 4 2, .drain,
   .release, .post 0 1, .drain, .stop, .post 0 2, .drain, .start, .post 0 1, .drain]

example : plays (run (init [0, 4] [0]) demo).2 = [(0, 1), (4, 2), (0, 1), (0, 1)] := by decide

-- Reading of "differs from the status previously delivered by that updater": the comparison is
-- with the state the updater *produced* before (what `post_update` compares with).  When that
-- intermediate state was suppressed (another protocol held the takeover, or stopped), the user
-- can see the same status twice in a row from one updater — allowed by this reading, and
-- what the real code does (harness note `repeat_across_suppressed_state`).
example : plays (run (init [0, 4] []) (drained
    [.start, .post 0 1, .takeover 4 true false, .post 0 2, .release, .post 0 1])).2 = [(0, 1), (0, 1)] := by decide

example : effPosts [0, 4] [] demo = [(0, 1), (0, 2), (4, 2), (0, 1), (0, 1)] := by decide

-- an updater that turned inactive by itself before stop(): still nothing after stop(), also
-- not when it then takes over the PushUpdater interface (instance of `silent_after_stop`)
example : plays (run (init [0, 4] []) [.start, .selfact 4 false, .drain, .stop, .takeover 4 true false,
    .post 4 1, .drain, .post 0 2, .drain]).2 = [] := by decide

example : (run (init [0, 4] []) [.start, .selfact 4 false]).1.act 4 = false ∧
    (run (init [0, 4] []) [.start, .selfact 4 false]).1.act 0 = true ∧
    dropSelfact [.start, .selfact 4 false, .post 0 1] = [.start, .post 0 1] := by decide

-- two devices, events interleaved: device 1's volume change is not seen by device 0
example : (runTagged (fun _ => init [0] [0]) [(0, .change .vol 0 1), (1, .change .vol 0 2), (1, .drain),
    (0, .drain), (1, .change .vol 0 1), (0, .change .vol 0 1), (0, .drain), (1, .drain)] 0).2
    = [.chg .vol 0 1] := by decide

-- device at 1; user requests something else; device reports 1 again: no notification
example : chgs .vol (run (init [0] [0]) (drained [.change .vol 0 1, .userop, .change .vol 0 1,
    .change .vol 0 2])).2 = [(0, 1), (1, 2)] := by decide

example : lastPost 0 [.start, .post 0 1, .drain] = some 1 := by decide

example : startedAfter (drained [.start, .post 0 1]) = true ∧ lastPost 0 (drained [.start, .post 0 1]) ≠ some 2 ∧
    mainOf [0, 4] (run (init [0, 4] []) (drained [.start, .post 0 1])).1.tkP = some 0 := by decide

example : (run (init [0] [0]) (drained [.change .foc 0 1])).1.accepts .foc 0 = true ∧
    2 ≠ (run (init [0] [0]) (drained [.change .foc 0 1])).1.cur .foc := by decide

example : Ev.start ∉ [Ev.post 0 2, .drain, .takeover 4 true false, .post 4 1] := by decide

example : mainOf [0, 4] (some 4) = some 4 ∧ mainOf [0, 4] none = some 0 ∧ mainOf [0] (some 4) = some 0 := by decide

example : chgs .vol (run (init [0] [0]) [.change .vol 0 1, .change .vol 4 1, .change .vol 4 2, .drain,
    .change .vol 0 0, .drain]).2 = [(0, 1), (1, 2), (2, 0)] := by decide

example : Chain 0 [(0, 1), (1, 2), (2, 0)] 0 :=
  .cons (by decide) (.cons (by decide) (.cons (by decide) (.nil 0)))

example : chgs .foc (run (init [0] [0]) [.change .foc 4 1, .drain, .change .foc 0 2, .drain]).2 = [(0, 2)] := by
  decide

end PyatvModel.Props.C10
